(* LifecycleProofs.v -- invariants of the server life-cycle LTS (LifecycleModel.v), proved by induction
   over arbitrary step sequences, for every callback configuration and any number of connections. *)
Require Import MB.LifecycleModel.
From Coq Require Import List Arith ZArith Bool Lia.
Import ListNotations.

(* ---------- list helpers ---------- *)
Lemma nth_upd_same cs c x y : nth_error cs c = Some x -> nth_error (upd cs c y) c = Some y.
Proof. revert c; induction cs as [|h t IH]; intros [|c] H; cbn in *; try discriminate; auto. Qed.
Lemma nth_upd_other cs c d y : c <> d -> nth_error (upd cs c y) d = nth_error cs d.
Proof. revert c d; induction cs as [|h t IH]; intros [|c] [|d] H; cbn; auto; try congruence. Qed.
Lemma upd_length cs c y : length (upd cs c y) = length cs.
Proof. revert c; induction cs as [|h t IH]; intros [|c]; cbn; auto. Qed.
Lemma Forall_upd (P : conn -> Prop) cs c y : Forall P cs -> P y -> Forall P (upd cs c y).
Proof.
  revert c; induction cs as [|h t IH]; intros [|c] H Hy; cbn; auto.
  - constructor; [assumption|]. apply Forall_inv_tail in H; assumption.
  - constructor; [apply Forall_inv in H; assumption|]. apply IH; [apply Forall_inv_tail in H; assumption|assumption].
Qed.
Lemma Forall_nthe (P : conn -> Prop) cs c x : Forall P cs -> nth_error cs c = Some x -> P x.
Proof. intros H Hn. rewrite Forall_forall in H. apply H. eapply nth_error_In; eassumption. Qed.

Definition lv (x : conn) : Z := if is_live (ph x) then 1%Z else 0%Z.
Lemma live_count_upd cs c x y : nth_error cs c = Some x ->
  live_count (upd cs c y) = (live_count cs - lv x + lv y)%Z.
Proof.
  revert c; induction cs as [|h t IH]; intros [|c] H; cbn in *; try discriminate.
  - injection H as ->. unfold lv. lia.
  - rewrite (IH _ H). lia.
Qed.
Lemma live_count_app cs x : live_count (cs ++ [x]) = (live_count cs + lv x)%Z.
Proof. induction cs as [|h t IH]; cbn; [unfold lv; lia|rewrite IH; lia]. Qed.

Lemma get_put_same s c x y : get s c = Some x -> get (put s c y) c = Some y.
Proof. unfold get, put; cbn. apply nth_upd_same. Qed.
Lemma get_put_other s c d y : c <> d -> get (put s c y) d = get s d.
Proof. unfold get, put; cbn. apply nth_upd_other. Qed.

Lemma conn_step_some s c p f s' : conn_step s c p f = Some s' ->
  exists x y, get s c = Some x /\ pend_err x = false /\ ph x = p /\ f x = Some y /\ s' = put s c y.
Proof.
  unfold conn_step. destruct (get s c) as [x|] eqn:G; [|discriminate].
  destruct (pend_err x) eqn:Ep; cbn [negb andb]; [discriminate|].
  destruct (ph x) eqn:Ex; destruct p; try discriminate;
    (destruct (f x) as [y|] eqn:F; [|discriminate]; intros H; injection H as <-; exists x, y; auto).
Qed.

(* ---------- the per-connection invariant ---------- *)
Definition handling_ph (p : phase) : bool := match p with PHandling | PInHandler | PReplied => true | _ => false end.
Definition pre_exit (p : phase) : bool :=
  match p with PIdle | PReadDone | PHandling | PInHandler | PReplied | PLeaving => true | _ => false end.

Record cinv (k : cfg) (x : conn) : Prop := {
  ci_close : close_cb x = match ph x with PDone => if on_close k then 1 else 0 | _ => 0 end;
  ci_inmap : inmap x = true -> is_live (ph x) = true;
  ci_hand : handling_ph (ph x) = true -> cst x = CHandling;
  ci_owed : cst x = CIdle -> owed x = [];
  ci_rej : ph x = PRejected -> sock x = false;
  ci_del : is_live (ph x) = true -> inmap x = false -> sock x = false;
  ci_via : sd_via x <> ViaNone -> cst x = CClosed \/ sd_via x = ViaLoadIdle;
  ci_sock : sock x = false -> pre_exit (ph x) = true -> sd_via x <> ViaNone;
  ci_lost : lost x <> 0 -> sd_via x = ViaLoadIdle;
  ci_cas : sd_via x = ViaCas -> owed x = [];
  ci_arg : forall n, acc_arg x = Some n -> n = (live_at_cb x + 1)%Z;
  ci_acc : ph x = PAccepted -> sock x = true /\ sd_via x = ViaNone;
  ci_noresp : ph x = PHandling -> resp x = false -> owed x = [];
  ci_repl : ph x = PReplied -> owed x = []
}.

Definition sd_busy (p : sdpc) : bool :=
  match p with SdPass _ _ | SdFailed _ _ _ | SdClosing _ _ _ | SdWait => true | _ => false end.

Definition sp_conn (p : spc) : option nat :=
  match p with SAccepted c | SRejected c | SPassed c | STrack c => Some c | _ => None end.

Record inv (k : cfg) (s : state) : Prop := {
  i_crash : crashed s = false;
  i_count : count s = live_count (conns s);
  i_conns : Forall (cinv k) (conns s);
  i_mu : mu s = sd_busy (sd s);
  i_closing : forall c t a, sd s = SdClosing c t a -> exists x, get s c = Some x /\ sd_via x <> ViaNone /\ inmap x = true;
  i_failed : forall c t a, sd s = SdFailed c t a -> exists x, get s c = Some x /\ inmap x = true;
  i_sp : forall c, sp_conn (sp s) = Some c -> exists x, get s c = Some x /\ ph x = PAccepted
}.

Lemma cinv_new k : cinv k new_conn.
Proof. constructor; cbn; intros; try discriminate; try congruence; auto. Qed.

Lemma inv_init k : inv k init.
Proof. constructor; cbn; auto; intros; discriminate. Qed.

(* a connection transformation that is compatible with the invariant *)
Ltac crec x := destruct x as [xph xcst xsock xinmap xresp xcc xpan xpend xcb xacc xlive xst xrep xowed xlost xvia].

Ltac cinv_tac :=
  match goal with
  | H : cinv _ ?x |- cinv _ _ =>
      destruct H as [H1 H2 H3 H4 H5 H6 H7 H8 H9 H10 H11 H12 H13 H14]; crec x; unfold via_set in *; cbn in *; subst;
      constructor; cbn in *; intros;
      try match goal with E : on_close ?k = _ |- context [on_close ?k] => rewrite E end;
      repeat match goal with
             | |- context [match ?v with ViaNone => _ | _ => _ end] => destruct v; cbn in *
             | H : context [match ?v with ViaNone => _ | _ => _ end] |- _ => destruct v; cbn in *
             end;
      try congruence; try discriminate; auto;
      try (repeat match goal with Hx : ?a = ?a -> _ |- _ => specialize (Hx eq_refl) end; subst; cbn in *;
           first [congruence | discriminate]);
      try (intuition (try congruence; try discriminate; auto); fail)
  end.

Lemma get_app_new s c x : get (s_conns (conns s ++ [new_conn]) s) c = Some x ->
  get s c = Some x \/ (c = length (conns s) /\ x = new_conn).
Proof.
  unfold get; cbn. intros H. destruct (Nat.lt_ge_cases c (length (conns s))) as [L|L].
  - rewrite nth_error_app1 in H by assumption. auto.
  - rewrite nth_error_app2 in H by assumption. destruct (c - length (conns s)) eqn:E; cbn in H.
    + injection H as <-. right. split; [lia|reflexivity].
    + destruct n; discriminate.
Qed.
Lemma get_lt s c x : get s c = Some x -> c < length (conns s).
Proof. unfold get. intros H. apply nth_error_Some. congruence. Qed.
Lemma get_app_old s c x : get s c = Some x -> get (s_conns (conns s ++ [new_conn]) s) c = Some x.
Proof. intros H. unfold get; cbn. rewrite nth_error_app1; [exact H|eapply get_lt; eassumption]. Qed.

(* ---------- the invariant is preserved by every step of the current code ---------- *)
Ltac brk H :=
  repeat match type of H with
         | context [match ?e with _ => _ end] => destruct e eqn:?; try discriminate
         end.

(* closing tactic for a step that rewrites connection d (Hd : get s d = Some x) and leaves the list length *)
Ltac t_count Hd :=
  cbn; rewrite (live_count_upd _ _ _ _ Hd); unfold lv; cbn;
  repeat match goal with H : ph _ = _ |- _ => rewrite H end; cbn; lia.

Ltac t_conns Hf Hd :=
  cbn; apply Forall_upd; [exact Hf | pose proof (Forall_nthe _ _ _ _ Hf Hd) as Hx; cinv_tac].

Ltac t_closing Hcl Hd :=
  cbn; intros c0 t0 a0 Hsd; try (exfalso; rewrite Hsd in *; discriminate);
  destruct (Hcl _ _ _ Hsd) as [x0 [Hg0 Hv0]];
  match type of Hd with get ?s ?d = Some ?x =>
    destruct (Nat.eq_dec d c0) as [->|Hne];
    [ rewrite Hg0 in Hd; injection Hd as <-; eexists; split; [unfold get, put in *; cbn; eapply nth_upd_same; eassumption|];
      crec x0; unfold via_set in *; cbn in *; try assumption;
      repeat match goal with |- context [match ?v with ViaNone => _ | _ => _ end] => destruct v; cbn in * end;
      intuition congruence
    | exists x0; split; [unfold get, put in *; cbn; rewrite nth_upd_other by assumption; assumption|assumption] ]
  end.

Ltac t_sp Hsp Hd :=
  cbn; intros c0 Hc0;
  destruct (Hsp _ Hc0) as [x0 [Hg0 Hp0]];
  match type of Hd with get ?s ?d = Some ?x =>
    destruct (Nat.eq_dec d c0) as [->|Hne];
    [ rewrite Hg0 in Hd; injection Hd as <-;
      first [ congruence
            | eexists; split; [unfold get, put in *; cbn; eapply nth_upd_same; eassumption|];
              crec x0; unfold via_set in *; cbn in *; try assumption;
              repeat match goal with |- context [match ?v with ViaNone => _ | _ => _ end] => destruct v; cbn in * end; congruence ]
    | exists x0; split; [unfold get, put in *; cbn; rewrite nth_upd_other by assumption; assumption|assumption] ]
  end.

Ltac fin0 := constructor; cbn; auto; try congruence; try (intros; discriminate).
Ltac fin Hc Hn Hf Hm Hcl Hfl Hsp Hg :=
  constructor; [cbn; assumption | t_count Hg | t_conns Hf Hg | cbn; congruence | t_closing Hcl Hg | t_closing Hfl Hg | t_sp Hsp Hg].
Ltac cs H := apply conn_step_some in H as (x & y & Hg & Hpe & Hph & Hy & ->).

Lemma inv_step k s l s' : inv k s -> step GuardNow k s l = Some s' -> inv k s'.
Proof.
  intros [Hc Hn Hf Hm Hcl Hfl Hsp] H. unfold step in H. rewrite Hc in H.
  destruct l.
  - (* LServeCb *) brk H. injection H as <-. fin0.
  - (* LPublish *) brk H. injection H as <-. fin0.
  - (* LAccept *) destruct (sp s) eqn:Esp; try discriminate.
    destruct (lis_open s && Nat.eqb c (length (conns s))) eqn:Heqb; try discriminate. injection H as <-.
    apply andb_prop in Heqb as [Hlo Hcl0]. apply Nat.eqb_eq in Hcl0. subst c.
    constructor; cbn.
    + destruct (on_accept k); cbn; assumption.
    + destruct (on_accept k); cbn; rewrite live_count_app; unfold lv; cbn; lia.
    + destruct (on_accept k); cbn; (apply Forall_app; split; [assumption|constructor; [apply cinv_new|constructor]]).
    + destruct (on_accept k); cbn; assumption.
    + intros c0 t0 a0 Hsd. assert (Hsd' : sd s = SdClosing c0 t0 a0) by (destruct (on_accept k); exact Hsd).
      destruct (Hcl _ _ _ Hsd') as [x0 [Hg0 Hv0]]. exists x0. split; [|assumption].
      destruct (on_accept k); cbn; apply get_app_old; assumption.
    + intros c0 t0 a0 Hsd. assert (Hsd' : sd s = SdFailed c0 t0 a0) by (destruct (on_accept k); exact Hsd).
      destruct (Hfl _ _ _ Hsd') as [x0 [Hg0 Hv0]]. exists x0. split; [|assumption].
      destruct (on_accept k); cbn; apply get_app_old; assumption.
    + intros c0 Hc0. exists new_conn. split; [|reflexivity].
      assert (c0 = length (conns s)) by (destruct (on_accept k); cbn in Hc0; congruence). subst c0.
      destruct (on_accept k); unfold get; cbn; rewrite nth_error_app2 by lia; rewrite Nat.sub_diag; reflexivity.
  - (* LAcceptCb *)
    destruct (sp s) eqn:Esp; try discriminate. destruct (get s c) as [x|] eqn:Hg; try discriminate.
    destruct (Nat.eqb c c0 && on_accept k && (n =? count s + 1)%Z) eqn:E; try discriminate.
    injection H as <-. apply andb_prop in E as [E E3]. apply andb_prop in E as [E1 E2].
    apply Nat.eqb_eq in E1. apply Z.eqb_eq in E3. subst c0 n.
    destruct (Hsp c eq_refl) as [x1 [Hg1 Hp1]]. rewrite Hg in Hg1. injection Hg1 as <-.
    constructor.
    + destruct ok; cbn; assumption.
    + destruct ok; t_count Hg.
    + destruct ok; cbn; (apply Forall_upd; [exact Hf|]); pose proof (Forall_nthe _ _ _ _ Hf Hg) as Hx;
        (destruct Hx as [H1 H2 H3 H4 H5 H6 H7 H8 H9 H10 H11 H12 H13 H14]; crec x; cbn in *; constructor; cbn; auto;
         intros n Hn'; injection Hn' as <-; rewrite Hn; reflexivity).
    + destruct ok; cbn; congruence.
    + destruct ok; t_closing Hcl Hg.
    + destruct ok; t_closing Hfl Hg.
    + destruct ok; cbn; intros c0 Hc0; injection Hc0 as <-; eexists; (split; [unfold get, put in *; cbn; eapply nth_upd_same; eassumption|]);
        crec x; cbn in *; assumption.
  - (* LRejectClose *)
    destruct (sp s) eqn:Esp; try discriminate. destruct (get s c) as [x|] eqn:Hg; try discriminate.
    destruct (Nat.eqb c c0) eqn:E; try discriminate. apply Nat.eqb_eq in E. subst c0. injection H as <-.
    destruct (Hsp c eq_refl) as [x1 [Hg1 Hp1]]. rewrite Hg in Hg1. injection Hg1 as <-.
    constructor; [cbn; assumption | t_count Hg | t_conns Hf Hg | cbn; congruence | t_closing Hcl Hg | t_closing Hfl Hg | cbn; intros; discriminate].
  - (* LCtxPass *) brk H. injection H as <-. apply andb_prop in Heqb as [E _]. apply Nat.eqb_eq in E. subst c0.
    constructor; cbn; auto; intros c0 Hc0; injection Hc0 as <-; apply Hsp; reflexivity.
  - (* LTrack *)
    destruct (sp s) eqn:Esp; try discriminate. destruct (get s c) as [x|] eqn:Hg; try discriminate.
    destruct (Nat.eqb c c0 && negb (mu s)) eqn:E; try discriminate. apply andb_prop in E as [E E2].
    apply Nat.eqb_eq in E. subst c0. injection H as <-.
    destruct (Hsp c eq_refl) as [x1 [Hg1 Hp1]]. rewrite Hg in Hg1. injection Hg1 as <-.
    constructor; [cbn; assumption | t_count Hg | t_conns Hf Hg | cbn; congruence | t_closing Hcl Hg | t_closing Hfl Hg | cbn; intros; discriminate].
  - (* LServeReturn *) brk H; injection H as <-; fin0.
  - (* LConnRead *) cs H. brk Hy; injection Hy as <-; fin Hc Hn Hf Hm Hcl Hfl Hsp Hg.
  - (* LConnCtxExit *) cs H. brk Hy; injection Hy as <-; fin Hc Hn Hf Hm Hcl Hfl Hsp Hg.
  - (* LHandleStart *) cs H. brk Hy; injection Hy as <-; fin Hc Hn Hf Hm Hcl Hfl Hsp Hg.
  - (* LHandlerStart *) cs H. brk Hy; injection Hy as <-; fin Hc Hn Hf Hm Hcl Hfl Hsp Hg.
  - (* LHandlerEnd *) cs H. brk Hy; injection Hy as <-; fin Hc Hn Hf Hm Hcl Hfl Hsp Hg.
  - (* LProtoReply *) cs H. brk Hy; injection Hy as <-; fin Hc Hn Hf Hm Hcl Hfl Hsp Hg.
  - (* LReplyWrite *) cs H. brk Hy; injection Hy as <-; fin Hc Hn Hf Hm Hcl Hfl Hsp Hg.
  - (* LHandleEnd *)
    destruct (get s c) as [x|] eqn:Hg; try discriminate. brk H; injection H as <-; fin Hc Hn Hf Hm Hcl Hfl Hsp Hg.
  - (* LErrCb *)
    destruct (get s c) as [x|] eqn:Hg; try discriminate. brk H; injection H as <-; fin Hc Hn Hf Hm Hcl Hfl Hsp Hg.
  - (* LConnLeave *) cs H. brk Hy; injection Hy as <-; fin Hc Hn Hf Hm Hcl Hfl Hsp Hg.
  - (* LConnExit *) cs H. brk Hy; injection Hy as <-; fin Hc Hn Hf Hm Hcl Hfl Hsp Hg.
  - (* LUntrack *)
    destruct (mu s) eqn:Emu; try discriminate.
    destruct (conn_step s c PExited _) as [s1|] eqn:E1; try discriminate. injection H as <-.
    cs E1. injection Hy as <-. fin Hc Hn Hf Hm Hcl Hfl Hsp Hg.
  - (* LCloseCb *)
    destruct (conn_step s c PUntracked _) as [s1|] eqn:E1; try discriminate.
    cs E1. injection Hy as <-. unfold close_guard in *.
    destruct (on_close k) eqn:Eoc; cbn in H; injection H as <-; fin Hc Hn Hf Hm Hcl Hfl Hsp Hg.
  - (* LSdCall *) brk H; injection H as <-; fin0.
  - (* LSdBegin *) brk H; injection H as <-; fin0.
  - (* LSdCas *)
    destruct (sd s) eqn:Esd; try discriminate. destruct (get s c) as [x|] eqn:Hg; try discriminate.
    destruct (mem_nat c todo && inmap x) eqn:E; try discriminate. apply andb_prop in E as [E1 E2].
    destruct (cst x) eqn:Ecst; injection H as <-.
    + constructor; [cbn; assumption | unfold via_set; destruct (sd_via x); t_count Hg | t_conns Hf Hg
                    | cbn; rewrite Hm; reflexivity | | cbn; intros; discriminate | t_sp Hsp Hg].
      cbn. intros c0 t0 a0 Hsd. injection Hsd as <- <- <-. eexists. split; [unfold get, put in *; cbn; eapply nth_upd_same; eassumption|].
      crec x; unfold via_set; cbn in *; destruct xvia; cbn; split; congruence.
    + constructor; cbn; auto; try (intros; discriminate).
      intros c0 t0 a0 Hsd. injection Hsd as <- <- <-. eauto.
    + constructor; cbn; auto; try (intros; discriminate).
      intros c0 t0 a0 Hsd. injection Hsd as <- <- <-. eauto.
  - (* LSdLoad *)
    destruct (sd s) eqn:Esd; try discriminate. destruct (get s c) as [x|] eqn:Hg; try discriminate.
    destruct (Nat.eqb c c0) eqn:E; try discriminate. apply Nat.eqb_eq in E. subst c0.
    destruct (Hfl _ _ _ eq_refl) as [x1 [Hg1 Hin]]. rewrite Hg in Hg1. injection Hg1 as <-.
    destruct (cst x) eqn:Ecst; injection H as <-.
    + constructor; [cbn; assumption | t_count Hg | t_conns Hf Hg
                    | cbn; rewrite Hm; reflexivity | | cbn; intros; discriminate | t_sp Hsp Hg].
      cbn. intros c0 t0 a0 Hsd. injection Hsd as <- <- <-. eexists. split; [unfold get, put in *; cbn; eapply nth_upd_same; eassumption|].
      crec x; cbn in *; split; congruence.
    + constructor; cbn; auto; try (intros; discriminate).
    + constructor; [cbn; assumption | unfold via_set; destruct (sd_via x); t_count Hg | t_conns Hf Hg
                    | cbn; rewrite Hm; reflexivity | | cbn; intros; discriminate | t_sp Hsp Hg].
      cbn. intros c0 t0 a0 Hsd. injection Hsd as <- <- <-. eexists. split; [unfold get, put in *; cbn; eapply nth_upd_same; eassumption|].
      crec x; unfold via_set; cbn in *; destruct xvia; cbn; split; congruence.
  - (* LSdClose *)
    destruct (sd s) eqn:Esd; try discriminate. destruct (get s c) as [x|] eqn:Hg; try discriminate.
    destruct (Nat.eqb c c0) eqn:E; try discriminate. apply Nat.eqb_eq in E. subst c0. injection H as <-.
    destruct (Hcl _ _ _ eq_refl) as [x1 [Hg1 [Hv Hin]]]. rewrite Hg in Hg1. injection Hg1 as <-.
    constructor; [cbn; assumption | t_count Hg | t_conns Hf Hg
                    | cbn; rewrite Hm; reflexivity | cbn; intros; discriminate | cbn; intros; discriminate | t_sp Hsp Hg].
  - (* LSdPassEnd *) brk H; injection H as <-; fin0.
  - (* LSdRetry *) brk H; injection H as <-; fin0.
  - (* LSdTimeout *) brk H; injection H as <-; fin0.
  - (* LSdReturn *) brk H; injection H as <-; fin0.
  - (* LCancel *) brk H; injection H as <-; fin0.
  - (* LAfterClose *) brk H; injection H as <-; fin0.
Qed.

Theorem reach_inv k s : reach GuardNow k s -> inv k s.
Proof. induction 1 as [|s l s' _ IH H]; [apply inv_init|eapply inv_step; eassumption]. Qed.

Lemma reach_run v k s ls s' : reach v k s -> run v k s ls = Some s' -> reach v k s'.
Proof.
  revert s; induction ls as [|l t IH]; intros s R H; cbn in H.
  - injection H as <-. exact R.
  - destruct (step v k s l) as [s1|] eqn:E; [|discriminate]. eapply IH; [eapply reach_step; eassumption|exact H].
Qed.

Lemma reach_get_cinv k s c x : reach GuardNow k s -> get s c = Some x -> cinv k x.
Proof. intros R G. eapply Forall_nthe; [apply (i_conns _ _ (reach_inv _ _ R))|exact G]. Qed.

(* (a) no reachable state has called a nil function value *)
Theorem never_crashes k s : reach GuardNow k s -> crashed s = false.
Proof. intros R. apply (i_crash _ _ (reach_inv _ _ R)). Qed.

(* (b) the counter is the number of live connections; the accept callback is told that number + 1 *)
Theorem counter_exact k s : reach GuardNow k s -> count s = live_count (conns s).
Proof. intros R. apply (i_count _ _ (reach_inv _ _ R)). Qed.
Theorem accept_arg_exact k s c x n : reach GuardNow k s -> get s c = Some x -> acc_arg x = Some n ->
  n = (live_at_cb x + 1)%Z.
Proof. intros R G A. apply (ci_arg _ _ (reach_get_cinv _ _ _ _ R G)). exact A. Qed.
(* the ghost [live_at_cb] really is the live count of the state in which the callback ran *)
Lemma accept_cb_records_live v k s c n ok s' : step v k s (LAcceptCb c n ok) = Some s' ->
  exists x', get s' c = Some x' /\ acc_arg x' = Some n /\ live_at_cb x' = live_count (conns s) /\ n = (count s + 1)%Z.
Proof.
  unfold step. destruct (crashed s); [discriminate|]. destruct (sp s); try discriminate.
  destruct (get s c) as [x|] eqn:G; try discriminate.
  destruct (Nat.eqb c c0 && on_accept k && (n =? count s + 1)%Z) eqn:E; try discriminate.
  intros H. injection H as <-. apply andb_prop in E as [_ E]. apply Z.eqb_eq in E.
  exists (c_acc (Some n) (live_count (conns s)) x). split; [|auto].
  destruct ok; unfold get, put in *; cbn; eapply nth_upd_same; eassumption.
Qed.

(* (c) a rejected connection is closed, not in the map, has seen no close callback, and stays rejected *)
Theorem rejected_closed k s c x : reach GuardNow k s -> get s c = Some x -> ph x = PRejected ->
  sock x = false /\ inmap x = false /\ close_cb x = 0.
Proof.
  intros R G P. pose proof (reach_get_cinv _ _ _ _ R G) as [H1 H2 H3 H4 H5 H6 H7 H8 H9 H10 H11 H12 H13 H14].
  split; [auto|]. split.
  - destruct (inmap x) eqn:E; [|reflexivity]. specialize (H2 eq_refl). rewrite P in H2. discriminate.
  - rewrite H1, P. reflexivity.
Qed.

(* (d) close callback: once iff set when the goroutine is done, zero before; never twice *)
Theorem close_cb_exact k s c x : reach GuardNow k s -> get s c = Some x ->
  close_cb x = match ph x with PDone => if on_close k then 1 else 0 | _ => 0 end.
Proof. intros R G. apply (ci_close _ _ (reach_get_cinv _ _ _ _ R G)). Qed.

(* a rejected connection is never tracked: PRejected is absorbing *)
Ltac t_keep G Hd :=
  match type of Hd with get ?s ?d = Some ?x0 =>
  match type of G with get _ ?c = Some ?x =>
    destruct (Nat.eq_dec d c) as [->|Hne];
    [ rewrite G in Hd; injection Hd as <-;
      first [ congruence
            | eexists; split; [unfold get, put in *; cbn; eapply nth_upd_same; eassumption|];
              crec x; unfold via_set in *; cbn in *; try assumption;
              repeat match goal with |- context [match ?v with ViaNone => _ | _ => _ end] => destruct v; cbn in * end; congruence ]
    | exists x; split; [unfold get, put in *; cbn; rewrite nth_upd_other by assumption; assumption|assumption] ]
  end end.
Ltac same G := eexists; split; [exact G|assumption].

Lemma rejected_stays k s l s' c xr : reach GuardNow k s -> step GuardNow k s l = Some s' ->
  get s c = Some xr -> ph xr = PRejected -> exists x', get s' c = Some x' /\ ph x' = PRejected.
Proof.
  intros R H G P. pose proof (reach_inv _ _ R) as [Hc Hn Hf Hm Hcl Hfl Hsp].
  unfold step in H. rewrite Hc in H. destruct l.
  - brk H. injection H as <-. same G.
  - brk H. injection H as <-. same G.
  - destruct (sp s) eqn:Esp; try discriminate.
    destruct (lis_open s && Nat.eqb c0 (length (conns s))) eqn:Heqb; try discriminate. injection H as <-.
    exists xr. split; [|assumption]. destruct (on_accept k); cbn; apply get_app_old; assumption.
  - destruct (sp s) eqn:Esp; try discriminate. destruct (get s c0) as [x0|] eqn:Hg; try discriminate.
    destruct (Nat.eqb c0 c1 && on_accept k && (n =? count s + 1)%Z) eqn:E; try discriminate.
    injection H as <-. destruct ok; cbn; t_keep G Hg.
  - destruct (sp s) eqn:Esp; try discriminate. destruct (get s c0) as [x0|] eqn:Hg; try discriminate.
    destruct (Nat.eqb c0 c1) eqn:E; try discriminate. injection H as <-. cbn. t_keep G Hg.
  - brk H. injection H as <-. same G.
  - destruct (sp s) eqn:Esp; try discriminate. destruct (get s c0) as [x0|] eqn:Hg; try discriminate.
    destruct (Nat.eqb c0 c1 && negb (mu s)) eqn:E; try discriminate. apply andb_prop in E as [E E2].
    apply Nat.eqb_eq in E. subst c1. injection H as <-.
    destruct (Hsp c0 eq_refl) as [x1 [Hg1 Hp1]]. rewrite Hg in Hg1. injection Hg1 as <-. cbn. t_keep G Hg.
  - brk H; injection H as <-; same G.
  - cs H. brk Hy; injection Hy as <-; t_keep G Hg.
  - cs H. brk Hy; injection Hy as <-; t_keep G Hg.
  - cs H. brk Hy; injection Hy as <-; t_keep G Hg.
  - cs H. brk Hy; injection Hy as <-; t_keep G Hg.
  - cs H. brk Hy; injection Hy as <-; t_keep G Hg.
  - cs H. brk Hy; injection Hy as <-; t_keep G Hg.
  - cs H. brk Hy; injection Hy as <-; t_keep G Hg.
  - destruct (get s c0) as [x0|] eqn:Hg; try discriminate. brk H; injection H as <-; cbn; t_keep G Hg.
  - destruct (get s c0) as [x0|] eqn:Hg; try discriminate. brk H; injection H as <-; cbn; t_keep G Hg.
  - cs H. brk Hy; injection Hy as <-; t_keep G Hg.
  - cs H. brk Hy; injection Hy as <-; t_keep G Hg.
  - destruct (mu s) eqn:Emu; try discriminate.
    destruct (conn_step s c0 PExited _) as [s1|] eqn:E1; try discriminate. injection H as <-.
    cs E1. injection Hy as <-. cbn. t_keep G Hg.
  - destruct (conn_step s c0 PUntracked _) as [s1|] eqn:E1; try discriminate.
    cs E1. injection Hy as <-. unfold close_guard in *.
    destruct (on_close k) eqn:Eoc; cbn in H; injection H as <-; t_keep G Hg.
  - brk H; injection H as <-; same G.
  - brk H; injection H as <-; same G.
  - destruct (sd s) eqn:Esd; try discriminate. destruct (get s c0) as [x0|] eqn:Hg; try discriminate.
    destruct (mem_nat c0 todo && inmap x0) eqn:E; try discriminate.
    destruct (cst x0) eqn:Ecst; injection H as <-; cbn; first [same G | t_keep G Hg].
  - destruct (sd s) eqn:Esd; try discriminate. destruct (get s c0) as [x0|] eqn:Hg; try discriminate.
    destruct (Nat.eqb c0 c1) eqn:E; try discriminate.
    destruct (cst x0) eqn:Ecst; injection H as <-; cbn; first [same G | t_keep G Hg].
  - destruct (sd s) eqn:Esd; try discriminate. destruct (get s c0) as [x0|] eqn:Hg; try discriminate.
    destruct (Nat.eqb c0 c1) eqn:E; try discriminate. injection H as <-; cbn; t_keep G Hg.
  - brk H; injection H as <-; same G.
  - brk H; injection H as <-; same G.
  - brk H; injection H as <-; same G.
  - brk H; injection H as <-; same G.
  - brk H; injection H as <-; same G.
  - brk H; injection H as <-; same G.
Qed.

(* ---------- flags: listener, shutdown flag, serve's result ---------- *)
Definition sd_good (s : state) : bool :=
  match sd s with SdIdle => false | SdReturned ENil => true | SdReturned _ => false | _ => negb (sd_err s) end.
Definition sd_ran (s : state) : bool :=
  match sd s with SdIdle => false | SdReturned EPanic => false | _ => true end.
Definition sp_needs_cb (p : spc) : bool := match p with SAccepted _ | SRejected _ => true | _ => false end.

Record finv (k : cfg) (s : state) : Prop := {
  f_ret : returned (sp s) = true -> lis_open s = false;
  f_shut : sd s <> SdIdle -> shut s = true;
  f_good : sd_good s = true -> forall e, sp s = SReturned e -> e = EClosed;
  f_ran : sd_ran s = true -> lis_open s = false;
  f_lis : lis_open s = false -> shut s = true \/ cancelled s = true \/ returned (sp s) = true;
  f_cb : sp_needs_cb (sp s) = true -> on_accept k = true
}.

Ltac ffin := constructor; unfold sd_good, sd_ran in *; cbn in *; intros;
  repeat match goal with Hs : sp _ = SReturned _ |- _ => rewrite Hs in *; clear Hs end; cbn in *;
  repeat match goal with Hs : sd ?s0 = _, Hx : context [match sd ?s0 with _ => _ end] |- _ => rewrite Hs in Hx end; cbn in *;
  repeat match goal with
         | H : ?a = ?a -> _ |- _ => specialize (H eq_refl)
         | H : _ <> _ -> _ |- _ => specialize (H ltac:(discriminate))
         end;
  try congruence; try discriminate; auto;
  try (match goal with s : state |- _ => destruct (lis_open s); cbn in *; congruence end);
  try (intuition (try congruence; try discriminate; auto); fail).

Lemma finv_step v k s l s' : finv k s -> step v k s l = Some s' -> finv k s'.
Proof.
  intros [F1 F2 F3 F4 F5 F6] H. unfold sd_good, sd_ran in *. unfold step in H. destruct (crashed s) eqn:Hc; [discriminate|].
  destruct l.
  - brk H; injection H as <-; ffin.
  - brk H; injection H as <-; ffin.
  - destruct (sp s) eqn:Esp; try discriminate.
    destruct (lis_open s && Nat.eqb c (length (conns s))) eqn:Heqb; try discriminate. injection H as <-.
    apply andb_prop in Heqb as [Hlo _]. destruct (on_accept k) eqn:Eoa; ffin.
  - destruct (sp s) eqn:Esp; try discriminate. destruct (get s c) as [x|] eqn:Hg; try discriminate.
    destruct (Nat.eqb c c0 && on_accept k && (n =? count s + 1)%Z) eqn:E; try discriminate.
    injection H as <-. destruct ok; ffin.
  - destruct (sp s) eqn:Esp; try discriminate. destruct (get s c) as [x|] eqn:Hg; try discriminate.
    destruct (Nat.eqb c c0) eqn:E; try discriminate. injection H as <-. ffin.
  - brk H. injection H as <-. ffin.
  - destruct (sp s) eqn:Esp; try discriminate. destruct (get s c) as [x|] eqn:Hg; try discriminate.
    destruct (Nat.eqb c c0 && negb (mu s)) eqn:E; try discriminate. injection H as <-. ffin.
  - destruct (sp s) eqn:Esp; try discriminate.
    + destruct (shut s || cancelled s) eqn:Esc.
      * destruct (err_is_closed e && negb (lis_open s)) eqn:E; try discriminate. injection H as <-.
        apply andb_prop in E as [E1 E2]. destruct e; try discriminate. ffin.
      * destruct (err_is_other e); try discriminate. injection H as <-. apply orb_false_elim in Esc as [Es Ec].
        constructor; unfold sd_good, sd_ran in *; cbn in *; intros; auto.
        destruct (sd s) eqn:Esd; try discriminate; (assert (shut s = true) by (apply F2; discriminate); congruence).
    + destruct (cancelled s && err_is_closed e) eqn:E; try discriminate. apply andb_prop in E as [E1 E2].
      destruct e; try discriminate. injection H as <-. ffin.
  - cs H. brk Hy; injection Hy as <-; ffin.
  - cs H. brk Hy; injection Hy as <-; ffin.
  - cs H. brk Hy; injection Hy as <-; ffin.
  - cs H. brk Hy; injection Hy as <-; ffin.
  - cs H. brk Hy; injection Hy as <-; ffin.
  - cs H. brk Hy; injection Hy as <-; ffin.
  - cs H. brk Hy; injection Hy as <-; ffin.
  - destruct (get s c) as [x|] eqn:Hg; try discriminate. brk H; injection H as <-; ffin.
  - destruct (get s c) as [x|] eqn:Hg; try discriminate. brk H; injection H as <-; ffin.
  - cs H. brk Hy; injection Hy as <-; ffin.
  - cs H. brk Hy; injection Hy as <-; ffin.
  - destruct (mu s) eqn:Emu; try discriminate.
    destruct (conn_step s c PExited _) as [s1|] eqn:E1; try discriminate. injection H as <-.
    cs E1. injection Hy as <-. ffin.
  - destruct (conn_step s c PUntracked _) as [s1|] eqn:E1; try discriminate.
    cs E1. injection Hy as <-.
    destruct (close_guard v k && negb (on_close k)); injection H as <-; ffin.
  - brk H; injection H as <-; ffin.
  - brk H; injection H as <-; ffin.
  - destruct (sd s) eqn:Esd; try discriminate. destruct (get s c) as [x|] eqn:Hg; try discriminate.
    destruct (mem_nat c todo && inmap x) eqn:E; try discriminate.
    destruct (cst x) eqn:Ecst; injection H as <-; ffin.
  - destruct (sd s) eqn:Esd; try discriminate. destruct (get s c) as [x|] eqn:Hg; try discriminate.
    destruct (Nat.eqb c c0) eqn:E; try discriminate.
    destruct (cst x) eqn:Ecst; injection H as <-; ffin.
  - destruct (sd s) eqn:Esd; try discriminate. destruct (get s c) as [x|] eqn:Hg; try discriminate.
    destruct (Nat.eqb c c0) eqn:E; try discriminate. injection H as <-; ffin.
  - brk H; injection H as <-; ffin.
  - brk H; injection H as <-; ffin.
  - brk H; injection H as <-; ffin.
  - brk H; injection H as <-; ffin.
  - brk H; injection H as <-; ffin.
  - destruct (cancelled s && published (sp s) && negb (returned (sp s)) && lis_open s) eqn:E; try discriminate.
    injection H as <-. apply andb_prop in E as [E E4]. apply andb_prop in E as [E E3]. apply andb_prop in E as [E1 E2].
    constructor; cbn; auto.
Qed.

(* ---------- a pass of Shutdown that has found everything idle has visited the whole map ---------- *)
Definition cover (s : state) (t : list nat) (oc : option nat) : Prop :=
  forall d x, get s d = Some x -> inmap x = true -> In d t \/ oc = Some d.
Definition cinv3 (s : state) : Prop :=
  match sd s with
  | SdPass t true => cover s t None
  | SdFailed c t true => cover s t (Some c)
  | SdClosing c t true => cover s t (Some c)
  | _ => True
  end.

Lemma inmap_ids_complete cs : forall i d x, nth_error cs d = Some x -> inmap x = true -> In (i + d) (inmap_ids cs i).
Proof.
  induction cs as [|h t IH]; intros i [|d] x H I; cbn in *; try discriminate.
  - injection H as ->. rewrite I. left. lia.
  - apply in_or_app. right. replace (i + S d) with (S i + d) by lia. eapply IH; eassumption.
Qed.
Lemma remove_nat_in c d t : In d t -> d <> c -> In d (remove_nat c t).
Proof.
  induction t as [|h t IH]; cbn; [tauto|]. intros [->|H] Hne.
  - destruct (Nat.eqb c d) eqn:E; [apply Nat.eqb_eq in E; congruence|left; reflexivity].
  - destruct (Nat.eqb c h); [auto|right; auto].
Qed.

Ltac t_cov Hcov Hm Hg :=
  unfold cinv3, cover in *; cbn;
  match goal with |- context [sd ?s] => destruct (sd s) eqn:Esd0 end; auto;
  try (exfalso; cbn in Hm; congruence);
  try match goal with |- match ?b with true => _ | false => _ end => destruct b end; auto;
  intros d x' G I;
  match type of Hg with get ?s ?c = Some ?x =>
    destruct (Nat.eq_dec c d) as [->|Hne];
    [ unfold get, put in G; cbn in G; rewrite (nth_upd_same _ _ _ _ Hg) in G; injection G as <-;
      apply (Hcov d x Hg); crec x; unfold via_set in *; cbn in *;
      repeat match goal with H : context [match ?v with ViaNone => _ | _ => _ end] |- _ => destruct v; cbn in * end;
      congruence
    | unfold get, put in G; cbn in G; rewrite nth_upd_other in G by assumption; exact (Hcov d x' G I) ]
  end.
Ltac t_same Hcov := unfold cinv3, cover, get in *; cbn; exact Hcov.

Lemma cov_step k s l s' : inv k s -> cinv3 s -> step GuardNow k s l = Some s' -> cinv3 s'.
Proof.
  intros [Hc Hn Hf Hm Hcl Hfl Hsp] Hcov H. unfold step in H. rewrite Hc in H.
  destruct l.
  - brk H; injection H as <-; t_same Hcov.
  - brk H; injection H as <-; t_same Hcov.
  - destruct (sp s) eqn:Esp; try discriminate.
    destruct (lis_open s && Nat.eqb c (length (conns s))) eqn:Heqb; try discriminate. injection H as <-.
    assert (A : forall t oc, cover s t oc -> cover (s_conns (conns s ++ [new_conn]) s) t oc).
    { intros t oc C d x G I. apply get_app_new in G as [G|[_ ->]]; [eapply C; eassumption|discriminate]. }
    unfold cinv3 in *. destruct (on_accept k); cbn;
      (destruct (sd s) as [|t0 a0|c1 t0 a0|c1 t0 a0| |e0]; auto; destruct a0; auto; apply A; assumption).
  - destruct (sp s) eqn:Esp; try discriminate. destruct (get s c) as [x|] eqn:Hg; try discriminate.
    destruct (Nat.eqb c c0 && on_accept k && (n =? count s + 1)%Z) eqn:E; try discriminate.
    injection H as <-. destruct ok; t_cov Hcov Hm Hg.
  - destruct (sp s) eqn:Esp; try discriminate. destruct (get s c) as [x|] eqn:Hg; try discriminate.
    destruct (Nat.eqb c c0) eqn:E; try discriminate. injection H as <-. t_cov Hcov Hm Hg.
  - brk H. injection H as <-. t_same Hcov.
  - destruct (sp s) eqn:Esp; try discriminate. destruct (get s c) as [x|] eqn:Hg; try discriminate.
    destruct (Nat.eqb c c0 && negb (mu s)) eqn:E; try discriminate. apply andb_prop in E as [E E2].
    destruct (mu s) eqn:Emu; try discriminate. injection H as <-. t_cov Hcov Hm Hg.
  - brk H; injection H as <-; t_same Hcov.
  - cs H. brk Hy; injection Hy as <-; t_cov Hcov Hm Hg.
  - cs H. brk Hy; injection Hy as <-; t_cov Hcov Hm Hg.
  - cs H. brk Hy; injection Hy as <-; t_cov Hcov Hm Hg.
  - cs H. brk Hy; injection Hy as <-; t_cov Hcov Hm Hg.
  - cs H. brk Hy; injection Hy as <-; t_cov Hcov Hm Hg.
  - cs H. brk Hy; injection Hy as <-; t_cov Hcov Hm Hg.
  - cs H. brk Hy; injection Hy as <-; t_cov Hcov Hm Hg.
  - destruct (get s c) as [x|] eqn:Hg; try discriminate. brk H; injection H as <-; t_cov Hcov Hm Hg.
  - destruct (get s c) as [x|] eqn:Hg; try discriminate. brk H; injection H as <-; t_cov Hcov Hm Hg.
  - cs H. brk Hy; injection Hy as <-; t_cov Hcov Hm Hg.
  - cs H. brk Hy; injection Hy as <-; t_cov Hcov Hm Hg.
  - destruct (mu s) eqn:Emu; try discriminate.
    destruct (conn_step s c PExited _) as [s1|] eqn:E1; try discriminate. injection H as <-.
    cs E1. injection Hy as <-. t_cov Hcov Hm Hg.
  - destruct (conn_step s c PUntracked _) as [s1|] eqn:E1; try discriminate.
    cs E1. injection Hy as <-. unfold close_guard in *.
    destruct (on_close k) eqn:Eoc; cbn in H; injection H as <-; t_cov Hcov Hm Hg.
  - brk H; injection H as <-; t_same Hcov.
  - (* LSdBegin *) destruct (sd s) eqn:Esd; try discriminate;
      (destruct (sd_req s && negb (mu s)); try discriminate; destruct (lis_set s); injection H as <-;
       unfold cinv3; cbn; auto; intros d x G I; left; apply (inmap_ids_complete _ 0 d x G I)).
  - (* LSdCas *)
    destruct (sd s) eqn:Esd; try discriminate. destruct (get s c) as [x|] eqn:Hg; try discriminate.
    destruct (mem_nat c todo && inmap x) eqn:E; try discriminate.
    unfold cinv3 in *. rewrite Esd in Hcov.
    destruct (cst x) eqn:Ecst; injection H as <-; cbn; destruct allidle; auto; intros d x' G I.
    + unfold get, put in G; cbn in G. destruct (Nat.eq_dec c d) as [->|Hne]; [right; reflexivity|].
      rewrite nth_upd_other in G by assumption. destruct (Hcov d x' G I) as [Hi|Hi]; [|discriminate].
      left. apply remove_nat_in; auto.
    + destruct (Nat.eq_dec c d) as [->|Hne]; [right; reflexivity|].
      destruct (Hcov d x' G I) as [Hi|Hi]; [|discriminate]. left. apply remove_nat_in; auto.
    + destruct (Nat.eq_dec c d) as [->|Hne]; [right; reflexivity|].
      destruct (Hcov d x' G I) as [Hi|Hi]; [|discriminate]. left. apply remove_nat_in; auto.
  - (* LSdLoad *)
    destruct (sd s) eqn:Esd; try discriminate. destruct (get s c) as [x|] eqn:Hg; try discriminate.
    destruct (Nat.eqb c c0) eqn:E; try discriminate. apply Nat.eqb_eq in E. subst c0.
    unfold cinv3 in *. rewrite Esd in Hcov.
    destruct (cst x) eqn:Ecst; injection H as <-; cbn; auto; destruct allidle; auto; intros d x' G I.
    + unfold get, put in G; cbn in G. destruct (Nat.eq_dec c d) as [->|Hne]; [right; reflexivity|].
      rewrite nth_upd_other in G by assumption. exact (Hcov d x' G I).
    + unfold get, put, via_set in G. destruct (Nat.eq_dec c d) as [->|Hne]; [right; reflexivity|].
      destruct (sd_via x); cbn in G; try rewrite nth_upd_other in G by assumption; exact (Hcov d x' G I).
  - (* LSdClose *)
    destruct (sd s) eqn:Esd; try discriminate. destruct (get s c) as [x|] eqn:Hg; try discriminate.
    destruct (Nat.eqb c c0) eqn:E; try discriminate. apply Nat.eqb_eq in E. subst c0. injection H as <-.
    unfold cinv3 in *. rewrite Esd in Hcov. cbn. destruct allidle; auto. intros d x' G I.
    unfold get, put in G; cbn in G. destruct (Nat.eq_dec c d) as [->|Hne].
    + rewrite (nth_upd_same _ _ _ _ Hg) in G. injection G as <-. crec x; cbn in I; discriminate.
    + rewrite nth_upd_other in G by assumption. destruct (Hcov d x' G I) as [Hi|Hi]; [left; assumption|congruence].
  - brk H; injection H as <-; unfold cinv3; cbn; exact I.
  - brk H; injection H as <-; unfold cinv3; cbn; intros d x G I; left; apply (inmap_ids_complete _ 0 d x G I).
  - brk H; injection H as <-; unfold cinv3; cbn; exact I.
  - brk H; injection H as <-; unfold cinv3; cbn; exact I.
  - brk H; injection H as <-; t_same Hcov.
  - brk H; injection H as <-; t_same Hcov.
Qed.

Lemma finv_init k : finv k init.
Proof. constructor; cbn; intros; try discriminate; try congruence; auto. Qed.
Theorem reach_finv v k s : reach v k s -> finv k s.
Proof. induction 1 as [|s l s' _ IH H]; [apply finv_init|eapply finv_step; eassumption]. Qed.
Theorem reach_cinv3 k s : reach GuardNow k s -> cinv3 s.
Proof.
  induction 1 as [|s l s' R IH H]; [exact I|]. eapply cov_step; [apply reach_inv; exact R|exact IH|exact H].
Qed.

(* ---------- (e) graceful shutdown ---------- *)
(* at the moment Shutdown returns nil *)
Theorem shutdown_return_nil k s s' : reach GuardNow k s -> step GuardNow k s LSdReturn = Some s' ->
  sd s' = SdReturned ENil ->
  lis_open s' = false /\ shut s' = true /\ mu s' = false /\
  (forall e, sp s' = SReturned e -> e = EClosed) /\
  (forall c x, get s' c = Some x -> inmap x = false /\ (is_live (ph x) = true -> sock x = false)).
Proof.
  intros R H E.
  assert (R' : reach GuardNow k s') by (eapply reach_step; eassumption).
  pose proof (reach_finv _ _ _ R') as [F1 F2 F3 F4 F5 F6].
  pose proof (reach_cinv3 _ _ R) as C3. pose proof (reach_inv _ _ R') as I'.
  unfold sd_good, sd_ran in *. rewrite E in *.
  split; [apply F4; reflexivity|]. split; [apply F2; discriminate|].
  split; [rewrite (i_mu _ _ I'), E; reflexivity|]. split; [apply F3; reflexivity|].
  assert (Hno : forall c x, get s' c = Some x -> inmap x = false).
  { unfold step in H. destruct (crashed s); [discriminate|]. destruct (sd s) as [|t a|? ? ?|? ? ?| |?] eqn:Esd; try discriminate.
    destruct t; try discriminate. destruct a; try discriminate. injection H as <-.
    unfold cinv3 in C3. rewrite Esd in C3. intros c x G. destruct (inmap x) eqn:Ei; [|reflexivity].
    destruct (C3 c x G Ei) as [[]|Hx]; discriminate. }
  intros c x G. split; [eapply Hno; eassumption|]. intros L.
  apply (ci_del _ _ (reach_get_cinv _ _ _ _ R' G) L). eapply Hno; eassumption.
Qed.

(* after it: the listener stays closed, so Accept fails and the only way out of serve's loop is
   ErrServerClosed; a ServeReturn step can carry no other error *)
Lemma serve_return_closed v k s e s' : shut s = true \/ cancelled s = true ->
  step v k s (LServeReturn e) = Some s' -> e = EClosed.
Proof.
  intros Hsc H. unfold step in H. destruct (crashed s); [discriminate|].
  destruct (sp s); try discriminate.
  - assert (E : shut s || cancelled s = true) by (destruct Hsc as [-> | ->]; [reflexivity|apply orb_true_r]).
    rewrite E in H. destruct e; cbn in H; try discriminate. reflexivity.
  - destruct e; try rewrite andb_false_r in H; try discriminate. reflexivity.
Qed.
Lemma accept_needs_open_listener v k s c s' : step v k s (LAccept c) = Some s' -> lis_open s = true.
Proof.
  unfold step. destruct (crashed s); [discriminate|]. destruct (sp s); try discriminate.
  destruct (lis_open s); [reflexivity|discriminate].
Qed.
Theorem after_good_shutdown v k s : reach v k s ->
  (match sd s with SdReturned ENil => True | _ => False end) ->
  lis_open s = false /\ shut s = true /\ (forall e, sp s = SReturned e -> e = EClosed) /\
  (forall c s', step v k s (LAccept c) = Some s' -> False) /\
  (forall e s', step v k s (LServeReturn e) = Some s' -> e = EClosed).
Proof.
  intros R E. pose proof (reach_finv _ _ _ R) as [F1 F2 F3 F4 F5 F6]. unfold sd_good, sd_ran in *.
  destruct (sd s) as [| | | | |[]] eqn:Esd; try contradiction.
  assert (Hl : lis_open s = false) by (apply F4; reflexivity).
  assert (Hs : shut s = true) by (apply F2; discriminate).
  split; [exact Hl|]. split; [exact Hs|]. split; [apply F3; reflexivity|]. split.
  - intros c s' H. apply accept_needs_open_listener in H. congruence.
  - intros e s' H. eapply serve_return_closed; [left; exact Hs|exact H].
Qed.

(* replies: whatever Shutdown closed after a successful CAS (or after finding the goroutine gone) owes
   nothing and loses nothing; a lost reply can only come from the fall-through after a failed CAS
   that then loaded `idle` *)
Theorem shutdown_no_lost_reply k s : reach GuardNow k s ->
  forall c x, get s c = Some x ->
    (lost x <> 0 -> sd_via x = ViaLoadIdle) /\
    (sd_via x = ViaCas -> owed x = [] /\ cst x = CClosed) /\
    (sd_via x = ViaLoadClosed -> cst x = CClosed) /\
    (handling_ph (ph x) = true -> sock x = false -> sd_via x = ViaLoadIdle).
Proof.
  intros R c x G. pose proof (reach_get_cinv _ _ _ _ R G) as [H1 H2 H3 H4 H5 H6 H7 H8 H9 H10 H11 H12 H13 H14].
  split; [exact H9|]. split; [|split].
  - intros E. split; [auto|]. destruct H7 as [A|A]; [congruence|exact A|congruence].
  - intros E. destruct H7 as [A|A]; [congruence|exact A|congruence].
  - intros Hh Hs. assert (Hp : pre_exit (ph x) = true) by (destruct (ph x); try discriminate; reflexivity).
    specialize (H8 Hs Hp). destruct (H7 H8) as [A|A]; [|exact A]. rewrite (H3 Hh) in A. discriminate.
Qed.

(* ---------- (f) bounded return of serve once the listener is closed ---------- *)
Definition serve_left (p : spc) : nat :=
  match p with
  | SStart => 3 | SCalled => 2 | SLoop => 1 | SAccepted _ => 4 | SRejected _ => 2 | SPassed _ => 3 | STrack _ => 2
  | SReturned _ => 0
  end.
Definition is_serve (l : label) : bool := match label_gor l with GServe => true | _ => false end.
Fixpoint count_serve (ls : list label) : nat :=
  match ls with [] => 0 | l :: t => (if is_serve l then 1 else 0) + count_serve t end.

Lemma serve_step_measure v k s l s' : lis_open s = false -> step v k s l = Some s' ->
  lis_open s' = false /\
  (if is_serve l then serve_left (sp s') < serve_left (sp s) else sp s' = sp s).
Proof.
  intros Hl H. unfold step in H. destruct (crashed s); [discriminate|].
  destruct l; unfold is_serve; cbn [label_gor].
  - brk H; injection H as <-; cbn; rewrite ?Heqs0; cbn; auto.
  - brk H; injection H as <-; cbn; rewrite ?Heqs0; cbn; auto.
  - rewrite Hl in H. destruct (sp s); discriminate.
  - destruct (sp s) eqn:Esp; try discriminate. destruct (get s c) as [x|] eqn:Hg; try discriminate.
    destruct (Nat.eqb c c0 && on_accept k && (n =? count s + 1)%Z) eqn:E; try discriminate.
    injection H as <-. destruct ok; cbn; auto.
  - destruct (sp s) eqn:Esp; try discriminate. destruct (get s c) as [x|] eqn:Hg; try discriminate.
    destruct (Nat.eqb c c0) eqn:E; try discriminate. injection H as <-. cbn; auto.
  - brk H. injection H as <-. cbn; rewrite ?Heqs0; cbn; auto.
  - destruct (sp s) eqn:Esp; try discriminate. destruct (get s c) as [x|] eqn:Hg; try discriminate.
    destruct (Nat.eqb c c0 && negb (mu s)) eqn:E; try discriminate. injection H as <-. cbn; auto.
  - brk H; injection H as <-; cbn; rewrite ?Heqs0; cbn; auto.
  - cs H. brk Hy; injection Hy as <-; cbn; auto.
  - cs H. brk Hy; injection Hy as <-; cbn; auto.
  - cs H. brk Hy; injection Hy as <-; cbn; auto.
  - cs H. brk Hy; injection Hy as <-; cbn; auto.
  - cs H. brk Hy; injection Hy as <-; cbn; auto.
  - cs H. brk Hy; injection Hy as <-; cbn; auto.
  - cs H. brk Hy; injection Hy as <-; cbn; auto.
  - destruct (get s c) as [x|] eqn:Hg; try discriminate. brk H; injection H as <-; cbn; auto.
  - destruct (get s c) as [x|] eqn:Hg; try discriminate. brk H; injection H as <-; cbn; auto.
  - cs H. brk Hy; injection Hy as <-; cbn; auto.
  - cs H. brk Hy; injection Hy as <-; cbn; auto.
  - destruct (mu s) eqn:Emu; try discriminate.
    destruct (conn_step s c PExited _) as [s1|] eqn:E1; try discriminate. injection H as <-.
    cs E1. injection Hy as <-. cbn; auto.
  - destruct (conn_step s c PUntracked _) as [s1|] eqn:E1; try discriminate.
    cs E1. injection Hy as <-.
    destruct (close_guard v k && negb (on_close k)); injection H as <-; cbn; auto.
  - brk H; injection H as <-; cbn; auto.
  - brk H; injection H as <-; cbn; auto.
  - destruct (sd s) eqn:Esd; try discriminate. destruct (get s c) as [x|] eqn:Hg; try discriminate.
    destruct (mem_nat c todo && inmap x) eqn:E; try discriminate.
    destruct (cst x) eqn:Ecst; injection H as <-; cbn; auto.
  - destruct (sd s) eqn:Esd; try discriminate. destruct (get s c) as [x|] eqn:Hg; try discriminate.
    destruct (Nat.eqb c c0) eqn:E; try discriminate.
    destruct (cst x) eqn:Ecst; injection H as <-; cbn; auto.
  - destruct (sd s) eqn:Esd; try discriminate. destruct (get s c) as [x|] eqn:Hg; try discriminate.
    destruct (Nat.eqb c c0) eqn:E; try discriminate. injection H as <-; cbn; auto.
  - brk H; injection H as <-; cbn; auto.
  - brk H; injection H as <-; cbn; auto.
  - brk H; injection H as <-; cbn; auto.
  - brk H; injection H as <-; cbn; auto.
  - brk H; injection H as <-; cbn; auto.
  - brk H; injection H as <-; cbn; auto.
Qed.

Theorem serve_bounded v k : forall ls s s', lis_open s = false -> run v k s ls = Some s' ->
  count_serve ls + serve_left (sp s') <= serve_left (sp s) /\ lis_open s' = false.
Proof.
  induction ls as [|l t IH]; intros s s' Hl H; cbn in H.
  - injection H as <-. cbn. split; [lia|exact Hl].
  - destruct (step v k s l) as [s1|] eqn:E; [|discriminate].
    destruct (serve_step_measure _ _ _ _ _ Hl E) as [Hl1 Hm]. destruct (IH _ _ Hl1 H) as [Hc Hl']. split; [|exact Hl'].
    cbn [count_serve]. destruct (is_serve l); [lia|rewrite Hm in Hc; lia].
Qed.
Corollary serve_bounded_4 v k ls s s' : lis_open s = false -> run v k s ls = Some s' -> count_serve ls <= 4.
Proof.
  intros Hl H. destruct (serve_bounded v k ls s s' Hl H) as [Hc _].
  assert (serve_left (sp s) <= 4) by (destruct (sp s); cbn; lia). lia.
Qed.

(* cancelling makes the listener-closing step available, and it stays available until taken *)
Lemma cancel_enables_close v k s : crashed s = false -> cancelled s = true -> published (sp s) = true ->
  returned (sp s) = false -> lis_open s = true -> step v k s LAfterClose = Some (s_lis_open false s).
Proof. intros Hc H1 H2 H3 H4. unfold step. rewrite Hc, H1, H2, H3, H4. reflexivity. Qed.

(* progress: with the listener closed after a cancel/shutdown serve always has a next step unless
   Shutdown holds the mutex serve needs *)
Theorem serve_progress k s : reach GuardNow k s -> lis_open s = false -> shut s = true \/ cancelled s = true ->
  returned (sp s) = false -> mu s = false ->
  exists l s', is_serve l = true /\ step GuardNow k s l = Some s'.
Proof.
  intros R Hl Hsc Hr Hmu. pose proof (reach_inv _ _ R) as [Hc Hn Hf Hm Hcl Hfl Hsp].
  pose proof (reach_finv _ _ _ R) as [F1 F2 F3 F4 F5 F6].
  assert (E : shut s || cancelled s = true) by (destruct Hsc as [-> | ->]; [reflexivity|apply orb_true_r]).
  destruct (sp s) eqn:Esp; try discriminate.
  - exists LServeCb. eexists. split; [reflexivity|]. unfold step. rewrite Hc, Esp. reflexivity.
  - exists LPublish. eexists. split; [reflexivity|]. unfold step. rewrite Hc, Esp, Hmu. reflexivity.
  - exists (LServeReturn EClosed). eexists. split; [reflexivity|]. unfold step. rewrite Hc, Esp, E, Hl. reflexivity.
  - destruct (Hsp c eq_refl) as [x [G P]]. exists (LAcceptCb c (count s + 1) true). eexists. split; [reflexivity|].
    unfold step. rewrite Hc, Esp, G, Nat.eqb_refl, Z.eqb_refl. rewrite (F6 eq_refl). reflexivity.
  - destruct (Hsp c eq_refl) as [x [G P]]. exists (LRejectClose c). eexists. split; [reflexivity|].
    unfold step. rewrite Hc, Esp, G, Nat.eqb_refl. reflexivity.
  - destruct (cancelled s) eqn:Ec.
    + exists (LServeReturn EClosed). eexists. split; [reflexivity|]. unfold step. rewrite Hc, Esp, Ec. reflexivity.
    + exists (LCtxPass c). eexists. split; [reflexivity|]. unfold step. rewrite Hc, Esp, Ec, Nat.eqb_refl. reflexivity.
  - destruct (Hsp c eq_refl) as [x [G P]]. exists (LTrack c). eexists. split; [reflexivity|].
    unfold step. rewrite Hc, Esp, G, Nat.eqb_refl, Hmu. reflexivity.
Qed.

(* ---------- witnesses (concrete runs; replayable on the real code, see the harness scripts) ---------- *)
Definition cfg_accept_only : cfg := {| on_serve := false; on_error := false; on_accept := true; on_close := false |}.
Definition cfg_close_only : cfg := {| on_serve := false; on_error := false; on_accept := false; on_close := true |}.
Definition cfg_none : cfg := {| on_serve := false; on_error := false; on_accept := false; on_close := false |}.
Definition cfg_all : cfg := {| on_serve := true; on_error := true; on_accept := true; on_close := true |}.

Lemma run_reach v k ls s : run v k init ls = Some s -> reach v k s.
Proof. intros H. eapply reach_run; [apply reach_init|exact H]. Qed.

(* the guard before fix 7acbe3f: accept-only configuration calls a nil OnCloseConnFunc *)
Definition old_guard_crash_run : list label :=
  [LServeCb; LPublish; LAccept 0; LAcceptCb 0 1 true; LCtxPass 0; LTrack 0; LConnRead 0 REof; LConnLeave 0;
   LConnExit 0; LUntrack 0; LCloseCb 0].
Lemma old_guard_crashes : exists s, reach GuardOld cfg_accept_only s /\ crashed s = true.
Proof.
  destruct (run GuardOld cfg_accept_only init old_guard_crash_run) as [s|] eqn:E; [|vm_compute in E; discriminate].
  exists s. split; [eapply run_reach; exact E|]. vm_compute in E. injection E as <-. reflexivity.
Qed.
(* ... and never runs the close callback in the close-only configuration *)
Definition close_only_run : list label :=
  [LServeCb; LPublish; LAccept 0; LCtxPass 0; LTrack 0; LConnRead 0 REof; LConnLeave 0; LConnExit 0; LUntrack 0; LCloseCb 0].
Lemma old_guard_skips_close_cb : exists s x, reach GuardOld cfg_close_only s /\ get s 0 = Some x /\ ph x = PDone /\ close_cb x = 0.
Proof.
  destruct (run GuardOld cfg_close_only init close_only_run) as [s|] eqn:E; [|vm_compute in E; discriminate].
  exists s. vm_compute in E. injection E as <-. eexists. split; [apply (run_reach _ _ close_only_run); reflexivity|].
  split; [reflexivity|]. split; reflexivity.
Qed.
(* the same runs under the current guard *)
Lemma now_guard_same_runs :
  (exists s, run GuardNow cfg_accept_only init old_guard_crash_run = Some s /\ crashed s = false) /\
  (exists s x, run GuardNow cfg_close_only init close_only_run = Some s /\ get s 0 = Some x /\ close_cb x = 1).
Proof. split; [eexists; split; [vm_compute; reflexivity|reflexivity]|eexists; eexists; split; [vm_compute; reflexivity|split; reflexivity]]. Qed.

(* residual window in Shutdown: CAS(idle->closed) fails because a request is being handled, the reply is
   written and the state stored back to idle, then Load() sees `idle` (not `handling`) and the
   connection is closed without a CAS -- while the next request's handler has already started *)
Definition load_race_run : list label :=
  [LServeCb; LPublish; LAccept 0; LCtxPass 0; LTrack 0;
   LConnRead 0 RData; LHandleStart 0; LHandlerStart 0; LHandlerEnd 0 true;
   LSdCall; LSdBegin; LSdCas 0;
   LReplyWrite 0 true; LHandleEnd 0;
   LSdLoad 0;
   LConnRead 0 RData; LHandleStart 0; LHandlerStart 0;
   LSdClose 0;
   LHandlerEnd 0 true; LReplyWrite 0 false; LSdReturn].
Lemma shutdown_load_race_loses_reply :
  exists s x, reach GuardNow cfg_none s /\ sd s = SdReturned ENil /\ get s 0 = Some x /\
              lost x = 1 /\ started x = 2 /\ replied x = 1 /\ sd_via x = ViaLoadIdle.
Proof.
  destruct (run GuardNow cfg_none init load_race_run) as [s|] eqn:E; [|vm_compute in E; discriminate].
  exists s. vm_compute in E. injection E as <-. eexists. split; [apply (run_reach _ _ load_race_run); reflexivity|].
  repeat split; reflexivity.
Qed.

(* a connection that Accept returned before Shutdown closed the listener, tracked after Shutdown
   returned nil: it is served although the shutdown "succeeded" *)
Definition late_track_run : list label :=
  [LServeCb; LPublish; LAccept 0; LSdCall; LSdBegin; LSdReturn; LCtxPass 0; LTrack 0;
   LConnRead 0 RData; LHandleStart 0; LHandlerStart 0; LHandlerEnd 0 true; LReplyWrite 0 true; LHandleEnd 0].
Lemma late_track_survives_shutdown :
  exists s x, reach GuardNow cfg_none s /\ sd s = SdReturned ENil /\ get s 0 = Some x /\
              ph x = PIdle /\ sock x = true /\ inmap x = true /\ replied x = 1.
Proof.
  destruct (run GuardNow cfg_none init late_track_run) as [s|] eqn:E; [|vm_compute in E; discriminate].
  exists s. vm_compute in E. injection E as <-. eexists. split; [apply (run_reach _ _ late_track_run); reflexivity|].
  repeat split; reflexivity.
Qed.

(* a connection accepted while the context gets cancelled is dropped by serve: neither closed nor
   tracked nor reported to the close callback, and no step of the LTS ever touches it again *)
Definition accept_cancel_run : list label :=
  [LServeCb; LPublish; LAccept 0; LAcceptCb 0 1 true; LCancel; LServeReturn EClosed].
Lemma accept_then_cancel_leaks :
  exists s x, reach GuardNow cfg_all s /\ sp s = SReturned EClosed /\ get s 0 = Some x /\ ph x = PAccepted /\
              sock x = true /\ close_cb x = 0 /\
              (forall l, label_gor l = GConn 0 -> step GuardNow cfg_all s l = None) /\
              (forall l, label_gor l = GServe -> step GuardNow cfg_all s l = None).
Proof.
  destruct (run GuardNow cfg_all init accept_cancel_run) as [s|] eqn:E; [|vm_compute in E; discriminate].
  exists s. vm_compute in E. injection E as <-. eexists. split; [apply (run_reach _ _ accept_cancel_run); reflexivity|].
  split; [reflexivity|]. split; [reflexivity|]. split; [reflexivity|]. split; [reflexivity|]. split; [reflexivity|].
  split; intros l Hl; destruct l; cbn in Hl; try discriminate; try (injection Hl as ->); try reflexivity;
    try (destruct r; reflexivity); try (destruct ok; reflexivity).
Qed.

(* Shutdown before serve has published the listener dereferences a nil interface *)
Lemma shutdown_before_serve_panics :
  exists s, run GuardNow cfg_none init [LSdCall; LSdBegin] = Some s /\ sd s = SdReturned EPanic.
Proof. eexists. split; [vm_compute; reflexivity|reflexivity]. Qed.

(* non-vacuity: accept, track, read, handle, reply, shutdown while idle -- reaches the hypotheses of (e),
   and the connection is closed by a successful CAS with nothing owed *)
Definition happy_run : list label :=
  [LServeCb; LPublish; LAccept 0; LAcceptCb 0 1 true; LCtxPass 0; LTrack 0;
   LConnRead 0 RData; LHandleStart 0; LHandlerStart 0; LHandlerEnd 0 true; LReplyWrite 0 true; LHandleEnd 0;
   LSdCall; LSdBegin; LSdCas 0; LSdClose 0].
Lemma happy_run_example :
  exists s s' x, run GuardNow cfg_all init happy_run = Some s /\ step GuardNow cfg_all s LSdReturn = Some s' /\
                 sd s' = SdReturned ENil /\ get s' 0 = Some x /\ sd_via x = ViaCas /\ replied x = 1 /\ owed x = [] /\
                 sock x = false /\ acc_arg x = Some 1%Z /\
                 step GuardNow cfg_all s' (LServeReturn EClosed) <> None.
Proof.
  eexists. eexists. eexists. split; [vm_compute; reflexivity|]. split; [vm_compute; reflexivity|].
  repeat split; try reflexivity. vm_compute. discriminate.
Qed.
(* ... and of (f): cancel, the AfterFunc goroutine closes the listener, serve returns ErrServerClosed *)
Lemma cancel_example :
  exists s, run GuardNow cfg_all init [LServeCb; LPublish; LAccept 0; LAcceptCb 0 1 false; LCancel; LAfterClose] = Some s /\
            cancelled s = true /\ lis_open s = false /\
            run GuardNow cfg_all s [LRejectClose 0; LServeReturn EClosed] <> None.
Proof. eexists. split; [vm_compute; reflexivity|]. repeat split; try reflexivity. vm_compute. discriminate. Qed.
