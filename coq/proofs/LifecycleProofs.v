(* LifecycleProofs.v -- invariants of the server life-cycle LTS (LifecycleModel.v), proved by induction
   over arbitrary step sequences, for every callback configuration and any number of connections. *)
Require Import MB.LifecycleModel.
From Coq Require Import List Arith ZArith Bool Lia.
Import ListNotations.

(* ---------- list helpers ---------- *)
Lemma nth_upd_same cs c x y : nth_error cs c = Some x -> nth_error (upd cs c y) c = Some y.
Proof. revert c; induction cs as [|h t IH]; intros [|c] H; cbn in *; try discriminate; auto. Qed.
Lemma nth_upd_other cs c d y : c <> d -> nth_error (upd cs c y) d = nth_error cs d.
Proof. revert c d; induction cs as [|h t IH]; intros [|c] [|d] H; cbn; auto; try congruence. Qed.
Lemma upd_length cs c y : length (upd cs c y) = length cs.
Proof. revert c; induction cs as [|h t IH]; intros [|c]; cbn; auto. Qed.
Lemma Forall_upd (P : conn -> Prop) cs c y : Forall P cs -> P y -> Forall P (upd cs c y).
Proof.
  revert c; induction cs as [|h t IH]; intros [|c] H Hy; cbn; auto.
  - constructor; [assumption|]. apply Forall_inv_tail in H; assumption.
  - constructor; [apply Forall_inv in H; assumption|]. apply IH; [apply Forall_inv_tail in H; assumption|assumption].
Qed.
Lemma Forall_nthe (P : conn -> Prop) cs c x : Forall P cs -> nth_error cs c = Some x -> P x.
Proof. intros H Hn. rewrite Forall_forall in H. apply H. eapply nth_error_In; eassumption. Qed.

Definition lv (x : conn) : Z := if is_live (ph x) then 1%Z else 0%Z.
Lemma live_count_upd cs c x y : nth_error cs c = Some x ->
  live_count (upd cs c y) = (live_count cs - lv x + lv y)%Z.
Proof.
  revert c; induction cs as [|h t IH]; intros [|c] H; cbn in *; try discriminate.
  - injection H as ->. unfold lv. lia.
  - rewrite (IH _ H). lia.
Qed.
Lemma live_count_app cs x : live_count (cs ++ [x]) = (live_count cs + lv x)%Z.
Proof. induction cs as [|h t IH]; cbn; [unfold lv; lia|rewrite IH; lia]. Qed.

Lemma get_put_same s c x y : get s c = Some x -> get (put s c y) c = Some y.
Proof. unfold get, put; cbn. apply nth_upd_same. Qed.
Lemma get_put_other s c d y : c <> d -> get (put s c y) d = get s d.
Proof. unfold get, put; cbn. apply nth_upd_other. Qed.

Lemma conn_step_some s c p f s' : conn_step s c p f = Some s' ->
  exists x y, get s c = Some x /\ pend_err x = false /\ ph x = p /\ f x = Some y /\ s' = put s c y.
Proof.
  unfold conn_step. destruct (get s c) as [x|] eqn:G; [|discriminate].
  destruct (pend_err x) eqn:Ep; cbn [negb andb]; [discriminate|].
  destruct (ph x) eqn:Ex; destruct p; try discriminate;
    (destruct (f x) as [y|] eqn:F; [|discriminate]; intros H; injection H as <-; exists x, y; auto).
Qed.

(* ---------- the per-connection invariant ---------- *)
Definition handling_ph (p : phase) : bool := match p with PHandling | PInHandler | PReplied => true | _ => false end.
Definition pre_exit (p : phase) : bool :=
  match p with PIdle | PReadDone | PHandling | PInHandler | PReplied | PLeaving => true | _ => false end.

Record cinv (k : cfg) (x : conn) : Prop := {
  ci_close : close_cb x = match ph x with PDone => if on_close k then 1 else 0 | _ => 0 end;
  ci_inmap : inmap x = true -> is_live (ph x) = true;
  ci_hand : handling_ph (ph x) = true -> cst x = CHandling;
  ci_owed : cst x = CIdle -> owed x = [];
  ci_rej : ph x = PRejected -> sock x = false;
  ci_del : is_live (ph x) = true -> inmap x = false -> sock x = false;
  ci_via : sd_via x <> ViaNone -> cst x = CClosed \/ sd_via x = ViaLoadIdle;
  ci_sock : sock x = false -> pre_exit (ph x) = true -> sd_via x <> ViaNone;
  ci_lost : lost x <> 0 -> sd_via x = ViaLoadIdle;
  ci_cas : sd_via x = ViaCas -> owed x = [];
  ci_arg : forall n, acc_arg x = Some n -> n = (live_at_cb x + 1)%Z;
  ci_acc : ph x = PAccepted -> sock x = true /\ sd_via x = ViaNone;
  ci_noresp : ph x = PHandling -> resp x = false -> owed x = [];
  ci_repl : ph x = PReplied -> owed x = []
}.

Definition sd_busy (p : sdpc) : bool :=
  match p with SdPass _ _ | SdFailed _ _ _ | SdClosing _ _ _ | SdWait => true | _ => false end.

Definition sp_conn (p : spc) : option nat :=
  match p with SAccepted c | SRejected c | SPassed c | STrack c => Some c | _ => None end.

Record inv (k : cfg) (s : state) : Prop := {
  i_crash : crashed s = false;
  i_count : count s = live_count (conns s);
  i_conns : Forall (cinv k) (conns s);
  i_mu : mu s = sd_busy (sd s);
  i_closing : forall c t a, sd s = SdClosing c t a -> exists x, get s c = Some x /\ sd_via x <> ViaNone /\ inmap x = true;
  i_failed : forall c t a, sd s = SdFailed c t a -> exists x, get s c = Some x /\ inmap x = true;
  i_sp : forall c, sp_conn (sp s) = Some c -> exists x, get s c = Some x /\ ph x = PAccepted
}.

Lemma cinv_new k : cinv k new_conn.
Proof. constructor; cbn; intros; try discriminate; try congruence; auto. Qed.

Lemma inv_init k : inv k init.
Proof. constructor; cbn; auto; intros; discriminate. Qed.

(* a connection transformation that is compatible with the invariant *)
Ltac crec x := destruct x as [xph xcst xsock xinmap xresp xcc xpan xpend xcb xacc xlive xst xrep xowed xlost xvia].

Ltac cinv_tac :=
  match goal with
  | H : cinv _ ?x |- cinv _ _ =>
      destruct H as [H1 H2 H3 H4 H5 H6 H7 H8 H9 H10 H11 H12 H13 H14]; crec x; unfold via_set in *; cbn in *; subst;
      constructor; cbn in *; intros;
      try match goal with E : on_close ?k = _ |- context [on_close ?k] => rewrite E end;
      repeat match goal with
             | |- context [match ?v with ViaNone => _ | _ => _ end] => destruct v; cbn in *
             | H : context [match ?v with ViaNone => _ | _ => _ end] |- _ => destruct v; cbn in *
             end;
      try congruence; try discriminate; auto;
      try (repeat match goal with Hx : ?a = ?a -> _ |- _ => specialize (Hx eq_refl) end; subst; cbn in *;
           first [congruence | discriminate]);
      try (intuition (try congruence; try discriminate; auto); fail)
  end.

Lemma get_app_new s c x : get (s_conns (conns s ++ [new_conn]) s) c = Some x ->
  get s c = Some x \/ (c = length (conns s) /\ x = new_conn).
Proof.
  unfold get; cbn. intros H. destruct (Nat.lt_ge_cases c (length (conns s))) as [L|L].
  - rewrite nth_error_app1 in H by assumption. auto.
  - rewrite nth_error_app2 in H by assumption. destruct (c - length (conns s)) eqn:E; cbn in H.
    + injection H as <-. right. split; [lia|reflexivity].
    + destruct n; discriminate.
Qed.
Lemma get_lt s c x : get s c = Some x -> c < length (conns s).
Proof. unfold get. intros H. apply nth_error_Some. congruence. Qed.
Lemma get_app_old s c x : get s c = Some x -> get (s_conns (conns s ++ [new_conn]) s) c = Some x.
Proof. intros H. unfold get; cbn. rewrite nth_error_app1; [exact H|eapply get_lt; eassumption]. Qed.

(* ---------- the invariant is preserved by every step of the current code ---------- *)
Ltac brk H :=
  repeat match type of H with
         | context [match ?e with _ => _ end] => destruct e eqn:?; try discriminate
         end.

(* closing tactic for a step that rewrites connection d (Hd : get s d = Some x) and leaves the list length *)
Ltac t_count Hd :=
  cbn; rewrite (live_count_upd _ _ _ _ Hd); unfold lv; cbn;
  repeat match goal with H : ph _ = _ |- _ => rewrite H end; cbn; lia.

Ltac t_conns Hf Hd :=
  cbn; apply Forall_upd; [exact Hf | pose proof (Forall_nthe _ _ _ _ Hf Hd) as Hx; cinv_tac].

Ltac t_closing Hcl Hd :=
  cbn; intros c0 t0 a0 Hsd; try (exfalso; rewrite Hsd in *; discriminate);
  destruct (Hcl _ _ _ Hsd) as [x0 [Hg0 Hv0]];
  match type of Hd with get ?s ?d = Some ?x =>
    destruct (Nat.eq_dec d c0) as [->|Hne];
    [ rewrite Hg0 in Hd; injection Hd as <-; eexists; split; [unfold get, put in *; cbn; eapply nth_upd_same; eassumption|];
      crec x0; unfold via_set in *; cbn in *; try assumption;
      repeat match goal with |- context [match ?v with ViaNone => _ | _ => _ end] => destruct v; cbn in * end;
      intuition congruence
    | exists x0; split; [unfold get, put in *; cbn; rewrite nth_upd_other by assumption; assumption|assumption] ]
  end.

Ltac t_sp Hsp Hd :=
  cbn; intros c0 Hc0;
  destruct (Hsp _ Hc0) as [x0 [Hg0 Hp0]];
  match type of Hd with get ?s ?d = Some ?x =>
    destruct (Nat.eq_dec d c0) as [->|Hne];
    [ rewrite Hg0 in Hd; injection Hd as <-;
      first [ congruence
            | eexists; split; [unfold get, put in *; cbn; eapply nth_upd_same; eassumption|];
              crec x0; unfold via_set in *; cbn in *; try assumption;
              repeat match goal with |- context [match ?v with ViaNone => _ | _ => _ end] => destruct v; cbn in * end; congruence ]
    | exists x0; split; [unfold get, put in *; cbn; rewrite nth_upd_other by assumption; assumption|assumption] ]
  end.

Ltac fin0 := constructor; cbn; auto; try congruence; try (intros; discriminate).
Ltac fin Hc Hn Hf Hm Hcl Hfl Hsp Hg :=
  constructor; [cbn; assumption | t_count Hg | t_conns Hf Hg | cbn; congruence | t_closing Hcl Hg | t_closing Hfl Hg | t_sp Hsp Hg].
Ltac cs H := apply conn_step_some in H as (x & y & Hg & Hpe & Hph & Hy & ->).

Lemma inv_step k s l s' : inv k s -> step GuardNow k s l = Some s' -> inv k s'.
Proof.
  intros [Hc Hn Hf Hm Hcl Hfl Hsp] H. unfold step in H. rewrite Hc in H.
  destruct l.
  - (* LServeCb *) brk H. injection H as <-. fin0.
  - (* LPublish *) brk H. injection H as <-. fin0.
  - (* LAccept *) destruct (sp s) eqn:Esp; try discriminate.
    destruct (lis_open s && Nat.eqb c (length (conns s))) eqn:Heqb; try discriminate. injection H as <-.
    apply andb_prop in Heqb as [Hlo Hcl0]. apply Nat.eqb_eq in Hcl0. subst c.
    constructor; cbn.
    + destruct (on_accept k); cbn; assumption.
    + destruct (on_accept k); cbn; rewrite live_count_app; unfold lv; cbn; lia.
    + destruct (on_accept k); cbn; (apply Forall_app; split; [assumption|constructor; [apply cinv_new|constructor]]).
    + destruct (on_accept k); cbn; assumption.
    + intros c0 t0 a0 Hsd. assert (Hsd' : sd s = SdClosing c0 t0 a0) by (destruct (on_accept k); exact Hsd).
      destruct (Hcl _ _ _ Hsd') as [x0 [Hg0 Hv0]]. exists x0. split; [|assumption].
      destruct (on_accept k); cbn; apply get_app_old; assumption.
    + intros c0 t0 a0 Hsd. assert (Hsd' : sd s = SdFailed c0 t0 a0) by (destruct (on_accept k); exact Hsd).
      destruct (Hfl _ _ _ Hsd') as [x0 [Hg0 Hv0]]. exists x0. split; [|assumption].
      destruct (on_accept k); cbn; apply get_app_old; assumption.
    + intros c0 Hc0. exists new_conn. split; [|reflexivity].
      assert (c0 = length (conns s)) by (destruct (on_accept k); cbn in Hc0; congruence). subst c0.
      destruct (on_accept k); unfold get; cbn; rewrite nth_error_app2 by lia; rewrite Nat.sub_diag; reflexivity.
  - (* LAcceptCb *)
    destruct (sp s) eqn:Esp; try discriminate. destruct (get s c) as [x|] eqn:Hg; try discriminate.
    destruct (Nat.eqb c c0 && on_accept k && (n =? count s + 1)%Z) eqn:E; try discriminate.
    injection H as <-. apply andb_prop in E as [E E3]. apply andb_prop in E as [E1 E2].
    apply Nat.eqb_eq in E1. apply Z.eqb_eq in E3. subst c0 n.
    destruct (Hsp c eq_refl) as [x1 [Hg1 Hp1]]. rewrite Hg in Hg1. injection Hg1 as <-.
    constructor.
    + destruct ok; cbn; assumption.
    + destruct ok; t_count Hg.
    + destruct ok; cbn; (apply Forall_upd; [exact Hf|]); pose proof (Forall_nthe _ _ _ _ Hf Hg) as Hx;
        (destruct Hx as [H1 H2 H3 H4 H5 H6 H7 H8 H9 H10 H11 H12 H13 H14]; crec x; cbn in *; constructor; cbn; auto;
         intros n Hn'; injection Hn' as <-; rewrite Hn; reflexivity).
    + destruct ok; cbn; congruence.
    + destruct ok; t_closing Hcl Hg.
    + destruct ok; t_closing Hfl Hg.
    + destruct ok; cbn; intros c0 Hc0; injection Hc0 as <-; eexists; (split; [unfold get, put in *; cbn; eapply nth_upd_same; eassumption|]);
        crec x; cbn in *; assumption.
  - (* LRejectClose *)
    destruct (sp s) eqn:Esp; try discriminate. destruct (get s c) as [x|] eqn:Hg; try discriminate.
    destruct (Nat.eqb c c0) eqn:E; try discriminate. apply Nat.eqb_eq in E. subst c0. injection H as <-.
    destruct (Hsp c eq_refl) as [x1 [Hg1 Hp1]]. rewrite Hg in Hg1. injection Hg1 as <-.
    constructor; [cbn; assumption | t_count Hg | t_conns Hf Hg | cbn; congruence | t_closing Hcl Hg | t_closing Hfl Hg | cbn; intros; discriminate].
  - (* LCtxPass *) brk H. injection H as <-. apply andb_prop in Heqb as [E _]. apply Nat.eqb_eq in E. subst c0.
    constructor; cbn; auto; intros c0 Hc0; injection Hc0 as <-; apply Hsp; reflexivity.
  - (* LTrack *)
    destruct (sp s) eqn:Esp; try discriminate. destruct (get s c) as [x|] eqn:Hg; try discriminate.
    destruct (Nat.eqb c c0 && negb (mu s)) eqn:E; try discriminate. apply andb_prop in E as [E E2].
    apply Nat.eqb_eq in E. subst c0. injection H as <-.
    destruct (Hsp c eq_refl) as [x1 [Hg1 Hp1]]. rewrite Hg in Hg1. injection Hg1 as <-.
    constructor; [cbn; assumption | t_count Hg | t_conns Hf Hg | cbn; congruence | t_closing Hcl Hg | t_closing Hfl Hg | cbn; intros; discriminate].
  - (* LServeReturn *) brk H; injection H as <-; fin0.
  - (* LConnRead *) cs H. brk Hy; injection Hy as <-; fin Hc Hn Hf Hm Hcl Hfl Hsp Hg.
  - (* LConnCtxExit *) cs H. brk Hy; injection Hy as <-; fin Hc Hn Hf Hm Hcl Hfl Hsp Hg.
  - (* LHandleStart *) cs H. brk Hy; injection Hy as <-; fin Hc Hn Hf Hm Hcl Hfl Hsp Hg.
  - (* LHandlerStart *) cs H. brk Hy; injection Hy as <-; fin Hc Hn Hf Hm Hcl Hfl Hsp Hg.
  - (* LHandlerEnd *) cs H. brk Hy; injection Hy as <-; fin Hc Hn Hf Hm Hcl Hfl Hsp Hg.
  - (* LProtoReply *) cs H. brk Hy; injection Hy as <-; fin Hc Hn Hf Hm Hcl Hfl Hsp Hg.
  - (* LReplyWrite *) cs H. brk Hy; injection Hy as <-; fin Hc Hn Hf Hm Hcl Hfl Hsp Hg.
  - (* LHandleEnd *)
    destruct (get s c) as [x|] eqn:Hg; try discriminate. brk H; injection H as <-; fin Hc Hn Hf Hm Hcl Hfl Hsp Hg.
  - (* LErrCb *)
    destruct (get s c) as [x|] eqn:Hg; try discriminate. brk H; injection H as <-; fin Hc Hn Hf Hm Hcl Hfl Hsp Hg.
  - (* LConnLeave *) cs H. brk Hy; injection Hy as <-; fin Hc Hn Hf Hm Hcl Hfl Hsp Hg.
  - (* LConnExit *) cs H. brk Hy; injection Hy as <-; fin Hc Hn Hf Hm Hcl Hfl Hsp Hg.
  - (* LUntrack *)
    destruct (mu s) eqn:Emu; try discriminate.
    destruct (conn_step s c PExited _) as [s1|] eqn:E1; try discriminate. injection H as <-.
    cs E1. injection Hy as <-. fin Hc Hn Hf Hm Hcl Hfl Hsp Hg.
  - (* LCloseCb *)
    destruct (conn_step s c PUntracked _) as [s1|] eqn:E1; try discriminate.
    cs E1. injection Hy as <-. unfold close_guard in *.
    destruct (on_close k) eqn:Eoc; cbn in H; injection H as <-; fin Hc Hn Hf Hm Hcl Hfl Hsp Hg.
  - (* LSdCall *) brk H; injection H as <-; fin0.
  - (* LSdBegin *) brk H; injection H as <-; fin0.
  - (* LSdCas *)
    destruct (sd s) eqn:Esd; try discriminate. destruct (get s c) as [x|] eqn:Hg; try discriminate.
    destruct (mem_nat c todo && inmap x) eqn:E; try discriminate. apply andb_prop in E as [E1 E2].
    destruct (cst x) eqn:Ecst; injection H as <-.
    + constructor; [cbn; assumption | unfold via_set; destruct (sd_via x); t_count Hg | t_conns Hf Hg
                    | cbn; rewrite Hm; reflexivity | | cbn; intros; discriminate | t_sp Hsp Hg].
      cbn. intros c0 t0 a0 Hsd. injection Hsd as <- <- <-. eexists. split; [unfold get, put in *; cbn; eapply nth_upd_same; eassumption|].
      crec x; unfold via_set; cbn in *; destruct xvia; cbn; split; congruence.
    + constructor; cbn; auto; try (intros; discriminate).
      intros c0 t0 a0 Hsd. injection Hsd as <- <- <-. eauto.
    + constructor; cbn; auto; try (intros; discriminate).
      intros c0 t0 a0 Hsd. injection Hsd as <- <- <-. eauto.
  - (* LSdLoad *)
    destruct (sd s) eqn:Esd; try discriminate. destruct (get s c) as [x|] eqn:Hg; try discriminate.
    destruct (Nat.eqb c c0) eqn:E; try discriminate. apply Nat.eqb_eq in E. subst c0.
    destruct (Hfl _ _ _ eq_refl) as [x1 [Hg1 Hin]]. rewrite Hg in Hg1. injection Hg1 as <-.
    destruct (cst x) eqn:Ecst; injection H as <-.
    + constructor; [cbn; assumption | t_count Hg | t_conns Hf Hg
                    | cbn; rewrite Hm; reflexivity | | cbn; intros; discriminate | t_sp Hsp Hg].
      cbn. intros c0 t0 a0 Hsd. injection Hsd as <- <- <-. eexists. split; [unfold get, put in *; cbn; eapply nth_upd_same; eassumption|].
      crec x; cbn in *; split; congruence.
    + constructor; cbn; auto; try (intros; discriminate).
    + constructor; [cbn; assumption | unfold via_set; destruct (sd_via x); t_count Hg | t_conns Hf Hg
                    | cbn; rewrite Hm; reflexivity | | cbn; intros; discriminate | t_sp Hsp Hg].
      cbn. intros c0 t0 a0 Hsd. injection Hsd as <- <- <-. eexists. split; [unfold get, put in *; cbn; eapply nth_upd_same; eassumption|].
      crec x; unfold via_set; cbn in *; destruct xvia; cbn; split; congruence.
  - (* LSdClose *)
    destruct (sd s) eqn:Esd; try discriminate. destruct (get s c) as [x|] eqn:Hg; try discriminate.
    destruct (Nat.eqb c c0) eqn:E; try discriminate. apply Nat.eqb_eq in E. subst c0. injection H as <-.
    destruct (Hcl _ _ _ eq_refl) as [x1 [Hg1 [Hv Hin]]]. rewrite Hg in Hg1. injection Hg1 as <-.
    constructor; [cbn; assumption | t_count Hg | t_conns Hf Hg
                    | cbn; rewrite Hm; reflexivity | cbn; intros; discriminate | cbn; intros; discriminate | t_sp Hsp Hg].
  - (* LSdPassEnd *) brk H; injection H as <-; fin0.
  - (* LSdRetry *) brk H; injection H as <-; fin0.
  - (* LSdTimeout *) brk H; injection H as <-; fin0.
  - (* LSdReturn *) brk H; injection H as <-; fin0.
  - (* LCancel *) brk H; injection H as <-; fin0.
  - (* LAfterClose *) brk H; injection H as <-; fin0.
Qed.

Theorem reach_inv k s : reach GuardNow k s -> inv k s.
Proof. induction 1 as [|s l s' _ IH H]; [apply inv_init|eapply inv_step; eassumption]. Qed.

Lemma reach_run v k s ls s' : reach v k s -> run v k s ls = Some s' -> reach v k s'.
Proof.
  revert s; induction ls as [|l t IH]; intros s R H; cbn in H.
  - injection H as <-. exact R.
  - destruct (step v k s l) as [s1|] eqn:E; [|discriminate]. eapply IH; [eapply reach_step; eassumption|exact H].
Qed.

Lemma reach_get_cinv k s c x : reach GuardNow k s -> get s c = Some x -> cinv k x.
Proof. intros R G. eapply Forall_nthe; [apply (i_conns _ _ (reach_inv _ _ R))|exact G]. Qed.

(* (a) no reachable state has called a nil function value *)
Theorem never_crashes k s : reach GuardNow k s -> crashed s = false.
Proof. intros R. apply (i_crash _ _ (reach_inv _ _ R)). Qed.

(* (b) the counter is the number of live connections; the accept callback is told that number + 1 *)
Theorem counter_exact k s : reach GuardNow k s -> count s = live_count (conns s).
Proof. intros R. apply (i_count _ _ (reach_inv _ _ R)). Qed.
Theorem accept_arg_exact k s c x n : reach GuardNow k s -> get s c = Some x -> acc_arg x = Some n ->
  n = (live_at_cb x + 1)%Z.
Proof. intros R G A. apply (ci_arg _ _ (reach_get_cinv _ _ _ _ R G)). exact A. Qed.
(* the ghost [live_at_cb] really is the live count of the state in which the callback ran *)
Lemma accept_cb_records_live v k s c n ok s' : step v k s (LAcceptCb c n ok) = Some s' ->
  exists x', get s' c = Some x' /\ acc_arg x' = Some n /\ live_at_cb x' = live_count (conns s) /\ n = (count s + 1)%Z.
Proof.
  unfold step. destruct (crashed s); [discriminate|]. destruct (sp s); try discriminate.
  destruct (get s c) as [x|] eqn:G; try discriminate.
  destruct (Nat.eqb c c0 && on_accept k && (n =? count s + 1)%Z) eqn:E; try discriminate.
  intros H. injection H as <-. apply andb_prop in E as [_ E]. apply Z.eqb_eq in E.
  exists (c_acc (Some n) (live_count (conns s)) x). split; [|auto].
  destruct ok; unfold get, put in *; cbn; eapply nth_upd_same; eassumption.
Qed.

(* (c) a rejected connection is closed, not in the map, has seen no close callback, and stays rejected *)
Theorem rejected_closed k s c x : reach GuardNow k s -> get s c = Some x -> ph x = PRejected ->
  sock x = false /\ inmap x = false /\ close_cb x = 0.
Proof.
  intros R G P. pose proof (reach_get_cinv _ _ _ _ R G) as [H1 H2 H3 H4 H5 H6 H7 H8 H9 H10 H11 H12 H13 H14].
  split; [auto|]. split.
  - destruct (inmap x) eqn:E; [|reflexivity]. specialize (H2 eq_refl). rewrite P in H2. discriminate.
  - rewrite H1, P. reflexivity.
Qed.

(* (d) close callback: once iff set when the goroutine is done, zero before; never twice *)
Theorem close_cb_exact k s c x : reach GuardNow k s -> get s c = Some x ->
  close_cb x = match ph x with PDone => if on_close k then 1 else 0 | _ => 0 end.
Proof. intros R G. apply (ci_close _ _ (reach_get_cinv _ _ _ _ R G)). Qed.

(* a rejected connection is never tracked: PRejected is absorbing *)
Ltac t_keep G Hd :=
  match type of Hd with get ?s ?d = Some ?x0 =>
  match type of G with get _ ?c = Some ?x =>
    destruct (Nat.eq_dec d c) as [->|Hne];
    [ rewrite G in Hd; injection Hd as <-;
      first [ congruence
            | eexists; split; [unfold get, put in *; cbn; eapply nth_upd_same; eassumption|];
              crec x; unfold via_set in *; cbn in *; try assumption;
              repeat match goal with |- context [match ?v with ViaNone => _ | _ => _ end] => destruct v; cbn in * end; congruence ]
    | exists x; split; [unfold get, put in *; cbn; rewrite nth_upd_other by assumption; assumption|assumption] ]
  end end.
Ltac same G := eexists; split; [exact G|assumption].

Lemma rejected_stays k s l s' c xr : reach GuardNow k s -> step GuardNow k s l = Some s' ->
  get s c = Some xr -> ph xr = PRejected -> exists x', get s' c = Some x' /\ ph x' = PRejected.
Proof.
  intros R H G P. pose proof (reach_inv _ _ R) as [Hc Hn Hf Hm Hcl Hfl Hsp].
  unfold step in H. rewrite Hc in H. destruct l.
  - brk H. injection H as <-. same G.
  - brk H. injection H as <-. same G.
  - destruct (sp s) eqn:Esp; try discriminate.
    destruct (lis_open s && Nat.eqb c0 (length (conns s))) eqn:Heqb; try discriminate. injection H as <-.
    exists xr. split; [|assumption]. destruct (on_accept k); cbn; apply get_app_old; assumption.
  - destruct (sp s) eqn:Esp; try discriminate. destruct (get s c0) as [x0|] eqn:Hg; try discriminate.
    destruct (Nat.eqb c0 c1 && on_accept k && (n =? count s + 1)%Z) eqn:E; try discriminate.
    injection H as <-. destruct ok; cbn; t_keep G Hg.
  - destruct (sp s) eqn:Esp; try discriminate. destruct (get s c0) as [x0|] eqn:Hg; try discriminate.
    destruct (Nat.eqb c0 c1) eqn:E; try discriminate. injection H as <-. cbn. t_keep G Hg.
  - brk H. injection H as <-. same G.
  - destruct (sp s) eqn:Esp; try discriminate. destruct (get s c0) as [x0|] eqn:Hg; try discriminate.
    destruct (Nat.eqb c0 c1 && negb (mu s)) eqn:E; try discriminate. apply andb_prop in E as [E E2].
    apply Nat.eqb_eq in E. subst c1. injection H as <-.
    destruct (Hsp c0 eq_refl) as [x1 [Hg1 Hp1]]. rewrite Hg in Hg1. injection Hg1 as <-. cbn. t_keep G Hg.
  - brk H; injection H as <-; same G.
  - cs H. brk Hy; injection Hy as <-; t_keep G Hg.
  - cs H. brk Hy; injection Hy as <-; t_keep G Hg.
  - cs H. brk Hy; injection Hy as <-; t_keep G Hg.
  - cs H. brk Hy; injection Hy as <-; t_keep G Hg.
  - cs H. brk Hy; injection Hy as <-; t_keep G Hg.
  - cs H. brk Hy; injection Hy as <-; t_keep G Hg.
  - cs H. brk Hy; injection Hy as <-; t_keep G Hg.
  - destruct (get s c0) as [x0|] eqn:Hg; try discriminate. brk H; injection H as <-; cbn; t_keep G Hg.
  - destruct (get s c0) as [x0|] eqn:Hg; try discriminate. brk H; injection H as <-; cbn; t_keep G Hg.
  - cs H. brk Hy; injection Hy as <-; t_keep G Hg.
  - cs H. brk Hy; injection Hy as <-; t_keep G Hg.
  - destruct (mu s) eqn:Emu; try discriminate.
    destruct (conn_step s c0 PExited _) as [s1|] eqn:E1; try discriminate. injection H as <-.
    cs E1. injection Hy as <-. cbn. t_keep G Hg.
  - destruct (conn_step s c0 PUntracked _) as [s1|] eqn:E1; try discriminate.
    cs E1. injection Hy as <-. unfold close_guard in *.
    destruct (on_close k) eqn:Eoc; cbn in H; injection H as <-; t_keep G Hg.
  - brk H; injection H as <-; same G.
  - brk H; injection H as <-; same G.
  - destruct (sd s) eqn:Esd; try discriminate. destruct (get s c0) as [x0|] eqn:Hg; try discriminate.
    destruct (mem_nat c0 todo && inmap x0) eqn:E; try discriminate.
    destruct (cst x0) eqn:Ecst; injection H as <-; cbn; first [same G | t_keep G Hg].
  - destruct (sd s) eqn:Esd; try discriminate. destruct (get s c0) as [x0|] eqn:Hg; try discriminate.
    destruct (Nat.eqb c0 c1) eqn:E; try discriminate.
    destruct (cst x0) eqn:Ecst; injection H as <-; cbn; first [same G | t_keep G Hg].
  - destruct (sd s) eqn:Esd; try discriminate. destruct (get s c0) as [x0|] eqn:Hg; try discriminate.
    destruct (Nat.eqb c0 c1) eqn:E; try discriminate. injection H as <-; cbn; t_keep G Hg.
  - brk H; injection H as <-; same G.
  - brk H; injection H as <-; same G.
  - brk H; injection H as <-; same G.
  - brk H; injection H as <-; same G.
  - brk H; injection H as <-; same G.
  - brk H; injection H as <-; same G.
Qed.
