(* LifecycleProofs.v -- invariants of the server life-cycle LTS (LifecycleModel.v), proved by induction
   over arbitrary step sequences, for every callback configuration and any number of connections. *)
Require Import MB.LifecycleModel.
From Coq Require Import List Arith ZArith Bool Lia.
Import ListNotations.

(* ---------- list helpers ---------- *)
Lemma nth_upd_same cs c x y : nth_error cs c = Some x -> nth_error (upd cs c y) c = Some y.
Proof. revert c; induction cs as [|h t IH]; intros [|c] H; cbn in *; try discriminate; auto. Qed.
Lemma nth_upd_other cs c d y : c <> d -> nth_error (upd cs c y) d = nth_error cs d.
Proof. revert c d; induction cs as [|h t IH]; intros [|c] [|d] H; cbn; auto; try congruence. Qed.
Lemma upd_length cs c y : length (upd cs c y) = length cs.
Proof. revert c; induction cs as [|h t IH]; intros [|c]; cbn; auto. Qed.
Lemma Forall_upd (P : conn -> Prop) cs c y : Forall P cs -> P y -> Forall P (upd cs c y).
Proof.
  revert c; induction cs as [|h t IH]; intros [|c] H Hy; cbn; auto.
  - constructor; [assumption|]. apply Forall_inv_tail in H; assumption.
  - constructor; [apply Forall_inv in H; assumption|]. apply IH; [apply Forall_inv_tail in H; assumption|assumption].
Qed.
Lemma Forall_nthe (P : conn -> Prop) cs c x : Forall P cs -> nth_error cs c = Some x -> P x.
Proof. intros H Hn. rewrite Forall_forall in H. apply H. eapply nth_error_In; eassumption. Qed.

Definition lv (x : conn) : Z := if is_live (ph x) then 1%Z else 0%Z.
Lemma live_count_upd cs c x y : nth_error cs c = Some x ->
  live_count (upd cs c y) = (live_count cs - lv x + lv y)%Z.
Proof.
  revert c; induction cs as [|h t IH]; intros [|c] H; cbn in *; try discriminate.
  - injection H as ->. unfold lv. lia.
  - rewrite (IH _ H). lia.
Qed.
Lemma live_count_app cs x : live_count (cs ++ [x]) = (live_count cs + lv x)%Z.
Proof. induction cs as [|h t IH]; cbn; [unfold lv; lia|rewrite IH; lia]. Qed.

Lemma get_put_same s c x y : get s c = Some x -> get (put s c y) c = Some y.
Proof. unfold get, put; cbn. apply nth_upd_same. Qed.
Lemma get_put_other s c d y : c <> d -> get (put s c y) d = get s d.
Proof. unfold get, put; cbn. apply nth_upd_other. Qed.

Lemma conn_step_some s c p f s' : conn_step s c p f = Some s' ->
  exists x y, get s c = Some x /\ pend_err x = false /\ ph x = p /\ f x = Some y /\ s' = put s c y.
Proof.
  unfold conn_step. destruct (get s c) as [x|] eqn:G; [|discriminate].
  destruct (pend_err x) eqn:Ep; cbn [negb andb]; [discriminate|].
  destruct (ph x) eqn:Ex; destruct p; try discriminate;
    (destruct (f x) as [y|] eqn:F; [|discriminate]; intros H; injection H as <-; exists x, y; auto).
Qed.

(* ---------- the per-connection invariant ---------- *)
Definition handling_ph (p : phase) : bool := match p with PHandling | PInHandler | PReplied => true | _ => false end.
Definition pre_exit (p : phase) : bool :=
  match p with PIdle | PReadDone | PHandling | PInHandler | PReplied | PLeaving => true | _ => false end.

Record cinv (k : cfg) (x : conn) : Prop := {
  ci_close : close_cb x = match ph x with PDone | PDropped => if on_close k then 1 else 0 | _ => 0 end;
  ci_inmap : inmap x = true -> is_live (ph x) = true;
  ci_hand : handling_ph (ph x) = true -> cst x = CHandling;
  ci_owedph : owed x <> [] -> ph x = PInHandler \/ (ph x = PHandling /\ resp x = true);
  ci_rej : ph x = PRejected \/ ph x = PDropping \/ ph x = PDropped -> sock x = false;
  ci_del : is_live (ph x) = true -> inmap x = false -> sock x = false;
  ci_via : sd_via x <> ViaNone -> cst x = CClosed;
  ci_sock : sock x = false -> pre_exit (ph x) = true -> sd_via x <> ViaNone;
  ci_lost : lost x = 0;
  ci_arg : forall n, acc_arg x = Some n -> n = (live_at_cb x + 1)%Z;
  ci_acc : ph x = PAccepted -> sock x = true /\ sd_via x = ViaNone;
  ci_handconv : cst x = CHandling -> handling_ph (ph x) = true \/ ph x = PLeaving
}.

Definition sd_busy (p : sdpc) : bool :=
  match p with SdPass _ _ | SdFailed _ _ _ | SdClosing _ _ _ | SdWait => true | _ => false end.

Definition sp_conn (p : spc) : option nat :=
  match p with SAccepted c | SRejected c | SPassed c | STrack c | SDrop c _ => Some c | _ => None end.

(* serve has closed connection c on one of its drop paths and still has to report it *)
Definition sp_dropping (p : spc) : option nat :=
  match p with SDropCb c _ => Some c | SErrCb c (S _) => Some c | _ => None end.

Record inv (k : cfg) (s : state) : Prop := {
  i_crash : crashed s = false;
  i_count : count s = live_count (conns s);
  i_conns : Forall (cinv k) (conns s);
  i_mu : mu s = sd_busy (sd s);
  i_closing : forall c t a, sd s = SdClosing c t a -> exists x, get s c = Some x /\ sd_via x <> ViaNone /\ inmap x = true;
  i_failed : forall c t a, sd s = SdFailed c t a -> exists x, get s c = Some x /\ inmap x = true;
  i_sp : forall c, sp_conn (sp s) = Some c -> exists x, get s c = Some x /\ ph x = PAccepted;
  i_spd : forall c, sp_dropping (sp s) = Some c -> exists x, get s c = Some x /\ ph x = PDropping
}.

Lemma cinv_new k : cinv k new_conn.
Proof. constructor; cbn; intros; try discriminate; try congruence; auto; intuition discriminate. Qed.

Lemma inv_init k : inv k init.
Proof. constructor; cbn; auto; intros; discriminate. Qed.

(* a connection transformation that is compatible with the invariant *)
Ltac crec x := destruct x as [xph xcst xsock xinmap xresp xcc xpan xpend xcb xacc xlive xst xrep xowed xlost xvia].

Ltac cinv_tac :=
  match goal with
  | H : cinv _ ?x |- cinv _ _ =>
      destruct H as [H1 H2 H3 H4 H5 H6 H7 H8 H9 H10 H11 H12]; crec x; unfold via_set in *; cbn in *; subst;
      constructor; cbn in *; intros;
      try match goal with E : on_close ?k = _ |- context [on_close ?k] => rewrite E end;
      repeat match goal with
             | |- context [match ?v with ViaNone => _ | _ => _ end] => destruct v; cbn in *
             | H : context [match ?v with ViaNone => _ | _ => _ end] |- _ => destruct v; cbn in *
             end;
      try congruence; try discriminate; auto;
      try (repeat match goal with Hx : ?a = ?a -> _ |- _ => specialize (Hx eq_refl) end; subst; cbn in *;
           first [congruence | discriminate]);
      try (intuition (try congruence; try discriminate; auto); fail)
  end.

Lemma get_app_new s c x : get (s_conns (conns s ++ [new_conn]) s) c = Some x ->
  get s c = Some x \/ (c = length (conns s) /\ x = new_conn).
Proof.
  unfold get; cbn. intros H. destruct (Nat.lt_ge_cases c (length (conns s))) as [L|L].
  - rewrite nth_error_app1 in H by assumption. auto.
  - rewrite nth_error_app2 in H by assumption. destruct (c - length (conns s)) eqn:E; cbn in H.
    + injection H as <-. right. split; [lia|reflexivity].
    + destruct n; discriminate.
Qed.
Lemma get_lt s c x : get s c = Some x -> c < length (conns s).
Proof. unfold get. intros H. apply nth_error_Some. congruence. Qed.
Lemma get_app_old s c x : get s c = Some x -> get (s_conns (conns s ++ [new_conn]) s) c = Some x.
Proof. intros H. unfold get; cbn. rewrite nth_error_app1; [exact H|eapply get_lt; eassumption]. Qed.

(* ---------- the invariant is preserved by every step of the current code ---------- *)
Ltac brk H :=
  repeat match type of H with
         | context [match ?e with _ => _ end] => destruct e eqn:?; try discriminate
         end.

(* closing tactic for a step that rewrites connection d (Hd : get s d = Some x) and leaves the list length *)
Ltac t_count Hd :=
  cbn; rewrite (live_count_upd _ _ _ _ Hd); unfold lv; cbn;
  repeat match goal with H : ph _ = _ |- _ => rewrite H end; cbn; lia.

Ltac t_conns Hf Hd :=
  cbn; apply Forall_upd; [exact Hf | pose proof (Forall_nthe _ _ _ _ Hf Hd) as Hx; cinv_tac].

Ltac t_closing Hcl Hd :=
  cbn; intros c0 t0 a0 Hsd; try (exfalso; rewrite Hsd in *; discriminate);
  destruct (Hcl _ _ _ Hsd) as [x0 [Hg0 Hv0]];
  match type of Hd with get ?s ?d = Some ?x =>
    destruct (Nat.eq_dec d c0) as [->|Hne];
    [ rewrite Hg0 in Hd; injection Hd as <-; eexists; split; [unfold get, put in *; cbn; eapply nth_upd_same; eassumption|];
      crec x0; unfold via_set in *; cbn in *; try assumption;
      repeat match goal with |- context [match ?v with ViaNone => _ | _ => _ end] => destruct v; cbn in * end;
      intuition congruence
    | exists x0; split; [unfold get, put in *; cbn; rewrite nth_upd_other by assumption; assumption|assumption] ]
  end.

Ltac t_sp Hsp Hd :=
  cbn; intros c0 Hc0;
  destruct (Hsp _ Hc0) as [x0 [Hg0 Hp0]];
  match type of Hd with get ?s ?d = Some ?x =>
    destruct (Nat.eq_dec d c0) as [->|Hne];
    [ rewrite Hg0 in Hd; injection Hd as <-;
      first [ congruence
            | eexists; split; [unfold get, put in *; cbn; eapply nth_upd_same; eassumption|];
              crec x0; unfold via_set in *; cbn in *; try assumption;
              repeat match goal with |- context [match ?v with ViaNone => _ | _ => _ end] => destruct v; cbn in * end; congruence ]
    | exists x0; split; [unfold get, put in *; cbn; rewrite nth_upd_other by assumption; assumption|assumption] ]
  end.

Ltac t_spd Hspd Hd := t_sp Hspd Hd.

Ltac unf H := unfold step, GuardNow in H; cbn [v_guard_old v_load_old v_track_old v_drop_old v_nil_old v_raw_err v_map_reset] in H.

Ltac fin0 := constructor; cbn; auto; try congruence; try (intros; discriminate).
Ltac fin Hc Hn Hf Hm Hcl Hfl Hsp Hspd Hg :=
  constructor; [cbn; assumption | t_count Hg | t_conns Hf Hg | cbn; congruence | t_closing Hcl Hg | t_closing Hfl Hg | t_sp Hsp Hg | t_spd Hspd Hg].
Ltac cs H := apply conn_step_some in H as (x & y & Hg & Hpe & Hph & Hy & ->).

Lemma inv_step k s l s' : inv k s -> step GuardNow k s l = Some s' -> inv k s'.
Proof.
  intros [Hc Hn Hf Hm Hcl Hfl Hsp Hspd] H. unf H. rewrite Hc in H.
  destruct l.
  - (* LServeCb *) brk H. injection H as <-. fin0.
  - (* LPublish *) brk H; injection H as <-; fin0.
  - (* LAccept *) destruct (sp s) eqn:Esp; try discriminate.
    destruct (lis_open s && Nat.eqb c (length (conns s))) eqn:Heqb; try discriminate. injection H as <-.
    apply andb_prop in Heqb as [Hlo Hcl0]. apply Nat.eqb_eq in Hcl0. subst c.
    constructor; cbn.
    + destruct (on_accept k); cbn; assumption.
    + destruct (on_accept k); cbn; rewrite live_count_app; unfold lv; cbn; lia.
    + destruct (on_accept k); cbn; (apply Forall_app; split; [assumption|constructor; [apply cinv_new|constructor]]).
    + destruct (on_accept k); cbn; assumption.
    + intros c0 t0 a0 Hsd. assert (Hsd' : sd s = SdClosing c0 t0 a0) by (destruct (on_accept k); exact Hsd).
      destruct (Hcl _ _ _ Hsd') as [x0 [Hg0 Hv0]]. exists x0. split; [|assumption].
      destruct (on_accept k); cbn; apply get_app_old; assumption.
    + intros c0 t0 a0 Hsd. assert (Hsd' : sd s = SdFailed c0 t0 a0) by (destruct (on_accept k); exact Hsd).
      destruct (Hfl _ _ _ Hsd') as [x0 [Hg0 Hv0]]. exists x0. split; [|assumption].
      destruct (on_accept k); cbn; apply get_app_old; assumption.
    + intros c0 Hc0. exists new_conn. split; [|reflexivity].
      assert (c0 = length (conns s)) by (destruct (on_accept k); cbn in Hc0; congruence). subst c0.
      destruct (on_accept k); unfold get; cbn; rewrite nth_error_app2 by lia; rewrite Nat.sub_diag; reflexivity.
    + intros c0 Hc0. destruct (on_accept k); discriminate.
  - (* LAcceptCb *)
    destruct (sp s) eqn:Esp; try discriminate. destruct (get s c) as [x|] eqn:Hg; try discriminate.
    destruct (Nat.eqb c c0 && on_accept k && (n =? count s + 1)%Z) eqn:E; try discriminate.
    injection H as <-. apply andb_prop in E as [E E3]. apply andb_prop in E as [E1 E2].
    apply Nat.eqb_eq in E1. apply Z.eqb_eq in E3. subst c0 n.
    destruct (Hsp c eq_refl) as [x1 [Hg1 Hp1]]. rewrite Hg in Hg1. injection Hg1 as <-.
    constructor.
    + destruct ok; cbn; assumption.
    + destruct ok; t_count Hg.
    + destruct ok; cbn; (apply Forall_upd; [exact Hf|]); pose proof (Forall_nthe _ _ _ _ Hf Hg) as Hx;
        (destruct Hx as [H1 H2 H3 H4 H5 H6 H7 H8 H9 H10 H11 H12]; crec x; cbn in *; constructor; cbn; auto;
         intros n Hn'; injection Hn' as <-; rewrite Hn; reflexivity).
    + destruct ok; cbn; congruence.
    + destruct ok; t_closing Hcl Hg.
    + destruct ok; t_closing Hfl Hg.
    + destruct ok; cbn; intros c0 Hc0; injection Hc0 as <-; eexists; (split; [unfold get, put in *; cbn; eapply nth_upd_same; eassumption|]);
        crec x; cbn in *; assumption.
    + destruct ok; cbn; intros; discriminate.
  - (* LRejectClose *)
    destruct (sp s) eqn:Esp; try discriminate. destruct (get s c) as [x|] eqn:Hg; try discriminate.
    destruct (Nat.eqb c c0) eqn:E; try discriminate. apply Nat.eqb_eq in E. subst c0. injection H as <-.
    destruct (Hsp c eq_refl) as [x1 [Hg1 Hp1]]. rewrite Hg in Hg1. injection Hg1 as <-.
    constructor; [cbn; assumption | t_count Hg | t_conns Hf Hg | cbn; congruence | t_closing Hcl Hg | t_closing Hfl Hg | cbn; intros; discriminate | cbn; intros; discriminate].
  - (* LCtxPass *) brk H. injection H as <-. apply andb_prop in Heqb as [E _]. apply Nat.eqb_eq in E. subst c0.
    constructor; cbn; auto; try (intros; discriminate); intros c0 Hc0; injection Hc0 as <-; apply Hsp; reflexivity.
  - (* LCtxDone *) brk H. injection H as <-. apply andb_prop in Heqb as [E _]. apply andb_prop in E as [E _]. apply Nat.eqb_eq in E. subst c0.
    constructor; cbn; auto; try (intros; discriminate); intros c0 Hc0; injection Hc0 as <-; apply Hsp; reflexivity.
  - (* LTrack *)
    destruct (sp s) eqn:Esp; try discriminate. destruct (get s c) as [x|] eqn:Hg; try discriminate.
    destruct (Nat.eqb c c0 && negb (mu s)) eqn:E; try discriminate. apply andb_prop in E as [E E2].
    apply Nat.eqb_eq in E. subst c0.
    destruct (Hsp c eq_refl) as [x1 [Hg1 Hp1]]. rewrite Hg in Hg1. injection Hg1 as <-.
    destruct (shut s && negb false) eqn:Esh; injection H as <-.
    + constructor; cbn; auto; try (intros; discriminate); intros c0 Hc0; injection Hc0 as <-; eauto.
    + constructor; [cbn; assumption | t_count Hg | t_conns Hf Hg | cbn; congruence | t_closing Hcl Hg | t_closing Hfl Hg
                    | cbn; intros; discriminate | cbn; intros; discriminate].
  - (* LDropClose *)
    destruct (sp s) eqn:Esp; try discriminate. destruct (get s c) as [x|] eqn:Hg; try discriminate.
    destruct (Nat.eqb c c0) eqn:E; try discriminate. apply Nat.eqb_eq in E. subst c0. injection H as <-.
    destruct (Hsp c eq_refl) as [x1 [Hg1 Hp1]]. rewrite Hg in Hg1. injection Hg1 as <-.
    constructor; [cbn; assumption | t_count Hg | t_conns Hf Hg | cbn; congruence | t_closing Hcl Hg | t_closing Hfl Hg
                  | cbn; intros; discriminate | ].
    cbn. intros c0 Hc0. injection Hc0 as <-. eexists. split; [unfold get, put in *; cbn; eapply nth_upd_same; eassumption|reflexivity].
  - (* LDropCb *)
    destruct (sp s) eqn:Esp; try discriminate. destruct (get s c) as [x|] eqn:Hg; try discriminate.
    destruct (Nat.eqb c c0) eqn:E; try discriminate. apply Nat.eqb_eq in E. subst c0. injection H as <-.
    destruct (Hspd c eq_refl) as [x1 [Hg1 Hp1]]. rewrite Hg in Hg1. injection Hg1 as <-.
    destruct (on_close k) eqn:Eoc; destruct ret;
    (constructor; [cbn; assumption | t_count Hg | t_conns Hf Hg | cbn; congruence | t_closing Hcl Hg | t_closing Hfl Hg
                  | cbn; intros; discriminate | cbn; intros; discriminate]).
  - (* LServeReturn *) brk H; injection H as <-; fin0.
  - (* LConnRead *) cs H. brk Hy; injection Hy as <-; fin Hc Hn Hf Hm Hcl Hfl Hsp Hspd Hg.
  - (* LConnCtxExit *) cs H. brk Hy; injection Hy as <-; fin Hc Hn Hf Hm Hcl Hfl Hsp Hspd Hg.
  - (* LHandleStart *) cs H. brk Hy; injection Hy as <-; fin Hc Hn Hf Hm Hcl Hfl Hsp Hspd Hg.
  - (* LHandlerStart *) cs H. brk Hy; injection Hy as <-; fin Hc Hn Hf Hm Hcl Hfl Hsp Hspd Hg.
  - (* LHandlerEnd *) cs H. brk Hy; injection Hy as <-; fin Hc Hn Hf Hm Hcl Hfl Hsp Hspd Hg.
  - (* LProtoReply *) cs H. brk Hy; injection Hy as <-; fin Hc Hn Hf Hm Hcl Hfl Hsp Hspd Hg.
  - (* LReplyWrite *) cs H. brk Hy; injection Hy as <-; fin Hc Hn Hf Hm Hcl Hfl Hsp Hspd Hg.
  - (* LHandleEnd *)
    destruct (get s c) as [x|] eqn:Hg; try discriminate. brk H; injection H as <-; fin Hc Hn Hf Hm Hcl Hfl Hsp Hspd Hg.
  - (* LErrCb *)
    destruct (get s c) as [x|] eqn:Hg; try discriminate. brk H; injection H as <-; fin Hc Hn Hf Hm Hcl Hfl Hsp Hspd Hg.
  - (* LConnLeave *) cs H. brk Hy; injection Hy as <-; fin Hc Hn Hf Hm Hcl Hfl Hsp Hspd Hg.
  - (* LConnExit *) cs H. brk Hy; injection Hy as <-; fin Hc Hn Hf Hm Hcl Hfl Hsp Hspd Hg.
  - (* LUntrack *)
    destruct (mu s) eqn:Emu; try discriminate.
    destruct (conn_step s c PExited _) as [s1|] eqn:E1; try discriminate. injection H as <-.
    cs E1. injection Hy as <-. fin Hc Hn Hf Hm Hcl Hfl Hsp Hspd Hg.
  - (* LCloseCb *)
    destruct (conn_step s c PUntracked _) as [s1|] eqn:E1; try discriminate.
    cs E1. injection Hy as <-. unfold close_guard in *. cbn [v_guard_old] in *.
    destruct (on_close k) eqn:Eoc; cbn in H; injection H as <-; fin Hc Hn Hf Hm Hcl Hfl Hsp Hspd Hg.
  - (* LSdCall *) brk H; injection H as <-; fin0.
  - (* LSdBegin *) brk H; injection H as <-; fin0.
  - (* LSdCas *)
    destruct (sd s) eqn:Esd; try discriminate. destruct (get s c) as [x|] eqn:Hg; try discriminate.
    destruct (mem_nat c todo && inmap x) eqn:E; try discriminate. apply andb_prop in E as [E1 E2].
    destruct (cst x) eqn:Ecst; injection H as <-.
    + constructor; [cbn; assumption | unfold via_set; destruct (sd_via x); t_count Hg | t_conns Hf Hg
                    | cbn; rewrite Hm; reflexivity | | cbn; intros; discriminate | t_sp Hsp Hg | t_spd Hspd Hg].
      cbn. intros c0 t0 a0 Hsd. injection Hsd as <- <- <-. eexists. split; [unfold get, put in *; cbn; eapply nth_upd_same; eassumption|].
      crec x; unfold via_set; cbn in *; destruct xvia; cbn; split; congruence.
    + constructor; cbn; auto; try (intros; discriminate).
      intros c0 t0 a0 Hsd. injection Hsd as <- <- <-. eauto.
    + constructor; cbn; auto; try (intros; discriminate).
      intros c0 t0 a0 Hsd. injection Hsd as <- <- <-. eauto.
  - (* LSdLoad *)
    destruct (sd s) eqn:Esd; try discriminate. destruct (get s c) as [x|] eqn:Hg; try discriminate.
    destruct (Nat.eqb c c0) eqn:E; try discriminate. apply Nat.eqb_eq in E. subst c0.
    destruct (Hfl _ _ _ eq_refl) as [x1 [Hg1 Hin]]. rewrite Hg in Hg1. injection Hg1 as <-.
    destruct (cst x) eqn:Ecst; injection H as <-.
    + constructor; cbn; auto; try (intros; discriminate).
    + constructor; cbn; auto; try (intros; discriminate).
    + constructor; [cbn; assumption | unfold via_set; destruct (sd_via x); t_count Hg | t_conns Hf Hg
                    | cbn; rewrite Hm; reflexivity | | cbn; intros; discriminate | t_sp Hsp Hg | t_spd Hspd Hg].
      cbn. intros c0 t0 a0 Hsd. injection Hsd as <- <- <-. eexists. split; [unfold get, put in *; cbn; eapply nth_upd_same; eassumption|].
      crec x; unfold via_set; cbn in *; destruct xvia; cbn; split; congruence.
  - (* LSdClose *)
    destruct (sd s) eqn:Esd; try discriminate. destruct (get s c) as [x|] eqn:Hg; try discriminate.
    destruct (Nat.eqb c c0) eqn:E; try discriminate. apply Nat.eqb_eq in E. subst c0. injection H as <-.
    destruct (Hcl _ _ _ eq_refl) as [x1 [Hg1 [Hv Hin]]]. rewrite Hg in Hg1. injection Hg1 as <-.
    constructor; [cbn; assumption | t_count Hg | t_conns Hf Hg
                    | cbn; rewrite Hm; reflexivity | cbn; intros; discriminate | cbn; intros; discriminate | t_sp Hsp Hg | t_spd Hspd Hg].
  - (* LSdPassEnd *) brk H; injection H as <-; fin0.
  - (* LSdRetry *) brk H; injection H as <-; fin0.
  - (* LSdTimeout *) brk H; injection H as <-; fin0.
  - (* LSdReturn *) brk H; injection H as <-; fin0.
  - (* LCancel *) brk H; injection H as <-; fin0.
  - (* LAfterClose *) brk H; injection H as <-; fin0.
  - (* LRejectCloseErr *)
    destruct (sp s) eqn:Esp; try discriminate. destruct (get s c) as [x|] eqn:Hg; try discriminate.
    destruct (Nat.eqb c c0) eqn:E; try discriminate. apply Nat.eqb_eq in E. subst c0. injection H as <-.
    destruct (Hsp c eq_refl) as [x1 [Hg1 Hp1]]. rewrite Hg in Hg1. injection Hg1 as <-.
    constructor; [cbn; assumption | t_count Hg | t_conns Hf Hg | cbn; congruence | t_closing Hcl Hg | t_closing Hfl Hg | cbn; intros; discriminate | cbn; intros; discriminate].
  - (* LDropCloseErr *)
    destruct (sp s) eqn:Esp; try discriminate. destruct (get s c) as [x|] eqn:Hg; try discriminate.
    destruct (Nat.eqb c c0) eqn:E; try discriminate. apply Nat.eqb_eq in E. subst c0. injection H as <-.
    destruct (Hsp c eq_refl) as [x1 [Hg1 Hp1]]. rewrite Hg in Hg1. injection Hg1 as <-.
    constructor; [cbn; assumption | t_count Hg | t_conns Hf Hg | cbn; congruence | t_closing Hcl Hg | t_closing Hfl Hg
                  | cbn; intros; discriminate | ].
    cbn. intros c0 Hc0. assert (c0 = c) by (destruct ret; cbn in Hc0; congruence). subst c0.
    eexists. split; [unfold get, put in *; cbn; eapply nth_upd_same; eassumption|reflexivity].
  - (* LConnExitErr *) cs H. brk Hy; injection Hy as <-; fin Hc Hn Hf Hm Hcl Hfl Hsp Hspd Hg.
  - (* LServeErrCb *)
    destruct (sp s) eqn:Esp; try discriminate. destruct (Nat.eqb c c0) eqn:E; try discriminate.
    apply Nat.eqb_eq in E. subst c0. cbn in H. injection H as <-.
    destruct next as [|[|n]]; (constructor; cbn; auto; try (intros; discriminate);
      intros c1 Hc1; injection Hc1 as <-; apply (Hspd c); reflexivity).
  - (* LReServe *) brk H; injection H as <-; fin0.
Qed.

Theorem reach_inv k s : reach GuardNow k s -> inv k s.
Proof. induction 1 as [|s l s' _ IH H]; [apply inv_init|eapply inv_step; eassumption]. Qed.

Lemma reach_run v k s ls s' : reach v k s -> run v k s ls = Some s' -> reach v k s'.
Proof.
  revert s; induction ls as [|l t IH]; intros s R H; cbn in H.
  - injection H as <-. exact R.
  - destruct (step v k s l) as [s1|] eqn:E; [|discriminate]. eapply IH; [eapply reach_step; eassumption|exact H].
Qed.

Lemma reach_get_cinv k s c x : reach GuardNow k s -> get s c = Some x -> cinv k x.
Proof. intros R G. eapply Forall_nthe; [apply (i_conns _ _ (reach_inv _ _ R))|exact G]. Qed.

(* (a) no reachable state has called a nil function value *)
Theorem never_crashes k s : reach GuardNow k s -> crashed s = false.
Proof. intros R. apply (i_crash _ _ (reach_inv _ _ R)). Qed.

(* (b) the counter is the number of live connections; the accept callback is told that number + 1 *)
Theorem counter_exact k s : reach GuardNow k s -> count s = live_count (conns s).
Proof. intros R. apply (i_count _ _ (reach_inv _ _ R)). Qed.
Theorem accept_arg_exact k s c x n : reach GuardNow k s -> get s c = Some x -> acc_arg x = Some n ->
  n = (live_at_cb x + 1)%Z.
Proof. intros R G A. apply (ci_arg _ _ (reach_get_cinv _ _ _ _ R G)). exact A. Qed.
(* the ghost [live_at_cb] really is the live count of the state in which the callback ran *)
Lemma accept_cb_records_live v k s c n ok s' : step v k s (LAcceptCb c n ok) = Some s' ->
  exists x', get s' c = Some x' /\ acc_arg x' = Some n /\ live_at_cb x' = live_count (conns s) /\ n = (count s + 1)%Z.
Proof.
  unfold step. destruct (crashed s); [discriminate|]. destruct (sp s); try discriminate.
  destruct (get s c) as [x|] eqn:G; try discriminate.
  destruct (Nat.eqb c c0 && on_accept k && (n =? count s + 1)%Z) eqn:E; try discriminate.
  intros H. injection H as <-. apply andb_prop in E as [_ E]. apply Z.eqb_eq in E.
  exists (c_acc (Some n) (live_count (conns s)) x). split; [|auto].
  destruct ok; unfold get, put in *; cbn; eapply nth_upd_same; eassumption.
Qed.

(* (c) a rejected connection is closed, not in the map, has seen no close callback, and stays rejected *)
Theorem rejected_closed k s c x : reach GuardNow k s -> get s c = Some x -> ph x = PRejected ->
  sock x = false /\ inmap x = false /\ close_cb x = 0.
Proof.
  intros R G P. pose proof (reach_get_cinv _ _ _ _ R G) as [H1 H2 H3 H4 H5 H6 H7 H8 H9 H10 H11 H12].
  split; [apply H5; left; exact P|]. split.
  - destruct (inmap x) eqn:E; [|reflexivity]. specialize (H2 eq_refl). rewrite P in H2. discriminate.
  - rewrite H1, P. reflexivity.
Qed.

(* a connection that was let through but is not served (context cancelled while it was being accepted,
   or Shutdown ran before it could be tracked) is closed by serve and is reported to the close callback
   exactly once iff that is set *)
Theorem dropped_closed k s c x : reach GuardNow k s -> get s c = Some x -> ph x = PDropped ->
  sock x = false /\ inmap x = false /\ close_cb x = (if on_close k then 1 else 0).
Proof.
  intros R G P. pose proof (reach_get_cinv _ _ _ _ R G) as [H1 H2 H3 H4 H5 H6 H7 H8 H9 H10 H11 H12].
  split; [apply H5; right; right; exact P|]. split.
  - destruct (inmap x) eqn:E; [|reflexivity]. specialize (H2 eq_refl). rewrite P in H2. discriminate.
  - rewrite H1, P. reflexivity.
Qed.

(* (d) close callback: once iff set when the goroutine is done, zero before; never twice *)
Theorem close_cb_exact k s c x : reach GuardNow k s -> get s c = Some x ->
  close_cb x = match ph x with PDone | PDropped => if on_close k then 1 else 0 | _ => 0 end.
Proof. intros R G. apply (ci_close _ _ (reach_get_cinv _ _ _ _ R G)). Qed.

(* a rejected connection is never tracked: PRejected is absorbing *)
Ltac t_keep G Hd :=
  match type of Hd with get ?s ?d = Some ?x0 =>
  match type of G with get _ ?c = Some ?x =>
    destruct (Nat.eq_dec d c) as [->|Hne];
    [ rewrite G in Hd; injection Hd as <-;
      first [ congruence
            | eexists; split; [unfold get, put in *; cbn; eapply nth_upd_same; eassumption|];
              crec x; unfold via_set in *; cbn in *; try assumption;
              repeat match goal with |- context [match ?v with ViaNone => _ | _ => _ end] => destruct v; cbn in * end; congruence ]
    | exists x; split; [unfold get, put in *; cbn; rewrite nth_upd_other by assumption; assumption|assumption] ]
  end end.
Ltac same G := eexists; split; [exact G|assumption].

Lemma rejected_stays k s l s' c xr : reach GuardNow k s -> step GuardNow k s l = Some s' ->
  get s c = Some xr -> ph xr = PRejected -> exists x', get s' c = Some x' /\ ph x' = PRejected.
Proof.
  intros R H G P. pose proof (reach_inv _ _ R) as [Hc Hn Hf Hm Hcl Hfl Hsp Hspd].
  unf H. rewrite Hc in H. destruct l.
  - brk H. injection H as <-. same G.
  - brk H; injection H as <-; same G.
  - destruct (sp s) eqn:Esp; try discriminate.
    destruct (lis_open s && Nat.eqb c0 (length (conns s))) eqn:Heqb; try discriminate. injection H as <-.
    exists xr. split; [|assumption]. destruct (on_accept k); cbn; apply get_app_old; assumption.
  - destruct (sp s) eqn:Esp; try discriminate. destruct (get s c0) as [x0|] eqn:Hg; try discriminate.
    destruct (Nat.eqb c0 c1 && on_accept k && (n =? count s + 1)%Z) eqn:E; try discriminate.
    injection H as <-. destruct ok; cbn; t_keep G Hg.
  - destruct (sp s) eqn:Esp; try discriminate. destruct (get s c0) as [x0|] eqn:Hg; try discriminate.
    destruct (Nat.eqb c0 c1) eqn:E; try discriminate. injection H as <-. cbn. t_keep G Hg.
  - brk H. injection H as <-. same G.
  - brk H. injection H as <-. same G.
  - destruct (sp s) eqn:Esp; try discriminate. destruct (get s c0) as [x0|] eqn:Hg; try discriminate.
    destruct (Nat.eqb c0 c1 && negb (mu s)) eqn:E; try discriminate. apply andb_prop in E as [E E2].
    apply Nat.eqb_eq in E. subst c1.
    destruct (Hsp c0 eq_refl) as [x1 [Hg1 Hp1]]. rewrite Hg in Hg1. injection Hg1 as <-.
    destruct (shut s && negb false); injection H as <-; [same G|cbn; t_keep G Hg].
  - destruct (sp s) eqn:Esp; try discriminate. destruct (get s c0) as [x0|] eqn:Hg; try discriminate.
    destruct (Nat.eqb c0 c1) eqn:E; try discriminate. apply Nat.eqb_eq in E. subst c1. injection H as <-.
    destruct (Hsp c0 eq_refl) as [x1 [Hg1 Hp1]]. rewrite Hg in Hg1. injection Hg1 as <-. cbn. t_keep G Hg.
  - destruct (sp s) eqn:Esp; try discriminate. destruct (get s c0) as [x0|] eqn:Hg; try discriminate.
    destruct (Nat.eqb c0 c1) eqn:E; try discriminate. apply Nat.eqb_eq in E. subst c1. injection H as <-.
    destruct (Hspd c0 eq_refl) as [x1 [Hg1 Hp1]]. rewrite Hg in Hg1. injection Hg1 as <-.
    destruct (on_close k); destruct ret; cbn; t_keep G Hg.
  - brk H; injection H as <-; same G.
  - cs H. brk Hy; injection Hy as <-; t_keep G Hg.
  - cs H. brk Hy; injection Hy as <-; t_keep G Hg.
  - cs H. brk Hy; injection Hy as <-; t_keep G Hg.
  - cs H. brk Hy; injection Hy as <-; t_keep G Hg.
  - cs H. brk Hy; injection Hy as <-; t_keep G Hg.
  - cs H. brk Hy; injection Hy as <-; t_keep G Hg.
  - cs H. brk Hy; injection Hy as <-; t_keep G Hg.
  - destruct (get s c0) as [x0|] eqn:Hg; try discriminate. brk H; injection H as <-; cbn; t_keep G Hg.
  - destruct (get s c0) as [x0|] eqn:Hg; try discriminate. brk H; injection H as <-; cbn; t_keep G Hg.
  - cs H. brk Hy; injection Hy as <-; t_keep G Hg.
  - cs H. brk Hy; injection Hy as <-; t_keep G Hg.
  - destruct (mu s) eqn:Emu; try discriminate.
    destruct (conn_step s c0 PExited _) as [s1|] eqn:E1; try discriminate. injection H as <-.
    cs E1. injection Hy as <-. cbn. t_keep G Hg.
  - destruct (conn_step s c0 PUntracked _) as [s1|] eqn:E1; try discriminate.
    cs E1. injection Hy as <-. unfold close_guard in *. cbn [v_guard_old] in *.
    destruct (on_close k) eqn:Eoc; cbn in H; injection H as <-; t_keep G Hg.
  - brk H; injection H as <-; same G.
  - brk H; injection H as <-; same G.
  - destruct (sd s) eqn:Esd; try discriminate. destruct (get s c0) as [x0|] eqn:Hg; try discriminate.
    destruct (mem_nat c0 todo && inmap x0) eqn:E; try discriminate.
    destruct (cst x0) eqn:Ecst; injection H as <-; cbn; first [same G | t_keep G Hg].
  - destruct (sd s) eqn:Esd; try discriminate. destruct (get s c0) as [x0|] eqn:Hg; try discriminate.
    destruct (Nat.eqb c0 c1) eqn:E; try discriminate.
    destruct (cst x0) eqn:Ecst; injection H as <-; cbn; first [same G | t_keep G Hg].
  - destruct (sd s) eqn:Esd; try discriminate. destruct (get s c0) as [x0|] eqn:Hg; try discriminate.
    destruct (Nat.eqb c0 c1) eqn:E; try discriminate. injection H as <-; cbn; t_keep G Hg.
  - brk H; injection H as <-; same G.
  - brk H; injection H as <-; same G.
  - brk H; injection H as <-; same G.
  - brk H; injection H as <-; same G.
  - brk H; injection H as <-; same G.
  - brk H; injection H as <-; same G.
  - destruct (sp s) eqn:Esp; try discriminate. destruct (get s c0) as [x0|] eqn:Hg; try discriminate.
    destruct (Nat.eqb c0 c1) eqn:E; try discriminate. injection H as <-. cbn. t_keep G Hg.
  - destruct (sp s) eqn:Esp; try discriminate. destruct (get s c0) as [x0|] eqn:Hg; try discriminate.
    destruct (Nat.eqb c0 c1) eqn:E; try discriminate. apply Nat.eqb_eq in E. subst c1. injection H as <-.
    destruct (Hsp c0 eq_refl) as [x1 [Hg1 Hp1]]. rewrite Hg in Hg1. injection Hg1 as <-. cbn. t_keep G Hg.
  - cs H. brk Hy; injection Hy as <-; t_keep G Hg.
  - destruct (sp s) eqn:Esp; try discriminate. destruct (Nat.eqb c0 c1) eqn:E; try discriminate.
    cbn in H. injection H as <-. same G.
  - brk H; injection H as <-; same G.
Qed.

(* ---------- flags: listener, shutdown flag, serve's result ---------- *)
Definition sd_good (s : state) : bool :=
  match sd s with SdIdle => false | SdReturned ENil => true | SdReturned _ => false | _ => negb (sd_err s) end.
Definition sd_ran (s : state) : bool :=
  match sd s with SdIdle => false | SdReturned EPanic => false | _ => true end.
Definition sp_needs_cb (p : spc) : bool := match p with SAccepted _ | SRejected _ => true | _ => false end.
Definition lis_is_set (p : spc) : bool := match p with SStart | SCalled => false | _ => true end.
(* serve is in (or past) its accept loop *)
Definition in_loop (p : spc) : bool := match p with SStart | SCalled | SLeaving _ => false | _ => true end.

Record finv (v : variant) (k : cfg) (s : state) : Prop := {
  f_ret : returned (sp s) = true -> lis_open s = false;
  f_shut : sd s <> SdIdle -> shut s = true;
  f_good : sd_good s = true -> forall e, sp s = SReturned e -> e = EClosed;
  f_set : lis_set s = false -> lis_is_set (sp s) = false;
  f_ran : v_nil_old v = false -> sd_ran s = true -> in_loop (sp s) = true -> lis_open s = false;
  f_lis : lis_open s = false -> shut s = true \/ cancelled s = true \/ returned (sp s) = true;
  f_cb : sp_needs_cb (sp s) = true -> on_accept k = true;
  f_nopanic : v_nil_old v = false -> sd s <> SdReturned EPanic
}.

(* steps that leave serve's and Shutdown's control state alone (or move Shutdown inside its loop) *)
Lemma finv_ext v k s s' :
  sp s' = sp s -> (sd s' = sd s \/ (sd_busy (sd s) = true /\ sd_busy (sd s') = true)) -> sd_err s' = sd_err s ->
  lis_set s' = lis_set s -> lis_open s' = lis_open s -> shut s' = shut s -> cancelled s' = cancelled s ->
  finv v k s -> finv v k s'.
Proof.
  intros E1 E2 E3 E4 E5 E6 E7 [F1 F2 F3 F4 F5 F6 F7 F8].
  assert (G : sd_good s' = sd_good s /\ sd_ran s' = sd_ran s /\ (sd s' <> SdIdle -> sd s <> SdIdle) /\
              (sd s' = SdReturned EPanic -> sd s = SdReturned EPanic)).
  { unfold sd_good, sd_ran. rewrite E3. destruct E2 as [->|[A B]]; [auto|].
    destruct (sd s); try discriminate; destruct (sd s'); try discriminate; repeat split; auto; intros; discriminate. }
  destruct G as [G1 [G2 [G3 G4]]].
  constructor; rewrite ?E1, ?E4, ?E5, ?E6, ?E7, ?G1, ?G2; auto.
  intros Hv Hp. apply (F8 Hv). auto.
Qed.

Ltac fext := match goal with Hf : finv ?v ?k ?s |- finv ?v ?k _ => apply (finv_ext v k s); [reflexivity|(left; reflexivity)|reflexivity|reflexivity|reflexivity|reflexivity|reflexivity|exact Hf] end.

Ltac ffin := constructor; unfold sd_good, sd_ran in *; cbn in *; intros;
  repeat match goal with Hs : sp _ = SReturned _ |- _ => rewrite Hs in *; clear Hs end; cbn in *;
  repeat match goal with Hs : sd ?s0 = _, Hx : context [match sd ?s0 with _ => _ end] |- _ => rewrite Hs in Hx end; cbn in *;
  repeat match goal with
         | H : ?a = ?a -> _ |- _ => specialize (H eq_refl)
         | H : _ <> _ -> _ |- _ => specialize (H ltac:(discriminate))
         end;
  try congruence; try discriminate; auto;
  try (match goal with s : state |- _ => destruct (lis_open s); cbn in *; congruence end);
  try (intuition (try congruence; try discriminate; auto); fail);
  try (match goal with s : state |- _ =>
         destruct (sd s) as [| | | | |[]] eqn:?; cbn in *; try congruence; try discriminate;
         intuition (try congruence; try discriminate; auto) end; fail);
  try (match goal with s : state |- _ =>
         destruct (sp s) eqn:?; cbn in *; try congruence; try discriminate;
         intuition (try congruence; try discriminate; auto) end; fail).

Lemma finv_step v k s l s' : finv v k s -> step v k s l = Some s' -> finv v k s'.
Proof.
  intros Hf H. pose proof Hf as [F1 F2 F3 F4 F5 F6 F7 F8].
  unfold sd_good, sd_ran in *. unfold step in H. destruct (crashed s) eqn:Hc; [discriminate|].
  destruct l.
  - brk H; injection H as <-; ffin.
  - (* LPublish *) destruct (sp s) eqn:Esp; try discriminate. destruct (mu s); try discriminate. injection H as <-.
    destruct (shut s) eqn:Es; destruct (v_nil_old v) eqn:Ev; cbn; ffin.
  - destruct (sp s) eqn:Esp; try discriminate.
    destruct (lis_open s && Nat.eqb c (length (conns s))) eqn:Heqb; try discriminate. injection H as <-.
    apply andb_prop in Heqb as [Hlo _]. destruct (on_accept k) eqn:Eoa; ffin.
  - destruct (sp s) eqn:Esp; try discriminate. destruct (get s c) as [x|] eqn:Hg; try discriminate.
    destruct (Nat.eqb c c0 && on_accept k && (n =? count s + 1)%Z) eqn:E; try discriminate.
    injection H as <-. destruct ok; ffin.
  - destruct (sp s) eqn:Esp; try discriminate. destruct (get s c) as [x|] eqn:Hg; try discriminate.
    destruct (Nat.eqb c c0) eqn:E; try discriminate. injection H as <-. ffin.
  - brk H. injection H as <-. ffin.
  - brk H. injection H as <-. ffin.
  - (* LTrack *) destruct (sp s) eqn:Esp; try discriminate. destruct (get s c) as [x|] eqn:Hg; try discriminate.
    destruct (Nat.eqb c c0 && negb (mu s)) eqn:E; try discriminate.
    destruct (shut s && negb (v_track_old v)); injection H as <-; ffin.
  - destruct (sp s) eqn:Esp; try discriminate. destruct (get s c) as [x|] eqn:Hg; try discriminate.
    destruct (Nat.eqb c c0) eqn:E; try discriminate. injection H as <-. ffin.
  - destruct (sp s) eqn:Esp; try discriminate. destruct (get s c) as [x|] eqn:Hg; try discriminate.
    destruct (Nat.eqb c c0) eqn:E; try discriminate. injection H as <-. destruct ret; ffin.
  - (* LServeReturn *) destruct (sp s) eqn:Esp; try discriminate.
    + destruct (shut s || cancelled s) eqn:Esc.
      * destruct (err_is_closed e && negb (lis_open s)) eqn:E; try discriminate. injection H as <-.
        apply andb_prop in E as [E1 E2]. destruct e; try discriminate. ffin.
      * destruct (err_is_other e); try discriminate. injection H as <-. apply orb_false_elim in Esc as [Es Ec].
        constructor; unfold sd_good, sd_ran in *; cbn in *; intros; auto.
        destruct (sd s) eqn:Esd; try discriminate; (assert (shut s = true) by (apply F2; discriminate); congruence).
    + destruct (v_drop_old v && cancelled s && err_is_closed e) eqn:E; try discriminate. apply andb_prop in E as [E1 E2].
      destruct e; try discriminate. injection H as <-. ffin.
    + destruct e; try discriminate; injection H as <-; ffin.
  - cs H. brk Hy; injection Hy as <-; fext.
  - cs H. brk Hy; injection Hy as <-; fext.
  - cs H. brk Hy; injection Hy as <-; fext.
  - cs H. brk Hy; injection Hy as <-; fext.
  - cs H. brk Hy; injection Hy as <-; fext.
  - cs H. brk Hy; injection Hy as <-; fext.
  - cs H. brk Hy; injection Hy as <-; fext.
  - destruct (get s c) as [x|] eqn:Hg; try discriminate. brk H; injection H as <-; fext.
  - destruct (get s c) as [x|] eqn:Hg; try discriminate. brk H; injection H as <-; fext.
  - cs H. brk Hy; injection Hy as <-; fext.
  - cs H. brk Hy; injection Hy as <-; fext.
  - destruct (mu s) eqn:Emu; try discriminate.
    destruct (conn_step s c PExited _) as [s1|] eqn:E1; try discriminate. injection H as <-.
    cs E1. injection Hy as <-. fext.
  - destruct (conn_step s c PUntracked _) as [s1|] eqn:E1; try discriminate.
    cs E1. injection Hy as <-.
    destruct (close_guard v k && negb (on_close k)); injection H as <-; fext.
  - brk H; injection H as <-; fext.
  - (* LSdBegin *) brk H; injection H as <-; ffin.
  - destruct (sd s) eqn:Esd; try discriminate. destruct (get s c) as [x|] eqn:Hg; try discriminate.
    destruct (mem_nat c todo && inmap x) eqn:E; try discriminate.
    destruct (cst x) eqn:Ecst; injection H as <-;
      (apply (finv_ext v k s); [reflexivity|right; rewrite Esd; split; reflexivity|reflexivity|reflexivity|reflexivity|reflexivity|reflexivity|exact Hf]).
  - destruct (sd s) eqn:Esd; try discriminate. destruct (get s c) as [x|] eqn:Hg; try discriminate.
    destruct (Nat.eqb c c0) eqn:E; try discriminate.
    destruct (cst x) eqn:Ecst; try destruct (v_load_old v); injection H as <-;
      (apply (finv_ext v k s); [reflexivity|right; rewrite Esd; split; reflexivity|reflexivity|reflexivity|reflexivity|reflexivity|reflexivity|exact Hf]).
  - destruct (sd s) eqn:Esd; try discriminate. destruct (get s c) as [x|] eqn:Hg; try discriminate.
    destruct (Nat.eqb c c0) eqn:E; try discriminate. injection H as <-;
      (apply (finv_ext v k s); [reflexivity|right; rewrite Esd; split; reflexivity|reflexivity|reflexivity|reflexivity|reflexivity|reflexivity|exact Hf]).
  - brk H; injection H as <-;
      (apply (finv_ext v k s); [reflexivity|right; rewrite Heqs0; split; reflexivity|reflexivity|reflexivity|reflexivity|reflexivity|reflexivity|exact Hf]).
  - brk H; injection H as <-;
      (apply (finv_ext v k s); [reflexivity|right; rewrite Heqs0; split; reflexivity|reflexivity|reflexivity|reflexivity|reflexivity|reflexivity|exact Hf]).
  - brk H; injection H as <-; ffin.
  - brk H; injection H as <-; ffin.
  - brk H; injection H as <-; ffin.
  - destruct (cancelled s && published (sp s) && negb (returned (sp s)) && lis_open s) eqn:E; try discriminate.
    injection H as <-. apply andb_prop in E as [E E4]. apply andb_prop in E as [E E3]. apply andb_prop in E as [E1 E2].
    constructor; cbn; auto.
  - destruct (sp s) eqn:Esp; try discriminate. destruct (get s c) as [x|] eqn:Hg; try discriminate.
    destruct (Nat.eqb c c0) eqn:E; try discriminate. injection H as <-. ffin.
  - destruct (sp s) eqn:Esp; try discriminate. destruct (get s c) as [x|] eqn:Hg; try discriminate.
    destruct (Nat.eqb c c0) eqn:E; try discriminate. injection H as <-. destruct ret; ffin.
  - cs H. brk Hy; injection Hy as <-; fext.
  - destruct (sp s) eqn:Esp; try discriminate. destruct (Nat.eqb c c0) eqn:E; try discriminate.
    destruct (v_raw_err v && Nat.eqb next 0 && negb (on_error k)); injection H as <-; [fext|].
    destruct next as [|[|n]]; ffin.
  - (* LReServe *) destruct (sp s) eqn:Esp; try discriminate. destruct (cancelled s && negb (shut s) && negb (v_drop_old v)) eqn:E; try discriminate.
    apply andb_prop in E as [E _]. apply andb_prop in E as [_ E]. destruct (shut s) eqn:Es; try discriminate.
    injection H as <-. destruct (v_map_reset v); ffin.
Qed.

(* ---------- a pass of Shutdown that has found everything idle has visited the whole map ---------- *)
Definition cover (s : state) (t : list nat) (oc : option nat) : Prop :=
  forall d x, get s d = Some x -> inmap x = true -> In d t \/ oc = Some d.
Definition cinv3 (s : state) : Prop :=
  match sd s with
  | SdPass t true => cover s t None
  | SdFailed c t true => cover s t (Some c)
  | SdClosing c t true => cover s t (Some c)
  | SdReturned ENil | SdReturned EOther => cover s [] None       (* returned after a pass that found everything idle *)
  | _ => True
  end.

Lemma inmap_ids_complete cs : forall i d x, nth_error cs d = Some x -> inmap x = true -> In (i + d) (inmap_ids cs i).
Proof.
  induction cs as [|h t IH]; intros i [|d] x H I; cbn in *; try discriminate.
  - injection H as ->. rewrite I. left. lia.
  - apply in_or_app. right. replace (i + S d) with (S i + d) by lia. eapply IH; eassumption.
Qed.
Lemma remove_nat_in c d t : In d t -> d <> c -> In d (remove_nat c t).
Proof.
  induction t as [|h t IH]; cbn; [tauto|]. intros [->|H] Hne.
  - destruct (Nat.eqb c d) eqn:E; [apply Nat.eqb_eq in E; congruence|left; reflexivity].
  - destruct (Nat.eqb c h); [auto|right; auto].
Qed.

Ltac t_cov Hcov Hm Hg :=
  unfold cinv3, cover in *; cbn;
  match goal with |- context [sd ?s] => destruct (sd s) eqn:Esd0 end; auto;
  try (exfalso; cbn in Hm; congruence);
  try match goal with |- match ?b with true => _ | false => _ end => destruct b end; auto;
  try match goal with |- match ?e with ENil => _ | _ => _ end => destruct e end; auto;
  intros d x' G I;
  match type of Hg with get ?s ?c = Some ?x =>
    destruct (Nat.eq_dec c d) as [->|Hne];
    [ unfold get, put in G; cbn in G; rewrite (nth_upd_same _ _ _ _ Hg) in G; injection G as <-;
      apply (Hcov d x Hg); crec x; unfold via_set in *; cbn in *;
      repeat match goal with H : context [match ?v with ViaNone => _ | _ => _ end] |- _ => destruct v; cbn in * end;
      congruence
    | unfold get, put in G; cbn in G; rewrite nth_upd_other in G by assumption; exact (Hcov d x' G I) ]
  end.
Ltac t_same Hcov := unfold cinv3, cover, get in *; cbn; exact Hcov.

Lemma cov_step k s l s' : inv k s -> finv GuardNow k s -> cinv3 s -> step GuardNow k s l = Some s' -> cinv3 s'.
Proof.
  intros [Hc Hn Hf Hm Hcl Hfl Hsp Hspd] [F1 F2 F3 F4 F5 F6 F7 F8] Hcov H. unf H. rewrite Hc in H.
  destruct l.
  - brk H; injection H as <-; t_same Hcov.
  - brk H; injection H as <-; t_same Hcov.
  - destruct (sp s) eqn:Esp; try discriminate.
    destruct (lis_open s && Nat.eqb c (length (conns s))) eqn:Heqb; try discriminate. injection H as <-.
    assert (A : forall t oc, cover s t oc -> cover (s_conns (conns s ++ [new_conn]) s) t oc).
    { intros t oc C d x G I. apply get_app_new in G as [G|[_ ->]]; [eapply C; eassumption|discriminate]. }
    unfold cinv3 in *. destruct (on_accept k); cbn;
      (destruct (sd s) as [|t0 a0|c1 t0 a0|c1 t0 a0| |e0]; auto; try (destruct a0; auto; apply A; assumption);
       destruct e0; auto; apply A; assumption).
  - destruct (sp s) eqn:Esp; try discriminate. destruct (get s c) as [x|] eqn:Hg; try discriminate.
    destruct (Nat.eqb c c0 && on_accept k && (n =? count s + 1)%Z) eqn:E; try discriminate.
    injection H as <-. destruct ok; t_cov Hcov Hm Hg.
  - destruct (sp s) eqn:Esp; try discriminate. destruct (get s c) as [x|] eqn:Hg; try discriminate.
    destruct (Nat.eqb c c0) eqn:E; try discriminate. injection H as <-. t_cov Hcov Hm Hg.
  - brk H. injection H as <-. t_same Hcov.
  - brk H. injection H as <-. t_same Hcov.
  - destruct (sp s) eqn:Esp; try discriminate. destruct (get s c) as [x|] eqn:Hg; try discriminate.
    destruct (Nat.eqb c c0 && negb (mu s)) eqn:E; try discriminate. apply andb_prop in E as [E E2].
    destruct (mu s) eqn:Emu; try discriminate.
    destruct (shut s && negb false) eqn:Esh; injection H as <-; [t_same Hcov|].
    (* the connection is only added while the server is not shut down: no Shutdown has begun *)
    assert (Esd : sd s = SdIdle).
    { destruct (sd s) eqn:X; auto; exfalso; (assert (Hs : shut s = true) by (apply F2; discriminate));
      rewrite Hs in Esh; discriminate. }
    unfold cinv3. cbn. rewrite Esd. exact I.
  - destruct (sp s) eqn:Esp; try discriminate. destruct (get s c) as [x|] eqn:Hg; try discriminate.
    destruct (Nat.eqb c c0) eqn:E; try discriminate. injection H as <-. t_cov Hcov Hm Hg.
  - destruct (sp s) eqn:Esp; try discriminate. destruct (get s c) as [x|] eqn:Hg; try discriminate.
    destruct (Nat.eqb c c0) eqn:E; try discriminate. injection H as <-.
    destruct (on_close k); destruct ret; t_cov Hcov Hm Hg.
  - brk H; injection H as <-; t_same Hcov.
  - cs H. brk Hy; injection Hy as <-; t_cov Hcov Hm Hg.
  - cs H. brk Hy; injection Hy as <-; t_cov Hcov Hm Hg.
  - cs H. brk Hy; injection Hy as <-; t_cov Hcov Hm Hg.
  - cs H. brk Hy; injection Hy as <-; t_cov Hcov Hm Hg.
  - cs H. brk Hy; injection Hy as <-; t_cov Hcov Hm Hg.
  - cs H. brk Hy; injection Hy as <-; t_cov Hcov Hm Hg.
  - cs H. brk Hy; injection Hy as <-; t_cov Hcov Hm Hg.
  - destruct (get s c) as [x|] eqn:Hg; try discriminate. brk H; injection H as <-; t_cov Hcov Hm Hg.
  - destruct (get s c) as [x|] eqn:Hg; try discriminate. brk H; injection H as <-; t_cov Hcov Hm Hg.
  - cs H. brk Hy; injection Hy as <-; t_cov Hcov Hm Hg.
  - cs H. brk Hy; injection Hy as <-; t_cov Hcov Hm Hg.
  - destruct (mu s) eqn:Emu; try discriminate.
    destruct (conn_step s c PExited _) as [s1|] eqn:E1; try discriminate. injection H as <-.
    cs E1. injection Hy as <-. t_cov Hcov Hm Hg.
  - destruct (conn_step s c PUntracked _) as [s1|] eqn:E1; try discriminate.
    cs E1. injection Hy as <-. unfold close_guard in *. cbn [v_guard_old] in *.
    destruct (on_close k) eqn:Eoc; cbn in H; injection H as <-; t_cov Hcov Hm Hg.
  - brk H; injection H as <-; t_same Hcov.
  - (* LSdBegin *) destruct (sd s) eqn:Esd; try discriminate;
      (destruct (sd_req s && negb (mu s)); try discriminate; destruct (lis_set s); injection H as <-;
       unfold cinv3; cbn; auto; intros d x G I; left; apply (inmap_ids_complete _ 0 d x G I)).
  - (* LSdCas *)
    destruct (sd s) eqn:Esd; try discriminate. destruct (get s c) as [x|] eqn:Hg; try discriminate.
    destruct (mem_nat c todo && inmap x) eqn:E; try discriminate.
    unfold cinv3 in *. rewrite Esd in Hcov.
    destruct (cst x) eqn:Ecst; injection H as <-; cbn; destruct allidle; auto; intros d x' G I.
    + unfold get, put in G; cbn in G. destruct (Nat.eq_dec c d) as [->|Hne]; [right; reflexivity|].
      rewrite nth_upd_other in G by assumption. destruct (Hcov d x' G I) as [Hi|Hi]; [|discriminate].
      left. apply remove_nat_in; auto.
    + destruct (Nat.eq_dec c d) as [->|Hne]; [right; reflexivity|].
      destruct (Hcov d x' G I) as [Hi|Hi]; [|discriminate]. left. apply remove_nat_in; auto.
    + destruct (Nat.eq_dec c d) as [->|Hne]; [right; reflexivity|].
      destruct (Hcov d x' G I) as [Hi|Hi]; [|discriminate]. left. apply remove_nat_in; auto.
  - (* LSdLoad *)
    destruct (sd s) eqn:Esd; try discriminate. destruct (get s c) as [x|] eqn:Hg; try discriminate.
    destruct (Nat.eqb c c0) eqn:E; try discriminate. apply Nat.eqb_eq in E. subst c0.
    unfold cinv3 in *. rewrite Esd in Hcov.
    destruct (cst x) eqn:Ecst; injection H as <-; cbn; auto; destruct allidle; auto; intros d x' G I.
    unfold get, put, via_set in G. destruct (Nat.eq_dec c d) as [->|Hne]; [right; reflexivity|].
    destruct (sd_via x); cbn in G; try rewrite nth_upd_other in G by assumption; exact (Hcov d x' G I).
  - (* LSdClose *)
    destruct (sd s) eqn:Esd; try discriminate. destruct (get s c) as [x|] eqn:Hg; try discriminate.
    destruct (Nat.eqb c c0) eqn:E; try discriminate. apply Nat.eqb_eq in E. subst c0. injection H as <-.
    unfold cinv3 in *. rewrite Esd in Hcov. cbn. destruct allidle; auto. intros d x' G I.
    unfold get, put in G; cbn in G. destruct (Nat.eq_dec c d) as [->|Hne].
    + rewrite (nth_upd_same _ _ _ _ Hg) in G. injection G as <-. crec x; cbn in I; discriminate.
    + rewrite nth_upd_other in G by assumption. destruct (Hcov d x' G I) as [Hi|Hi]; [left; assumption|congruence].
  - brk H; injection H as <-; unfold cinv3; cbn; exact I.
  - brk H; injection H as <-; unfold cinv3; cbn; intros d x G I; left; apply (inmap_ids_complete _ 0 d x G I).
  - brk H; injection H as <-; unfold cinv3; cbn; exact I.
  - destruct (sd s) as [|t0 a0| | | |] eqn:Esd; try discriminate. destruct t0; try discriminate. destruct a0; try discriminate.
    injection H as <-. unfold cinv3 in *. rewrite Esd in Hcov. cbn. destruct (sd_err s); exact Hcov.
  - brk H; injection H as <-; t_same Hcov.
  - brk H; injection H as <-; t_same Hcov.
  - destruct (sp s) eqn:Esp; try discriminate. destruct (get s c) as [x|] eqn:Hg; try discriminate.
    destruct (Nat.eqb c c0) eqn:E; try discriminate. injection H as <-. t_cov Hcov Hm Hg.
  - destruct (sp s) eqn:Esp; try discriminate. destruct (get s c) as [x|] eqn:Hg; try discriminate.
    destruct (Nat.eqb c c0) eqn:E; try discriminate. injection H as <-. t_cov Hcov Hm Hg.
  - cs H. brk Hy; injection Hy as <-; t_cov Hcov Hm Hg.
  - destruct (sp s) eqn:Esp; try discriminate. destruct (Nat.eqb c c0) eqn:E; try discriminate.
    cbn in H. injection H as <-. t_same Hcov.
  - brk H; injection H as <-; t_same Hcov.
Qed.

Lemma finv_init v k : finv v k init.
Proof. constructor; cbn; intros; try discriminate; try congruence; auto. Qed.
Theorem reach_finv v k s : reach v k s -> finv v k s.
Proof. induction 1 as [|s l s' _ IH H]; [apply finv_init|eapply finv_step; eassumption]. Qed.
Theorem reach_cinv3 k s : reach GuardNow k s -> cinv3 s.
Proof.
  induction 1 as [|s l s' R IH H]; [exact I|]. eapply cov_step; [apply reach_inv; exact R|apply reach_finv; exact R|exact IH|exact H].
Qed.


(* ---------- (f) bounded return of serve once the listener is closed ---------- *)
Definition serve_left (p : spc) : nat :=
  match p with
  | SStart => 4 | SCalled => 3 | SLoop => 1 | SAccepted _ => 8 | SRejected _ => 3 | SPassed _ => 7 | STrack _ => 6
  | SDrop _ _ => 5 | SErrCb _ 0 => 2 | SErrCb _ (S _) => 4 | SDropCb _ _ => 3 | SLeaving _ => 2 | SReturned _ => 0
  end.
Definition is_serve (l : label) : bool := match label_gor l with GServe => true | _ => false end.
Fixpoint count_serve (ls : list label) : nat :=
  match ls with [] => 0 | l :: t => (if is_serve l then 1 else 0) + count_serve t end.

Lemma serve_step_measure v k s l s' : v_raw_err v = false -> l <> LReServe -> lis_open s = false -> step v k s l = Some s' ->
  lis_open s' = false /\
  (if is_serve l then serve_left (sp s') < serve_left (sp s) else sp s' = sp s).
Proof.
  intros Hv Hnr Hl H. unfold step in H. rewrite ?Hv in H. destruct (crashed s); [discriminate|].
  destruct l; unfold is_serve; cbn [label_gor].
  - brk H; injection H as <-; cbn; rewrite ?Heqs0; cbn; first [split; [first [assumption|reflexivity]|lia] | auto].
  - brk H; injection H as <-; cbn; rewrite ?Heqs0; cbn; first [split; [first [assumption|reflexivity]|lia] | auto].
  - rewrite Hl in H. destruct (sp s); discriminate.
  - destruct (sp s) eqn:Esp; try discriminate. destruct (get s c) as [x|] eqn:Hg; try discriminate.
    destruct (Nat.eqb c c0 && on_accept k && (n =? count s + 1)%Z) eqn:E; try discriminate.
    injection H as <-. destruct ok; cbn; first [split; [first [assumption|reflexivity]|lia] | auto].
  - destruct (sp s) eqn:Esp; try discriminate. destruct (get s c) as [x|] eqn:Hg; try discriminate.
    destruct (Nat.eqb c c0) eqn:E; try discriminate. injection H as <-. cbn; first [split; [first [assumption|reflexivity]|lia] | auto].
  - brk H. injection H as <-. cbn; rewrite ?Heqs0; cbn; first [split; [first [assumption|reflexivity]|lia] | auto].
  - brk H. injection H as <-. cbn; rewrite ?Heqs0; cbn; first [split; [first [assumption|reflexivity]|lia] | auto].
  - destruct (sp s) eqn:Esp; try discriminate. destruct (get s c) as [x|] eqn:Hg; try discriminate.
    destruct (Nat.eqb c c0 && negb (mu s)) eqn:E; try discriminate.
    destruct (shut s && negb (v_track_old v)); injection H as <-; cbn; first [split; [first [assumption|reflexivity]|lia] | auto].
  - destruct (sp s) eqn:Esp; try discriminate. destruct (get s c) as [x|] eqn:Hg; try discriminate.
    destruct (Nat.eqb c c0) eqn:E; try discriminate. injection H as <-. cbn; first [split; [first [assumption|reflexivity]|lia] | auto].
  - destruct (sp s) eqn:Esp; try discriminate. destruct (get s c) as [x|] eqn:Hg; try discriminate.
    destruct (Nat.eqb c c0) eqn:E; try discriminate. injection H as <-. destruct ret; cbn; first [split; [first [assumption|reflexivity]|lia] | auto].
  - brk H; injection H as <-; cbn; rewrite ?Heqs0; cbn; first [split; [first [assumption|reflexivity]|lia] | auto].
  - cs H. brk Hy; injection Hy as <-; cbn; first [split; [first [assumption|reflexivity]|lia] | auto].
  - cs H. brk Hy; injection Hy as <-; cbn; first [split; [first [assumption|reflexivity]|lia] | auto].
  - cs H. brk Hy; injection Hy as <-; cbn; first [split; [first [assumption|reflexivity]|lia] | auto].
  - cs H. brk Hy; injection Hy as <-; cbn; first [split; [first [assumption|reflexivity]|lia] | auto].
  - cs H. brk Hy; injection Hy as <-; cbn; first [split; [first [assumption|reflexivity]|lia] | auto].
  - cs H. brk Hy; injection Hy as <-; cbn; first [split; [first [assumption|reflexivity]|lia] | auto].
  - cs H. brk Hy; injection Hy as <-; cbn; first [split; [first [assumption|reflexivity]|lia] | auto].
  - destruct (get s c) as [x|] eqn:Hg; try discriminate. brk H; injection H as <-; cbn; first [split; [first [assumption|reflexivity]|lia] | auto].
  - destruct (get s c) as [x|] eqn:Hg; try discriminate. brk H; injection H as <-; cbn; first [split; [first [assumption|reflexivity]|lia] | auto].
  - cs H. brk Hy; injection Hy as <-; cbn; first [split; [first [assumption|reflexivity]|lia] | auto].
  - cs H. brk Hy; injection Hy as <-; cbn; first [split; [first [assumption|reflexivity]|lia] | auto].
  - destruct (mu s) eqn:Emu; try discriminate.
    destruct (conn_step s c PExited _) as [s1|] eqn:E1; try discriminate. injection H as <-.
    cs E1. injection Hy as <-. cbn; first [split; [first [assumption|reflexivity]|lia] | auto].
  - destruct (conn_step s c PUntracked _) as [s1|] eqn:E1; try discriminate.
    cs E1. injection Hy as <-.
    destruct (close_guard v k && negb (on_close k)); injection H as <-; cbn; first [split; [first [assumption|reflexivity]|lia] | auto].
  - brk H; injection H as <-; cbn; first [split; [first [assumption|reflexivity]|lia] | auto].
  - brk H; injection H as <-; cbn; first [split; [first [assumption|reflexivity]|lia] | auto].
  - destruct (sd s) eqn:Esd; try discriminate. destruct (get s c) as [x|] eqn:Hg; try discriminate.
    destruct (mem_nat c todo && inmap x) eqn:E; try discriminate.
    destruct (cst x) eqn:Ecst; try destruct (v_load_old v); injection H as <-; cbn; first [split; [first [assumption|reflexivity]|lia] | auto].
  - destruct (sd s) eqn:Esd; try discriminate. destruct (get s c) as [x|] eqn:Hg; try discriminate.
    destruct (Nat.eqb c c0) eqn:E; try discriminate.
    destruct (cst x) eqn:Ecst; try destruct (v_load_old v); injection H as <-; cbn; first [split; [first [assumption|reflexivity]|lia] | auto].
  - destruct (sd s) eqn:Esd; try discriminate. destruct (get s c) as [x|] eqn:Hg; try discriminate.
    destruct (Nat.eqb c c0) eqn:E; try discriminate. injection H as <-; cbn; first [split; [first [assumption|reflexivity]|lia] | auto].
  - brk H; injection H as <-; cbn; first [split; [first [assumption|reflexivity]|lia] | auto].
  - brk H; injection H as <-; cbn; first [split; [first [assumption|reflexivity]|lia] | auto].
  - brk H; injection H as <-; cbn; first [split; [first [assumption|reflexivity]|lia] | auto].
  - brk H; injection H as <-; cbn; first [split; [first [assumption|reflexivity]|lia] | auto].
  - brk H; injection H as <-; cbn; first [split; [first [assumption|reflexivity]|lia] | auto].
  - brk H; injection H as <-; cbn; first [split; [first [assumption|reflexivity]|lia] | auto].
  - destruct (sp s) eqn:Esp; try discriminate. destruct (get s c) as [x|] eqn:Hg; try discriminate.
    destruct (Nat.eqb c c0) eqn:E; try discriminate. injection H as <-. cbn; first [split; [first [assumption|reflexivity]|lia] | auto].
  - destruct (sp s) eqn:Esp; try discriminate. destruct (get s c) as [x|] eqn:Hg; try discriminate.
    destruct (Nat.eqb c c0) eqn:E; try discriminate. injection H as <-. destruct ret; cbn; first [split; [first [assumption|reflexivity]|lia] | auto].
  - cs H. brk Hy; injection Hy as <-; cbn; first [split; [first [assumption|reflexivity]|lia] | auto].
  - destruct (sp s) eqn:Esp; try discriminate. destruct (Nat.eqb c c0) eqn:E; try discriminate.
    cbn in H. injection H as <-. destruct next as [|[|n]]; cbn; (split; [assumption|lia]).
  - congruence.
Qed.

Theorem serve_bounded v k : v_raw_err v = false -> forall ls s s', ~ In LReServe ls -> lis_open s = false -> run v k s ls = Some s' ->
  count_serve ls + serve_left (sp s') <= serve_left (sp s) /\ lis_open s' = false.
Proof.
  intros Hv. induction ls as [|l t IH]; intros s s' Hn Hl H; cbn in H.
  - injection H as <-. cbn. split; [lia|exact Hl].
  - destruct (step v k s l) as [s1|] eqn:E; [|discriminate].
    assert (N1 : l <> LReServe) by (intros ->; apply Hn; left; reflexivity).
    assert (N2 : ~ In LReServe t) by (intros A; apply Hn; right; exact A).
    destruct (serve_step_measure _ _ _ _ _ Hv N1 Hl E) as [Hl1 Hm]. destruct (IH _ _ N2 Hl1 H) as [Hc Hl']. split; [|exact Hl'].
    cbn [count_serve]. destruct (is_serve l); [lia|rewrite Hm in Hc; lia].
Qed.
Corollary serve_bounded_8 v k ls s s' : v_raw_err v = false -> ~ In LReServe ls -> lis_open s = false -> run v k s ls = Some s' -> count_serve ls <= 8.
Proof.
  intros Hv Hn Hl H. destruct (serve_bounded v k Hv ls s s' Hn Hl H) as [Hc _].
  assert (serve_left (sp s) <= 8) by (destruct (sp s) as [| | | | | | | | |? [|?]| |]; cbn; lia). lia.
Qed.

(* cancelling makes the listener-closing step available, and it stays available until taken *)
Lemma cancel_enables_close v k s : crashed s = false -> cancelled s = true -> published (sp s) = true ->
  returned (sp s) = false -> lis_open s = true -> step v k s LAfterClose = Some (s_lis_open false s).
Proof. intros Hc H1 H2 H3 H4. unfold step. rewrite Hc, H1, H2, H3, H4. reflexivity. Qed.

(* progress: with the listener closed after a cancel/shutdown serve always has a next step unless
   Shutdown holds the mutex serve needs *)
Theorem serve_progress k s : reach GuardNow k s -> lis_open s = false -> shut s = true \/ cancelled s = true ->
  returned (sp s) = false -> mu s = false ->
  exists l s', is_serve l = true /\ step GuardNow k s l = Some s'.
Proof.
  intros R Hl Hsc Hr Hmu. pose proof (reach_inv _ _ R) as [Hc Hn Hf Hm Hcl Hfl Hsp Hspd].
  pose proof (reach_finv _ _ _ R) as [F1 F2 F3 F4 F5 F6 F7 F8].
  assert (E : shut s || cancelled s = true) by (destruct Hsc as [-> | ->]; [reflexivity|apply orb_true_r]).
  destruct (sp s) eqn:Esp; try discriminate.
  - exists LServeCb. eexists. split; [reflexivity|]. unfold step. rewrite Hc, Esp. reflexivity.
  - exists LPublish. eexists. split; [reflexivity|]. unfold step. rewrite Hc, Esp, Hmu. reflexivity.
  - exists (LServeReturn EClosed). eexists. split; [reflexivity|]. unfold step. rewrite Hc, Esp, E, Hl. reflexivity.
  - destruct (Hsp c eq_refl) as [x [G P]]. exists (LAcceptCb c (count s + 1) true). eexists. split; [reflexivity|].
    unfold step. rewrite Hc, Esp, G, Nat.eqb_refl, Z.eqb_refl. rewrite (F7 eq_refl). reflexivity.
  - destruct (Hsp c eq_refl) as [x [G P]]. exists (LRejectClose c). eexists. split; [reflexivity|].
    unfold step. rewrite Hc, Esp, G, Nat.eqb_refl. reflexivity.
  - destruct (cancelled s) eqn:Ec.
    + exists (LCtxDone c). eexists. split; [reflexivity|]. unfold step. rewrite Hc, Esp, Ec, Nat.eqb_refl. reflexivity.
    + exists (LCtxPass c). eexists. split; [reflexivity|]. unfold step. rewrite Hc, Esp, Ec, Nat.eqb_refl. reflexivity.
  - destruct (Hsp c eq_refl) as [x [G P]]. exists (LTrack c).
    destruct (shut s) eqn:Es; eexists; (split; [reflexivity|]); unfold step; rewrite Hc, Esp, G, Nat.eqb_refl, Hmu, Es; reflexivity.
  - destruct (Hsp c eq_refl) as [x [G P]]. exists (LDropClose c). eexists. split; [reflexivity|].
    unfold step. rewrite Hc, Esp, G, Nat.eqb_refl. reflexivity.
  - destruct (Hspd c eq_refl) as [x [G P]]. exists (LDropCb c). eexists. split; [reflexivity|].
    unfold step. rewrite Hc, Esp, G, Nat.eqb_refl. reflexivity.
  - exists (LServeErrCb c). eexists. split; [reflexivity|]. unfold step. rewrite Hc, Esp, Nat.eqb_refl. reflexivity.
  - exists (LServeReturn EClosed). eexists. split; [reflexivity|]. unfold step. rewrite Hc, Esp. reflexivity.
Qed.


(* ---------- (e) graceful shutdown ---------- *)
Lemma serve_return_closed v k s e s' : shut s = true \/ cancelled s = true ->
  step v k s (LServeReturn e) = Some s' -> e = EClosed.
Proof.
  intros Hsc H. unfold step in H. destruct (crashed s); [discriminate|].
  destruct (sp s); try discriminate.
  - assert (E : shut s || cancelled s = true) by (destruct Hsc as [-> | ->]; [reflexivity|apply orb_true_r]).
    rewrite E in H. destruct e; cbn in H; try discriminate. reflexivity.
  - destruct e; try rewrite andb_false_r in H; try discriminate. reflexivity.
  - destruct e; try discriminate. reflexivity.
Qed.
Lemma accept_needs_open_listener v k s c s' : step v k s (LAccept c) = Some s' -> lis_open s = true /\ sp s = SLoop.
Proof.
  unfold step. destruct (crashed s); [discriminate|]. destruct (sp s); try discriminate.
  destruct (lis_open s); [auto|discriminate].
Qed.

(* once Shutdown has returned nil, and for as long as that is its last result: the flag is set, the
   mutex free, the listener closed as soon as serve is in its loop (if serve had not started it will
   not accept at all), Accept never succeeds again, serve can only return ErrServerClosed, the map is
   empty and EVERY live connection's socket has been closed -- none survives, whenever it was accepted *)
Theorem good_shutdown k s : reach GuardNow k s -> sd s = SdReturned ENil ->
  shut s = true /\ mu s = false /\ (in_loop (sp s) = true -> lis_open s = false) /\
  (forall e, sp s = SReturned e -> e = EClosed) /\
  (forall c s', step GuardNow k s (LAccept c) = Some s' -> False) /\
  (forall e s', step GuardNow k s (LServeReturn e) = Some s' -> e = EClosed) /\
  (forall c x, get s c = Some x -> inmap x = false /\ (is_live (ph x) = true -> sock x = false)).
Proof.
  intros R E. pose proof (reach_finv _ _ _ R) as [F1 F2 F3 F4 F5 F6 F7 F8].
  pose proof (reach_cinv3 _ _ R) as C3. pose proof (reach_inv _ _ R) as I'.
  unfold sd_good, sd_ran, cinv3 in *. rewrite E in *.
  assert (Hs : shut s = true) by (apply F2; discriminate).
  split; [exact Hs|]. split; [rewrite (i_mu _ _ I'), E; reflexivity|].
  split; [intros L; apply F5; auto|]. split; [apply F3; reflexivity|]. split; [|split].
  - intros c s' H. apply accept_needs_open_listener in H as [A B]. rewrite B in F5. cbn in F5.
    rewrite F5 in A by reflexivity. discriminate.
  - intros e s' H. eapply serve_return_closed; [left; exact Hs|exact H].
  - intros c x G. assert (Hno : inmap x = false).
    { destruct (inmap x) eqn:Ei; [|reflexivity]. destruct (C3 c x G Ei) as [[]|Hx]; discriminate. }
    split; [exact Hno|]. intros L. apply (ci_del _ _ (reach_get_cinv _ _ _ _ R G) L Hno).
Qed.

(* trackConn refuses a connection once Shutdown has run (it was accepted before and would not be seen
   by Shutdown any more): serve closes it instead of serving it *)
Theorem late_track_refused k s c s' : shut s = true -> step GuardNow k s (LTrack c) = Some s' ->
  sp s' = SDrop c false /\ conns s' = conns s /\ count s' = count s.
Proof.
  intros Hs H. unf H. destruct (crashed s); [discriminate|]. destruct (sp s); try discriminate.
  destruct (get s c); try discriminate. destruct (Nat.eqb c c0 && negb (mu s)); try discriminate.
  rewrite Hs in H. cbn in H. injection H as <-. auto.
Qed.

(* FULL statement for the replies.  In every reachable state, for every connection: no reply was ever
   lost to a close by the server; a socket the server side has closed owes no reply; whatever Shutdown
   closed -- after a successful CAS or after finding the goroutine gone -- was not inside an exchange,
   owes nothing, and stays so. *)
Theorem replies_complete k s c x : reach GuardNow k s -> get s c = Some x ->
  lost x = 0 /\
  (sock x = false -> owed x = []) /\
  (sd_via x <> ViaNone -> cst x = CClosed /\ owed x = [] /\ handling_ph (ph x) = false) /\
  (cst x = CIdle -> owed x = []) /\ (handling_ph (ph x) = true -> cst x = CHandling) /\ (owed x <> [] -> cst x = CHandling).
Proof.
  intros R G. pose proof (reach_get_cinv _ _ _ _ R G) as [H1 H2 H3 H4 H5 H6 H7 H8 H9 H10 H11 H12].
  assert (Ho : owed x <> [] -> handling_ph (ph x) = true /\ pre_exit (ph x) = true).
  { intros A. destruct (H4 A) as [->|[-> _]]; split; reflexivity. }
  assert (Hd : forall l : list nat, l = [] \/ l <> []) by (intros [|]; [left; reflexivity|right; discriminate]).
  assert (Hc : cst x <> CHandling -> owed x = []).
  { intros A. destruct (Hd (owed x)) as [B|B]; [exact B|]. destruct (Ho B) as [C _]. elim A. apply H3. exact C. }
  split; [exact H9|]. split; [|split; [|split; [|split]]].
  - intros Hs. destruct (Hd (owed x)) as [B|B]; [exact B|]. destruct (Ho B) as [C D].
    specialize (H7 (H8 Hs D)). rewrite (H3 C) in H7. discriminate.
  - intros Hv. specialize (H7 Hv). split; [exact H7|]. split; [apply Hc; congruence|].
    destruct (handling_ph (ph x)) eqn:Eh; [rewrite (H3 eq_refl) in H7; discriminate|reflexivity].
  - intros A. apply Hc. congruence.
  - exact H3.
  - intros A. destruct (Ho A) as [C _]. apply H3. exact C.
Qed.

(* Shutdown's successful compare-and-swap only ever hits a connection that is outside an exchange *)
Theorem shutdown_cas_hits_idle_only k s c s' t a : reach GuardNow k s -> step GuardNow k s (LSdCas c) = Some s' ->
  sd s' = SdClosing c t a -> exists x, get s c = Some x /\ cst x = CIdle /\ owed x = [] /\ handling_ph (ph x) = false.
Proof.
  intros R H E. unf H. destruct (crashed s); [discriminate|]. destruct (sd s) eqn:Esd; try discriminate.
  destruct (get s c) as [x|] eqn:G; try discriminate. destruct (mem_nat c todo && inmap x); try discriminate.
  destruct (replies_complete _ _ _ _ R G) as [_ [_ [_ [A [B _]]]]].
  destruct (cst x) eqn:Ec; injection H as <-; cbn in E; try discriminate.
  exists x. split; [reflexivity|]. split; [exact Ec|]. split; [apply A; reflexivity|].
  destruct (handling_ph (ph x)) eqn:Eh; [specialize (B eq_refl); discriminate|reflexivity].
Qed.
(* ... and the fall-through after a failed swap closes only a connection whose goroutine has left handle() *)
Theorem shutdown_load_closes_ended_only k s c s' t a : step GuardNow k s (LSdLoad c) = Some s' ->
  sd s' = SdClosing c t a -> exists x, get s c = Some x /\ cst x = CClosed.
Proof.
  intros H E. unf H. destruct (crashed s); [discriminate|]. destruct (sd s) eqn:Esd; try discriminate.
  destruct (get s c) as [x|] eqn:G; try discriminate. destruct (Nat.eqb c c0); try discriminate.
  destruct (cst x) eqn:Ec; injection H as <-; cbn in E; try discriminate. exists x. auto.
Qed.

(* a connection that is let through while the context is cancelled is closed by serve, reported to the
   close callback iff that is set, and serve returns ErrServerClosed: the four steps are enabled one
   after the other, whatever the other goroutines do in between being irrelevant to them *)
Lemma step_ctx_done k s c : crashed s = false -> sp s = SPassed c -> cancelled s = true ->
  step GuardNow k s (LCtxDone c) = Some (s_sp (SDrop c true) s).
Proof. intros A B C. unfold step. rewrite A, B, C, Nat.eqb_refl. reflexivity. Qed.
Lemma step_drop_close k s c r x : crashed s = false -> sp s = SDrop c r -> get s c = Some x ->
  step GuardNow k s (LDropClose c) = Some (s_sp (SDropCb c r) (put s c (c_ph PDropping (c_sock false x)))).
Proof. intros A B C. unfold step. rewrite A, B, C, Nat.eqb_refl. reflexivity. Qed.
Lemma step_drop_cb k s c r x : crashed s = false -> sp s = SDropCb c r -> get s c = Some x ->
  step GuardNow k s (LDropCb c) =
  Some (s_sp (if r then SLeaving true else SLoop) (put s c (c_ph PDropped (if on_close k then c_close_cb (S (close_cb x)) x else x)))).
Proof. intros A B C. unfold step. rewrite A, B, C, Nat.eqb_refl. reflexivity. Qed.
Lemma step_leave k s r : crashed s = false -> sp s = SLeaving r ->
  step GuardNow k s (LServeReturn EClosed) = Some (s_sp (SReturned EClosed) (s_lis_open false s)).
Proof. intros A B. unfold step. rewrite A, B. reflexivity. Qed.

Theorem cancel_drops_accepted k s c : reach GuardNow k s -> sp s = SPassed c -> cancelled s = true ->
  exists s' x', run GuardNow k s [LCtxDone c; LDropClose c; LDropCb c; LServeReturn EClosed] = Some s' /\
    sp s' = SReturned EClosed /\ get s' c = Some x' /\ ph x' = PDropped /\ sock x' = false /\
    close_cb x' = (if on_close k then 1 else 0) /\
    step GuardNow k s (LCtxPass c) = None.
Proof.
  intros R Esp Ec. pose proof (reach_inv _ _ R) as [Hc Hn Hf Hm Hcl Hfl Hsp Hspd].
  destruct (Hsp c ltac:(rewrite Esp; reflexivity)) as [x [G P]].
  pose proof (ci_close _ _ (Forall_nthe _ _ _ _ Hf G)) as Hcb. rewrite P in Hcb.
  set (s1 := s_sp (SDrop c true) s).
  set (x2 := c_ph PDropping (c_sock false x)). set (s2 := s_sp (SDropCb c true) (put s1 c x2)).
  set (x3 := c_ph PDropped (if on_close k then c_close_cb (S (close_cb x2)) x2 else x2)).
  set (s3 := s_sp (SLeaving true) (put s2 c x3)).
  assert (G1 : get s1 c = Some x) by exact G.
  assert (G2 : get s2 c = Some x2) by (unfold s2, get, put; cbn; eapply nth_upd_same; exact G).
  assert (G3 : get s3 c = Some x3) by (unfold s3, get, put; cbn; eapply nth_upd_same; exact G2).
  exists (s_sp (SReturned EClosed) (s_lis_open false s3)), x3. split.
  - cbn [run]. rewrite (step_ctx_done k s c Hc Esp Ec). fold s1.
    rewrite (step_drop_close k s1 c true x Hc eq_refl G1). fold x2. fold s2.
    rewrite (step_drop_cb k s2 c true x2 Hc eq_refl G2). fold x3. fold s3.
    rewrite (step_leave k s3 true Hc eq_refl). reflexivity.
  - split; [reflexivity|]. split; [exact G3|].
    unfold x3, x2. crec x. cbn in *. subst. destruct (on_close k); cbn; repeat split; try reflexivity;
      unfold step; rewrite Hc, Esp, Ec, Nat.eqb_refl; reflexivity.
Qed.

(* the same for a connection that was accepted before Shutdown but reaches trackConn after it *)
Theorem shutdown_drops_untracked k s c : reach GuardNow k s -> sp s = STrack c -> shut s = true -> mu s = false ->
  exists s' x', run GuardNow k s [LTrack c; LDropClose c; LDropCb c] = Some s' /\
    sp s' = SLoop /\ get s' c = Some x' /\ ph x' = PDropped /\ sock x' = false /\ inmap x' = false /\
    close_cb x' = (if on_close k then 1 else 0) /\ count s' = count s.
Proof.
  intros R Esp Es Emu. pose proof (reach_inv _ _ R) as [Hc Hn Hf Hm Hcl Hfl Hsp Hspd].
  destruct (Hsp c ltac:(rewrite Esp; reflexivity)) as [x [G P]].
  pose proof (Forall_nthe _ _ _ _ Hf G) as Hx. pose proof (ci_close _ _ Hx) as Hcb. rewrite P in Hcb.
  assert (Him : inmap x = false) by (destruct (inmap x) eqn:Ei; [pose proof (ci_inmap _ _ Hx Ei) as A; rewrite P in A; discriminate|reflexivity]).
  set (s1 := s_sp (SDrop c false) s).
  set (x2 := c_ph PDropping (c_sock false x)). set (s2 := s_sp (SDropCb c false) (put s1 c x2)).
  set (x3 := c_ph PDropped (if on_close k then c_close_cb (S (close_cb x2)) x2 else x2)).
  assert (G1 : get s1 c = Some x) by exact G.
  assert (G2 : get s2 c = Some x2) by (unfold s2, get, put; cbn; eapply nth_upd_same; exact G).
  exists (s_sp SLoop (put s2 c x3)), x3. split.
  - cbn [run]. assert (T : step GuardNow k s (LTrack c) = Some s1).
    { unfold step. rewrite Hc, Esp, G, Nat.eqb_refl, Emu, Es. reflexivity. }
    rewrite T. rewrite (step_drop_close k s1 c false x Hc eq_refl G1). fold x2. fold s2.
    rewrite (step_drop_cb k s2 c false x2 Hc eq_refl G2). reflexivity.
  - split; [reflexivity|]. split; [unfold get, put; cbn; eapply nth_upd_same; exact G2|].
    unfold x3, x2. crec x. cbn in *. subst. destruct (on_close k); cbn; repeat split; reflexivity.
Qed.

(* Shutdown before serve has published its listener: nothing to close, no panic; serve then finds the
   flag set when it publishes the listener and returns ErrServerClosed without accepting *)
Theorem no_shutdown_panic v k s : v_nil_old v = false -> reach v k s -> sd s <> SdReturned EPanic.
Proof. intros Hv R. apply (f_nopanic _ _ _ (reach_finv _ _ _ R) Hv). Qed.
Theorem publish_after_shutdown k s s' : shut s = true -> step GuardNow k s LPublish = Some s' ->
  sp s' = SLeaving false /\ (forall l s'', is_serve l = true -> step GuardNow k s' l = Some s'' -> l = LServeReturn EClosed).
Proof.
  intros Hs H. unf H. destruct (crashed s) eqn:Hc; [discriminate|]. destruct (sp s); try discriminate.
  destruct (mu s); try discriminate. rewrite Hs in H. cbn in H. injection H as <-. split; [reflexivity|].
  intros l s'' Hl H. unfold step in H. cbn [crashed s_sp s_lis_set sp] in H. rewrite Hc in H.
  destruct l; try discriminate; cbn in Hl; try discriminate; cbn in H;
    try (destruct (get _ _); discriminate).
  destruct e; try discriminate. reflexivity.
Qed.


(* ---------- orderings the code relies on ---------- *)
(* a connection that Accept returned and that is neither rejected nor tracked yet is the one serve is
   working on (or serve has returned and dropped it): trackConn(c,true) precedes the next Accept *)
Definition pinv (v : variant) (s : state) : Prop :=
  forall c x, get s c = Some x -> ph x = PAccepted ->
    sp_conn (sp s) = Some c \/ (v_drop_old v = true /\ returned (sp s) = true).

Ltac t_p HP Hg :=
  unfold pinv in *; cbn; intros c' x' G' P';
  match type of Hg with get ?s ?c = Some ?x =>
    destruct (Nat.eq_dec c c') as [->|Hne];
    [ unfold get, put in G'; cbn in G'; rewrite (nth_upd_same _ _ _ _ Hg) in G'; injection G' as <-;
      first [ discriminate P'
            | apply (HP _ _ Hg); crec x; unfold via_set in *; cbn in *;
              repeat match goal with H : context [match ?v with ViaNone => _ | _ => _ end] |- _ => destruct v; cbn in * end;
              congruence ]
    | unfold get, put in G'; cbn in G'; rewrite nth_upd_other in G' by assumption; exact (HP _ _ G' P') ]
  end.
Ltac p_same HP := unfold pinv, get in *; cbn; exact HP.

Lemma pinv_step v k s l s' : pinv v s -> step v k s l = Some s' -> pinv v s'.
Proof.
  intros HP H. unfold step in H. destruct (crashed s) eqn:Hc; [discriminate|].
  destruct l.
  - destruct (sp s) eqn:Esp; try discriminate. injection H as <-. unfold pinv in *. cbn. intros c x G P.
    destruct (HP c x G P) as [A|[_ A]]; rewrite Esp in A; discriminate.
  - destruct (sp s) eqn:Esp; try discriminate. destruct (mu s); try discriminate. injection H as <-.
    unfold pinv in *. cbn. intros c x G P. destruct (HP c x G P) as [A|[_ A]]; rewrite Esp in A; discriminate.
  - destruct (sp s) eqn:Esp; try discriminate.
    destruct (lis_open s && Nat.eqb c (length (conns s))) eqn:Heqb; try discriminate. injection H as <-.
    apply andb_prop in Heqb as [_ E]. apply Nat.eqb_eq in E. subst c.
    unfold pinv in *. intros c x G P. left.
    assert (G2 : get (s_conns (conns s ++ [new_conn]) s) c = Some x) by (destruct (on_accept k); exact G).
    apply get_app_new in G2 as [G2|[-> _]].
    + destruct (HP c x G2 P) as [A|[_ A]]; rewrite Esp in A; discriminate.
    + destruct (on_accept k); reflexivity.
  - destruct (sp s) eqn:Esp; try discriminate. destruct (get s c) as [x|] eqn:Hg; try discriminate.
    destruct (Nat.eqb c c0 && on_accept k && (n =? count s + 1)%Z) eqn:E; try discriminate.
    injection H as <-. apply andb_prop in E as [E _]. apply andb_prop in E as [E _]. apply Nat.eqb_eq in E. subst c0.
    unfold pinv in *. intros c' x' G' P'. left.
    assert (G2 : get (put s c (c_acc (Some n) (live_count (conns s)) x)) c' = Some x') by (destruct ok; exact G').
    destruct (Nat.eq_dec c c') as [->|Hne]; [destruct ok; reflexivity|].
    rewrite get_put_other in G2 by assumption. destruct (HP c' x' G2 P') as [A|[_ A]]; rewrite Esp in A; cbn in A; [|discriminate].
    injection A as <-. congruence.
  - destruct (sp s) eqn:Esp; try discriminate. destruct (get s c) as [x|] eqn:Hg; try discriminate.
    destruct (Nat.eqb c c0) eqn:E; try discriminate. apply Nat.eqb_eq in E. subst c0. injection H as <-.
    unfold pinv in *. cbn. intros c' x' G' P'. exfalso.
    destruct (Nat.eq_dec c c') as [->|Hne].
    + unfold get, put in G'; cbn in G'. rewrite (nth_upd_same _ _ _ _ Hg) in G'. injection G' as <-. discriminate P'.
    + unfold get, put in G'; cbn in G'. rewrite nth_upd_other in G' by assumption.
      destruct (HP c' x' G' P') as [A|[_ A]]; rewrite Esp in A; cbn in A; [|discriminate]. injection A as <-. congruence.
  - (* LCtxPass *) destruct (sp s) eqn:Esp; try discriminate. destruct (Nat.eqb c c0 && negb (cancelled s)) eqn:E; try discriminate.
    injection H as <-. apply andb_prop in E as [E _]. apply Nat.eqb_eq in E. subst c0.
    unfold pinv in *. cbn. intros c' x' G' P'. destruct (HP c' x' G' P') as [A|[_ A]]; rewrite Esp in A; cbn in A; [left; exact A|discriminate].
  - (* LCtxDone *) destruct (sp s) eqn:Esp; try discriminate. destruct (Nat.eqb c c0 && cancelled s && negb (v_drop_old v)) eqn:E; try discriminate.
    injection H as <-. apply andb_prop in E as [E _]. apply andb_prop in E as [E _]. apply Nat.eqb_eq in E. subst c0.
    unfold pinv in *. cbn. intros c' x' G' P'. destruct (HP c' x' G' P') as [A|[_ A]]; rewrite Esp in A; cbn in A; [left; exact A|discriminate].
  - (* LTrack *) destruct (sp s) eqn:Esp; try discriminate. destruct (get s c) as [x|] eqn:Hg; try discriminate.
    destruct (Nat.eqb c c0 && negb (mu s)) eqn:E; try discriminate. apply andb_prop in E as [E _].
    apply Nat.eqb_eq in E. subst c0.
    destruct (shut s && negb (v_track_old v)); injection H as <-.
    + unfold pinv in *. cbn. intros c' x' G' P'. destruct (HP c' x' G' P') as [A|[_ A]]; rewrite Esp in A; cbn in A; [left; exact A|discriminate].
    + unfold pinv in *. cbn. intros c' x' G' P'. exfalso.
      destruct (Nat.eq_dec c c') as [->|Hne].
      * unfold get, put in G'; cbn in G'. rewrite (nth_upd_same _ _ _ _ Hg) in G'. injection G' as <-. discriminate P'.
      * unfold get, put in G'; cbn in G'. rewrite nth_upd_other in G' by assumption.
        destruct (HP c' x' G' P') as [A|[_ A]]; rewrite Esp in A; cbn in A; [|discriminate]. injection A as <-. congruence.
  - (* LDropClose *) destruct (sp s) eqn:Esp; try discriminate. destruct (get s c) as [x|] eqn:Hg; try discriminate.
    destruct (Nat.eqb c c0) eqn:E; try discriminate. apply Nat.eqb_eq in E. subst c0. injection H as <-.
    unfold pinv in *. cbn. intros c' x' G' P'. exfalso.
    destruct (Nat.eq_dec c c') as [->|Hne].
    + unfold get, put in G'; cbn in G'. rewrite (nth_upd_same _ _ _ _ Hg) in G'. injection G' as <-. discriminate P'.
    + unfold get, put in G'; cbn in G'. rewrite nth_upd_other in G' by assumption.
      destruct (HP c' x' G' P') as [A|[_ A]]; rewrite Esp in A; cbn in A; [|discriminate]. injection A as <-. congruence.
  - (* LDropCb *) destruct (sp s) eqn:Esp; try discriminate. destruct (get s c) as [x|] eqn:Hg; try discriminate.
    destruct (Nat.eqb c c0) eqn:E; try discriminate. apply Nat.eqb_eq in E. subst c0. injection H as <-.
    unfold pinv in *. cbn. intros c' x' G' P'. exfalso.
    destruct (Nat.eq_dec c c') as [->|Hne].
    + unfold get, put in G'; cbn in G'. rewrite (nth_upd_same _ _ _ _ Hg) in G'. injection G' as <-.
      destruct (on_close k); discriminate P'.
    + unfold get, put in G'; cbn in G'. rewrite nth_upd_other in G' by assumption.
      destruct (HP c' x' G' P') as [A|[_ A]]; rewrite Esp in A; cbn in A; discriminate.
  - (* LServeReturn *) destruct (sp s) eqn:Esp; try discriminate.
    + assert (A : pinv v (s_sp (SReturned e) (s_lis_open false s))).
      { unfold pinv in *; cbn. intros c x G P. destruct (HP c x G P) as [A|[_ A]]; rewrite Esp in A; discriminate. }
      brk H; injection H as <-; exact A.
    + destruct (v_drop_old v) eqn:Ev; [|discriminate]. brk H. injection H as <-.
      unfold pinv; cbn. intros; right; split; [exact Ev|reflexivity].
    + assert (A : pinv v (s_sp (SReturned e) (s_lis_open false s))).
      { unfold pinv in *; cbn. intros c x G P. destruct (HP c x G P) as [A|[_ A]]; rewrite Esp in A; discriminate. }
      brk H; injection H as <-; exact A.
  - cs H. brk Hy; injection Hy as <-; t_p HP Hg.
  - cs H. brk Hy; injection Hy as <-; t_p HP Hg.
  - cs H. brk Hy; injection Hy as <-; t_p HP Hg.
  - cs H. brk Hy; injection Hy as <-; t_p HP Hg.
  - cs H. brk Hy; injection Hy as <-; t_p HP Hg.
  - cs H. brk Hy; injection Hy as <-; t_p HP Hg.
  - cs H. brk Hy; injection Hy as <-; t_p HP Hg.
  - destruct (get s c) as [x|] eqn:Hg; try discriminate. brk H; injection H as <-; t_p HP Hg.
  - destruct (get s c) as [x|] eqn:Hg; try discriminate. brk H; injection H as <-; t_p HP Hg.
  - cs H. brk Hy; injection Hy as <-; t_p HP Hg.
  - cs H. brk Hy; injection Hy as <-; t_p HP Hg.
  - destruct (mu s) eqn:Emu; try discriminate.
    destruct (conn_step s c PExited _) as [s1|] eqn:E1; try discriminate. injection H as <-.
    cs E1. injection Hy as <-. t_p HP Hg.
  - destruct (conn_step s c PUntracked _) as [s1|] eqn:E1; try discriminate.
    cs E1. injection Hy as <-.
    destruct (close_guard v k && negb (on_close k)); injection H as <-; [p_same HP|].
    destruct (close_guard v k); t_p HP Hg.
  - brk H; injection H as <-; p_same HP.
  - brk H; injection H as <-; p_same HP.
  - destruct (sd s) eqn:Esd; try discriminate. destruct (get s c) as [x|] eqn:Hg; try discriminate.
    destruct (mem_nat c todo && inmap x) eqn:E; try discriminate.
    destruct (cst x) eqn:Ecst; try destruct (v_load_old v); injection H as <-; first [p_same HP | t_p HP Hg].
  - destruct (sd s) eqn:Esd; try discriminate. destruct (get s c) as [x|] eqn:Hg; try discriminate.
    destruct (Nat.eqb c c0) eqn:E; try discriminate.
    destruct (cst x) eqn:Ecst; try destruct (v_load_old v); injection H as <-; first [p_same HP | t_p HP Hg].
  - destruct (sd s) eqn:Esd; try discriminate. destruct (get s c) as [x|] eqn:Hg; try discriminate.
    destruct (Nat.eqb c c0) eqn:E; try discriminate. injection H as <-; t_p HP Hg.
  - brk H; injection H as <-; p_same HP.
  - brk H; injection H as <-; p_same HP.
  - brk H; injection H as <-; p_same HP.
  - brk H; injection H as <-; p_same HP.
  - brk H; injection H as <-; p_same HP.
  - brk H; injection H as <-; p_same HP.
  - (* LRejectCloseErr *) destruct (sp s) eqn:Esp; try discriminate. destruct (get s c) as [x|] eqn:Hg; try discriminate.
    destruct (Nat.eqb c c0) eqn:E; try discriminate. apply Nat.eqb_eq in E. subst c0. injection H as <-.
    unfold pinv in *. cbn. intros c' x' G' P'. exfalso.
    destruct (Nat.eq_dec c c') as [->|Hne].
    + unfold get, put in G'; cbn in G'. rewrite (nth_upd_same _ _ _ _ Hg) in G'. injection G' as <-. discriminate P'.
    + unfold get, put in G'; cbn in G'. rewrite nth_upd_other in G' by assumption.
      destruct (HP c' x' G' P') as [A|[_ A]]; rewrite Esp in A; cbn in A; [|discriminate]. injection A as <-. congruence.
  - (* LDropCloseErr *) destruct (sp s) eqn:Esp; try discriminate. destruct (get s c) as [x|] eqn:Hg; try discriminate.
    destruct (Nat.eqb c c0) eqn:E; try discriminate. apply Nat.eqb_eq in E. subst c0. injection H as <-.
    unfold pinv in *. cbn. intros c' x' G' P'. exfalso.
    destruct (Nat.eq_dec c c') as [->|Hne].
    + unfold get, put in G'; cbn in G'. rewrite (nth_upd_same _ _ _ _ Hg) in G'. injection G' as <-. discriminate P'.
    + unfold get, put in G'; cbn in G'. rewrite nth_upd_other in G' by assumption.
      destruct (HP c' x' G' P') as [A|[_ A]]; rewrite Esp in A; cbn in A; [|discriminate]. injection A as <-. congruence.
  - cs H. brk Hy; injection Hy as <-; t_p HP Hg.
  - (* LServeErrCb *) destruct (sp s) eqn:Esp; try discriminate. destruct (Nat.eqb c c0) eqn:E; try discriminate.
    assert (A : forall s1, conns s1 = conns s -> pinv v s1).
    { intros s1 E1. unfold pinv, get in *. rewrite E1. intros c' x' G' P'.
      destruct (HP c' x' G' P') as [A|[_ A]]; rewrite Esp in A; discriminate. }
    destruct (v_raw_err v && Nat.eqb next 0 && negb (on_error k)); injection H as <-; apply A; reflexivity.
  - (* LReServe *) destruct (sp s) eqn:Esp; try discriminate.
    destruct (cancelled s && negb (shut s) && negb (v_drop_old v)) eqn:E; try discriminate.
    apply andb_prop in E as [_ E]. destruct (v_drop_old v) eqn:Ed; try discriminate. injection H as <-.
    assert (N : forall c x, get s c = Some x -> ph x <> PAccepted).
    { intros c x G P. destruct (HP c x G P) as [A|[A _]]; [rewrite Esp in A; cbn in A; discriminate|congruence]. }
    unfold pinv. intros c x G P. exfalso. destruct (v_map_reset v).
    + unfold get in G. cbn in G. rewrite nth_error_map in G. destruct (nth_error (conns s) c) as [y|] eqn:Gy; [|discriminate].
      injection G as <-. apply (N c y Gy). crec y. exact P.
    + apply (N c x G P).
Qed.


Theorem reach_pinv v k s : reach v k s -> pinv v s.
Proof.
  induction 1 as [|s l s' _ IH H]; [unfold pinv, get; cbn; intros c x G; destruct c; discriminate|eapply pinv_step; eassumption].
Qed.
(* Accept is only called when every earlier connection is rejected, tracked, dropped or beyond: the
   counter the next accept callback reads already includes every connection that was let through *)
Theorem accept_after_track v k s c s' : reach v k s -> step v k s (LAccept c) = Some s' ->
  forall d x, get s d = Some x -> ph x <> PAccepted.
Proof.
  intros R H d x G P. pose proof (reach_pinv _ _ _ R d x G P) as A.
  unfold step in H. destruct (crashed s); [discriminate|]. destruct (sp s); try discriminate.
  destruct A as [A|[_ A]]; discriminate.
Qed.
(* no accepted connection is ever left behind: while a connection is in the accepted stage serve is
   working on it (and by serve_progress serve always has a next step) *)
Theorem accepted_is_in_serves_hands k s c x : reach GuardNow k s -> get s c = Some x -> ph x = PAccepted ->
  sp_conn (sp s) = Some c /\ returned (sp s) = false.
Proof.
  intros R G P. destruct (reach_pinv _ _ _ R c x G P) as [A|[A _]]; [|discriminate].
  split; [exact A|]. destruct (sp s); try discriminate; reflexivity.
Qed.

(* ---------- witnesses: the behaviours before the fix: commits, as runs of the variant step functions,
   and what the current step function does on the same schedules ---------- *)
Definition cfg_accept_only : cfg := {| on_serve := false; on_error := false; on_accept := true; on_close := false |}.
Definition cfg_close_only : cfg := {| on_serve := false; on_error := false; on_accept := false; on_close := true |}.
Definition cfg_none : cfg := {| on_serve := false; on_error := false; on_accept := false; on_close := false |}.
Definition cfg_all : cfg := {| on_serve := true; on_error := true; on_accept := true; on_close := true |}.

Lemma run_reach v k ls s : run v k init ls = Some s -> reach v k s.
Proof. intros H. eapply reach_run; [apply reach_init|exact H]. Qed.

(* the guard before fix 7acbe3f: accept-only configuration calls a nil OnCloseConnFunc *)
Definition old_guard_crash_run : list label :=
  [LServeCb; LPublish; LAccept 0; LAcceptCb 0 1 true; LCtxPass 0; LTrack 0; LConnRead 0 REof; LConnLeave 0;
   LConnExit 0; LUntrack 0; LCloseCb 0].
Lemma old_guard_crashes : exists s, reach GuardOld cfg_accept_only s /\ crashed s = true.
Proof.
  destruct (run GuardOld cfg_accept_only init old_guard_crash_run) as [s|] eqn:E; [|vm_compute in E; discriminate].
  exists s. split; [eapply run_reach; exact E|]. vm_compute in E. injection E as <-. reflexivity.
Qed.
Definition close_only_run : list label :=
  [LServeCb; LPublish; LAccept 0; LCtxPass 0; LTrack 0; LConnRead 0 REof; LConnLeave 0; LConnExit 0; LUntrack 0; LCloseCb 0].
Lemma old_guard_skips_close_cb : exists s x, reach GuardOld cfg_close_only s /\ get s 0 = Some x /\ ph x = PDone /\ close_cb x = 0.
Proof.
  destruct (run GuardOld cfg_close_only init close_only_run) as [s|] eqn:E; [|vm_compute in E; discriminate].
  exists s. vm_compute in E. injection E as <-. eexists. split; [apply (run_reach _ _ close_only_run); vm_compute; reflexivity|].
  split; [reflexivity|]. split; reflexivity.
Qed.
Lemma now_guard_same_runs :
  (exists s, run GuardNow cfg_accept_only init old_guard_crash_run = Some s /\ crashed s = false) /\
  (exists s x, run GuardNow cfg_close_only init close_only_run = Some s /\ get s 0 = Some x /\ close_cb x = 1).
Proof. split; [eexists; split; [vm_compute; reflexivity|reflexivity]|eexists; eexists; split; [vm_compute; reflexivity|split; reflexivity]]. Qed.

(* before fb6684d: CAS(idle->closed) fails because a request is being handled, the reply is written and
   the state stored back to idle, then Load() sees `idle` (not `handling`) and the connection is closed
   without a CAS -- while the next request's handler has already started: its reply is lost *)
Definition load_race_run : list label :=
  [LServeCb; LPublish; LAccept 0; LCtxPass 0; LTrack 0;
   LConnRead 0 RData; LHandleStart 0; LHandlerStart 0; LHandlerEnd 0 true;
   LSdCall; LSdBegin; LSdCas 0;
   LReplyWrite 0 true; LHandleEnd 0;
   LSdLoad 0;
   LConnRead 0 RData; LHandleStart 0; LHandlerStart 0;
   LSdClose 0;
   LHandlerEnd 0 true; LReplyWrite 0 false; LSdReturn].
Lemma old_load_race_loses_reply :
  exists s x, reach LoadOld cfg_none s /\ sd s = SdReturned ENil /\ get s 0 = Some x /\
              lost x = 1 /\ started x = 2 /\ replied x = 1 /\ sd_via x = ViaLoadIdle.
Proof.
  destruct (run LoadOld cfg_none init load_race_run) as [s|] eqn:E; [|vm_compute in E; discriminate].
  exists s. vm_compute in E. injection E as <-. eexists. split; [apply (run_reach _ _ load_race_run); vm_compute; reflexivity|].
  repeat split; reflexivity.
Qed.
(* now: after the failed swap the connection is looked at again in the next round; the schedule above
   is not a run any more, and its legal continuation delivers the second reply before the close *)
Definition load_race_run_now : list label :=
  [LServeCb; LPublish; LAccept 0; LCtxPass 0; LTrack 0;
   LConnRead 0 RData; LHandleStart 0; LHandlerStart 0; LHandlerEnd 0 true;
   LSdCall; LSdBegin; LSdCas 0;
   LReplyWrite 0 true; LHandleEnd 0;
   LSdLoad 0;
   LConnRead 0 RData; LHandleStart 0; LHandlerStart 0;
   LSdPassEnd; LSdRetry; LSdCas 0; LSdLoad 0;
   LHandlerEnd 0 true; LReplyWrite 0 true; LHandleEnd 0;
   LSdPassEnd; LSdRetry; LSdCas 0; LSdClose 0; LSdReturn].
Lemma now_load_race_closed :
  run GuardNow cfg_none init load_race_run = None /\
  exists s x, run GuardNow cfg_none init load_race_run_now = Some s /\ sd s = SdReturned ENil /\ get s 0 = Some x /\
              lost x = 0 /\ started x = 2 /\ replied x = 2 /\ owed x = [] /\ sd_via x = ViaCas /\ sock x = false.
Proof.
  split; [vm_compute; reflexivity|]. eexists. eexists. split; [vm_compute; reflexivity|]. repeat split; reflexivity.
Qed.

(* before c43a822: a connection that Accept returned before Shutdown closed the listener and that was
   tracked after Shutdown returned nil was served although the shutdown "succeeded" *)
Definition late_track_run : list label :=
  [LServeCb; LPublish; LAccept 0; LSdCall; LSdBegin; LSdReturn; LCtxPass 0; LTrack 0;
   LConnRead 0 RData; LHandleStart 0; LHandlerStart 0; LHandlerEnd 0 true; LReplyWrite 0 true; LHandleEnd 0].
Lemma old_late_track_survives_shutdown :
  exists s x, reach TrackOld cfg_none s /\ sd s = SdReturned ENil /\ get s 0 = Some x /\
              ph x = PIdle /\ sock x = true /\ inmap x = true /\ replied x = 1.
Proof.
  destruct (run TrackOld cfg_none init late_track_run) as [s|] eqn:E; [|vm_compute in E; discriminate].
  exists s. vm_compute in E. injection E as <-. eexists. split; [apply (run_reach _ _ late_track_run); vm_compute; reflexivity|].
  repeat split; reflexivity.
Qed.
Definition late_track_run_now : list label :=
  [LServeCb; LPublish; LAccept 0; LSdCall; LSdBegin; LSdReturn; LCtxPass 0; LTrack 0; LDropClose 0; LDropCb 0;
   LServeReturn EClosed].
Lemma now_late_track_dropped :
  run GuardNow cfg_close_only init late_track_run = None /\
  exists s x, run GuardNow cfg_close_only init late_track_run_now = Some s /\ sd s = SdReturned ENil /\
              sp s = SReturned EClosed /\ get s 0 = Some x /\
              ph x = PDropped /\ sock x = false /\ inmap x = false /\ close_cb x = 1 /\ count s = 0%Z.
Proof.
  split; [vm_compute; reflexivity|]. eexists. eexists. split; [vm_compute; reflexivity|]. repeat split; reflexivity.
Qed.

(* before ac00631: a connection accepted while the context is cancelled was dropped by serve: neither
   closed nor tracked nor reported to the close callback, and no step ever touched it again *)
Definition accept_cancel_run : list label :=
  [LServeCb; LPublish; LAccept 0; LAcceptCb 0 1 true; LCancel; LServeReturn EClosed].
Lemma old_accept_then_cancel_leaks :
  exists s x, reach DropOld cfg_all s /\ sp s = SReturned EClosed /\ get s 0 = Some x /\ ph x = PAccepted /\
              sock x = true /\ close_cb x = 0 /\
              (forall l, label_gor l = GConn 0 -> step DropOld cfg_all s l = None) /\
              (forall l, label_gor l = GServe -> step DropOld cfg_all s l = None).
Proof.
  destruct (run DropOld cfg_all init accept_cancel_run) as [s|] eqn:E; [|vm_compute in E; discriminate].
  exists s. vm_compute in E. injection E as <-. eexists. split; [apply (run_reach _ _ accept_cancel_run); vm_compute; reflexivity|].
  split; [reflexivity|]. split; [reflexivity|]. split; [reflexivity|]. split; [reflexivity|]. split; [reflexivity|].
  split; intros l Hl; destruct l; cbn in Hl; try discriminate; try (injection Hl as ->); try reflexivity;
    try (destruct r; reflexivity); try (destruct ok; reflexivity).
Qed.
Definition accept_cancel_run_now : list label :=
  [LServeCb; LPublish; LAccept 0; LAcceptCb 0 1 true; LCancel; LCtxDone 0; LDropClose 0; LDropCb 0; LServeReturn EClosed].
Lemma now_accept_then_cancel_closed :
  run GuardNow cfg_all init accept_cancel_run = None /\
  exists s x, run GuardNow cfg_all init accept_cancel_run_now = Some s /\ sp s = SReturned EClosed /\ get s 0 = Some x /\
              ph x = PDropped /\ sock x = false /\ close_cb x = 1 /\ count s = 0%Z.
Proof.
  split; [vm_compute; reflexivity|]. eexists. eexists. split; [vm_compute; reflexivity|]. repeat split; reflexivity.
Qed.

(* before 17ec04c: Shutdown before serve had published the listener dereferenced a nil interface *)
Lemma old_shutdown_before_serve_panics :
  exists s, run NilOld cfg_none init [LSdCall; LSdBegin] = Some s /\ sd s = SdReturned EPanic.
Proof. eexists. split; [vm_compute; reflexivity|reflexivity]. Qed.
Lemma now_shutdown_before_serve_ok k :
  exists s, run GuardNow k init [LSdCall; LSdBegin; LSdReturn; LServeCb; LPublish; LServeReturn EClosed] = Some s /\
            sd s = SdReturned ENil /\ sp s = SReturned EClosed /\ crashed s = false /\ lis_open s = false /\ conns s = [].
Proof. eexists. split; [vm_compute; reflexivity|]. repeat split; reflexivity. Qed.

(* non-vacuity: accept, track, read, handle, reply, shutdown while idle -- reaches the hypotheses of (e),
   and the connection is closed by a successful CAS with nothing owed *)
Definition happy_run : list label :=
  [LServeCb; LPublish; LAccept 0; LAcceptCb 0 1 true; LCtxPass 0; LTrack 0;
   LConnRead 0 RData; LHandleStart 0; LHandlerStart 0; LHandlerEnd 0 true; LReplyWrite 0 true; LHandleEnd 0;
   LSdCall; LSdBegin; LSdCas 0; LSdClose 0; LSdReturn].
Lemma happy_run_example :
  exists s x, run GuardNow cfg_all init happy_run = Some s /\
              sd s = SdReturned ENil /\ get s 0 = Some x /\ sd_via x = ViaCas /\ replied x = 1 /\ owed x = [] /\
              sock x = false /\ acc_arg x = Some 1%Z /\ in_loop (sp s) = true /\
              step GuardNow cfg_all s (LServeReturn EClosed) <> None.
Proof.
  eexists. eexists. split; [vm_compute; reflexivity|].
  repeat split; try reflexivity. vm_compute. discriminate.
Qed.
Lemma cancel_example :
  exists s, run GuardNow cfg_all init [LServeCb; LPublish; LAccept 0; LAcceptCb 0 1 false; LCancel; LAfterClose] = Some s /\
            cancelled s = true /\ lis_open s = false /\
            run GuardNow cfg_all s [LRejectClose 0; LServeReturn EClosed] <> None.
Proof. eexists. split; [vm_compute; reflexivity|]. repeat split; try reflexivity. vm_compute. discriminate. Qed.

(* ---------- Shutdown's to-do list only holds members of the map ---------- *)
Definition tin (s : state) (t : list nat) : Prop := forall c, In c t -> exists x, get s c = Some x /\ inmap x = true.
Definition tinv (s : state) : Prop :=
  match sd s with
  | SdPass t _ => tin s t
  | SdFailed c t _ | SdClosing c t _ => tin s t /\ ~ In c t
  | _ => True
  end.

Lemma inmap_ids_sound cs : forall i c, In c (inmap_ids cs i) -> exists x, nth_error cs (c - i) = Some x /\ inmap x = true /\ i <= c.
Proof.
  induction cs as [|h t IH]; intros i c H; cbn in H; [contradiction|].
  apply in_app_or in H as [H|H].
  - destruct (inmap h) eqn:E; [|contradiction]. destruct H as [<-|[]]. exists h. rewrite Nat.sub_diag. cbn. auto.
  - destruct (IH _ _ H) as [x [A [B C]]]. exists x. replace (c - i) with (S (c - S i)) by lia. cbn. split; [exact A|split; [exact B|lia]].
Qed.
Lemma tin_ids s : tin s (inmap_ids (conns s) 0).
Proof.
  intros c H. destruct (inmap_ids_sound _ _ _ H) as [x [A [B _]]]. rewrite Nat.sub_0_r in A. exists x. split; [exact A|exact B].
Qed.
Lemma remove_nat_spec c d t : In d (remove_nat c t) -> d <> c /\ In d t.
Proof.
  induction t as [|h t IH]; cbn; [tauto|]. destruct (Nat.eqb c h) eqn:E.
  - intros H. destruct (IH H) as [A B]. auto.
  - intros [<-|H]; [split; [apply Nat.eqb_neq in E; congruence|left; reflexivity]|destruct (IH H) as [A B]; auto].
Qed.
Lemma mem_nat_in c t : In c t -> mem_nat c t = true.
Proof.
  induction t as [|h t IH]; cbn; [tauto|]. intros [->|H]; [rewrite Nat.eqb_refl; reflexivity|rewrite (IH H); apply orb_true_r].
Qed.

(* conn updates that keep map membership keep [tin] *)
Ltac t_tin Ht Hm Hg :=
  unfold tinv, tin in *; cbn;
  match goal with |- context [sd ?s] => destruct (sd s) eqn:Esd0 end; auto;
  try (exfalso; cbn in Hm; congruence);
  try (destruct Ht as [Ht Hni]; split; [|exact Hni]);
  intros d Hd; destruct (Ht d Hd) as [x0 [G0 I0]];
  match type of Hg with get ?s ?c = Some ?x =>
    destruct (Nat.eq_dec c d) as [->|Hne];
    [ rewrite G0 in Hg; injection Hg as <-; eexists; split; [unfold get, put in *; cbn; eapply nth_upd_same; eassumption|];
      crec x0; unfold via_set in *; cbn in *;
      repeat match goal with |- context [match ?v with ViaNone => _ | _ => _ end] => destruct v; cbn in * end;
      congruence
    | exists x0; split; [unfold get, put in *; cbn; rewrite nth_upd_other by assumption; assumption|assumption] ]
  end.
Ltac t_tsame Ht := unfold tinv, tin, get in *; cbn; exact Ht.

Lemma tinv_step k s l s' : inv k s -> tinv s -> step GuardNow k s l = Some s' -> tinv s'.
Proof.
  intros [Hc Hn Hf Hm Hcl Hfl Hsp Hspd] Ht H. unf H. rewrite Hc in H.
  destruct l.
  - brk H; injection H as <-; t_tsame Ht.
  - brk H; injection H as <-; t_tsame Ht.
  - destruct (sp s) eqn:Esp; try discriminate.
    destruct (lis_open s && Nat.eqb c (length (conns s))) eqn:Heqb; try discriminate. injection H as <-.
    assert (A : forall t, tin s t -> tin (s_conns (conns s ++ [new_conn]) s) t).
    { intros t C d Hd. destruct (C d Hd) as [x [G I]]. exists x. split; [apply get_app_old; exact G|exact I]. }
    unfold tinv in *. destruct (on_accept k); cbn;
      (destruct (sd s); auto; first [apply A; exact Ht | destruct Ht as [T N]; split; [apply A; exact T|exact N]]).
  - destruct (sp s) eqn:Esp; try discriminate. destruct (get s c) as [x|] eqn:Hg; try discriminate.
    destruct (Nat.eqb c c0 && on_accept k && (n =? count s + 1)%Z) eqn:E; try discriminate.
    injection H as <-. destruct ok; t_tin Ht Hm Hg.
  - destruct (sp s) eqn:Esp; try discriminate. destruct (get s c) as [x|] eqn:Hg; try discriminate.
    destruct (Nat.eqb c c0) eqn:E; try discriminate. apply Nat.eqb_eq in E. subst c0. injection H as <-.
    destruct (Hsp c eq_refl) as [x1 [Hg1 Hp1]]. rewrite Hg in Hg1. injection Hg1 as <-.
    pose proof (Forall_nthe _ _ _ _ Hf Hg) as Hx.
    assert (Him : inmap x = false) by (destruct (inmap x) eqn:Ei; [pose proof (ci_inmap _ _ Hx Ei) as A; rewrite Hp1 in A; discriminate|reflexivity]).
    t_tin Ht Hm Hg.
  - brk H. injection H as <-. t_tsame Ht.
  - brk H. injection H as <-. t_tsame Ht.
  - destruct (sp s) eqn:Esp; try discriminate. destruct (get s c) as [x|] eqn:Hg; try discriminate.
    destruct (Nat.eqb c c0 && negb (mu s)) eqn:E; try discriminate. apply andb_prop in E as [E E2].
    destruct (mu s) eqn:Emu; try discriminate.
    destruct (shut s && negb false) eqn:Esh; injection H as <-; [t_tsame Ht|t_tin Ht Hm Hg].
  - destruct (sp s) eqn:Esp; try discriminate. destruct (get s c) as [x|] eqn:Hg; try discriminate.
    destruct (Nat.eqb c c0) eqn:E; try discriminate. apply Nat.eqb_eq in E. subst c0. injection H as <-.
    destruct (Hsp c eq_refl) as [x1 [Hg1 Hp1]]. rewrite Hg in Hg1. injection Hg1 as <-.
    pose proof (Forall_nthe _ _ _ _ Hf Hg) as Hx.
    assert (Him : inmap x = false) by (destruct (inmap x) eqn:Ei; [pose proof (ci_inmap _ _ Hx Ei) as A; rewrite Hp1 in A; discriminate|reflexivity]).
    t_tin Ht Hm Hg.
  - destruct (sp s) eqn:Esp; try discriminate. destruct (get s c) as [x|] eqn:Hg; try discriminate.
    destruct (Nat.eqb c c0) eqn:E; try discriminate. injection H as <-.
    destruct (on_close k); destruct ret; t_tin Ht Hm Hg.
  - brk H; injection H as <-; t_tsame Ht.
  - cs H. brk Hy; injection Hy as <-; t_tin Ht Hm Hg.
  - cs H. brk Hy; injection Hy as <-; t_tin Ht Hm Hg.
  - cs H. brk Hy; injection Hy as <-; t_tin Ht Hm Hg.
  - cs H. brk Hy; injection Hy as <-; t_tin Ht Hm Hg.
  - cs H. brk Hy; injection Hy as <-; t_tin Ht Hm Hg.
  - cs H. brk Hy; injection Hy as <-; t_tin Ht Hm Hg.
  - cs H. brk Hy; injection Hy as <-; t_tin Ht Hm Hg.
  - destruct (get s c) as [x|] eqn:Hg; try discriminate. brk H; injection H as <-; t_tin Ht Hm Hg.
  - destruct (get s c) as [x|] eqn:Hg; try discriminate. brk H; injection H as <-; t_tin Ht Hm Hg.
  - cs H. brk Hy; injection Hy as <-; t_tin Ht Hm Hg.
  - cs H. brk Hy; injection Hy as <-; t_tin Ht Hm Hg.
  - destruct (mu s) eqn:Emu; try discriminate.
    destruct (conn_step s c PExited _) as [s1|] eqn:E1; try discriminate. injection H as <-.
    cs E1. injection Hy as <-. t_tin Ht Hm Hg.
  - destruct (conn_step s c PUntracked _) as [s1|] eqn:E1; try discriminate.
    cs E1. injection Hy as <-. unfold close_guard in *. cbn [v_guard_old] in *.
    destruct (on_close k) eqn:Eoc; cbn in H; injection H as <-; t_tin Ht Hm Hg.
  - brk H; injection H as <-; t_tsame Ht.
  - (* LSdBegin *) destruct (sd s) eqn:Esd; try discriminate;
      (destruct (sd_req s && negb (mu s)); try discriminate; destruct (lis_set s); injection H as <-;
       unfold tinv; cbn; apply (tin_ids s)).
  - (* LSdCas *)
    destruct (sd s) eqn:Esd; try discriminate. destruct (get s c) as [x|] eqn:Hg; try discriminate.
    destruct (mem_nat c todo && inmap x) eqn:E; try discriminate.
    unfold tinv in *. rewrite Esd in Ht.
    assert (A : forall y, inmap y = inmap x -> tin (put s c y) (remove_nat c todo)).
    { intros y Hy d Hd. apply remove_nat_spec in Hd as [Hne Hd]. destruct (Ht d Hd) as [x0 [G0 I0]].
      exists x0. split; [unfold get, put in *; cbn; rewrite nth_upd_other by congruence; exact G0|exact I0]. }
    assert (B : ~ In c (remove_nat c todo)) by (intros Hd; apply remove_nat_spec in Hd as [Hne _]; congruence).
    destruct (cst x) eqn:Ecst; injection H as <-; cbn; (split; [|exact B]).
    + apply A. unfold via_set. destruct (sd_via x); reflexivity.
    + intros d Hd. apply remove_nat_spec in Hd as [_ Hd]. exact (Ht d Hd).
    + intros d Hd. apply remove_nat_spec in Hd as [_ Hd]. exact (Ht d Hd).
  - (* LSdLoad *)
    destruct (sd s) eqn:Esd; try discriminate. destruct (get s c) as [x|] eqn:Hg; try discriminate.
    destruct (Nat.eqb c c0) eqn:E; try discriminate. apply Nat.eqb_eq in E. subst c0.
    unfold tinv in *. rewrite Esd in Ht. destruct Ht as [Ht Hni].
    destruct (cst x) eqn:Ecst; injection H as <-; cbn; auto.
    split; [|exact Hni]. intros d Hd. destruct (Ht d Hd) as [x0 [G0 I0]]. exists x0. split; [|exact I0].
    unfold get, put in *; cbn. rewrite nth_upd_other; [exact G0|]. intros ->. contradiction.
  - (* LSdClose *)
    destruct (sd s) eqn:Esd; try discriminate. destruct (get s c) as [x|] eqn:Hg; try discriminate.
    destruct (Nat.eqb c c0) eqn:E; try discriminate. apply Nat.eqb_eq in E. subst c0. injection H as <-.
    unfold tinv in *. rewrite Esd in Ht. destruct Ht as [Ht Hni]. cbn.
    intros d Hd. destruct (Ht d Hd) as [x0 [G0 I0]]. exists x0. split; [|exact I0].
    unfold get, put in *; cbn. rewrite nth_upd_other; [exact G0|]. intros ->. contradiction.
  - brk H; injection H as <-; unfold tinv; cbn; exact I.
  - brk H; injection H as <-; unfold tinv; cbn; apply (tin_ids s).
  - brk H; injection H as <-; unfold tinv; cbn; exact I.
  - brk H; injection H as <-; unfold tinv; cbn; exact I.
  - brk H; injection H as <-; t_tsame Ht.
  - brk H; injection H as <-; t_tsame Ht.
  - destruct (sp s) eqn:Esp; try discriminate. destruct (get s c) as [x|] eqn:Hg; try discriminate.
    destruct (Nat.eqb c c0) eqn:E; try discriminate. apply Nat.eqb_eq in E. subst c0. injection H as <-.
    destruct (Hsp c eq_refl) as [x1 [Hg1 Hp1]]. rewrite Hg in Hg1. injection Hg1 as <-.
    pose proof (Forall_nthe _ _ _ _ Hf Hg) as Hx.
    assert (Him : inmap x = false) by (destruct (inmap x) eqn:Ei; [pose proof (ci_inmap _ _ Hx Ei) as A; rewrite Hp1 in A; discriminate|reflexivity]).
    t_tin Ht Hm Hg.
  - destruct (sp s) eqn:Esp; try discriminate. destruct (get s c) as [x|] eqn:Hg; try discriminate.
    destruct (Nat.eqb c c0) eqn:E; try discriminate. apply Nat.eqb_eq in E. subst c0. injection H as <-.
    destruct (Hsp c eq_refl) as [x1 [Hg1 Hp1]]. rewrite Hg in Hg1. injection Hg1 as <-.
    pose proof (Forall_nthe _ _ _ _ Hf Hg) as Hx.
    assert (Him : inmap x = false) by (destruct (inmap x) eqn:Ei; [pose proof (ci_inmap _ _ Hx Ei) as A; rewrite Hp1 in A; discriminate|reflexivity]).
    t_tin Ht Hm Hg.
  - cs H. brk Hy; injection Hy as <-; t_tin Ht Hm Hg.
  - destruct (sp s) eqn:Esp; try discriminate. destruct (Nat.eqb c c0) eqn:E; try discriminate.
    cbn in H. injection H as <-. t_tsame Ht.
  - brk H; injection H as <-; t_tsame Ht.
Qed.

Theorem reach_tinv k s : reach GuardNow k s -> tinv s.
Proof.
  induction 1 as [|s l s' R IH H]; [exact I|]. eapply tinv_step; [apply reach_inv; exact R|exact IH|exact H].
Qed.

(* ---------- progress of Shutdown ---------- *)
Definition quiet (s : state) : Prop := forall c x, get s c = Some x -> cst x <> CHandling.
Definition is_sd (l : label) : bool := match label_gor l with GShutdown => true | _ => false end.

Lemma run_app v k : forall l1 l2 s, run v k s (l1 ++ l2) = match run v k s l1 with Some s1 => run v k s1 l2 | None => None end.
Proof. induction l1 as [|l t IH]; intros l2 s; cbn; [reflexivity|]. destruct (step v k s l); [apply IH|reflexivity]. Qed.

Lemma st_cas_idle k s t ai c x : crashed s = false -> sd s = SdPass t ai -> get s c = Some x -> In c t -> inmap x = true ->
  cst x = CIdle ->
  step GuardNow k s (LSdCas c) = Some (s_sd (SdClosing c (remove_nat c t) ai) (put s c (c_cst CClosed (via_set ViaCas x)))).
Proof. intros A B C D E F. unfold step. rewrite A, B, C, (mem_nat_in _ _ D), E, F. reflexivity. Qed.
Lemma st_cas_closed k s t ai c x : crashed s = false -> sd s = SdPass t ai -> get s c = Some x -> In c t -> inmap x = true ->
  cst x = CClosed -> step GuardNow k s (LSdCas c) = Some (s_sd (SdFailed c (remove_nat c t) ai) s).
Proof. intros A B C D E F. unfold step. rewrite A, B, C, (mem_nat_in _ _ D), E, F. reflexivity. Qed.
Lemma st_load_closed k s t ai c x : crashed s = false -> sd s = SdFailed c t ai -> get s c = Some x -> cst x = CClosed ->
  step GuardNow k s (LSdLoad c) = Some (s_sd (SdClosing c t ai) (put s c (via_set ViaLoadClosed x))).
Proof. intros A B C F. unfold step. rewrite A, B, C, Nat.eqb_refl, F. reflexivity. Qed.
Lemma st_load_idle k s t ai c x : crashed s = false -> sd s = SdFailed c t ai -> get s c = Some x -> cst x = CIdle ->
  step GuardNow k s (LSdLoad c) = Some (s_sd (SdPass t false) s).
Proof. intros A B C F. unfold step. rewrite A, B, C, Nat.eqb_refl, F. reflexivity. Qed.
Lemma st_close k s t ai c x : crashed s = false -> sd s = SdClosing c t ai -> get s c = Some x ->
  step GuardNow k s (LSdClose c) = Some (s_sd (SdPass t ai) (put s c (c_sock false (c_inmap false x)))).
Proof. intros A B C. unfold step. rewrite A, B, C, Nat.eqb_refl. reflexivity. Qed.

Lemma get_sd_put_same v s c x y : get s c = Some x -> get (s_sd v (put s c y)) c = Some y.
Proof. intros G. unfold get, put in *. cbn. eapply nth_upd_same. exact G. Qed.
Lemma get_sd_put_other v s c d y : c <> d -> get (s_sd v (put s c y)) d = get s d.
Proof. intros N. unfold get, put. cbn. apply nth_upd_other. exact N. Qed.

(* the bundle of facts carried through Shutdown's own steps *)
Definition keeps (s s' : state) : Prop := crashed s' = false /\ sd_err s' = sd_err s.

(* closing connection c, for which the swap or the load has already decided *)
Lemma closing_step k s t ai c x : crashed s = false -> sd s = SdClosing c t ai -> get s c = Some x -> quiet s ->
  exists s', step GuardNow k s (LSdClose c) = Some s' /\ sd s' = SdPass t ai /\ keeps s s' /\ quiet s' /\
             (forall d, d <> c -> get s' d = get s d).
Proof.
  intros A B G Q. eexists. split; [apply (st_close k s t ai c x A B G)|]. split; [reflexivity|]. split; [split; [exact A|reflexivity]|]. split.
  - intros d y Gd. destruct (Nat.eq_dec c d) as [<-|N].
    + rewrite (get_sd_put_same _ _ _ _ _ G) in Gd. injection Gd as <-. apply (Q c x G).
    + rewrite get_sd_put_other in Gd by exact N. apply (Q d y Gd).
  - intros d N. apply get_sd_put_other. congruence.
Qed.

Lemma visit_one k s t ai c x : crashed s = false -> sd s = SdPass t ai -> In c t -> get s c = Some x -> inmap x = true ->
  quiet s ->
  exists ls s', run GuardNow k s ls = Some s' /\ forallb is_sd ls = true /\ sd s' = SdPass (remove_nat c t) ai /\ keeps s s' /\
                quiet s' /\ (forall d, d <> c -> get s' d = get s d).
Proof.
  intros A B Hin G I Q. destruct (cst x) eqn:Ec; [|elim (Q c x G Ec)|].
  - (* idle: the swap succeeds *)
    set (y := c_cst CClosed (via_set ViaCas x)). set (s1 := s_sd (SdClosing c (remove_nat c t) ai) (put s c y)).
    assert (G1 : get s1 c = Some y) by (apply (get_sd_put_same _ _ _ _ _ G)).
    assert (Q1 : quiet s1).
    { intros d z Gd. destruct (Nat.eq_dec c d) as [<-|N].
      - rewrite G1 in Gd. injection Gd as <-. unfold y, via_set. destruct (sd_via x); discriminate.
      - unfold s1 in Gd. rewrite get_sd_put_other in Gd by exact N. apply (Q d z Gd). }
    destruct (closing_step k s1 (remove_nat c t) ai c y A eq_refl G1 Q1) as [s2 [S2 [D2 [[K1 K2] [Q2 O2]]]]].
    exists [LSdCas c; LSdClose c], s2. split.
    + cbn [run]. rewrite (st_cas_idle k s t ai c x A B G Hin I Ec). fold y. fold s1. rewrite S2. reflexivity.
    + split; [reflexivity|]. split; [exact D2|]. split; [split; [exact K1|rewrite K2; reflexivity]|]. split; [exact Q2|].
      intros d N. rewrite (O2 d N). unfold s1. apply get_sd_put_other. congruence.
  - (* closed: the swap fails, the load sees closed *)
    set (s1 := s_sd (SdFailed c (remove_nat c t) ai) s).
    set (y := via_set ViaLoadClosed x). set (s2 := s_sd (SdClosing c (remove_nat c t) ai) (put s1 c y)).
    assert (G1 : get s1 c = Some x) by exact G.
    assert (G2 : get s2 c = Some y) by (apply (get_sd_put_same _ _ _ _ _ G1)).
    assert (Q2 : quiet s2).
    { intros d z Gd. destruct (Nat.eq_dec c d) as [<-|N].
      - rewrite G2 in Gd. injection Gd as <-. unfold y, via_set. destruct (sd_via x); cbn; rewrite Ec; discriminate.
      - unfold s2 in Gd. rewrite get_sd_put_other in Gd by exact N. apply (Q d z Gd). }
    destruct (closing_step k s2 (remove_nat c t) ai c y A eq_refl G2 Q2) as [s3 [S3 [D3 [[K1 K2] [Q3 O3]]]]].
    exists [LSdCas c; LSdLoad c; LSdClose c], s3. split.
    + cbn [run]. rewrite (st_cas_closed k s t ai c x A B G Hin I Ec). fold s1.
      rewrite (st_load_closed k s1 (remove_nat c t) ai c x A eq_refl G1 Ec). fold y. fold s2. rewrite S3. reflexivity.
    + split; [reflexivity|]. split; [exact D3|]. split; [split; [exact K1|rewrite K2; reflexivity]|]. split; [exact Q3|].
      intros d N. rewrite (O3 d N). unfold s2. rewrite get_sd_put_other by congruence. reflexivity.
Qed.

Lemma remove_nat_length c t : length (remove_nat c t) <= length t.
Proof. induction t as [|h t IH]; cbn; [lia|]. destruct (Nat.eqb c h); cbn; lia. Qed.

Lemma visit_all k : forall n t s ai, length t <= n -> crashed s = false -> sd s = SdPass t ai -> tin s t -> quiet s ->
  exists ls s', run GuardNow k s ls = Some s' /\ forallb is_sd ls = true /\ sd s' = SdPass [] ai /\ keeps s s' /\ quiet s'.
Proof.
  induction n as [|n IH]; intros t s ai L A B T Q.
  - destruct t; [|cbn in L; lia]. exists [], s. cbn. repeat split; auto.
  - destruct t as [|c t0]; [exists [], s; cbn; repeat split; auto|].
    destruct (T c (or_introl eq_refl)) as [x [G I]].
    destruct (visit_one k s (c :: t0) ai c x A B (or_introl eq_refl) G I Q) as [l1 [s1 [R1 [F1 [D1 [[K1 K2] [Q1 O1]]]]]]].
    assert (L1 : length (remove_nat c (c :: t0)) <= n).
    { cbn. rewrite Nat.eqb_refl. pose proof (remove_nat_length c t0). cbn in L. lia. }
    assert (T1 : tin s1 (remove_nat c (c :: t0))).
    { intros d Hd. apply remove_nat_spec in Hd as [N Hd]. destruct (T d Hd) as [z [Gz Iz]]. exists z. split; [rewrite (O1 d N); exact Gz|exact Iz]. }
    destruct (IH _ s1 ai L1 K1 D1 T1 Q1) as [l2 [s2 [R2 [F2 [D2 [[K3 K4] Q2]]]]]].
    exists (l1 ++ l2), s2. split; [rewrite run_app, R1; exact R2|]. split; [rewrite forallb_app, F1, F2; reflexivity|].
    split; [exact D2|]. split; [split; [exact K3|rewrite K4; exact K2]|exact Q2].
Qed.

Lemma from_pass k s t ai : crashed s = false -> sd s = SdPass t ai -> tin s t -> quiet s ->
  exists ls s', run GuardNow k s ls = Some s' /\ forallb is_sd ls = true /\
                sd s' = SdReturned (if sd_err s then EOther else ENil) /\ mu s' = false.
Proof.
  intros A B T Q.
  destruct (visit_all k (length t) t s ai (le_n _) A B T Q) as [l1 [s1 [R1 [F1 [D1 [[K1 K2] Q1]]]]]].
  destruct ai.
  - exists (l1 ++ [LSdReturn]). eexists. split; [rewrite run_app, R1; cbn [run]; unfold step; rewrite K1, D1; reflexivity|].
    split; [rewrite forallb_app, F1; reflexivity|]. cbn. rewrite K2. split; reflexivity.
  - set (s2 := s_sd (SdPass (inmap_ids (conns (s_sd SdWait s1)) 0) true) (s_sd SdWait s1)).
    assert (Q2 : quiet s2) by exact Q1.
    destruct (visit_all k _ (inmap_ids (conns (s_sd SdWait s1)) 0) s2 true (le_n _) K1 eq_refl (tin_ids s2) Q2) as [l3 [s3 [R3 [F3 [D3 [[K3 K4] Q3]]]]]].
    unfold s2 in R3.
    exists (l1 ++ [LSdPassEnd; LSdRetry] ++ l3 ++ [LSdReturn]). eexists. split.
    + rewrite run_app, R1. rewrite run_app. cbn [run]. unfold step at 1. rewrite K1, D1.
      unfold step at 1. cbn [crashed s_sd sd]. rewrite K1. rewrite run_app, R3. cbn [run]. unfold step. rewrite K3, D3. reflexivity.
    + split; [rewrite !forallb_app, F1, F3; reflexivity|]. cbn. rewrite K4. cbn. rewrite K2. split; reflexivity.
Qed.

(* From every reachable state in which Shutdown is in progress and no connection is in state
   `handling`, Shutdown returns (nil, unless closing the listener had failed) by its OWN steps alone:
   no step of any other goroutine is needed, in particular none that needs the mutex Shutdown holds. *)
Theorem shutdown_progress k s : reach GuardNow k s -> sd_busy (sd s) = true -> quiet s ->
  exists ls s', run GuardNow k s ls = Some s' /\ forallb is_sd ls = true /\
                sd s' = SdReturned (if sd_err s then EOther else ENil) /\ mu s' = false.
Proof.
  intros R Hb Q. pose proof (reach_inv _ _ R) as [Hc Hn Hf Hm Hcl Hfl Hsp Hspd]. pose proof (reach_tinv _ _ R) as T.
  unfold tinv in T. destruct (sd s) as [|t ai|c t ai|c t ai| |e] eqn:Esd; try discriminate.
  - apply (from_pass k s t ai Hc Esd T Q).
  - destruct T as [T N]. destruct (Hfl c t ai eq_refl) as [x [G I]].
    destruct (cst x) eqn:Ec; [|elim (Q c x G Ec)|].
    + set (s1 := s_sd (SdPass t false) s).
      destruct (from_pass k s1 t false Hc eq_refl T Q) as [l [s' [R1 [F1 [D1 M1]]]]].
      exists (LSdLoad c :: l), s'. split; [cbn [run]; rewrite (st_load_idle k s t ai c x Hc Esd G Ec); exact R1|].
      split; [cbn; exact F1|split; [exact D1|exact M1]].
    + set (y := via_set ViaLoadClosed x). set (s1 := s_sd (SdClosing c t ai) (put s c y)).
      assert (G1 : get s1 c = Some y) by (apply (get_sd_put_same _ _ _ _ _ G)).
      assert (Q1 : quiet s1).
      { intros d z Gd. destruct (Nat.eq_dec c d) as [<-|Nd].
        - rewrite G1 in Gd. injection Gd as <-. unfold y, via_set. destruct (sd_via x); cbn; rewrite Ec; discriminate.
        - unfold s1 in Gd. rewrite get_sd_put_other in Gd by exact Nd. apply (Q d z Gd). }
      destruct (closing_step k s1 t ai c y Hc eq_refl G1 Q1) as [s2 [S2 [D2 [[K1 K2] [Q2 O2]]]]].
      assert (T2 : tin s2 t).
      { intros d Hd. destruct (T d Hd) as [z [Gz Iz]]. exists z. split; [|exact Iz].
        assert (Nd : d <> c) by (intros ->; contradiction). rewrite (O2 d Nd). unfold s1. rewrite get_sd_put_other by congruence. exact Gz. }
      destruct (from_pass k s2 t ai K1 D2 T2 Q2) as [l [s' [R1 [F1 [D1 M1]]]]].
      exists (LSdLoad c :: LSdClose c :: l), s'. split.
      * cbn [run]. rewrite (st_load_closed k s t ai c x Hc Esd G Ec). fold y. fold s1. rewrite S2. exact R1.
      * split; [cbn; exact F1|]. split; [rewrite D1, K2; reflexivity|exact M1].
  - destruct T as [T N]. destruct (Hcl c t ai eq_refl) as [x [G [V I]]].
    destruct (closing_step k s t ai c x Hc Esd G Q) as [s2 [S2 [D2 [[K1 K2] [Q2 O2]]]]].
    assert (T2 : tin s2 t).
    { intros d Hd. destruct (T d Hd) as [z [Gz Iz]]. exists z. split; [|exact Iz].
      assert (Nd : d <> c) by (intros ->; contradiction). rewrite (O2 d Nd). exact Gz. }
    destruct (from_pass k s2 t ai K1 D2 T2 Q2) as [l [s' [R1 [F1 [D1 M1]]]]].
    exists (LSdClose c :: l), s'. split; [cbn [run]; rewrite S2; exact R1|].
    split; [cbn; exact F1|]. split; [rewrite D1, K2; reflexivity|exact M1].
  - set (s1 := s_sd (SdPass (inmap_ids (conns s) 0) true) s).
    destruct (from_pass k s1 _ true Hc eq_refl (tin_ids s) Q) as [l [s' [R1 [F1 [D1 M1]]]]].
    exists (LSdRetry :: l), s'. split; [cbn [run]; unfold step; rewrite Hc, Esd; exact R1|].
    split; [cbn; exact F1|split; [exact D1|exact M1]].
Qed.

(* a connection whose exchange has ended abnormally (handler panicked, reply write failed) leaves state
   `handling` by at most two steps of its own goroutine, neither of which needs the mutex: the store of
   `closed` is handle()'s own deferred action, before trackConn(c,false) *)
Theorem ended_exchange_leaves_handling k s c x : reach GuardNow k s -> get s c = Some x -> cst x = CHandling ->
  handling_ph (ph x) = false ->
  exists ls s' x', run GuardNow k s ls = Some s' /\ Forall (fun l => l = LErrCb c \/ l = LConnLeave c) ls /\
                   get s' c = Some x' /\ cst x' = CClosed /\ sd s' = sd s /\ mu s' = mu s /\
                   (forall d, d <> c -> get s' d = get s d).
Proof.
  intros R G Ec Hh. pose proof (reach_inv _ _ R) as [Hc Hn Hf Hm Hcl Hfl Hsp Hspd].
  destruct (ci_handconv _ _ (Forall_nthe _ _ _ _ Hf G) Ec) as [A|P]; [congruence|].
  assert (L : forall s0 y, crashed s0 = false -> get s0 c = Some y -> pend_err y = false -> ph y = PLeaving ->
              step GuardNow k s0 (LConnLeave c) = Some (put s0 c (c_ph PExiting (c_cst CClosed (c_pend (panicked y) y))))).
  { intros s0 y A B C D. unfold step. rewrite A. unfold conn_step. rewrite B, C, D. reflexivity. }
  destruct (pend_err x) eqn:Ep.
  - set (y := c_pend false x). set (s1 := s_errs (if on_error k then S (errs s) else errs s) (put s c y)).
    assert (G1 : get s1 c = Some y) by (unfold s1, get, put in *; cbn; eapply nth_upd_same; exact G).
    exists [LErrCb c; LConnLeave c]. eexists. eexists. split.
    + cbn [run]. unfold step at 1. rewrite Hc, G, Ep. fold y. fold s1.
      assert (C1 : crashed s1 = false) by exact Hc.
      assert (P1 : pend_err y = false) by (unfold y; crec x; reflexivity).
      assert (P2 : ph y = PLeaving) by (unfold y; crec x; cbn in *; exact P).
      rewrite (L s1 y C1 G1 P1 P2). reflexivity.
    + split; [constructor; [left; reflexivity|constructor; [right; reflexivity|constructor]]|]. split; [unfold get, put in *; cbn; eapply nth_upd_same; exact G1|].
      split; [reflexivity|]. split; [reflexivity|]. split; [reflexivity|].
      intros d N. unfold s1, get, put. cbn. rewrite !nth_upd_other by congruence. reflexivity.
  - exists [LConnLeave c]. eexists. eexists. split; [cbn [run]; rewrite (L s x Hc G Ep P); reflexivity|].
    split; [constructor; [right; reflexivity|constructor]|]. split; [unfold get, put in *; cbn; eapply nth_upd_same; exact G|].
    split; [reflexivity|]. split; [reflexivity|]. split; [reflexivity|].
    intros d N. unfold get, put. cbn. rewrite nth_upd_other by congruence. reflexivity.
Qed.

(* ---------- a nil Shutdown, whichever call it is, leaves no exchange in flight ---------- *)
Theorem no_exchange_after_return k s c x : reach GuardNow k s -> sd s = SdReturned ENil \/ sd s = SdReturned EOther ->
  get s c = Some x ->
  handling_ph (ph x) = false /\ owed x = [] /\ inmap x = false /\ (is_live (ph x) = true -> sock x = false).
Proof.
  intros R E G. pose proof (reach_cinv3 _ _ R) as C3.
  pose proof (reach_get_cinv _ _ _ _ R G) as [H1 H2 H3 H4 H5 H6 H7 H8 H9 H10 H11 H12].
  assert (Hi : inmap x = false).
  { destruct (inmap x) eqn:Ei; [|reflexivity]. unfold cinv3 in C3. destruct E as [E|E]; rewrite E in C3;
      (destruct (C3 c x G Ei) as [[]|Hx]; discriminate). }
  assert (Hl : is_live (ph x) = true -> sock x = false) by (intros L; apply (H6 L Hi)).
  assert (Hh : handling_ph (ph x) = false).
  { destruct (handling_ph (ph x)) eqn:Eh; [|reflexivity]. exfalso.
    assert (L : is_live (ph x) = true) by (destruct (ph x); try discriminate; reflexivity).
    assert (P : pre_exit (ph x) = true) by (destruct (ph x); try discriminate; reflexivity).
    specialize (H7 (H8 (Hl L) P)). rewrite (H3 eq_refl) in H7. discriminate. }
  split; [exact Hh|]. split; [|split; [exact Hi|exact Hl]].
  destruct (owed x) eqn:Eo; [reflexivity|]. exfalso.
  destruct (H4 ltac:(discriminate)) as [P|[P _]]; rewrite P in Hh; discriminate.
Qed.

(* a first Shutdown gives up (its short context expires while a handler is in flight), the caller retries:
   the second Shutdown cannot return while the handler runs, and returns after the reply has been written
   and the connection closed -- with the error of closing the listener a second time (the first call
   had closed it), which is what the code does with a real net.Listener too *)
Definition repeated_shutdown_prefix : list label :=
  [LServeCb; LPublish; LAccept 0; LCtxPass 0; LTrack 0; LConnRead 0 RData; LHandleStart 0; LHandlerStart 0;
   LSdCall; LSdBegin; LSdCas 0; LSdLoad 0; LSdPassEnd; LSdTimeout;
   LSdCall; LSdBegin; LSdCas 0; LSdLoad 0].
Definition repeated_shutdown_rest : list label :=
  [LSdPassEnd; LHandlerEnd 0 true; LReplyWrite 0 true; LHandleEnd 0; LSdRetry; LSdCas 0; LSdClose 0; LSdReturn].
Lemma repeated_shutdown_example :
  exists s1, run GuardNow cfg_none init repeated_shutdown_prefix = Some s1 /\
    step GuardNow cfg_none s1 LSdReturn = None /\ step GuardNow cfg_none s1 (LSdClose 0) = None /\
    exists s2 x, run GuardNow cfg_none s1 repeated_shutdown_rest = Some s2 /\ sd s2 = SdReturned EOther /\
      get s2 0 = Some x /\ replied x = 1 /\ owed x = [] /\ sock x = false /\ sd_via x = ViaCas.
Proof.
  eexists. split; [vm_compute; reflexivity|]. split; [vm_compute; reflexivity|]. split; [vm_compute; reflexivity|].
  eexists. eexists. split; [vm_compute; reflexivity|]. repeat split; reflexivity.
Qed.

(* ---------- the error callback at serve's call sites ---------- *)
(* serve reports the error of a failing Close through its local onErrorFunc, which is never nil *)
Lemma serve_err_cb_safe k s c s' : step GuardNow k s (LServeErrCb c) = Some s' -> crashed s' = false.
Proof.
  intros H. unf H. destruct (crashed s) eqn:Hc; [discriminate|]. destruct (sp s); try discriminate.
  destruct (Nat.eqb c c0); try discriminate. cbn in H. injection H as <-. exact Hc.
Qed.
(* the reject path calling the raw field s.OnErrorFunc instead: accept callback set and rejecting,
   OnErrorFunc unset, Close() failing -> nil function call in the serve goroutine *)
Definition reject_close_error_run : list label :=
  [LServeCb; LPublish; LAccept 0; LAcceptCb 0 1 false; LRejectCloseErr 0; LServeErrCb 0].
Lemma raw_error_field_crashes : exists s, reach RawErr cfg_accept_only s /\ crashed s = true.
Proof.
  destruct (run RawErr cfg_accept_only init reject_close_error_run) as [s|] eqn:E; [|vm_compute in E; discriminate].
  exists s. split; [eapply run_reach; exact E|]. vm_compute in E. injection E as <-. reflexivity.
Qed.
Lemma now_reject_close_error_ok :
  exists s x, run GuardNow cfg_accept_only init reject_close_error_run = Some s /\ crashed s = false /\ sp s = SLoop /\
              get s 0 = Some x /\ ph x = PRejected /\ sock x = false /\ close_cb x = 0 /\ errs s = 0.
Proof. eexists. eexists. split; [vm_compute; reflexivity|]. repeat split; reflexivity. Qed.

(* ---------- serving the same Server value again ---------- *)
(* LReServe keeps the tracked set, the counter and every connection: Shutdown still knows the connections
   of the earlier call of serve.  (All invariants above are proved over runs that contain LReServe steps:
   none of them says which call of serve accepted a connection.) *)
Theorem reserve_keeps_tracked k s s' : step GuardNow k s LReServe = Some s' ->
  conns s' = conns s /\ count s' = count s /\ sd s' = sd s /\ shut s' = false /\ mu s' = mu s /\
  sp s' = SStart /\ lis_open s' = true /\ cancelled s' = false /\ upto s' = length (conns s).
Proof.
  intros H. unf H. destruct (crashed s); [discriminate|]. destruct (sp s); try discriminate.
  destruct (cancelled s && negb (shut s) && negb false) eqn:E; try discriminate.
  apply andb_prop in E as [E _]. apply andb_prop in E as [_ E]. destruct (shut s) eqn:Es; try discriminate.
  injection H as <-. cbn. rewrite Es. repeat split; reflexivity.
Qed.

(* first serve: one connection, a handler in flight; the context is cancelled, serve returns; the same
   Server is served again; Shutdown *)
Definition reserve_prefix : list label :=
  [LServeCb; LPublish; LAccept 0; LCtxPass 0; LTrack 0; LConnRead 0 RData; LHandleStart 0; LHandlerStart 0;
   LCancel; LAfterClose; LServeReturn EClosed; LReServe; LServeCb; LPublish; LSdCall; LSdBegin].
(* serve() allocating the map afresh: Shutdown returns nil at once, the started handler has no reply yet,
   the old connection stays open *)
Lemma map_reset_loses_connections :
  exists s x, reach MapReset cfg_none s /\ sd s = SdReturned ENil /\ get s 0 = Some x /\
              ph x = PInHandler /\ owed x = [0] /\ replied x = 0 /\ sock x = true /\ inmap x = false /\ count s = 1%Z.
Proof.
  destruct (run MapReset cfg_none init (reserve_prefix ++ [LSdReturn])) as [s|] eqn:E; [|vm_compute in E; discriminate].
  exists s. vm_compute in E. injection E as <-. eexists. split; [apply (run_reach _ _ (reserve_prefix ++ [LSdReturn])); vm_compute; reflexivity|].
  repeat split; reflexivity.
Qed.
(* now: Shutdown cannot return while that handler runs; it returns nil after the reply has been written and
   the old connection has been closed *)
Lemma now_reserve_shutdown_waits :
  exists s1, run GuardNow cfg_none init reserve_prefix = Some s1 /\
    step GuardNow cfg_none s1 LSdReturn = None /\
    exists s2 x, run GuardNow cfg_none s1
                   [LSdCas 0; LSdLoad 0; LSdPassEnd; LHandlerEnd 0 true; LReplyWrite 0 true; LHandleEnd 0; LConnCtxExit 0;
                    LConnLeave 0; LSdRetry; LSdCas 0; LSdLoad 0; LSdClose 0; LSdReturn] = Some s2 /\
      sd s2 = SdReturned ENil /\ get s2 0 = Some x /\ replied x = 1 /\ owed x = [] /\ sock x = false /\ inmap x = false.
Proof.
  eexists. split; [vm_compute; reflexivity|]. split; [vm_compute; reflexivity|].
  eexists. eexists. split; [vm_compute; reflexivity|]. repeat split; reflexivity.
Qed.
