(* ClientC08.v -- what Client.Do / SerialClient.Do return when something goes wrong: the faults before
   the read loop, and each kind of fault after the transport has delivered a prefix of a reply. *)
From Coq Require Import ZifyBool ZifyN ZifyNat.
Require Import MB.GoSem MB.CrcModel MB.PacketModel MB.ClientModel.
Require Import MB.proofs.ClientProofs MB.proofs.ClientC07 MB.proofs.ClientInv.
Open Scope N_scope.
Ltac Zify.zify_post_hook ::= Z.div_mod_to_equations.

(* ---------- before the loop ---------- *)
Lemma nil_request cfg sc : client_do cfg sc None = (OFail CNilRequest, []).
Proof. reflexivity. Qed.

Lemma not_connected cfg sc q : c_connected cfg = false ->
  client_do cfg sc (Some q) =
  (OFail (match c_kind cfg with KSerial => CNoPort | _ => CNotConnected end), []).
Proof. intros H. unfold client_do. rewrite H. reflexivity. Qed.

Lemma swd_error cfg sc q : c_connected cfg = true -> c_kind cfg <> KSerial -> sc_swd_err sc = true ->
  client_do cfg sc (Some q) = (OFail (CIo SiteSWD), [TSetWriteDeadline]).
Proof.
  intros Hc Hk Hs. unfold client_do, do_. rewrite Hc, Hs. cbn [negb].
  destruct (c_kind cfg); [reflexivity|reflexivity|congruence].
Qed.

Lemma write_error cfg sc q : c_connected cfg = true ->
  (c_kind cfg = KSerial \/ sc_swd_err sc = false) -> sc_write_err sc = true ->
  fst (client_do cfg sc (Some q)) = OFail (CIo SiteWrite) \/
  (c_kind cfg = KSerial /\ c_flusher cfg = true /\ sc_flush_err sc = true /\
   fst (client_do cfg sc (Some q)) = OFail (CIo SiteFlush)).
Proof.
  intros Hc Hk Hw. unfold client_do, do_. rewrite Hc, Hw. cbn [negb].
  destruct (c_kind cfg) eqn:Ek.
  - destruct Hk as [Hk|Hk]; [discriminate|]. rewrite Hk. left. reflexivity.
  - destruct Hk as [Hk|Hk]; [discriminate|]. rewrite Hk. left. reflexivity.
  - unfold flush_then. rewrite Ek. destruct (c_flusher cfg); [|left; reflexivity].
    destruct (sc_flush_err sc); [right|left]; repeat split; reflexivity.
Qed.

(* ---------- one iteration that ends the call ---------- *)
Section OneStep.
Variable cfg : config.
Variable sc : script.
Variable e : nat.
Let k := c_kind cfg.

Lemma loop_ctx st tail acc :
  s_ctx st = true -> s_pick st || negb (s_timer st) = true ->
  loop cfg sc e (st :: tail) acc = (DFail (CCtx (s_deadline st)), []).
Proof. intros H1 H2. cbn [loop]. rewrite H1, H2. reflexivity. Qed.

Lemma loop_timer st tail acc :
  s_timer st = true -> s_ctx st && (s_pick st || negb (s_timer st)) = false ->
  loop cfg sc e (st :: tail) acc = (DFail CTimeout, []).
Proof. intros H1 H2. cbn [loop]. rewrite H2, H1. reflexivity. Qed.

Definition no_select (st : step) : Prop := s_ctx st = false /\ s_timer st = false.

Definition room (acc : list N) : nat := (buf_size k - length acc)%nat.

Lemma loop_io_error st tail acc b : no_select st -> s_rd st = RIoErr b ->
  loop cfg sc e (st :: tail) acc =
  with_trace (read_ev cfg (firstn (room acc) b) 3) (flush_then cfg sc (DFail (CIo SiteRead))).
Proof. intros [H1 H2] Hr. cbn [loop]. rewrite H1, H2, Hr. reflexivity. Qed.

Lemma loop_oversize st tail acc b : no_select st ->
  (s_rd st = RData b \/ s_rd st = RTimeout b \/ s_rd st = REof b) ->
  (max_len k < length (acc ++ firstn (room acc) b))%nat ->
  exists cls,
  loop cfg sc e (st :: tail) acc =
  with_trace (read_ev cfg (firstn (room acc) b) cls) (flush_then cfg sc (DFail CTooLong)).
Proof.
  intros [H1 H2] Hr Hl. cbn [loop]. rewrite H1, H2. cbn [andb].
  destruct Hr as [Hr|[Hr|Hr]]; rewrite Hr; cbn [delivered fst snd]; fold k; fold (room acc);
    [exists 0|exists 1|exists 2]; unfold read_ev; f_equal;
    (match goal with |- context [(?a =? 3)] => change (a =? 3) with false end); cbn iota;
    replace (max_len k <? length (acc ++ firstn (room acc) b))%nat with true by lia; reflexivity.
Qed.

(* [net] the stream ends: whatever has been received goes to the parser *)
Lemma loop_eof_net st tail acc b : no_select st -> s_rd st = REof b ->
  eof_breaks k = true ->
  (length (acc ++ b) <= max_len k)%nat ->
  recognise k (window k (acc ++ b)) = RNone ->
  (length (acc ++ b) < e)%nat ->
  loop cfg sc e (st :: tail) acc = with_trace (read_ev cfg b 2) (finish (acc ++ b), []).
Proof.
  intros [H1 H2] Hr Hk Hm Hn He. cbn [loop]. rewrite H1, H2, Hr. cbn [andb delivered fst snd]. fold k.
  assert (X : (length b <= buf_size k - length acc)%nat) by (rewrite app_length in Hm; unfold buf_size; lia).
  rewrite (firstn_all2 _ X).
  unfold read_ev. f_equal. change (2 =? 3) with false. cbn iota.
  replace (max_len k <? length (acc ++ b))%nat with false by lia. rewrite Hn.
  replace (e <=? length (acc ++ b))%nat with false by lia.
  change (2 =? 2) with true. rewrite Hk. reflexivity.
Qed.

(* [serial] io.EOF is ignored like a timed-out read *)
Lemma loop_eof_serial st tail acc b : no_select st -> s_rd st = REof b ->
  eof_breaks k = false -> alive cfg e (acc ++ b) ->
  loop cfg sc e (st :: tail) acc = with_trace (read_ev cfg b 2) (loop cfg sc e tail (acc ++ b)).
Proof.
  intros [H1 H2] Hr Hk (He & Hm & Hn). fold k in Hm, Hn. cbn [loop]. rewrite H1, H2, Hr. cbn [andb delivered fst snd]. fold k.
  assert (X : (length b <= buf_size k - length acc)%nat) by (rewrite app_length in Hm; unfold buf_size; lia).
  rewrite (firstn_all2 _ X).
  unfold read_ev. f_equal. change (2 =? 3) with false. cbn iota.
  replace (max_len k <? length (acc ++ b))%nat with false by lia. rewrite Hn.
  replace (e <=? length (acc ++ b))%nat with false by lia.
  rewrite Hk, andb_false_r. reflexivity.
Qed.
End OneStep.

(* ---------- after a live prefix ---------- *)
(* a proper prefix of a reply below the threshold is a state in which the loop goes on, and so is
   every boundary before it *)
Lemma prefix_alive_through cfg e chunks reply s :
  reply = payload chunks ++ s ->
  (length (payload chunks) < e)%nat -> (length (payload chunks) <= max_len (c_kind cfg))%nat ->
  nth (fc_pos (c_kind cfg)) reply 0 < 128 ->
  alive_through cfg e [] chunks.
Proof.
  intros Hr He Hm Hfc pre post Hsplit. cbn [app].
  assert (Hlen : (length (payload pre) <= length (payload chunks))%nat).
  { rewrite Hsplit, payload_app, app_length. lia. }
  split; [lia|split; [lia|]].
  apply (recognise_prefix _ reply (payload pre) (payload post ++ s)); [|exact Hfc].
  rewrite Hr, Hsplit, payload_app, <- app_assoc. reflexivity.
Qed.

(* the same for a proper prefix of an exception frame (or any bytes shorter than one) *)
Lemma short_prefix_alive_through cfg e chunks :
  (length (payload chunks) < e)%nat -> (length (payload chunks) < exc_len (c_kind cfg))%nat ->
  alive_through cfg e [] chunks.
Proof.
  intros He Hx pre post Hsplit. cbn [app].
  assert (Hlen : (length (payload pre) <= length (payload chunks))%nat).
  { rewrite Hsplit, payload_app, app_length. lia. }
  assert (Hmax : (exc_len (c_kind cfg) <= max_len (c_kind cfg))%nat).
  { unfold exc_len, max_len. destruct (c_kind cfg); cbn; lia. }
  split; [lia|split; [lia|]]. apply recognise_len. lia.
Qed.

Section AfterPrefix.
Variable cfg : config.
Variable sc : script.
Variable q : creq.
Let k := c_kind cfg.
Hypothesis Hconn : c_connected cfg = true.
Hypothesis Hw : writes_ok sc.

Lemma client_after_prefix chunks rest :
  sc_steps sc = script_of chunks ++ rest ->
  alive_through cfg (q_expected q) [] chunks ->
  client_do cfg sc (Some q) =
  let x := with_trace (write_trace cfg (q_bytes q) ++ reads_trace cfg chunks)
                      (loop cfg sc (q_expected q) rest (payload chunks)) in
  match fst x with
  | DFail e => (OFail e, snd x)
  | DPanic => (OPanic, snd x)
  | DOutOfScript => (OOutOfScript, snd x)
  | DBytes b => (outcome_of_parse k b, snd x ++ hk cfg (HBeforeParse b))
  end.
Proof.
  intros Hs Ha. rewrite (client_do_loop cfg sc q Hconn Hw). rewrite Hs.
  rewrite loop_continue by exact Ha. cbn [app]. rewrite with_trace_app. reflexivity.
Qed.

(* the caller cancels, or the caller's own deadline expires: the context's error, whichever it is
   (when the timer has fired too, select may take either case) *)
Theorem fault_cancel chunks st tail :
  sc_steps sc = script_of chunks ++ st :: tail ->
  alive_through cfg (q_expected q) [] chunks ->
  s_ctx st = true ->
  fst (client_do cfg sc (Some q)) =
  (if s_pick st || negb (s_timer st) then OFail (CCtx (s_deadline st)) else OFail CTimeout).
Proof.
  intros Hs Ha Hc. rewrite (client_after_prefix chunks (st :: tail) Hs Ha).
  destruct (s_pick st || negb (s_timer st)) eqn:E.
  - rewrite loop_ctx by assumption. reflexivity.
  - rewrite loop_timer; [reflexivity| |rewrite Hc, E; reflexivity].
    destruct (s_timer st); [reflexivity|]. rewrite orb_true_r in E. discriminate.
Qed.

(* ... in particular after a stall of any length, with the timer not fired: the caller's context
   decides, and its error says whether it was cancelled or its own deadline expired *)
Theorem fault_ctx_after_stall chunks w st tail :
  sc_steps sc = script_of chunks ++ repeat quiet w ++ st :: tail ->
  alive_through cfg (q_expected q) [] chunks ->
  s_ctx st = true -> s_timer st = false ->
  client_do cfg sc (Some q) =
  (OFail (CCtx (s_deadline st)), write_trace cfg (q_bytes q) ++ reads_trace cfg chunks ++ quiet_trace cfg w).
Proof.
  intros Hs Ha Hc Ht. rewrite (client_after_prefix chunks _ Hs Ha).
  rewrite loop_quiets.
  2:{ specialize (Ha chunks [] (eq_sym (app_nil_r _))). cbn [app] in Ha. exact Ha. }
  rewrite loop_ctx by (rewrite ?Ht, ?orb_true_r; auto).
  rewrite !with_trace_app, with_trace_pair. cbn zeta. cbn [fst snd]. rewrite app_nil_r, <- ?app_assoc. reflexivity.
Qed.

(* the transport fails *)
Theorem fault_io chunks st tail b :
  sc_steps sc = script_of chunks ++ st :: tail ->
  alive_through cfg (q_expected q) [] chunks ->
  no_select st -> s_rd st = RIoErr b ->
  fst (client_do cfg sc (Some q)) = OFail (CIo SiteRead) \/
  (~ flush_ok cfg sc /\ fst (client_do cfg sc (Some q)) = OFail (CIo SiteFlush)).
Proof.
  intros Hs Ha Hn Hr. rewrite (client_after_prefix chunks (st :: tail) Hs Ha).
  rewrite (loop_io_error cfg sc _ st tail _ b Hn Hr). rewrite with_trace_app. cbn zeta.
  rewrite with_trace_fst.
  unfold flush_then, flush_ok. destruct (c_kind cfg); try (left; reflexivity).
  destruct (c_flusher cfg); [|left; reflexivity].
  destruct (sc_flush_err sc); [right|left; reflexivity].
  split; [intros H; specialize (H eq_refl eq_refl); discriminate|reflexivity].
Qed.

(* more bytes than a frame can hold *)
Theorem fault_oversize chunks st tail b :
  sc_steps sc = script_of chunks ++ st :: tail ->
  alive_through cfg (q_expected q) [] chunks ->
  no_select st -> (s_rd st = RData b \/ s_rd st = RTimeout b \/ s_rd st = REof b) ->
  (max_len k < length (payload chunks ++ firstn (buf_size k - length (payload chunks)) b))%nat ->
  fst (client_do cfg sc (Some q)) = OFail CTooLong \/
  (~ flush_ok cfg sc /\ fst (client_do cfg sc (Some q)) = OFail (CIo SiteFlush)).
Proof.
  intros Hs Ha Hn Hr Hl. rewrite (client_after_prefix chunks (st :: tail) Hs Ha).
  destruct (loop_oversize cfg sc (q_expected q) st tail _ b Hn Hr Hl) as [cls E]. rewrite E.
  rewrite with_trace_app. cbn zeta. rewrite with_trace_fst.
  unfold flush_then, flush_ok. destruct (c_kind cfg); try (left; reflexivity).
  destruct (c_flusher cfg); [|left; reflexivity].
  destruct (sc_flush_err sc); [right|left; reflexivity].
  split; [intros H; specialize (H eq_refl eq_refl); discriminate|reflexivity].
Qed.

(* [net] the stream is closed before the threshold is reached: nothing received is "no bytes",
   otherwise the parser decides about the prefix *)
Theorem fault_eof_net chunks st tail b :
  sc_steps sc = script_of chunks ++ st :: tail ->
  alive_through cfg (q_expected q) [] chunks ->
  no_select st -> s_rd st = REof b ->
  eof_breaks k = true ->
  alive cfg (q_expected q) (payload chunks ++ b) ->
  fst (client_do cfg sc (Some q)) =
  match payload chunks ++ b with
  | [] => OFail CNoBytes
  | _ => outcome_of_parse k (payload chunks ++ b)
  end.
Proof.
  intros Hs Ha Hn Hr Hk (He & Hm & Hrec). rewrite (client_after_prefix chunks (st :: tail) Hs Ha).
  rewrite (loop_eof_net cfg sc (q_expected q) st tail _ b Hn Hr Hk Hm Hrec He).
  rewrite with_trace_app, with_trace_pair. cbn zeta. cbn [fst]. unfold finish.
  destruct (payload chunks ++ b); reflexivity.
Qed.

(* [serial] io.EOF does not end the call: it goes on polling and ends with the timer *)
Theorem fault_eof_serial chunks st b w pick r tail :
  sc_steps sc = script_of chunks ++ st :: repeat quiet w ++ timer_step pick r :: tail ->
  alive_through cfg (q_expected q) [] chunks ->
  no_select st -> s_rd st = REof b ->
  eof_breaks k = false ->
  alive cfg (q_expected q) (payload chunks ++ b) ->
  fst (client_do cfg sc (Some q)) = OFail CTimeout.
Proof.
  intros Hs Ha Hn Hr Hk Hal. rewrite (client_after_prefix chunks _ Hs Ha).
  rewrite (loop_eof_serial cfg sc (q_expected q) st _ _ b Hn Hr Hk Hal).
  rewrite loop_quiets by exact Hal.
  cbn [loop timer_step s_ctx s_timer s_pick andb]. rewrite !with_trace_app, with_trace_pair. reflexivity.
Qed.
End AfterPrefix.

(* ---------- the bound ---------- *)
Definition truncate (sc : script) (n : nat) : script :=
  {| sc_swd_err := sc_swd_err sc; sc_write_err := sc_write_err sc; sc_flush_err := sc_flush_err sc;
     sc_steps := firstn n (sc_steps sc) |}.

Lemma flush_then_truncate cfg sc n r : flush_then cfg (truncate sc n) r = flush_then cfg sc r.
Proof. reflexivity. Qed.

Lemma loop_truncate cfg sc n e : forall steps acc,
  loop cfg (truncate sc n) e steps acc = loop cfg sc e steps acc.
Proof.
  induction steps as [|st rest IH]; intros acc; [reflexivity|].
  cbn [loop]. rewrite !flush_then_truncate. rewrite IH. reflexivity.
Qed.

Lemma read_count_app a b : read_count (a ++ b) = (read_count a + read_count b)%nat.
Proof. unfold read_count. rewrite read_events_app, app_length. reflexivity. Qed.
Lemma read_count_hk cfg x : (match x with TRead _ _ => False | _ => True end) -> read_count (hk cfg x) = 0%nat.
Proof. unfold hk. destruct (c_hooks cfg); [|reflexivity]. destruct x; intros H; try reflexivity. destruct H. Qed.

(* the timer fires (or the context is done) at iteration T: the call has ended by then, after at
   most T transport reads, whatever the script says afterwards *)
Theorem client_bounded cfg sc r T st :
  nth_error (sc_steps sc) T = Some st -> ends_call st = true ->
  client_do cfg (truncate sc (S T)) r = client_do cfg sc r /\
  fst (client_do cfg sc r) <> OOutOfScript /\
  (read_count (snd (client_do cfg sc r)) <= T)%nat.
Proof.
  intros Hn He. destruct r as [q|]; [|split; [reflexivity|split; [discriminate|cbn; lia]]].
  unfold client_do.
  destruct (negb (c_connected cfg)); [split; [reflexivity|split; [destruct (c_kind cfg); discriminate|cbn; lia]]|].
  destruct (loop_bounded cfg sc (q_expected q) T (sc_steps sc) [] st Hn He) as (A & B & C).
  assert (D : do_ cfg (truncate sc (S T)) (q_bytes q) (q_expected q) = do_ cfg sc (q_bytes q) (q_expected q)).
  { unfold do_. cbn [sc_swd_err sc_write_err sc_steps truncate]. rewrite !flush_then_truncate.
    rewrite loop_truncate, A. reflexivity. }
  rewrite D. split; [reflexivity|].
  assert (E : fst (do_ cfg sc (q_bytes q) (q_expected q)) <> DOutOfScript /\
              (read_count (snd (do_ cfg sc (q_bytes q) (q_expected q))) <= T)%nat).
  { unfold do_. destruct (c_kind cfg) eqn:Ek; rewrite ?with_trace_fst, ?with_trace_snd.
    - destruct (sc_swd_err sc); [split; [discriminate|cbn; lia]|].
      rewrite ?with_trace_fst, ?with_trace_snd. destruct (sc_write_err sc); [split; [discriminate|]|split; [exact B|]];
        rewrite !read_count_app, read_count_hk by exact I; cbn [read_count read_events length]; cbn; lia.
    - destruct (sc_swd_err sc); [split; [discriminate|cbn; lia]|].
      rewrite ?with_trace_fst, ?with_trace_snd. destruct (sc_write_err sc); [split; [discriminate|]|split; [exact B|]];
        rewrite !read_count_app, read_count_hk by exact I; cbn [read_count read_events length]; cbn; lia.
    - destruct (sc_write_err sc).
      + split.
        * destruct (flush_then_cases cfg sc (DFail (CIo SiteWrite))) as [[F|F] _]; rewrite F; discriminate.
        * rewrite !read_count_app, read_count_hk, read_count_flush by exact I. cbn. lia.
      + split; [exact B|]. rewrite !read_count_app, read_count_hk by exact I. cbn. lia. }
  destruct E as [E1 E2].
  destruct (fst (do_ cfg sc (q_bytes q) (q_expected q))) eqn:Ed; cbn [fst snd];
    try (split; [discriminate|exact E2]); [|congruence].
  split; [destruct (parse_resp _ _) as [[? ?]| |]; discriminate|].
  rewrite read_count_app, read_count_hk by exact I. lia.
Qed.
