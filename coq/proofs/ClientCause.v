(* ClientCause.v -- no error class is fabricated: whenever Client.Do / SerialClient.Do report a
   class of error, the script contains the fault of that class. *)
From Coq Require Import ZifyBool ZifyN ZifyNat.
Require Import MB.GoSem MB.CrcModel MB.PacketModel MB.ClientModel.
Require Import MB.proofs.ClientProofs MB.proofs.ClientC07 MB.proofs.ClientInv.
Open Scope N_scope.
Ltac Zify.zify_post_hook ::= Z.div_mod_to_equations.

(* [received]: all bytes the transport has returned when the call ends *)
Definition cause (cfg : config) (sc : script) (steps : list step) (received : list N) (e : cerr) : Prop :=
  match e with
  | CCtx d => exists st, In st steps /\ s_ctx st = true /\ s_deadline st = d
  | CTimeout => exists st, In st steps /\ s_timer st = true
  | CIo SiteRead => exists st b, In st steps /\ s_rd st = RIoErr b
  | CIo SiteFlush => c_kind cfg = KSerial /\ c_flusher cfg = true /\ sc_flush_err sc = true
  | CIo SiteSWD => c_kind cfg <> KSerial /\ sc_swd_err sc = true
  | CIo SiteWrite => sc_write_err sc = true
  | CTooLong => (max_len (c_kind cfg) < length received)%nat
  | CNoBytes => received = []
  | CNilRequest | CNotConnected | CNoPort | CParse _ => False   (* not produced by do() *)
  | CExc _ => True                                              (* see C08_ok_only_complete *)
  end.
Definition dcause (cfg : config) (sc : script) (steps : list step) (received : list N) (d : dores) : Prop :=
  match d with DFail e => cause cfg sc steps received e | _ => True end.

Lemma flush_then_cases' cfg sc r :
  fst (flush_then cfg sc r) = r \/
  (fst (flush_then cfg sc r) = DFail (CIo SiteFlush) /\
   c_kind cfg = KSerial /\ c_flusher cfg = true /\ sc_flush_err sc = true).
Proof.
  unfold flush_then. destruct (c_kind cfg); try (left; reflexivity).
  destruct (c_flusher cfg); [|left; reflexivity].
  destruct (sc_flush_err sc); [right; repeat split; reflexivity|left; reflexivity].
Qed.

Lemma dcause_flush cfg sc steps received r :
  dcause cfg sc steps received r -> dcause cfg sc steps received (fst (flush_then cfg sc r)).
Proof.
  intros H. destruct (flush_then_cases' cfg sc r) as [E|(E & A)]; rewrite E; [exact H|exact A].
Qed.

Lemma dcause_weaken cfg sc s0 rest received d :
  dcause cfg sc rest received d -> dcause cfg sc (s0 :: rest) received d.
Proof.
  destruct d as [|e| |]; try (intros; exact I). destruct e; cbn [dcause cause]; try (intros H; exact H).
  - intros (st & Hi & Hs). exists st. split; [right; exact Hi|exact Hs].
  - intros (st & Hi & Hs). exists st. split; [right; exact Hi|exact Hs].
  - destruct s; try (intros H; exact H). intros (st & b & Hi & Hs). exists st, b. split; [right; exact Hi|exact Hs].
Qed.

Lemma loop_cause cfg sc e : forall steps acc,
  dcause cfg sc steps (acc ++ reads (snd (loop cfg sc e steps acc))) (fst (loop cfg sc e steps acc)).
Proof.
  induction steps as [|st rest IH]; intros acc; [exact I|].
  cbn [loop].
  destruct (s_ctx st && (s_pick st || negb (s_timer st))) eqn:Ec.
  { cbn [fst dcause cause]. exists st. split; [left; reflexivity|]. destruct (s_ctx st); [split; reflexivity|discriminate]. }
  destruct (s_timer st) eqn:Et.
  { cbn [fst dcause cause]. exists st. split; [left; reflexivity|exact Et]. }
  set (chunk := fst (delivered (c_kind cfg) acc (s_rd st))).
  set (cls := snd (delivered (c_kind cfg) acc (s_rd st))).
  rewrite with_trace_fst, with_trace_snd.
  change (TRead chunk cls :: hk cfg (HAfterRead chunk (length chunk) cls)) with (read_ev cfg chunk cls).
  rewrite reads_app, reads_read_ev.
  destruct (cls =? 3) eqn:E3.
  { apply dcause_flush. cbn [dcause cause].
    unfold cls, delivered in E3. destruct (s_rd st) eqn:Er; cbn [snd] in E3; try discriminate.
    exists st, b. split; [left; reflexivity|exact Er]. }
  destruct (max_len (c_kind cfg) <? length (acc ++ chunk))%nat eqn:Em.
  { destruct (flush_then_cases cfg sc (DFail CTooLong)) as [_ R]. rewrite R, app_nil_r.
    apply dcause_flush. cbn [dcause cause]. lia. }
  destruct (recognise (c_kind cfg) (window (c_kind cfg) (acc ++ chunk))) eqn:Er.
  - destruct (e <=? length (acc ++ chunk))%nat.
    + destruct (flush_then_cases cfg sc (finish (acc ++ chunk))) as [_ R]. rewrite R, app_nil_r.
      apply dcause_flush. unfold finish. destruct (acc ++ chunk); [reflexivity|exact I].
    + destruct ((cls =? 2) && eof_breaks (c_kind cfg)).
      * cbn [fst snd]. change (reads []) with (@nil N). rewrite app_nil_r.
        unfold finish. destruct (acc ++ chunk); [reflexivity|exact I].
      * rewrite app_assoc. apply dcause_weaken, IH.
  - apply dcause_flush. exact I.
  - exact I.
Qed.

Theorem client_error_has_cause cfg sc r :
  match fst (client_do cfg sc r) with
  | OFail CNilRequest => r = None
  | OFail CNotConnected => c_connected cfg = false /\ c_kind cfg <> KSerial
  | OFail CNoPort => c_connected cfg = false /\ c_kind cfg = KSerial
  | OFail (CParse _) => True
  | OFail e => cause cfg sc (sc_steps sc) (reads (snd (client_do cfg sc r))) e
  | _ => True
  end.
Proof.
  unfold client_do. destruct r as [q|]; [|reflexivity].
  destruct (c_connected cfg); cbn [negb].
  2:{ destruct (c_kind cfg); cbn [fst]; split; congruence. }
  assert (D : dcause cfg sc (sc_steps sc) (reads (snd (do_ cfg sc (q_bytes q) (q_expected q))))
                (fst (do_ cfg sc (q_bytes q) (q_expected q)))).
  { pose proof (loop_cause cfg sc (q_expected q) (sc_steps sc) []) as L. cbn [app] in L.
    unfold do_. destruct (c_kind cfg) eqn:Ek; rewrite ?with_trace_fst, ?with_trace_snd.
    - destruct (sc_swd_err sc) eqn:Es; [cbn [fst dcause cause]; split; congruence|].
      rewrite ?with_trace_fst, ?with_trace_snd. destruct (sc_write_err sc) eqn:Ew; [exact Ew|].
      rewrite !reads_app, reads_hk by exact I. exact L.
    - destruct (sc_swd_err sc) eqn:Es; [cbn [fst dcause cause]; split; congruence|].
      rewrite ?with_trace_fst, ?with_trace_snd. destruct (sc_write_err sc) eqn:Ew; [exact Ew|].
      rewrite !reads_app, reads_hk by exact I. exact L.
    - destruct (sc_write_err sc) eqn:Ew.
      + destruct (flush_then_cases' cfg sc (DFail (CIo SiteWrite))) as [E|(E & A)]; rewrite E; [exact Ew|].
        destruct A as (_ & A2 & A3). cbn [dcause cause]. repeat split; assumption.
      + rewrite !reads_app, reads_hk by exact I. exact L. }
  destruct (fst (do_ cfg sc (q_bytes q) (q_expected q))) as [b|er| |] eqn:Ed; cbn [fst snd]; try exact I.
  - destruct (parse_resp (c_kind cfg) (exact b)) as [[tid p]| |]; exact I.
  - cbn [dcause] in D. destruct er; try exact D; try (destruct D); exact I.
Qed.
