(* ClientC07Inst.v -- the request types: for which of them ExpectedResponseLength is the length of the
   reply (the core theorem applies), for which it is shorter (the call may stop inside the reply) or
   longer (the call never sees the end of the reply); exception replies; witnesses. *)
From Coq Require Import ZifyBool ZifyN ZifyNat.
Require Import MB.GoSem MB.CrcModel MB.PacketModel MB.ClientModel.
Require Import MB.proofs.CrcProofs MB.proofs.ClientProofs MB.proofs.ClientC07.
Open Scope N_scope.
Ltac Zify.zify_post_hook ::= Z.div_mod_to_equations.

(* ---------- well-formed replies to a request ---------- *)
(* the reply echoes unit and function, and its size is the one the request asks for *)
Definition resp_matches (r : req) (p : resp) : Prop :=
  match r, p with
  | RRead fc u _ q, PBytes fc' u' bl data =>
      fc' = fc /\ u' = u /\ bl = N.of_nat (length data) /\ bl < 256 /\
      N.of_nat (length data) = (if is_coil_fc fc then coil_byte_len q else 2 * q)
  | RWCoil u a st, PWCoil u' a' st' => u' = u /\ a' = a /\ st' = st
  | RWReg u a d0 d1, PWReg u' a' e0 e1 => u' = u /\ a' = a /\ e0 = d0 /\ e1 = d1
  | RWCoils u s c _, PWMulti fc' u' s' c' => fc' = 15 /\ u' = u /\ s' = s /\ c' = c
  | RWRegs u s c _, PWMulti fc' u' s' c' => fc' = 16 /\ u' = u /\ s' = s /\ c' = c
  | RSrvId u, PSrvId u' _ id _ => u' = u /\ id <> []
  | RRW u _ rq _ _ _, PBytes fc' u' bl data =>
      fc' = 23 /\ u' = u /\ bl = N.of_nat (length data) /\ bl < 256 /\ N.of_nat (length data) = 2 * rq
  | _, _ => False
  end.

Definition reply_bytes (q : creq) (p : resp) : list N :=
  if q_rtu q then resp_bytes_rtu p else resp_bytes_tcp (q_tid q) p.
(* the request was built for the client's framing *)
Definition framing_ok (k : kind) (q : creq) : Prop := q_rtu q = negb (is_tcp k).

(* the three families *)
Definition exact_formula (q : creq) : bool :=
  match q_req q with
  | RRead _ _ _ _ | RWReg _ _ _ _ => negb (q_rtu q)
  | RWCoils _ _ _ _ | RWRegs _ _ _ _ => true
  | _ => false
  end.
Definition short_formula (q : creq) : bool :=
  match q_req q with
  | RRead _ _ _ _ | RWReg _ _ _ _ => q_rtu q
  | RWCoil _ _ _ | RSrvId _ => true
  | _ => false
  end.
Definition long_formula (q : creq) : bool :=
  match q_req q with RRW _ _ _ _ _ _ => true | _ => false end.

Lemma families_partition q :
  (exact_formula q = true /\ short_formula q = false /\ long_formula q = false) \/
  (exact_formula q = false /\ short_formula q = true /\ long_formula q = false) \/
  (exact_formula q = false /\ short_formula q = false /\ long_formula q = true).
Proof. unfold exact_formula, short_formula, long_formula. destruct (q_req q), (q_rtu q); cbn; tauto. Qed.

Lemma resp_body_length_bytes fc u bl data : bl = N.of_nat (length data) ->
  length (resp_body (PBytes fc u bl data)) = (3 + length data)%nat.
Proof.
  intros ->. cbn [resp_body]. destruct (is_coil_fc fc); cbn [app length]; [reflexivity|].
  rewrite firstn_length, app_length, repeat_length, Nat2N.id. lia.
Qed.
Lemma with_crc_length b : length (with_crc b) = (length b + 2)%nat.
Proof. unfold with_crc, crc_trailer. rewrite app_length. reflexivity. Qed.
Lemma resp_bytes_tcp_length tid p : length (resp_bytes_tcp tid p) = (6 + length (resp_body p))%nat.
Proof. unfold resp_bytes_tcp, mbap_bytes. rewrite !app_length. reflexivity. Qed.
Lemma resp_bytes_rtu_length p : length (resp_bytes_rtu p) = (length (resp_body p) + 2)%nat.
Proof. apply with_crc_length. Qed.

Lemma reply_bytes_length q p :
  length (reply_bytes q p) = if q_rtu q then (length (resp_body p) + 2)%nat else (6 + length (resp_body p))%nat.
Proof. unfold reply_bytes. destruct (q_rtu q); [apply resp_bytes_rtu_length|apply resp_bytes_tcp_length]. Qed.

Ltac len_cases q p H :=
  unfold exact_formula, short_formula, long_formula, q_expected in *; rewrite reply_bytes_length;
  destruct q as [rtu tid r]; cbn [q_rtu q_tid q_req] in *;
  destruct r, p; cbn [resp_matches] in H; try contradiction; try discriminate.

(* EXACT: TCP FC1-4, FC6; FC15, FC16 in both framings *)
Lemma exact_formula_length q p : exact_formula q = true -> resp_matches (q_req q) p ->
  length (reply_bytes q p) = q_expected q.
Proof.
  intros He H. len_cases q p H; destruct rtu; try discriminate.
  - destruct H as (-> & -> & Hbl & _ & Hl). rewrite (resp_body_length_bytes _ _ _ _ Hbl).
    cbn [expected_len_tcp]. unfold is_coil_fc in Hl. destruct ((fc =? 1) || (fc =? 2)); lia.
  - reflexivity.
  - reflexivity.
  - reflexivity.
  - reflexivity.
  - reflexivity.
Qed.

(* SHORT: RTU FC1-4 (by 1), RTU FC5, FC6 (by 2), TCP FC5 (by 1), FC17 (by at least 3 / 5) *)
Lemma short_formula_length q p : short_formula q = true -> resp_matches (q_req q) p ->
  (q_expected q < length (reply_bytes q p))%nat.
Proof.
  intros He H. len_cases q p H; destruct rtu; try discriminate.
  - destruct H as (-> & -> & Hbl & _ & Hl). rewrite (resp_body_length_bytes _ _ _ _ Hbl).
    cbn [expected_len_rtu]. unfold is_coil_fc in Hl. destruct ((fc =? 1) || (fc =? 2)); lia.
  - cbn. lia.
  - cbn. lia.
  - cbn. lia.
  - destruct H as [_ Hid]. cbn [resp_body expected_len_rtu]. rewrite !app_length. cbn [length].
    destruct id; [congruence|cbn [length]; lia].
  - destruct H as [_ Hid]. cbn [resp_body expected_len_tcp]. rewrite !app_length. cbn [length].
    destruct id; [congruence|cbn [length]; lia].
Qed.

(* LONG: FC23 (TCP by 8, RTU by 1) *)
Lemma long_formula_length q p : long_formula q = true -> resp_matches (q_req q) p ->
  (length (reply_bytes q p) < q_expected q)%nat.
Proof.
  intros He H. len_cases q p H.
  destruct H as (-> & -> & Hbl & _ & Hl). rewrite (resp_body_length_bytes _ _ _ _ Hbl).
  destruct rtu; cbn [expected_len_rtu expected_len_tcp]; lia.
Qed.

(* the function byte of a reply *)
Lemma resp_body_fc p : nth 1 (resp_body p) 0 = resp_fc p.
Proof. destruct p; cbn [resp_body resp_fc]; try reflexivity. destruct (is_coil_fc fc); reflexivity. Qed.
Lemma resp_body_two p : (2 <= length (resp_body p))%nat.
Proof. destruct p; cbn [resp_body]; try (cbn; lia). destruct (is_coil_fc fc); cbn; lia. Qed.

Lemma reply_fc_byte k q p : framing_ok k q ->
  nth (fc_pos k) (reply_bytes q p) 0 = resp_fc p.
Proof.
  unfold framing_ok, fc_pos, reply_bytes. intros ->. destruct (is_tcp k); cbn [negb].
  - unfold resp_bytes_tcp, mbap_bytes, put16. cbn [app nth]. apply resp_body_fc.
  - unfold resp_bytes_rtu, with_crc. rewrite app_nth1 by (pose proof (resp_body_two p); lia). apply resp_body_fc.
Qed.
Lemma resp_matches_fc r p : resp_matches r p -> resp_fc p = req_fc r.
Proof.
  destruct r, p; cbn [resp_matches resp_fc req_fc]; try contradiction; intros H;
    try reflexivity; try (destruct H as (-> & _); reflexivity).
Qed.
Lemma reply_not_nil q p : reply_bytes q p <> [].
Proof.
  intros E. pose proof (reply_bytes_length q p) as L. rewrite E in L. cbn [length] in L.
  pose proof (resp_body_two p). destruct (q_rtu q); lia.
Qed.

(* ---------- C07 for the nine request types with an exact formula ---------- *)
Theorem exact_types_complete cfg sc q p chunks tail :
  framing_ok (c_kind cfg) q -> exact_formula q = true ->
  resp_matches (q_req q) p -> req_fc (q_req q) < 128 ->
  (length (reply_bytes q p) <= max_len (c_kind cfg))%nat ->
  c_connected cfg = true -> writes_ok sc -> flush_ok cfg sc ->
  sc_steps sc = script_of chunks ++ tail ->
  chunks_nonempty chunks -> payload chunks = reply_bytes q p ->
  client_do cfg sc (Some q) =
  (outcome_of_parse (c_kind cfg) (reply_bytes q p),
   write_trace cfg (q_bytes q) ++ reads_trace cfg chunks ++ flush_trace cfg
     ++ hk cfg (HBeforeParse (reply_bytes q p))).
Proof.
  intros Hfr Hex Hm Hfc Hmax Hc Hw Hf Hs Hn Hp.
  apply (exact_threshold_complete cfg sc q chunks tail (reply_bytes q p)); try assumption.
  - apply reply_not_nil.
  - apply exact_formula_length; assumption.
  - rewrite (reply_fc_byte _ _ _ Hfr), (resp_matches_fc _ _ Hm). exact Hfc.
Qed.

(* ---------- the short formulas: exactly when the reply is returned ---------- *)
Theorem short_types_stop_early cfg sc q p pre post tail :
  framing_ok (c_kind cfg) q ->
  resp_matches (q_req q) p -> req_fc (q_req q) < 128 ->
  (length (reply_bytes q p) <= max_len (c_kind cfg))%nat ->
  c_connected cfg = true -> writes_ok sc -> flush_ok cfg sc ->
  sc_steps sc = script_of (pre ++ post) ++ tail ->
  chunks_nonempty (pre ++ post) -> payload (pre ++ post) = reply_bytes q p ->
  pre <> [] ->
  (forall a b, pre = a ++ b -> b <> [] -> (length (payload a) < q_expected q)%nat) ->
  (q_expected q <= length (payload pre))%nat ->
  client_do cfg sc (Some q) =
  (outcome_of_parse (c_kind cfg) (payload pre),
   write_trace cfg (q_bytes q) ++ reads_trace cfg pre ++ flush_trace cfg ++ hk cfg (HBeforeParse (payload pre))).
Proof.
  intros Hfr Hm Hfc Hmax Hc Hw Hf Hs Hn Hp Hne Hb Hr.
  apply (stops_at_first_boundary_past_threshold cfg sc q pre post tail (reply_bytes q p)); try assumption.
  rewrite (reply_fc_byte _ _ _ Hfr), (resp_matches_fc _ _ Hm). exact Hfc.
Qed.

(* ---------- FC23: the reply is never recognised as complete ---------- *)
Theorem long_types_time_out cfg sc q p chunks w pick r tail :
  framing_ok (c_kind cfg) q -> long_formula q = true ->
  resp_matches (q_req q) p ->
  (length (reply_bytes q p) <= max_len (c_kind cfg))%nat ->
  c_connected cfg = true -> writes_ok sc ->
  sc_steps sc = script_of chunks ++ repeat quiet w ++ timer_step pick r :: tail ->
  payload chunks = reply_bytes q p ->
  client_do cfg sc (Some q) =
  (OFail CTimeout, write_trace cfg (q_bytes q) ++ reads_trace cfg chunks ++ quiet_trace cfg w).
Proof.
  intros Hfr Hl Hm Hmax Hc Hw Hs Hp.
  apply (long_threshold_times_out cfg sc q chunks w pick r tail (reply_bytes q p)); try assumption.
  - apply long_formula_length; assumption.
  - rewrite (reply_fc_byte _ _ _ Hfr), (resp_matches_fc _ _ Hm).
    unfold long_formula in Hl. destruct (q_req q); try discriminate. cbn. lia.
Qed.

(* ---------- exception replies ---------- *)
Definition exception_bytes (q : creq) (u f c : N) : list N :=
  if q_rtu q then exc_bytes_rtu u f c else exc_bytes_tcp (mk_exc (q_tid q) u f c).
Definition exception_err (q : creq) (u f c : N) : perr :=
  if q_rtu q then ERespRTU u f c else ERespTCP (mk_exc (q_tid q) u f c).

Lemma add8_128 f : f < 128 -> add8 f 128 = f + 128.
Proof. intros H. unfold add8, u8. lia. Qed.
Lemma sub8_128 f : f < 128 -> sub8 (f + 128) 128 = f.
Proof. intros H. unfold sub8, u8. lia. Qed.

Lemma recognise_exception_tcp tid u f c :
  tid < 65536 -> f < 128 ->
  recognise KTcp (window KTcp (exc_bytes_tcp (mk_exc tid u f c))) = RExc (ERespTCP (mk_exc tid u f c)).
Proof.
  intros Ht Hf. unfold recognise, as_tcp_error, exc_bytes_tcp, put16. cbn [x_tid x_unit x_fc x_code mk_exc app].
  rewrite slen_window. cbn [length Nat.eqb negb].
  rewrite !idx_window by (cbn; lia). cbn [nth bind].
  rewrite add8_128 by exact Hf.
  destruct (N.land (f + 128) 128 =? 0) eqn:E; [apply N.eqb_eq in E; exfalso; exact (land128_high f Hf E)|].
  cbn [negb]. rewrite sub_in by (rewrite ?slen_window; cbn; lia). cbn [bind vis window skipn firstn Nat.sub].
  rewrite sub8_128 by exact Hf. unfold be16.
  replace (tid / 256 * 256 + tid mod 256) with tid by lia. reflexivity.
Qed.

Lemma recognise_exception_rtu k u f c :
  is_tcp k = false -> u < 256 -> f < 128 -> c < 256 ->
  recognise k (window k (exc_bytes_rtu u f c)) = RExc (ERespRTU u f c).
Proof.
  intros Hk Hu Hf Hc.
  assert (A : as_rtu_error_crc (window k (exc_bytes_rtu u f c)) = Ok (Some (u, f, c))).
  { unfold as_rtu_error_crc, exc_bytes_rtu, with_crc, crc_trailer. cbn [app].
    rewrite slen_window. cbn [length Nat.eqb negb].
    rewrite !sub_in by (rewrite ?slen_window; cbn; lia). cbn [bind vis window skipn firstn Nat.sub].
    rewrite add8_128 by exact Hf.
    assert (Hcrc : crc16 [u; f + 128; c] < 65536).
    { apply crc16_lt. repeat constructor; lia. }
    assert (Hle : le16 [crc_lo (crc16 [u; f + 128; c]); crc_hi (crc16 [u; f + 128; c])] = crc16 [u; f + 128; c]).
    { unfold le16, crc_lo, crc_hi. lia. }
    rewrite Hle, N.eqb_refl. cbn [negb].
    unfold as_rtu_error. rewrite slen_window. cbn [length Nat.eqb negb].
    rewrite !idx_window by (cbn; lia). cbn [nth bind].
    destruct (N.land (f + 128) 128 =? 0) eqn:E; [apply N.eqb_eq in E; exfalso; exact (land128_high f Hf E)|].
    cbn [negb]. rewrite sub8_128 by exact Hf. reflexivity. }
  destruct k; [discriminate| |]; unfold recognise; rewrite A; reflexivity.
Qed.

Lemma exception_bytes_length k q u f c : framing_ok k q -> length (exception_bytes q u f c) = exc_len k.
Proof. unfold framing_ok, exception_bytes, exc_len. intros ->. destruct (is_tcp k); reflexivity. Qed.

Lemma recognise_exception k q u f c :
  framing_ok k q -> q_tid q < 65536 -> u < 256 -> f < 128 -> c < 256 ->
  recognise k (window k (exception_bytes q u f c)) = RExc (exception_err q u f c).
Proof.
  unfold framing_ok, exception_bytes, exception_err. intros -> Ht Hu Hf Hc.
  destruct (is_tcp k) eqn:Hk; cbn [negb].
  - destruct k; try discriminate. apply recognise_exception_tcp; assumption.
  - apply recognise_exception_rtu; assumption.
Qed.

(* every request type whose stop threshold is not below the size of an exception frame, i.e.
   every type but FC17 *)
Theorem exception_reply_typed cfg sc q u f c chunks tail :
  framing_ok (c_kind cfg) q ->
  q_tid q < 65536 -> u < 256 -> f < 128 -> c < 256 ->
  (exc_len (c_kind cfg) <= q_expected q)%nat ->
  c_connected cfg = true -> writes_ok sc -> flush_ok cfg sc ->
  sc_steps sc = script_of chunks ++ tail ->
  chunks_nonempty chunks -> payload chunks = exception_bytes q u f c ->
  client_do cfg sc (Some q) =
  (OFail (CExc (exception_err q u f c)),
   write_trace cfg (q_bytes q) ++ reads_trace cfg chunks ++ flush_trace cfg).
Proof.
  intros Hfr Ht Hu Hf Hc He Hconn Hw Hfl Hs Hn Hp.
  pose proof (exception_bytes_length _ q u f c Hfr) as Hlen.
  assert (Hch : chunks <> []).
  { intros ->. cbn in Hp. rewrite <- Hp in Hlen. unfold exc_len in Hlen. cbn in Hlen. destruct (is_tcp _); discriminate. }
  apply (client_exception cfg sc q Hconn Hw chunks tail); try assumption.
  - intros pre post Hsplit Hpost. cbn [app].
    pose proof (inner_boundary_short chunks pre post Hn Hsplit Hpost) as Hlt. rewrite Hp, Hlen in Hlt.
    assert (Hmax : (exc_len (c_kind cfg) <= max_len (c_kind cfg))%nat).
    { unfold exc_len, max_len. destruct (c_kind cfg); cbn; lia. }
    split; [lia|split; [lia|]]. apply recognise_len. lia.
  - rewrite Hp, Hlen. unfold exc_len, max_len. destruct (c_kind cfg); cbn; lia.
  - rewrite Hp. apply recognise_exception; assumption.
Qed.

Lemma exception_threshold_ok k q : framing_ok k q ->
  (match q_req q with RSrvId _ => False | RRead _ _ _ n => 1 <= n | _ => True end) ->
  (exc_len k <= q_expected q)%nat.
Proof.
  unfold framing_ok, exc_len, q_expected. intros -> H.
  destruct (is_tcp k); cbn [negb]; destruct (q_req q); try contradiction;
    cbn [expected_len_tcp expected_len_rtu]; unfold coil_byte_len;
    try destruct ((fc =? 1) || (fc =? 2)); lia.
Qed.

(* ---------- witnesses ---------- *)
Definition cfg_of (k : kind) : config := {| c_kind := k; c_connected := true; c_hooks := true; c_flusher := true |}.
Definition plain (steps : list step) : script :=
  {| sc_swd_err := false; sc_write_err := false; sc_flush_err := false; sc_steps := steps |}.
Definition rq (rtu : bool) (r : req) : creq := {| q_rtu := rtu; q_tid := 7; q_req := r |}.
(* the reply delivered in two reads, cut after [cut] bytes; the second, after one empty read,
   arrives together with the read deadline error *)
Definition two (reply : list N) (cut : nat) : list chunk :=
  [(0%nat, false, firstn cut reply); (1%nat, true, skipn cut reply)].
Definition do_two (k : kind) (q : creq) (p : resp) (cut : nat) : outcome :=
  fst (client_do (cfg_of k) (plain (script_of (two (reply_bytes q p) cut))) (Some q)).
Definition do_whole_then_stall (k : kind) (q : creq) (p : resp) : outcome :=
  fst (client_do (cfg_of k)
         (plain (script_of [(0%nat, false, reply_bytes q p)] ++ repeat quiet 3 ++ [timer_step false (RTimeout [])])) (Some q)).
