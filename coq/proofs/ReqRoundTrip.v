(* ReqRoundTrip.v -- proofs for C09.

   First half: every request whose fields are within the parsers' limits ([req_rt_ok]; every
   constructor result from specification-legal arguments is one, except FC1/FC2 with more than 125
   coils) is decoded from its own encoding -- by the per-function TCP parser, by the per-function
   RTU parser with and without the CRC trailer, and by the three dispatchers -- to exactly itself,
   for every transaction id and whatever the spare capacity of the slice.

   Second half: for every slice, whatever a request parser decodes has its quantity / count /
   coil-value fields (which are the frame's fields) within the specification's limits; a frame
   whose field is outside is refused with an error, never decoded, never a panic. *)
From Coq Require Import ZifyBool ZifyN ZifyNat.
Require Import MB.GoSem MB.CrcModel MB.CrcSpec MB.Spec MB.PacketModel MB.proofs.CrcProofs
  MB.proofs.EncodeProofs MB.proofs.CrcFrameProofs.
Open Scope N_scope.
Ltac Zify.zify_post_hook ::= Z.div_mod_to_equations.

(* ====================================================================================== *)
(* 0. symbolic execution of a parser on an explicitly given frame                          *)
(* ====================================================================================== *)
Lemma idx_at {E} l s i b : nth_error l i = Some b -> @idx E {| vis := l; spare := s |} i = Ok b.
Proof. intros H. unfold idx. cbn [vis]. rewrite H. reflexivity. Qed.
Lemma sub_at {E} l s i j : (i <= j)%nat -> (j <= length l)%nat ->
  @sub E {| vis := l; spare := s |} i j = Ok (firstn (j - i) (skipn i l)).
Proof. intros H1 H2. apply (@sub_in E {| vis := l; spare := s |} i j H1 H2). Qed.

Lemma firstn_app_exact {A} (a b : list A) n : n = length a -> firstn n (a ++ b) = a.
Proof.
  intros ->. rewrite firstn_app, Nat.sub_diag, firstn_O, app_nil_r. apply firstn_all.
Qed.

Ltac len_norm := cbn [slen vis length be16]; rewrite ?app_length; cbn [length]; unfold in_range.
Ltac rt_idx :=
  match goal with
  | |- context [@idx ?E {| vis := ?l; spare := ?s |} ?i] =>
      rewrite (@idx_at E l s i _ eq_refl); cbn [bind]; rewrite ?Nat2N.id
  end.
Ltac rt_sub :=
  match goal with
  | |- context [@sub ?E {| vis := ?l; spare := ?s |} ?i ?j] =>
      rewrite (@sub_at E l s i j) by (len_norm; lia);
      cbn [bind Nat.sub skipn firstn]
  end.
Ltac rt_if :=
  match goal with
  | |- context [if ?c then _ else _] =>
      first [ replace c with true by (len_norm; lia)
            | replace c with false by (len_norm; lia) ];
      cbv beta iota
  end.
Ltac rt_step := first [ rt_idx | rt_sub | rt_if ].
(* bring an encoded frame into the form  b0 :: b1 :: ... :: payload *)
Ltac frame_norm :=
  unfold req_bytes_tcp, req_bytes_rtu, with_crc, mbap_bytes; cbn [req_len16 req_body]; unfold put16;
  cbn [app].
Ltac rt_done := cbn [bind be16]; repeat f_equal; lia.

(* ====================================================================================== *)
(* 1. the requests the parsers give back unchanged                                         *)
(* ====================================================================================== *)
Definition req_rt_ok (r : req) : Prop :=
  match r with
  | RRead fc u s q => 1 <= fc <= 4 /\ u < 256 /\ s < 65536 /\ 1 <= q <= 125
  | RWCoil u a _ => u < 256 /\ a < 65536
  | RWReg u a d0 d1 => u < 256 /\ a < 65536 /\ d0 < 256 /\ d1 < 256
  | RWCoils u s c data =>
      u < 256 /\ s < 65536 /\ 1 <= c <= 1968 /\ bytes_ok data /\ (1 <= length data <= 255)%nat
  | RWRegs u s c data =>
      u < 256 /\ s < 65536 /\ 1 <= c <= 123 /\ bytes_ok data /\ (1 <= length data <= 255)%nat
  | RSrvId u => u < 256
  | RRW u rs rq ws wq data =>
      u < 256 /\ rs < 65536 /\ 1 <= rq <= 125 /\ ws < 65536 /\ 1 <= wq <= 121 /\
      bytes_ok data /\ (1 <= length data <= 255)%nat
  end.

Lemma req_rt_ok_fields r : req_rt_ok r -> req_fields_ok r.
Proof.
  destruct r; cbn [req_rt_ok req_fields_ok]; intros H;
    repeat match goal with H : _ /\ _ |- _ => destruct H end; repeat split; try assumption; lia.
Qed.

(* the per-function parser that belongs to a request *)
Definition parser_tcp_of (r : req) : slice -> pres (N * req) :=
  match r with
  | RRead fc _ _ _ => parse_read_req_tcp fc
  | RWCoil _ _ _ => parse_wcoil_req_tcp
  | RWReg _ _ _ _ => parse_wreg_req_tcp
  | RWCoils _ _ _ _ => parse_wcoils_req_tcp
  | RWRegs _ _ _ _ => parse_wregs_req_tcp
  | RSrvId _ => parse_srvid_req_tcp
  | RRW _ _ _ _ _ _ => parse_rw_req_tcp
  end.
Definition parser_rtu_of (r : req) : slice -> pres req :=
  match r with
  | RRead fc _ _ _ => parse_read_req_rtu fc
  | RWCoil _ _ _ => parse_wcoil_req_rtu
  | RWReg _ _ _ _ => parse_wreg_req_rtu
  | RWCoils _ _ _ _ => parse_wcoils_req_rtu
  | RWRegs _ _ _ _ => parse_wregs_req_rtu
  | RSrvId _ => parse_srvid_req_rtu
  | RRW _ _ _ _ _ _ => parse_rw_req_rtu
  end.

(* ====================================================================================== *)
(* 2. TCP: the per-function parsers                                                        *)
(* ====================================================================================== *)
Lemma rt_tcp_per_function tid r s :
  tid < 65536 -> req_rt_ok r ->
  parser_tcp_of r {| vis := req_bytes_tcp tid r; spare := s |} = Ok (tid, r).
Proof.
  intros Ht Hr. destruct r as [fc u st q|u a b|u a d0 d1|u st c data|u st c data|u|u rs rq ws wq data];
    cbn [req_rt_ok] in Hr; repeat match goal with H : _ /\ _ |- _ => destruct H end;
    cbn [parser_tcp_of].
  - frame_norm. unfold parse_read_req_tcp, parse_mbap. repeat rt_step. rt_done.
  - destruct b; frame_norm; unfold parse_wcoil_req_tcp, parse_mbap; repeat rt_step; rt_done.
  - frame_norm. unfold parse_wreg_req_tcp, parse_mbap. repeat rt_step. rt_done.
  - frame_norm. rewrite (u8_small (N.of_nat _)) by lia.
    rewrite (u16_small (N.of_nat _)) by lia. rewrite u16_small by lia.
    unfold parse_wcoils_req_tcp, parse_mbap. repeat rt_step.
    replace (13 + length data - 13)%nat with (length data) by lia. rewrite firstn_all. rt_done.
  - frame_norm. rewrite (u8_small (N.of_nat _)) by lia.
    rewrite (u16_small (N.of_nat _)) by lia. rewrite u16_small by lia.
    unfold parse_wregs_req_tcp, parse_mbap. repeat rt_step.
    replace (13 + length data - 13)%nat with (length data) by lia. rewrite firstn_all. rt_done.
  - frame_norm. unfold parse_srvid_req_tcp, parse_mbap. repeat rt_step. rt_done.
  - frame_norm. rewrite (u8_small (N.of_nat _)) by lia.
    rewrite (u16_small (N.of_nat _)) by lia. rewrite u16_small by lia.
    unfold parse_rw_req_tcp, parse_mbap. repeat rt_step.
    replace (17 + length data - 17)%nat with (length data) by lia. rewrite firstn_all. rt_done.
Qed.

(* ====================================================================================== *)
(* 3. RTU: the per-function parsers, with any two-byte trailer or none                     *)
(* ====================================================================================== *)
Lemma rt_rtu_per_function r post s :
  req_rt_ok r -> (length post = 0 \/ length post = 2)%nat ->
  parser_rtu_of r {| vis := req_body r ++ post; spare := s |} = Ok r.
Proof.
  intros Hr Hp.
  destruct r as [fc u st q|u a b|u a d0 d1|u st c data|u st c data|u|u rs rq ws wq data];
    cbn [req_rt_ok] in Hr; repeat match goal with H : _ /\ _ |- _ => destruct H end;
    cbn [parser_rtu_of].
  - cbn [req_body]; unfold put16; cbn [app].
    unfold parse_read_req_rtu, new_err_rtu. repeat rt_step. rt_done.
  - destruct b; cbn [req_body]; unfold put16; cbn [app];
      unfold parse_wcoil_req_rtu, new_err_rtu; repeat rt_step; rt_done.
  - cbn [req_body]; unfold put16; cbn [app].
    unfold parse_wreg_req_rtu, new_err_rtu. repeat rt_step. rt_done.
  - cbn [req_body]; unfold put16; cbn [app]. rewrite <- ?app_assoc. cbn [app].
    rewrite (u8_small (N.of_nat _)) by lia.
    unfold parse_wcoils_req_rtu, new_err_rtu. repeat rt_step.
    rewrite firstn_app_exact by lia. rt_done.
  - cbn [req_body]; unfold put16; cbn [app]. rewrite <- ?app_assoc. cbn [app].
    rewrite (u8_small (N.of_nat _)) by lia.
    unfold parse_wregs_req_rtu, new_err_rtu. repeat rt_step.
    rewrite firstn_app_exact by lia. rt_done.
  - cbn [req_body app].
    unfold parse_srvid_req_rtu, new_err_rtu. repeat rt_step. rt_done.
  - cbn [req_body]; unfold put16; cbn [app]. rewrite <- ?app_assoc. cbn [app].
    rewrite (u8_small (N.of_nat _)) by lia.
    unfold parse_rw_req_rtu, new_err_rtu. repeat rt_step.
    rewrite firstn_app_exact by lia. rt_done.
Qed.

(* ====================================================================================== *)
(* 4. the dispatchers                                                                      *)
(* ====================================================================================== *)
Definition req_fc_known (r : req) : Prop :=
  match r with RRead fc _ _ _ => 1 <= fc <= 4 | _ => True end.

Lemma req_rt_ok_fc r : req_rt_ok r -> req_fc_known r.
Proof. destruct r; cbn; intros H; try exact I. destruct H as [H _]. exact H. Qed.

Lemma parse_tcp_request_dispatch r d :
  (8 <= slen d)%nat -> @idx perr d 7 = Ok (req_fc r) -> req_fc_known r ->
  parse_tcp_request d = parser_tcp_of r d.
Proof.
  intros Hl Hi Hk. unfold parse_tcp_request. replace (slen d <? 8)%nat with false by lia.
  rewrite Hi. cbn [bind].
  destruct r; cbn [req_fc parser_tcp_of req_fc_known] in *; repeat rt_if; reflexivity.
Qed.

Lemma parse_rtu_request_dispatch r d :
  (4 <= slen d)%nat -> @idx perr d 1 = Ok (req_fc r) -> req_fc_known r ->
  parse_rtu_request d = parser_rtu_of r d.
Proof.
  intros Hl Hi Hk. unfold parse_rtu_request. replace (slen d <? 4)%nat with false by lia.
  rewrite Hi. cbn [bind].
  destruct r; cbn [req_fc parser_rtu_of req_fc_known] in *; repeat rt_if; reflexivity.
Qed.

Lemma tcp_frame_fc tid r s : @idx perr {| vis := req_bytes_tcp tid r; spare := s |} 7 = Ok (req_fc r).
Proof. apply idx_at. destruct r; reflexivity. Qed.
Lemma tcp_frame_len8 tid r : (8 <= length (req_bytes_tcp tid r))%nat.
Proof. destruct r; cbn [req_bytes_tcp mbap_bytes put16 req_body app length]; lia. Qed.
Lemma rtu_frame_fc r post s : @idx perr {| vis := req_body r ++ post; spare := s |} 1 = Ok (req_fc r).
Proof. apply idx_at. destruct r; reflexivity. Qed.
Lemma body_len2 r : (2 <= length (req_body r))%nat.
Proof. destruct r; cbn [req_body app length]; lia. Qed.

Lemma rt_tcp_dispatcher tid r s :
  tid < 65536 -> req_rt_ok r ->
  parse_tcp_request {| vis := req_bytes_tcp tid r; spare := s |} = Ok (tid, r).
Proof.
  intros Ht Hr.
  rewrite (parse_tcp_request_dispatch r); [apply rt_tcp_per_function; assumption| | |].
  - unfold slen. cbn [vis]. apply tcp_frame_len8.
  - apply tcp_frame_fc.
  - apply req_rt_ok_fc, Hr.
Qed.

Lemma rt_rtu_dispatcher r s :
  req_rt_ok r ->
  parse_rtu_request {| vis := req_bytes_rtu r; spare := s |} = Ok r.
Proof.
  intros Hr. unfold req_bytes_rtu, with_crc.
  rewrite (parse_rtu_request_dispatch r);
    [apply rt_rtu_per_function; [assumption|right; reflexivity]| | |].
  - unfold slen. cbn [vis]. rewrite app_length. cbn [crc_trailer length]. pose proof (body_len2 r). lia.
  - apply rtu_frame_fc.
  - apply req_rt_ok_fc, Hr.
Qed.

Lemma rt_rtu_crc_dispatcher r s :
  req_rt_ok r ->
  parse_rtu_request_crc {| vis := req_bytes_rtu r; spare := s |} = Ok r.
Proof.
  intros Hr. pose proof (req_body_ok r (req_rt_ok_fields r Hr)) as Hb.
  set (d := {| vis := req_bytes_rtu r; spare := s |}).
  assert (Hlen : slen d = (length (req_body r) + 2)%nat).
  { unfold d, slen, req_bytes_rtu, with_crc. cbn [vis]. rewrite app_length. reflexivity. }
  assert (Hok : bytes_ok (vis d)).
  { unfold d, req_bytes_rtu, with_crc. cbn [vis]. apply bytes_ok_app. split; [exact Hb|apply crc_trailer_ok, Hb]. }
  assert (H4 : (4 <= slen d)%nat) by (pose proof (body_len2 r); lia).
  destruct (crc_gate_cases d parse_rtu_request Hok H4) as [Heq _].
  unfold parse_rtu_request_crc. rewrite Heq; [apply rt_rtu_dispatcher, Hr|].
  unfold frame_trailer, frame_front. rewrite Hlen.
  replace (length (req_body r) + 2 - 2)%nat with (length (req_body r)) by lia.
  unfold d, req_bytes_rtu, with_crc. cbn [vis].
  rewrite skipn_app, Nat.sub_diag, skipn_all, firstn_app_exact by reflexivity. reflexivity.
Qed.

(* ====================================================================================== *)
(* 5. the round trip, all entry points                                                     *)
(* ====================================================================================== *)
Definition round_trips (tid : N) (r : req) : Prop :=
  forall s,
    let t := {| vis := req_bytes_tcp tid r; spare := s |} in
    let w := {| vis := req_bytes_rtu r; spare := s |} in        (* with the CRC trailer *)
    let b := {| vis := req_body r; spare := s |} in             (* without it *)
    parser_tcp_of r t = Ok (tid, r) /\ parse_tcp_request t = Ok (tid, r) /\
    parser_rtu_of r w = Ok r /\ parser_rtu_of r b = Ok r /\
    parse_rtu_request w = Ok r /\ parse_rtu_request_crc w = Ok r.

Theorem rt_all tid r : tid < 65536 -> req_rt_ok r -> round_trips tid r.
Proof.
  intros Ht Hr s. cbv zeta.
  split; [apply rt_tcp_per_function; assumption|].
  split; [apply rt_tcp_dispatcher; assumption|].
  split; [unfold req_bytes_rtu, with_crc; apply rt_rtu_per_function; [assumption|right; reflexivity]|].
  split; [rewrite <- (app_nil_r (req_body r)); apply rt_rtu_per_function; [assumption|left; reflexivity]|].
  split; [apply rt_rtu_dispatcher; assumption|apply rt_rtu_crc_dispatcher; assumption].
Qed.

(* whatever the dispatchers decode from the frame re-encodes to the same bytes *)
Theorem rt_reencode tid r : round_trips tid r ->
  forall s,
    (forall tid' r', parse_tcp_request {| vis := req_bytes_tcp tid r; spare := s |} = Ok (tid', r') ->
       req_bytes_tcp tid' r' = req_bytes_tcp tid r) /\
    (forall r', parse_rtu_request_crc {| vis := req_bytes_rtu r; spare := s |} = Ok r' ->
       req_bytes_rtu r' = req_bytes_rtu r) /\
    (forall r', parse_rtu_request {| vis := req_bytes_rtu r; spare := s |} = Ok r' ->
       req_bytes_rtu r' = req_bytes_rtu r).
Proof.
  intros H s. destruct (H s) as [_ [A [_ [_ [B C]]]]].
  split; [intros tid' r' E; rewrite A in E; apply Ok_inj in E; inversion E; reflexivity|].
  split; intros r' E; [rewrite C in E|rewrite B in E]; apply Ok_inj in E; rewrite E; reflexivity.
Qed.

(* ====================================================================================== *)
(* 6. constructor results from legal arguments                                             *)
(* ====================================================================================== *)
Lemma ctor_read_ok fc u s q r :
  u < 256 -> s < 65536 -> new_read fc u s q = Ok r -> legal (SRead fc u s q) = true ->
  q <= 125 -> req_rt_ok r.
Proof.
  intros Hu Hs H Hl Hq. apply new_read_inv in H. destruct H as [Hq' ->].
  cbn [legal] in Hl. cbn [req_rt_ok]. repeat split; try assumption; lia.
Qed.
Lemma ctor_wcoil_ok u a st r : u < 256 -> a < 65536 -> new_wcoil u a st = Ok r -> req_rt_ok r.
Proof. intros Hu Ha H. unfold new_wcoil in H. apply Ok_inj in H. subst r. cbn. auto. Qed.
Lemma ctor_wreg_ok u a data r : u < 256 -> a < 65536 -> bytes_ok data -> new_wreg u a data = Ok r -> req_rt_ok r.
Proof.
  intros Hu Ha Hd H. unfold new_wreg in H. apply Ok_inj in H. subst r. cbn [req_rt_ok].
  repeat split; try assumption; apply nth_ok; exact Hd.
Qed.
Lemma ctor_wcoils_ok u s coils r : u < 256 -> s < 65536 -> new_wcoils u s coils = Ok r -> req_rt_ok r.
Proof.
  intros Hu Hs H. apply new_wcoils_inv in H. destruct H as [Hn ->]. cbn [req_rt_ok].
  pose proof (byte_count_bound (length coils) ltac:(lia)) as Hb.
  rewrite coils_to_bytes_length.
  assert ((1 <= byte_count (length coils))%nat).
  { unfold byte_count. destruct (length coils mod 8 =? 0)%nat eqn:E; lia. }
  repeat split; try assumption; try lia. apply coils_to_bytes_ok.
Qed.
Lemma ctor_wregs_ok u s data r :
  u < 256 -> s < 65536 -> bytes_ok data -> new_wregs u s data = Ok r ->
  legal (SWRegs u s data) = true -> req_rt_ok r.
Proof.
  intros Hu Hs Hd H Hl. apply new_wregs_inv in H. destruct H as [Hn ->].
  cbn [legal] in Hl. unfold even in Hl. cbn [req_rt_ok]. repeat split; try assumption; lia.
Qed.
Lemma ctor_srvid_ok u r : u < 256 -> new_srvid u = Ok r -> req_rt_ok r.
Proof. intros Hu H. unfold new_srvid in H. apply Ok_inj in H. subst r. exact Hu. Qed.
Lemma ctor_rw_ok u rs rq ws data r :
  u < 256 -> rs < 65536 -> ws < 65536 -> bytes_ok data -> new_rw u rs rq ws data = Ok r ->
  legal (SRW u rs rq ws data) = true -> req_rt_ok r.
Proof.
  intros Hu Hrs Hws Hd H Hl. apply new_rw_inv in H. destruct H as [Hq [Hn ->]].
  cbn [legal] in Hl. unfold even in Hl. cbn [req_rt_ok]. repeat split; try assumption; lia.
Qed.

(* per constructor: legal arguments, constructed => the request survives every entry point *)
Theorem rt_read_partial fc u s q tid r :
  u < 256 -> s < 65536 -> tid < 65536 ->
  new_read fc u s q = Ok r -> legal (SRead fc u s q) = true ->
  q <= 125 -> round_trips tid r.
Proof. intros Hu Hs Ht H Hl Hq. apply rt_all; [exact Ht|]. exact (ctor_read_ok fc u s q r Hu Hs H Hl Hq). Qed.

(* FC3 / FC4: no restriction needed (the specification's limit is the parsers') *)
Theorem rt_read_registers fc u s q tid r :
  fc = 3 \/ fc = 4 -> u < 256 -> s < 65536 -> tid < 65536 ->
  new_read fc u s q = Ok r -> legal (SRead fc u s q) = true -> round_trips tid r.
Proof.
  intros Hfc Hu Hs Ht H Hl. apply (rt_read_partial fc u s q tid r Hu Hs Ht H Hl).
  cbn [legal] in Hl. unfold read_limit in Hl. destruct Hfc; subst fc; cbn in Hl; lia.
Qed.

Theorem rt_wcoil u a st tid r :
  u < 256 -> a < 65536 -> tid < 65536 -> new_wcoil u a st = Ok r -> round_trips tid r.
Proof. intros Hu Ha Ht H. apply rt_all; [exact Ht|]. exact (ctor_wcoil_ok u a st r Hu Ha H). Qed.
Theorem rt_wreg u a data tid r :
  u < 256 -> a < 65536 -> bytes_ok data -> tid < 65536 -> new_wreg u a data = Ok r -> round_trips tid r.
Proof. intros Hu Ha Hd Ht H. apply rt_all; [exact Ht|]. exact (ctor_wreg_ok u a data r Hu Ha Hd H). Qed.
Theorem rt_wcoils u s coils tid r :
  u < 256 -> s < 65536 -> tid < 65536 ->
  new_wcoils u s coils = Ok r -> legal (SWCoils u s coils) = true -> round_trips tid r.
Proof. intros Hu Hs Ht H _. apply rt_all; [exact Ht|]. exact (ctor_wcoils_ok u s coils r Hu Hs H). Qed.
Theorem rt_wregs u s data tid r :
  u < 256 -> s < 65536 -> bytes_ok data -> tid < 65536 ->
  new_wregs u s data = Ok r -> legal (SWRegs u s data) = true -> round_trips tid r.
Proof. intros Hu Hs Hd Ht H Hl. apply rt_all; [exact Ht|]. exact (ctor_wregs_ok u s data r Hu Hs Hd H Hl). Qed.
Theorem rt_srvid u tid r :
  u < 256 -> tid < 65536 -> new_srvid u = Ok r -> round_trips tid r.
Proof. intros Hu Ht H. apply rt_all; [exact Ht|]. exact (ctor_srvid_ok u r Hu H). Qed.
Theorem rt_rw u rs rq ws data tid r :
  u < 256 -> rs < 65536 -> ws < 65536 -> bytes_ok data -> tid < 65536 ->
  new_rw u rs rq ws data = Ok r -> legal (SRW u rs rq ws data) = true -> round_trips tid r.
Proof. intros Hu Hrs Hws Hd Ht H Hl. apply rt_all; [exact Ht|]. exact (ctor_rw_ok u rs rq ws data r Hu Hrs Hws Hd H Hl). Qed.

(* ====================================================================================== *)
(* 7. FC1 / FC2: the parsers' limit is 125, the specification's (and the constructors') 2000 *)
(* ====================================================================================== *)
(* on the encoding of a read request with a quantity outside 1..125 every entry point answers
   "illegal data value" *)
Lemma read_parsers_refuse fc u st q tid s post :
  tid < 65536 -> st < 65536 -> q < 65536 -> (length post = 0 \/ length post = 2)%nat ->
  ~ (1 <= q <= 125) ->
  parse_read_req_tcp fc {| vis := req_bytes_tcp tid (RRead fc u st q); spare := s |} = Err (err_tcp tid u fc 3) /\
  parse_read_req_rtu fc {| vis := req_body (RRead fc u st q) ++ post; spare := s |} = Err (EParseRTU u fc 3).
Proof.
  intros Ht Hs Hq Hp Hn. split.
  - frame_norm. unfold parse_read_req_tcp, parse_mbap. repeat rt_step.
    cbn [bind be16]. unfold err_tcp. repeat f_equal. lia.
  - cbn [req_body]; unfold put16; cbn [app].
    unfold parse_read_req_rtu, new_err_rtu. repeat rt_step. reflexivity.
Qed.

Theorem read_limit_exact fc u st q tid s :
  1 <= fc <= 4 -> u < 256 -> tid < 65536 -> st < 65536 -> q < 65536 ->
  let t := {| vis := req_bytes_tcp tid (RRead fc u st q); spare := s |} in
  let w := {| vis := req_bytes_rtu (RRead fc u st q); spare := s |} in
  let b := {| vis := req_body (RRead fc u st q); spare := s |} in
  (1 <= q <= 125 ->
     parse_read_req_tcp fc t = Ok (tid, RRead fc u st q) /\ parse_tcp_request t = Ok (tid, RRead fc u st q) /\
     parse_read_req_rtu fc w = Ok (RRead fc u st q) /\ parse_read_req_rtu fc b = Ok (RRead fc u st q) /\
     parse_rtu_request w = Ok (RRead fc u st q) /\ parse_rtu_request_crc w = Ok (RRead fc u st q)) /\
  (~ (1 <= q <= 125) ->
     parse_read_req_tcp fc t = Err (err_tcp tid u fc 3) /\ parse_tcp_request t = Err (err_tcp tid u fc 3) /\
     parse_read_req_rtu fc w = Err (EParseRTU u fc 3) /\ parse_read_req_rtu fc b = Err (EParseRTU u fc 3) /\
     parse_rtu_request w = Err (EParseRTU u fc 3) /\ parse_rtu_request_crc w = Err (EParseRTU u fc 3)).
Proof.
  intros Hfc Hu Ht Hs Hq. cbv zeta. split.
  - intros Hin. apply (rt_all tid (RRead fc u st q) Ht). cbn [req_rt_ok]. auto.
  - intros Hn. set (r := RRead fc u st q).
    destruct (read_parsers_refuse fc u st q tid s [] Ht Hs Hq (or_introl eq_refl) Hn) as [T B].
    destruct (read_parsers_refuse fc u st q tid s (crc_trailer (req_body r)) Ht Hs Hq (or_intror eq_refl) Hn) as [_ W].
    rewrite app_nil_r in B. fold r in T, B, W.
    change (req_body r ++ crc_trailer (req_body r)) with (req_bytes_rtu r) in W.
    assert (D1 : parse_tcp_request {| vis := req_bytes_tcp tid r; spare := s |} = Err (err_tcp tid u fc 3)).
    { rewrite (parse_tcp_request_dispatch r); [exact T| | |exact Hfc].
      - unfold slen. cbn [vis]. apply tcp_frame_len8.
      - apply tcp_frame_fc. }
    assert (D2 : parse_rtu_request {| vis := req_bytes_rtu r; spare := s |} = Err (EParseRTU u fc 3)).
    { rewrite (parse_rtu_request_dispatch r); [exact W| | |exact Hfc].
      - unfold slen, req_bytes_rtu, with_crc. cbn [vis]. rewrite app_length. cbn [crc_trailer length].
        pose proof (body_len2 r). lia.
      - unfold req_bytes_rtu, with_crc. apply rtu_frame_fc. }
    repeat split; try assumption.
    (* the CRC gate lets the frame through, the dispatcher refuses it *)
    assert (Hf : req_fields_ok r) by (cbn [r req_fields_ok]; repeat split; lia).
    pose proof (req_body_ok r Hf) as Hb.
    set (d := {| vis := req_bytes_rtu r; spare := s |}) in *.
    assert (Hlen : slen d = (length (req_body r) + 2)%nat).
    { unfold d, slen, req_bytes_rtu, with_crc. cbn [vis]. rewrite app_length. reflexivity. }
    assert (Hok : bytes_ok (vis d)).
    { unfold d, req_bytes_rtu, with_crc. cbn [vis]. apply bytes_ok_app. split; [exact Hb|apply crc_trailer_ok, Hb]. }
    assert (H4 : (4 <= slen d)%nat) by (pose proof (body_len2 r); lia).
    destruct (crc_gate_cases d parse_rtu_request Hok H4) as [Heq _].
    unfold parse_rtu_request_crc. rewrite Heq; [exact D2|].
    unfold frame_trailer, frame_front. rewrite Hlen.
    replace (length (req_body r) + 2 - 2)%nat with (length (req_body r)) by lia.
    unfold d, req_bytes_rtu, with_crc. cbn [vis].
    rewrite skipn_app, Nat.sub_diag, skipn_all, firstn_app_exact by reflexivity. reflexivity.
Qed.

(* every legal FC1/FC2 request with 126..2000 coils is constructed and then refused by all entry
   points: the full round-trip statement is false there (known finding D1) *)
Theorem fc1_fc2_limit_region fc u st q tid s :
  fc = 1 \/ fc = 2 -> u < 256 -> tid < 65536 -> st < 65536 -> 126 <= q <= 2000 ->
  legal (SRead fc u st q) = true /\ new_read fc u st q = Ok (RRead fc u st q) /\
  parse_tcp_request {| vis := req_bytes_tcp tid (RRead fc u st q); spare := s |} = Err (err_tcp tid u fc 3) /\
  parse_rtu_request_crc {| vis := req_bytes_rtu (RRead fc u st q); spare := s |} = Err (EParseRTU u fc 3).
Proof.
  intros Hfc Hu Ht Hs Hq.
  split; [destruct Hfc; subst fc; cbn [legal]; unfold read_limit; cbn [N.eqb Pos.eqb orb andb]; lia|].
  split; [unfold new_read, max_read; destruct Hfc; subst fc; cbn [N.eqb Pos.eqb orb];
          (replace ((q =? 0) || (2000 <? q)) with false by lia); reflexivity|].
  assert (Hfc' : 1 <= fc <= 4) by (destruct Hfc; lia).
  destruct (read_limit_exact fc u st q tid s Hfc' Hu Ht Hs ltac:(lia)) as [_ R].
  destruct (R ltac:(lia)) as [_ [A [_ [_ [_ B]]]]]. split; assumption.
Qed.

Theorem fc1_fc2_limit_refuted : exists fc u st q tid r,
  u < 256 /\ st < 65536 /\ tid < 65536 /\
  new_read fc u st q = Ok r /\ legal (SRead fc u st q) = true /\ ~ round_trips tid r.
Proof.
  exists 1, 1, 0, 126, 1, (RRead 1 1 0 126).
  split; [lia|]. split; [lia|]. split; [lia|]. split; [reflexivity|]. split; [reflexivity|].
  intros H. destruct (H []) as [_ [A _]]. vm_compute in A. discriminate A.
Qed.

(* ====================================================================================== *)
(* 8. second half: every slice; whatever is decoded is within the specification's limits   *)
(* ====================================================================================== *)
(* the 16-bit field of the frame at byte offset [off] *)
Definition fld (d : slice) (off : nat) : N := be16 (firstn 2 (skipn off (vis d))).

Definition req_in_limits (r : req) : Prop :=
  match r with
  | RRead fc _ _ q => 1 <= q <= read_limit fc
  | RWCoils _ _ c _ => 1 <= c <= 1968
  | RWRegs _ _ c _ => 1 <= c <= 123
  | RRW _ _ rq _ wq _ => 1 <= rq <= 125 /\ 1 <= wq <= 121
  | _ => True
  end.

Lemma read_limit_ge fc : 125 <= read_limit fc.
Proof. unfold read_limit. destruct ((fc =? 1) || (fc =? 2)); lia. Qed.

Lemma mbap_ok d tid : parse_mbap d = Ok tid -> (7 <= slen d)%nat.
Proof.
  unfold parse_mbap. intros H.
  destruct (slen d <? 6)%nat eqn:E0; [discriminate H|].
  destruct (@idx_lt perr d 2) as [b2 [Hb2 _]]; [lia|]. rewrite Hb2 in H. cbn [bind] in H.
  destruct (@idx_lt perr d 3) as [b3 [Hb3 _]]; [lia|]. rewrite Hb3 in H. cbn [bind] in H.
  destruct (negb (b2 =? 0) || negb (b3 =? 0)); [discriminate H|].
  rewrite (@sub_in perr d 4 6) in H by lia. cbn [bind] in H.
  destruct (be16 _ =? 0) eqn:E1; [discriminate H|].
  destruct (negb (N.of_nat (slen d) =? 6 + _)) eqn:E2; [discriminate H|]. lia.
Qed.
Lemma mbap_no_panic d : parse_mbap d <> Panic.
Proof.
  unfold parse_mbap. destruct (slen d <? 6)%nat eqn:E0; [discriminate|].
  repeat go_step; discriminate.
Qed.

(* forward execution of a parser inside a premise [H : ... = Ok _] *)
Ltac inv_step H :=
  match type of H with
  | Err _ = Ok _ => discriminate H
  | Panic = Ok _ => discriminate H
  | (if ?c then _ else _) = Ok _ => destruct c eqn:?
  | bind (@idx ?E ?d ?i) _ = Ok _ =>
      let b := fresh "b" in let Hb := fresh "Hb" in let Hn := fresh "Hn" in
      destruct (@idx_lt E d i) as [b [Hb Hn]]; [lia|]; rewrite Hb in H; cbn [bind] in H
  | bind (@sub ?E ?d ?i ?j) _ = Ok _ => rewrite (@sub_in E d i j) in H by lia; cbn [bind] in H
  | bind (if ?c then _ else _) _ = Ok _ => destruct c eqn:?
  | bind (Ok _) _ = Ok _ => cbn [bind] in H
  end.
Ltac inv_mbap H :=
  match type of H with
  | bind (parse_mbap ?d) _ = Ok _ =>
      let t := fresh "t" in let Hm := fresh "Hm" in let H7 := fresh "H7" in
      destruct (parse_mbap d) as [t| |] eqn:Hm; cbn [bind] in H; try discriminate H;
      pose proof (mbap_ok d t Hm) as H7
  end.
Ltac inv_done H :=
  apply Ok_inj in H; try (apply pair_equal_spec in H; destruct H as [_ H]); subst.

Ltac snd_fin k fc :=
  split; [lia|]; split;
  [match goal with Hn : nth_error _ k = Some ?b |- _ => replace fc with b by lia; exact Hn end|].
Ltac snd_lim := (split; [reflexivity|]); unfold fld; cbn [Nat.sub] in *; lia.

(* ---- TCP: frame long enough, function code of the frame, decoded fields = frame fields ---- *)
Lemma read_req_tcp_sound fc d tid r : parse_read_req_tcp fc d = Ok (tid, r) ->
  (12 <= slen d)%nat /\ nth_error (vis d) 7 = Some fc /\
  exists u st, r = RRead fc u st (fld d 10) /\ 1 <= fld d 10 <= 125.
Proof.
  unfold parse_read_req_tcp, in_range. intros H. inv_mbap H. repeat inv_step H.
  inv_done H. snd_fin 7%nat fc. do 2 eexists. snd_lim.
Qed.
Lemma wcoil_req_tcp_sound d tid r : parse_wcoil_req_tcp d = Ok (tid, r) ->
  (12 <= slen d)%nat /\ nth_error (vis d) 7 = Some 5 /\
  exists u a st, r = RWCoil u a st /\ fld d 10 = (if st then 0xFF00 else 0).
Proof.
  unfold parse_wcoil_req_tcp. intros H. inv_mbap H. repeat inv_step H.
  inv_done H. snd_fin 7%nat 5. do 3 eexists. split; [reflexivity|]. unfold fld.
  match goal with |- _ = (if ?c then _ else _) => destruct c eqn:? end; cbn [Nat.sub] in *; lia.
Qed.
Lemma wreg_req_tcp_sound d tid r : parse_wreg_req_tcp d = Ok (tid, r) ->
  (12 <= slen d)%nat /\ nth_error (vis d) 7 = Some 6 /\ exists u a d0 d1, r = RWReg u a d0 d1.
Proof.
  unfold parse_wreg_req_tcp. intros H. inv_mbap H. repeat inv_step H.
  inv_done H. snd_fin 7%nat 6. do 4 eexists. reflexivity.
Qed.
Lemma wcoils_req_tcp_sound d tid r : parse_wcoils_req_tcp d = Ok (tid, r) ->
  (13 <= slen d)%nat /\ nth_error (vis d) 7 = Some 15 /\
  exists u st data, r = RWCoils u st (fld d 10) data /\ 1 <= fld d 10 <= 1968.
Proof.
  unfold parse_wcoils_req_tcp, in_range. intros H. inv_mbap H. repeat inv_step H;
  inv_done H; snd_fin 7%nat 15; do 3 eexists; snd_lim.
Qed.
Lemma wregs_req_tcp_sound d tid r : parse_wregs_req_tcp d = Ok (tid, r) ->
  (13 <= slen d)%nat /\ nth_error (vis d) 7 = Some 16 /\
  exists u st data, r = RWRegs u st (fld d 10) data /\ 1 <= fld d 10 <= 123.
Proof.
  unfold parse_wregs_req_tcp, in_range. intros H. inv_mbap H. repeat inv_step H;
  inv_done H; snd_fin 7%nat 16; do 3 eexists; snd_lim.
Qed.
Lemma srvid_req_tcp_sound d tid r : parse_srvid_req_tcp d = Ok (tid, r) ->
  (8 <= slen d)%nat /\ nth_error (vis d) 7 = Some 17 /\ exists u, r = RSrvId u.
Proof.
  unfold parse_srvid_req_tcp. intros H. inv_mbap H. repeat inv_step H.
  inv_done H. snd_fin 7%nat 17. eexists. reflexivity.
Qed.
Lemma rw_req_tcp_sound d tid r : parse_rw_req_tcp d = Ok (tid, r) ->
  (17 <= slen d)%nat /\ nth_error (vis d) 7 = Some 23 /\
  exists u rs ws data, r = RRW u rs (fld d 10) ws (fld d 14) data /\
    1 <= fld d 10 <= 125 /\ 1 <= fld d 14 <= 121.
Proof.
  unfold parse_rw_req_tcp, in_range. intros H. inv_mbap H. repeat inv_step H;
  inv_done H; snd_fin 7%nat 23; do 4 eexists; snd_lim.
Qed.

(* ---- RTU ---- *)
Lemma read_req_rtu_sound fc d r : parse_read_req_rtu fc d = Ok r ->
  (6 <= slen d)%nat /\ nth_error (vis d) 1 = Some fc /\
  exists u st, r = RRead fc u st (fld d 4) /\ 1 <= fld d 4 <= 125.
Proof.
  unfold parse_read_req_rtu, in_range. intros H. repeat inv_step H.
  inv_done H. snd_fin 1%nat fc. do 2 eexists. snd_lim.
Qed.
Lemma wcoil_req_rtu_sound d r : parse_wcoil_req_rtu d = Ok r ->
  (6 <= slen d)%nat /\ nth_error (vis d) 1 = Some 5 /\
  exists u a st, r = RWCoil u a st /\ fld d 4 = (if st then 0xFF00 else 0).
Proof.
  unfold parse_wcoil_req_rtu. intros H. repeat inv_step H.
  inv_done H. snd_fin 1%nat 5. do 3 eexists. split; [reflexivity|]. unfold fld.
  match goal with |- _ = (if ?c then _ else _) => destruct c eqn:? end; cbn [Nat.sub] in *; lia.
Qed.
Lemma wreg_req_rtu_sound d r : parse_wreg_req_rtu d = Ok r ->
  (6 <= slen d)%nat /\ nth_error (vis d) 1 = Some 6 /\ exists u a d0 d1, r = RWReg u a d0 d1.
Proof.
  unfold parse_wreg_req_rtu. intros H. repeat inv_step H.
  inv_done H. snd_fin 1%nat 6. do 4 eexists. reflexivity.
Qed.
Lemma wcoils_req_rtu_sound d r : parse_wcoils_req_rtu d = Ok r ->
  (7 <= slen d)%nat /\ nth_error (vis d) 1 = Some 15 /\
  exists u st data, r = RWCoils u st (fld d 4) data /\ 1 <= fld d 4 <= 1968.
Proof.
  unfold parse_wcoils_req_rtu, in_range. intros H. repeat inv_step H;
  inv_done H; snd_fin 1%nat 15; do 3 eexists; snd_lim.
Qed.
Lemma wregs_req_rtu_sound d r : parse_wregs_req_rtu d = Ok r ->
  (8 <= slen d)%nat /\ nth_error (vis d) 1 = Some 16 /\
  exists u st data, r = RWRegs u st (fld d 4) data /\ 1 <= fld d 4 <= 123.
Proof.
  unfold parse_wregs_req_rtu, in_range. intros H. repeat inv_step H;
  inv_done H; snd_fin 1%nat 16; do 3 eexists; snd_lim.
Qed.
Lemma srvid_req_rtu_sound d r : parse_srvid_req_rtu d = Ok r ->
  (2 <= slen d)%nat /\ nth_error (vis d) 1 = Some 17 /\ exists u, r = RSrvId u.
Proof.
  unfold parse_srvid_req_rtu. intros H. repeat inv_step H;
  inv_done H; snd_fin 1%nat 17; eexists; reflexivity.
Qed.
Lemma rw_req_rtu_sound d r : parse_rw_req_rtu d = Ok r ->
  (12 <= slen d)%nat /\ nth_error (vis d) 1 = Some 23 /\
  exists u rs ws data, r = RRW u rs (fld d 4) ws (fld d 8) data /\
    1 <= fld d 4 <= 125 /\ 1 <= fld d 8 <= 121.
Proof.
  unfold parse_rw_req_rtu, in_range. intros H. repeat inv_step H;
  inv_done H; snd_fin 1%nat 23; do 4 eexists; snd_lim.
Qed.

(* ---- the frame-level statement: what is decoded comes from a frame whose fields are legal ----
   [frame_within_limits off l]: the quantity / count / coil-value fields of the frame [l] (function
   code at index [off]) are within the limits of MAP 6.x.  (Same text as the executable verdict
   DispPacket.frame_fields_legal; Properties/C09.v checks that they are the same function.) *)
Definition fld16 (l : list N) (off : nat) : N := nth off l 0 * 256 + nth (S off) l 0.
Definition frame_within_limits (pdu_off : nat) (l : list N) : bool :=
  let fc := nth pdu_off l 0 in
  let q := fld16 l (pdu_off + 3) in
  if (fc =? 1) || (fc =? 2) then (1 <=? q) && (q <=? 2000) else
  if (fc =? 3) || (fc =? 4) then (1 <=? q) && (q <=? 125) else
  if fc =? 5 then (q =? 0xFF00) || (q =? 0) else
  if fc =? 15 then (1 <=? q) && (q <=? 1968) else
  if fc =? 16 then (1 <=? q) && (q <=? 123) else
  if fc =? 23 then (1 <=? q) && (q <=? 125) && (1 <=? fld16 l (pdu_off + 7)) && (fld16 l (pdu_off + 7) <=? 121) else
  true.

Lemma be16_skipn : forall off l, (off + 2 <= length l)%nat ->
  be16 (firstn 2 (skipn off l)) = fld16 l off.
Proof.
  induction off as [|off IH]; intros l H.
  - destruct l as [|a [|b l]]; cbn [length] in H; try lia. reflexivity.
  - destruct l as [|a l]; cbn [length] in H; [lia|]. cbn [skipn]. rewrite IH by lia. reflexivity.
Qed.
Lemma fld_fld16 d off : (off + 2 <= slen d)%nat -> fld16 (vis d) off = fld d off.
Proof. intros H. unfold fld. symmetry. apply be16_skipn. exact H. Qed.

Ltac fwl Hfc :=
  unfold frame_within_limits; rewrite (nth_error_nth _ _ 0 Hfc); cbn [Nat.add];
  rewrite ?fld_fld16 by lia; cbn [N.eqb Pos.eqb orb].

Ltac sound_open S :=
  destruct S as [Hlen [Hfc S]];
  repeat match goal with
         | S : exists _, _ |- _ => destruct S as [? S]
         | S : _ /\ _ |- _ => destruct S
         end; subst.

Lemma read_req_tcp_frame fc d tid r : 1 <= fc <= 4 -> parse_read_req_tcp fc d = Ok (tid, r) ->
  frame_within_limits 7 (vis d) = true /\ req_in_limits r.
Proof.
  intros Hk H. pose proof (read_req_tcp_sound fc d tid r H) as S. sound_open S.
  split; [|cbn [req_in_limits]; pose proof (read_limit_ge fc); lia].
  fwl Hfc. destruct ((fc =? 1) || (fc =? 2)) eqn:E1; [lia|]. destruct ((fc =? 3) || (fc =? 4)) eqn:E2; lia.
Qed.
Lemma wcoil_req_tcp_frame d tid r : parse_wcoil_req_tcp d = Ok (tid, r) ->
  frame_within_limits 7 (vis d) = true /\ req_in_limits r.
Proof.
  intros H. pose proof (wcoil_req_tcp_sound d tid r H) as S. sound_open S.
  split; [|exact I]. fwl Hfc.
  match goal with E : fld d 10 = (if ?c then _ else _) |- _ => rewrite E; destruct c; reflexivity end.
Qed.
Lemma wreg_req_tcp_frame d tid r : parse_wreg_req_tcp d = Ok (tid, r) ->
  frame_within_limits 7 (vis d) = true /\ req_in_limits r.
Proof.
  intros H. pose proof (wreg_req_tcp_sound d tid r H) as S. sound_open S.
  split; [|exact I]. fwl Hfc. reflexivity.
Qed.
Lemma wcoils_req_tcp_frame d tid r : parse_wcoils_req_tcp d = Ok (tid, r) ->
  frame_within_limits 7 (vis d) = true /\ req_in_limits r.
Proof.
  intros H. pose proof (wcoils_req_tcp_sound d tid r H) as S. sound_open S.
  split; [|cbn [req_in_limits]; lia]. fwl Hfc. lia.
Qed.
Lemma wregs_req_tcp_frame d tid r : parse_wregs_req_tcp d = Ok (tid, r) ->
  frame_within_limits 7 (vis d) = true /\ req_in_limits r.
Proof.
  intros H. pose proof (wregs_req_tcp_sound d tid r H) as S. sound_open S.
  split; [|cbn [req_in_limits]; lia]. fwl Hfc. lia.
Qed.
Lemma srvid_req_tcp_frame d tid r : parse_srvid_req_tcp d = Ok (tid, r) ->
  frame_within_limits 7 (vis d) = true /\ req_in_limits r.
Proof.
  intros H. pose proof (srvid_req_tcp_sound d tid r H) as S. sound_open S.
  split; [|exact I]. fwl Hfc. reflexivity.
Qed.
Lemma rw_req_tcp_frame d tid r : parse_rw_req_tcp d = Ok (tid, r) ->
  frame_within_limits 7 (vis d) = true /\ req_in_limits r.
Proof.
  intros H. pose proof (rw_req_tcp_sound d tid r H) as S. sound_open S.
  split; [|cbn [req_in_limits]; lia]. fwl Hfc. lia.
Qed.

Lemma read_req_rtu_frame fc d r : 1 <= fc <= 4 -> parse_read_req_rtu fc d = Ok r ->
  frame_within_limits 1 (vis d) = true /\ req_in_limits r.
Proof.
  intros Hk H. pose proof (read_req_rtu_sound fc d r H) as S. sound_open S.
  split; [|cbn [req_in_limits]; pose proof (read_limit_ge fc); lia].
  fwl Hfc. destruct ((fc =? 1) || (fc =? 2)) eqn:E1; [lia|]. destruct ((fc =? 3) || (fc =? 4)) eqn:E2; lia.
Qed.
Lemma wcoil_req_rtu_frame d r : parse_wcoil_req_rtu d = Ok r ->
  frame_within_limits 1 (vis d) = true /\ req_in_limits r.
Proof.
  intros H. pose proof (wcoil_req_rtu_sound d r H) as S. sound_open S.
  split; [|exact I]. fwl Hfc.
  match goal with E : fld d 4 = (if ?c then _ else _) |- _ => rewrite E; destruct c; reflexivity end.
Qed.
Lemma wreg_req_rtu_frame d r : parse_wreg_req_rtu d = Ok r ->
  frame_within_limits 1 (vis d) = true /\ req_in_limits r.
Proof.
  intros H. pose proof (wreg_req_rtu_sound d r H) as S. sound_open S.
  split; [|exact I]. fwl Hfc. reflexivity.
Qed.
Lemma wcoils_req_rtu_frame d r : parse_wcoils_req_rtu d = Ok r ->
  frame_within_limits 1 (vis d) = true /\ req_in_limits r.
Proof.
  intros H. pose proof (wcoils_req_rtu_sound d r H) as S. sound_open S.
  split; [|cbn [req_in_limits]; lia]. fwl Hfc. lia.
Qed.
Lemma wregs_req_rtu_frame d r : parse_wregs_req_rtu d = Ok r ->
  frame_within_limits 1 (vis d) = true /\ req_in_limits r.
Proof.
  intros H. pose proof (wregs_req_rtu_sound d r H) as S. sound_open S.
  split; [|cbn [req_in_limits]; lia]. fwl Hfc. lia.
Qed.
Lemma srvid_req_rtu_frame d r : parse_srvid_req_rtu d = Ok r ->
  frame_within_limits 1 (vis d) = true /\ req_in_limits r.
Proof.
  intros H. pose proof (srvid_req_rtu_sound d r H) as S. sound_open S.
  split; [|exact I]. fwl Hfc. reflexivity.
Qed.
Lemma rw_req_rtu_frame d r : parse_rw_req_rtu d = Ok r ->
  frame_within_limits 1 (vis d) = true /\ req_in_limits r.
Proof.
  intros H. pose proof (rw_req_rtu_sound d r H) as S. sound_open S.
  split; [|cbn [req_in_limits]; lia]. fwl Hfc. lia.
Qed.

(* ---- the dispatchers ---- *)
Theorem tcp_dispatcher_sound d tid r : parse_tcp_request d = Ok (tid, r) ->
  frame_within_limits 7 (vis d) = true /\ req_in_limits r.
Proof.
  unfold parse_tcp_request. intros H.
  destruct (slen d <? 8)%nat eqn:E8; [discriminate H|].
  destruct (@idx_lt perr d 7) as [fc [Hb Hn]]; [lia|]. rewrite Hb in H. cbn [bind] in H.
  destruct ((fc =? 1) || (fc =? 2) || (fc =? 3) || (fc =? 4)) eqn:E1;
    [apply (read_req_tcp_frame fc d tid r); [lia|exact H]|].
  destruct (fc =? 5); [exact (wcoil_req_tcp_frame d tid r H)|].
  destruct (fc =? 6); [exact (wreg_req_tcp_frame d tid r H)|].
  destruct (fc =? 15); [exact (wcoils_req_tcp_frame d tid r H)|].
  destruct (fc =? 16); [exact (wregs_req_tcp_frame d tid r H)|].
  destruct (fc =? 17); [exact (srvid_req_tcp_frame d tid r H)|].
  destruct (fc =? 23); [exact (rw_req_tcp_frame d tid r H)|discriminate H].
Qed.

Theorem rtu_dispatcher_sound d r : parse_rtu_request d = Ok r ->
  frame_within_limits 1 (vis d) = true /\ req_in_limits r.
Proof.
  unfold parse_rtu_request. intros H.
  destruct (slen d <? 4)%nat eqn:E4; [discriminate H|].
  destruct (@idx_lt perr d 1) as [fc [Hb Hn]]; [lia|]. rewrite Hb in H. cbn [bind] in H.
  destruct ((fc =? 1) || (fc =? 2) || (fc =? 3) || (fc =? 4)) eqn:E1;
    [apply (read_req_rtu_frame fc d r); [lia|exact H]|].
  destruct (fc =? 5); [exact (wcoil_req_rtu_frame d r H)|].
  destruct (fc =? 6); [exact (wreg_req_rtu_frame d r H)|].
  destruct (fc =? 15); [exact (wcoils_req_rtu_frame d r H)|].
  destruct (fc =? 16); [exact (wregs_req_rtu_frame d r H)|].
  destruct (fc =? 17); [exact (srvid_req_rtu_frame d r H)|].
  destruct (fc =? 23); [exact (rw_req_rtu_frame d r H)|discriminate H].
Qed.

Theorem rtu_crc_dispatcher_sound d r : parse_rtu_request_crc d = Ok r ->
  frame_within_limits 1 (vis d) = true /\ req_in_limits r.
Proof.
  unfold parse_rtu_request_crc, crc_gate. intros H.
  destruct (slen d <? 4)%nat eqn:E4; [discriminate H|].
  rewrite (@sub_in perr d (slen d - 2) (slen d)) in H by lia. cbn [bind] in H.
  rewrite (@sub_in perr d 0 (slen d - 2)) in H by lia. cbn [bind] in H.
  destruct (negb _) in H; [discriminate H|]. exact (rtu_dispatcher_sound d r H).
Qed.

(* ---- no request parser panics (needed for "refused": not Ok and not Panic is Err) ---- *)
Ltac np_mbap :=
  match goal with
  | |- bind (parse_mbap ?d) _ <> Panic =>
      let t := fresh "t" in let Hm := fresh "Hm" in let H7 := fresh "H7" in
      destruct (parse_mbap d) as [t| |] eqn:Hm; cbn [bind];
      [pose proof (mbap_ok d t Hm) as H7|discriminate|exfalso; exact (mbap_no_panic d Hm)]
  end.

Lemma read_req_tcp_np fc d : parse_read_req_tcp fc d <> Panic.
Proof. unfold parse_read_req_tcp. np_mbap. repeat go_step; discriminate. Qed.
Lemma wcoil_req_tcp_np d : parse_wcoil_req_tcp d <> Panic.
Proof. unfold parse_wcoil_req_tcp. np_mbap. repeat go_step; discriminate. Qed.
Lemma wreg_req_tcp_np d : parse_wreg_req_tcp d <> Panic.
Proof. unfold parse_wreg_req_tcp. np_mbap. repeat go_step; discriminate. Qed.
Lemma wcoils_req_tcp_np d : parse_wcoils_req_tcp d <> Panic.
Proof. unfold parse_wcoils_req_tcp. np_mbap. repeat go_step; discriminate. Qed.
Lemma wregs_req_tcp_np d : parse_wregs_req_tcp d <> Panic.
Proof. unfold parse_wregs_req_tcp. np_mbap. repeat go_step; discriminate. Qed.
Lemma srvid_req_tcp_np d : parse_srvid_req_tcp d <> Panic.
Proof. unfold parse_srvid_req_tcp. np_mbap. repeat go_step; discriminate. Qed.
Lemma rw_req_tcp_np d : parse_rw_req_tcp d <> Panic.
Proof. unfold parse_rw_req_tcp. np_mbap. repeat go_step; discriminate. Qed.

Lemma read_req_rtu_np fc d : parse_read_req_rtu fc d <> Panic.
Proof. unfold parse_read_req_rtu. repeat go_step; discriminate. Qed.
Lemma wcoil_req_rtu_np d : parse_wcoil_req_rtu d <> Panic.
Proof. unfold parse_wcoil_req_rtu. repeat go_step; discriminate. Qed.
Lemma wreg_req_rtu_np d : parse_wreg_req_rtu d <> Panic.
Proof. unfold parse_wreg_req_rtu. repeat go_step; discriminate. Qed.
Lemma wcoils_req_rtu_np d : parse_wcoils_req_rtu d <> Panic.
Proof. unfold parse_wcoils_req_rtu. repeat go_step; discriminate. Qed.
Lemma wregs_req_rtu_np d : parse_wregs_req_rtu d <> Panic.
Proof. unfold parse_wregs_req_rtu. repeat go_step; discriminate. Qed.
Lemma srvid_req_rtu_np d : parse_srvid_req_rtu d <> Panic.
Proof. unfold parse_srvid_req_rtu. repeat go_step; discriminate. Qed.
Lemma rw_req_rtu_np d : parse_rw_req_rtu d <> Panic.
Proof. unfold parse_rw_req_rtu. repeat go_step; discriminate. Qed.

Theorem tcp_dispatcher_np d : parse_tcp_request d <> Panic.
Proof.
  unfold parse_tcp_request. destruct (slen d <? 8)%nat eqn:E8; [discriminate|].
  destruct (@idx_lt perr d 7) as [fc [Hb _]]; [lia|]. rewrite Hb. cbn [bind].
  destruct (_ || _); [apply read_req_tcp_np|].
  destruct (fc =? 5); [apply wcoil_req_tcp_np|].
  destruct (fc =? 6); [apply wreg_req_tcp_np|].
  destruct (fc =? 15); [apply wcoils_req_tcp_np|].
  destruct (fc =? 16); [apply wregs_req_tcp_np|].
  destruct (fc =? 17); [apply srvid_req_tcp_np|].
  destruct (fc =? 23); [apply rw_req_tcp_np|discriminate].
Qed.
Theorem rtu_dispatcher_np d : parse_rtu_request d <> Panic.
Proof.
  unfold parse_rtu_request. destruct (slen d <? 4)%nat eqn:E4; [discriminate|].
  destruct (@idx_lt perr d 1) as [fc [Hb _]]; [lia|]. rewrite Hb. cbn [bind].
  destruct (_ || _); [apply read_req_rtu_np|].
  destruct (fc =? 5); [apply wcoil_req_rtu_np|].
  destruct (fc =? 6); [apply wreg_req_rtu_np|].
  destruct (fc =? 15); [apply wcoils_req_rtu_np|].
  destruct (fc =? 16); [apply wregs_req_rtu_np|].
  destruct (fc =? 17); [apply srvid_req_rtu_np|].
  destruct (fc =? 23); [apply rw_req_rtu_np|discriminate].
Qed.
Theorem rtu_crc_dispatcher_np d : parse_rtu_request_crc d <> Panic.
Proof.
  unfold parse_rtu_request_crc, crc_gate. destruct (slen d <? 4)%nat eqn:E4; [discriminate|].
  rewrite (@sub_in perr d (slen d - 2) (slen d)) by lia. cbn [bind].
  rewrite (@sub_in perr d 0 (slen d - 2)) by lia. cbn [bind].
  destruct (negb _); [discriminate|apply rtu_dispatcher_np].
Qed.

(* ---- refusal: a frame whose field is outside the limits gets an error from every entry point ---- *)
Lemma refused {A} (x : pres A) : x <> Panic -> (forall a, x <> Ok a) -> exists e, x = Err e.
Proof.
  intros Hp Ho. destruct x as [a|e|]; [exfalso; exact (Ho a eq_refl)|eexists; reflexivity|contradiction].
Qed.

Theorem tcp_dispatcher_refuses d :
  frame_within_limits 7 (vis d) = false -> exists e, parse_tcp_request d = Err e.
Proof.
  intros Hf. apply refused; [apply tcp_dispatcher_np|]. intros [tid r] H.
  destruct (tcp_dispatcher_sound d tid r H) as [T _]. rewrite T in Hf. discriminate Hf.
Qed.
Theorem rtu_dispatcher_refuses d :
  frame_within_limits 1 (vis d) = false ->
  (exists e, parse_rtu_request d = Err e) /\ (exists e, parse_rtu_request_crc d = Err e).
Proof.
  intros Hf. split; (apply refused; [first [apply rtu_dispatcher_np|apply rtu_crc_dispatcher_np]|]); intros r H.
  - destruct (rtu_dispatcher_sound d r H) as [T _]. rewrite T in Hf. discriminate Hf.
  - destruct (rtu_crc_dispatcher_sound d r H) as [T _]. rewrite T in Hf. discriminate Hf.
Qed.

(* the per-function parsers, all fourteen at once: selected by the number the harness uses *)
Inductive req_parser : Type :=
| PReadTCP (fc : N) | PWCoilTCP | PWRegTCP | PWCoilsTCP | PWRegsTCP | PSrvIdTCP | PRWTCP
| PReadRTU (fc : N) | PWCoilRTU | PWRegRTU | PWCoilsRTU | PWRegsRTU | PSrvIdRTU | PRWRTU.
Definition pdu_offset (p : req_parser) : nat :=
  match p with
  | PReadTCP _ | PWCoilTCP | PWRegTCP | PWCoilsTCP | PWRegsTCP | PSrvIdTCP | PRWTCP => 7%nat
  | _ => 1%nat
  end.
Definition run_req_parser (p : req_parser) (d : slice) : pres req :=
  match p with
  | PReadTCP fc => map_ok snd (parse_read_req_tcp fc d)
  | PWCoilTCP => map_ok snd (parse_wcoil_req_tcp d)
  | PWRegTCP => map_ok snd (parse_wreg_req_tcp d)
  | PWCoilsTCP => map_ok snd (parse_wcoils_req_tcp d)
  | PWRegsTCP => map_ok snd (parse_wregs_req_tcp d)
  | PSrvIdTCP => map_ok snd (parse_srvid_req_tcp d)
  | PRWTCP => map_ok snd (parse_rw_req_tcp d)
  | PReadRTU fc => parse_read_req_rtu fc d
  | PWCoilRTU => parse_wcoil_req_rtu d
  | PWRegRTU => parse_wreg_req_rtu d
  | PWCoilsRTU => parse_wcoils_req_rtu d
  | PWRegsRTU => parse_wregs_req_rtu d
  | PSrvIdRTU => parse_srvid_req_rtu d
  | PRWRTU => parse_rw_req_rtu d
  end.
Definition req_parser_wf (p : req_parser) : Prop :=
  match p with PReadTCP fc | PReadRTU fc => 1 <= fc <= 4 | _ => True end.

Lemma map_ok_snd_inv {A B} (x : pres (A * B)) b : map_ok snd x = Ok b -> exists a, x = Ok (a, b).
Proof. destruct x as [[a b']| |]; cbn; intros H; try discriminate H. apply Ok_inj in H. subst. eexists; reflexivity. Qed.
Lemma map_ok_np {A B} (f : A -> B) (x : pres A) : x <> Panic -> map_ok f x <> Panic.
Proof. destruct x; cbn; intros H; try discriminate; contradiction. Qed.

Theorem per_function_sound p d r : req_parser_wf p -> run_req_parser p d = Ok r ->
  frame_within_limits (pdu_offset p) (vis d) = true /\ req_in_limits r.
Proof.
  intros Hw H. destruct p; cbn [run_req_parser pdu_offset req_parser_wf] in *;
    try (apply map_ok_snd_inv in H; destruct H as [tid H]).
  - exact (read_req_tcp_frame fc d tid r Hw H).
  - exact (wcoil_req_tcp_frame d tid r H).
  - exact (wreg_req_tcp_frame d tid r H).
  - exact (wcoils_req_tcp_frame d tid r H).
  - exact (wregs_req_tcp_frame d tid r H).
  - exact (srvid_req_tcp_frame d tid r H).
  - exact (rw_req_tcp_frame d tid r H).
  - exact (read_req_rtu_frame fc d r Hw H).
  - exact (wcoil_req_rtu_frame d r H).
  - exact (wreg_req_rtu_frame d r H).
  - exact (wcoils_req_rtu_frame d r H).
  - exact (wregs_req_rtu_frame d r H).
  - exact (srvid_req_rtu_frame d r H).
  - exact (rw_req_rtu_frame d r H).
Qed.

Theorem per_function_np p d : run_req_parser p d <> Panic.
Proof.
  destruct p; cbn [run_req_parser]; try apply map_ok_np;
    first [apply read_req_tcp_np|apply wcoil_req_tcp_np|apply wreg_req_tcp_np|apply wcoils_req_tcp_np
          |apply wregs_req_tcp_np|apply srvid_req_tcp_np|apply rw_req_tcp_np
          |apply read_req_rtu_np|apply wcoil_req_rtu_np|apply wreg_req_rtu_np|apply wcoils_req_rtu_np
          |apply wregs_req_rtu_np|apply srvid_req_rtu_np|apply rw_req_rtu_np].
Qed.

Theorem per_function_refuses p d : req_parser_wf p ->
  frame_within_limits (pdu_offset p) (vis d) = false -> exists e, run_req_parser p d = Err e.
Proof.
  intros Hw Hf. apply refused; [apply per_function_np|]. intros r H.
  destruct (per_function_sound p d r Hw H) as [T _]. rewrite T in Hf. discriminate Hf.
Qed.

(* the decoded quantity / count / coil value IS the frame's field (so "within limits" above is a
   statement about the frame that was received, not only about the value handed to the caller) *)
Definition decoded_from_frame (off : nat) (d : slice) (r : req) : Prop :=
  match r with
  | RRead _ _ _ q => q = fld d (off + 3)
  | RWCoil _ _ st => fld d (off + 3) = (if st then 0xFF00 else 0)
  | RWCoils _ _ c _ | RWRegs _ _ c _ => c = fld d (off + 3)
  | RRW _ _ rq _ wq _ => rq = fld d (off + 3) /\ wq = fld d (off + 7)
  | _ => True
  end.

Theorem per_function_fields p d r : run_req_parser p d = Ok r ->
  decoded_from_frame (pdu_offset p) d r.
Proof.
  intros H. destruct p; cbn [run_req_parser pdu_offset] in *;
    try (apply map_ok_snd_inv in H; destruct H as [tid H]).
  - pose proof (read_req_tcp_sound _ _ _ _ H) as S. sound_open S. reflexivity.
  - pose proof (wcoil_req_tcp_sound _ _ _ H) as S. sound_open S. assumption.
  - pose proof (wreg_req_tcp_sound _ _ _ H) as S. sound_open S. exact I.
  - pose proof (wcoils_req_tcp_sound _ _ _ H) as S. sound_open S. reflexivity.
  - pose proof (wregs_req_tcp_sound _ _ _ H) as S. sound_open S. reflexivity.
  - pose proof (srvid_req_tcp_sound _ _ _ H) as S. sound_open S. exact I.
  - pose proof (rw_req_tcp_sound _ _ _ H) as S. sound_open S. split; reflexivity.
  - pose proof (read_req_rtu_sound _ _ _ H) as S. sound_open S. reflexivity.
  - pose proof (wcoil_req_rtu_sound _ _ H) as S. sound_open S. assumption.
  - pose proof (wreg_req_rtu_sound _ _ H) as S. sound_open S. exact I.
  - pose proof (wcoils_req_rtu_sound _ _ H) as S. sound_open S. reflexivity.
  - pose proof (wregs_req_rtu_sound _ _ H) as S. sound_open S. reflexivity.
  - pose proof (srvid_req_rtu_sound _ _ H) as S. sound_open S. exact I.
  - pose proof (rw_req_rtu_sound _ _ H) as S. sound_open S. split; reflexivity.
Qed.
