(* BuilderDeps.v -- the facts property C05 takes from the other layers, restated once under the
   builder layer's own names:
   * C02 (packet layer, proofs/RespProofs.v): a well-formed register reply, encoded as the
     specification prescribes, is parsed back by the response dispatchers;
   * C04 / C13 (registers layer, proofs/RegistersProofs.v): a typed access returns the specified
     value of the addressed registers or an error, and leaves the payload alone. *)
From Coq Require Import ZifyBool ZifyN ZifyNat.
Require Import MB.GoSem MB.CrcModel MB.CrcSpec MB.Spec MB.PacketModel MB.RegistersSpec MB.RegistersModel.
Require Import MB.proofs.CrcProofs MB.proofs.RespProofs MB.proofs.RegistersProofs.
Open Scope N_scope.
Ltac Zify.zify_post_hook ::= Z.div_mod_to_equations.

Lemma reg_reply_wf fc u data :
  (fc = 3 \/ fc = 4) -> u < 256 -> bytes_ok data ->
  (2 <= length data <= 250)%nat -> (length data mod 2 = 0)%nat ->
  resp_wf (PBytes fc u (N.of_nat (length data)) data) = true.
Proof.
  intros Hfc Hu Hb Hl He. cbn [resp_wf].
  assert (Hbo : bytes_okb data = true) by (apply bytes_okb_spec; exact Hb).
  rewrite Hbo. unfold is_bytes_fc, is_coil_fc, Spec.even.
  destruct Hfc as [-> | ->]; cbn [N.eqb Pos.eqb orb andb];
    replace (u <? 256) with true by lia; rewrite N.eqb_refl;
    replace (length data <=? 255)%nat with true by lia;
    replace (2 <=? length data)%nat with true by lia;
    replace (length data mod 2 =? 0)%nat with true by lia; reflexivity.
Qed.

(* the specified reply ADU of a register read is parsed back to exactly its content *)
Lemma dep_parse_reply_tcp tid fc u data :
  (fc = 3 \/ fc = 4) -> u < 256 -> tid < 65536 -> bytes_ok data ->
  (2 <= length data <= 250)%nat -> (length data mod 2 = 0)%nat ->
  parse_tcp_response (exact (adu_tcp tid u (rpdu (SPBytes fc u data)))) =
  Ok (tid, PBytes fc u (N.of_nat (length data)) data).
Proof.
  intros Hfc Hu Ht Hb Hl He.
  pose proof (reg_reply_wf fc u data Hfc Hu Hb Hl He) as Hwf.
  pose proof (resp_bytes_tcp_spec _ tid Hwf) as Hs. cbn [resp_unit spec_pdu sresp_of] in Hs.
  rewrite <- Hs. apply (roundtrip_tcp _ tid [] Hwf Ht).
Qed.
Lemma dep_parse_reply_rtu fc u data :
  (fc = 3 \/ fc = 4) -> u < 256 -> bytes_ok data ->
  (2 <= length data <= 250)%nat -> (length data mod 2 = 0)%nat ->
  parse_rtu_response_crc (exact (adu_rtu u (rpdu (SPBytes fc u data)))) =
  Ok (PBytes fc u (N.of_nat (length data)) data).
Proof.
  intros Hfc Hu Hb Hl He.
  pose proof (reg_reply_wf fc u data Hfc Hu Hb Hl He) as Hwf.
  pose proof (resp_bytes_rtu_spec _ Hwf) as Hs. cbn [resp_unit spec_pdu sresp_of] in Hs.
  rewrite <- Hs. apply (roundtrip_rtu_crc _ [] Hwf).
Qed.

(* the Registers object of a response payload *)
Definition dep_regs (d : slice) (start : N) : registers := regs_for d start 9.
Lemma dep_new_registers d start :
  bytes_ok (vis d) -> 2 <= N.of_nat (slen d) -> N.of_nat (slen d) mod 2 = 0 ->
  start + N.of_nat (slen d) / 2 <= 65536 ->
  new_registers d start = Ok (dep_regs d start).
Proof.
  intros Hb H2 He Hw. destruct (payload_ok_of_window (vis d) start Hb H2 He Hw) as [Hp Hs].
  apply new_registers_ok; assumption.
Qed.
Lemma dep_regs_data d start : r_data (dep_regs d start) = d.
Proof. reflexivity. Qed.

(* typed access = specification; the payload is not changed *)
Lemma dep_access d start a addr :
  bytes_ok (vis d) -> 2 <= N.of_nat (slen d) -> N.of_nat (slen d) mod 2 = 0 ->
  start + N.of_nat (slen d) / 2 <= 65536 -> addr < 65536 ->
  match spec_access (vis d) start 9 a addr with
  | Some v => fst (access (dep_regs d start) a addr) = Ok v
  | None => exists e, fst (access (dep_regs d start) a addr) = Err e
  end /\ snd (access (dep_regs d start) a addr) = d.
Proof.
  intros Hb H2 He Hw Ha. destruct (payload_ok_of_window (vis d) start Hb H2 He Hw) as [Hp Hs].
  split; [|apply access_keeps_data].
  pose proof (access_value d start 9 addr Hp Hs Ha a) as H. unfold dep_regs.
  destruct (spec_access (vis d) start 9 a addr) as [v|]; cbn [expected] in H;
    destruct (fst (access (regs_for d start 9) a addr)) as [x|e|]; cbn in H; try discriminate.
  - congruence.
  - eauto.
Qed.

(* C13 of the registers layer: no accessor writes to the payload *)
Lemma dep_access_keeps_data r a addr : snd (access r a addr) = r_data r.
Proof. apply access_keeps_data. Qed.
Lemma dep_set_data_same r : set_data r (r_data r) = r.
Proof. apply set_data_same. Qed.
