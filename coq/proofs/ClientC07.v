(* ClientC07.v -- Client.Do / SerialClient.Do on scripts that deliver a reply in pieces.

   client_stop        the call ends at the first read boundary at or past the stop threshold and
                      hands exactly the bytes received so far to the parser
   client_exception   ... or at the boundary where the bytes are an exception frame
   client_waits       while all boundaries stay below the threshold the call waits; it ends with the
                      total timer
   and the facts about the two exception recognisers that make these applicable to replies. *)
From Coq Require Import ZifyBool ZifyN ZifyNat.
Require Import MB.GoSem MB.CrcModel MB.PacketModel MB.ClientModel MB.proofs.CrcProofs MB.proofs.ClientProofs.
Open Scope N_scope.
Ltac Zify.zify_post_hook ::= Z.div_mod_to_equations.

(* ---------- bit 7 ---------- *)
Lemma land128_sweep : forallb (fun f => (N.land f 128 =? 0) && negb (N.land (f + 128) 128 =? 0)) (seqN 128) = true.
Proof. vm_compute. reflexivity. Qed.
Lemma land128_low f : f < 128 -> N.land f 128 = 0.
Proof.
  intros H. pose proof (proj1 (forallb_forall _ _) land128_sweep f (in_seqN _ _ H)) as S. cbn beta in S. lia.
Qed.
Lemma land128_high f : f < 128 -> N.land (f + 128) 128 <> 0.
Proof.
  intros H. pose proof (proj1 (forallb_forall _ _) land128_sweep f (in_seqN _ _ H)) as S. cbn beta in S. lia.
Qed.

(* ---------- the recognisers on the receive window ---------- *)
Lemma slen_window k acc : slen (window k acc) = length acc.
Proof. reflexivity. Qed.

Lemma idx_window {E} k acc i : (i < length acc)%nat -> @idx E (window k acc) i = Ok (nth i acc 0).
Proof.
  intros H. unfold idx. cbn [vis window].
  destruct (nth_error acc i) eqn:E1.
  - rewrite (nth_error_nth _ _ 0 E1). reflexivity.
  - apply nth_error_None in E1. lia.
Qed.

Lemma recognise_tcp_len acc : length acc <> 9%nat -> recognise KTcp (window KTcp acc) = RNone.
Proof.
  intros H. unfold recognise, as_tcp_error. rewrite slen_window.
  replace (length acc =? 9)%nat with false by lia. reflexivity.
Qed.
Lemma recognise_tcp_fc acc : nth 7 acc 0 < 128 -> recognise KTcp (window KTcp acc) = RNone.
Proof.
  intros H. destruct (Nat.eq_dec (length acc) 9) as [E|E]; [|apply recognise_tcp_len; exact E].
  unfold recognise, as_tcp_error. rewrite slen_window, E. cbn [Nat.eqb negb].
  rewrite idx_window by lia. cbn [bind]. rewrite (land128_low _ H). reflexivity.
Qed.

Definition is_tcp (k : kind) : bool := match k with KTcp => true | _ => false end.

Lemma recognise_rtu_len k acc : is_tcp k = false -> length acc <> 5%nat -> recognise k (window k acc) = RNone.
Proof.
  intros Hk H. destruct k; [discriminate| |];
  unfold recognise, as_rtu_error_crc; rewrite slen_window;
  replace (length acc =? 5)%nat with false by lia; reflexivity.
Qed.
Lemma as_rtu_error_fc k acc : length acc = 5%nat -> nth 1 acc 0 < 128 -> as_rtu_error (window k acc) = Ok None.
Proof.
  intros E H. unfold as_rtu_error. rewrite slen_window, E. cbn [Nat.eqb negb].
  rewrite idx_window by lia. cbn [bind]. rewrite (land128_low _ H). reflexivity.
Qed.
Lemma recognise_rtu_fc k acc : is_tcp k = false -> nth 1 acc 0 < 128 -> recognise k (window k acc) = RNone.
Proof.
  intros Hk H. destruct (Nat.eq_dec (length acc) 5) as [E|E]; [|apply recognise_rtu_len; assumption].
  assert (A : as_rtu_error_crc (window k acc) = Ok None).
  { unfold as_rtu_error_crc. rewrite slen_window, E. cbn [Nat.eqb negb].
    rewrite !sub_in by (rewrite ?slen_window; lia). cbn [bind].
    destruct (negb _); [reflexivity|]. apply as_rtu_error_fc; assumption. }
  destruct k; [discriminate| |]; unfold recognise; rewrite A; reflexivity.
Qed.

(* position of the function code in a frame *)
Definition fc_pos (k : kind) : nat := if is_tcp k then 7%nat else 1%nat.
Definition exc_len (k : kind) : nat := if is_tcp k then 9%nat else 5%nat.

Lemma recognise_fc k acc : nth (fc_pos k) acc 0 < 128 -> recognise k (window k acc) = RNone.
Proof.
  unfold fc_pos. destruct (is_tcp k) eqn:Hk; intros H.
  - destruct k; try discriminate. apply recognise_tcp_fc. exact H.
  - apply recognise_rtu_fc; assumption.
Qed.
Lemma recognise_len k acc : length acc <> exc_len k -> recognise k (window k acc) = RNone.
Proof.
  unfold exc_len. destruct (is_tcp k) eqn:Hk; intros H.
  - destruct k; try discriminate. apply recognise_tcp_len. exact H.
  - apply recognise_rtu_len; assumption.
Qed.

(* no prefix of a frame whose function byte is below 128 is taken for an exception frame *)
Lemma nth_prefix (p s : list N) i : (i < length p)%nat -> nth i p 0 = nth i (p ++ s) 0.
Proof. intros H. rewrite app_nth1 by exact H. reflexivity. Qed.
Lemma recognise_prefix k reply p s :
  reply = p ++ s -> nth (fc_pos k) reply 0 < 128 -> recognise k (window k p) = RNone.
Proof.
  intros Hr Hf. destruct (Nat.eq_dec (length p) (exc_len k)) as [E|E]; [|apply recognise_len; exact E].
  apply recognise_fc. rewrite (nth_prefix p s); [rewrite <- Hr; exact Hf|].
  unfold fc_pos, exc_len in *. destruct (is_tcp k); lia.
Qed.

(* ---------- Do on a script whose reads reach the loop ---------- *)
Definition flush_trace (cfg : config) : list ev :=
  match c_kind cfg with KSerial => if c_flusher cfg then [TFlush] else [] | _ => [] end.
(* the serial port's Flush, if there is one, succeeds *)
Definition flush_ok (cfg : config) (sc : script) : Prop :=
  c_kind cfg = KSerial -> c_flusher cfg = true -> sc_flush_err sc = false.
Lemma flush_then_ok cfg sc r : flush_ok cfg sc -> flush_then cfg sc r = (r, flush_trace cfg).
Proof.
  unfold flush_ok, flush_then, flush_trace. intros H.
  destruct (c_kind cfg); try reflexivity. destruct (c_flusher cfg); [|reflexivity].
  rewrite H by reflexivity. reflexivity.
Qed.

(* the calls up to and including the write *)
Definition write_trace (cfg : config) (data : list N) : list ev :=
  (match c_kind cfg with KSerial => [] | _ => [TSetWriteDeadline] end) ++ hk cfg (HBeforeWrite data) ++ [TWrite data].

Definition writes_ok (sc : script) : Prop := sc_swd_err sc = false /\ sc_write_err sc = false.

Lemma do_reaches_loop cfg sc data e : writes_ok sc ->
  do_ cfg sc data e = with_trace (write_trace cfg data) (loop cfg sc e (sc_steps sc) []).
Proof.
  intros [Hs Hw]. unfold do_, write_trace. rewrite Hs, Hw.
  destruct (c_kind cfg); rewrite ?with_trace_app; reflexivity.
Qed.

Definition outcome_of_parse (k : kind) (b : list N) : outcome :=
  match parse_resp k (exact b) with
  | Ok (tid, p) => OResp tid p
  | Err e => OFail (CParse e)
  | Panic => OPanic
  end.

Section Do.
Variable cfg : config.
Variable sc : script.
Variable q : creq.
Let k := c_kind cfg.
Hypothesis Hconn : c_connected cfg = true.
Hypothesis Hw : writes_ok sc.

Lemma client_do_loop :
  client_do cfg sc (Some q) =
  let x := with_trace (write_trace cfg (q_bytes q)) (loop cfg sc (q_expected q) (sc_steps sc) []) in
  match fst x with
  | DFail e => (OFail e, snd x)
  | DPanic => (OPanic, snd x)
  | DOutOfScript => (OOutOfScript, snd x)
  | DBytes b => (outcome_of_parse k b, snd x ++ hk cfg (HBeforeParse b))
  end.
Proof.
  unfold client_do. rewrite Hconn. cbn [negb]. rewrite (do_reaches_loop _ _ _ _ Hw). reflexivity.
Qed.

(* STOP *)
Theorem client_stop chunks tail :
  flush_ok cfg sc ->
  sc_steps sc = script_of chunks ++ tail ->
  chunks <> [] ->
  alive_inside cfg (q_expected q) [] chunks ->
  (q_expected q <= length (payload chunks))%nat -> (length (payload chunks) <= max_len k)%nat ->
  payload chunks <> [] ->
  recognise k (window k (payload chunks)) = RNone ->
  client_do cfg sc (Some q) =
  (outcome_of_parse k (payload chunks),
   write_trace cfg (q_bytes q) ++ reads_trace cfg chunks ++ flush_trace cfg ++ hk cfg (HBeforeParse (payload chunks))).
Proof.
  intros Hf Hs Hne Ha He Hm Hp Hr. rewrite client_do_loop. rewrite Hs.
  rewrite (loop_stop cfg sc (q_expected q) chunks tail []); cbn [app]; try assumption.
  rewrite (flush_then_ok _ _ _ Hf). rewrite with_trace_pair.
  unfold finish. destruct (payload chunks) as [|b0 l] eqn:Ep; [congruence|].
  cbn zeta. cbn [with_trace fst snd]. rewrite <- ?app_assoc. reflexivity.
Qed.

(* EXCEPTION *)
Theorem client_exception chunks tail x :
  flush_ok cfg sc ->
  sc_steps sc = script_of chunks ++ tail ->
  chunks <> [] ->
  alive_inside cfg (q_expected q) [] chunks ->
  (length (payload chunks) <= max_len k)%nat ->
  recognise k (window k (payload chunks)) = RExc x ->
  client_do cfg sc (Some q) =
  (OFail (CExc x), write_trace cfg (q_bytes q) ++ reads_trace cfg chunks ++ flush_trace cfg).
Proof.
  intros Hf Hs Hne Ha Hm Hr. rewrite client_do_loop. rewrite Hs.
  rewrite (loop_exception cfg sc (q_expected q) chunks tail [] x); cbn [app]; try assumption.
  rewrite (flush_then_ok _ _ _ Hf). rewrite with_trace_pair.
  cbn zeta. cbn [with_trace fst snd]. rewrite <- ?app_assoc. reflexivity.
Qed.

(* WAIT: the timer ends a call that never sees enough bytes *)
Definition timer_step (pick : bool) (r : rd) : step := {| s_ctx := false; s_deadline := false; s_timer := true; s_pick := pick; s_rd := r |}.

Theorem client_waits chunks w pick r tail :
  sc_steps sc = script_of chunks ++ repeat quiet w ++ timer_step pick r :: tail ->
  alive_through cfg (q_expected q) [] chunks ->
  client_do cfg sc (Some q) =
  (OFail CTimeout, write_trace cfg (q_bytes q) ++ reads_trace cfg chunks ++ quiet_trace cfg w).
Proof.
  intros Hs Ha. rewrite client_do_loop. rewrite Hs.
  rewrite loop_continue by exact Ha. cbn [app].
  rewrite loop_quiets.
  2:{ specialize (Ha chunks [] (eq_sym (app_nil_r _))). cbn [app] in Ha. exact Ha. }
  cbn [loop timer_step s_ctx s_timer s_pick andb]. rewrite !with_trace_app, with_trace_pair.
  cbn zeta. cbn [with_trace fst snd]. rewrite app_nil_r, <- !app_assoc. reflexivity.
Qed.

(* ... and a script that ends without the timer having fired leaves the call unfinished *)
Theorem client_waits_forever chunks w :
  sc_steps sc = script_of chunks ++ repeat quiet w ->
  alive_through cfg (q_expected q) [] chunks ->
  fst (client_do cfg sc (Some q)) = OOutOfScript.
Proof.
  intros Hs Ha. rewrite client_do_loop. rewrite Hs.
  rewrite loop_continue by exact Ha. cbn [app].
  rewrite <- (app_nil_r (repeat quiet w)), loop_quiets.
  2:{ specialize (Ha chunks [] (eq_sym (app_nil_r _))). cbn [app] in Ha. exact Ha. }
  rewrite loop_nil. rewrite !with_trace_app, with_trace_pair. reflexivity.
Qed.
End Do.

(* ---------- segmentations of a reply ---------- *)
Definition chunks_nonempty (chunks : list chunk) : Prop := Forall (fun c => snd c <> []) chunks.

Lemma payload_nonempty chunks : chunks_nonempty chunks -> chunks <> [] -> payload chunks <> [].
Proof.
  intros H Hne. destruct chunks as [|[[w d] b] r]; [congruence|].
  pose proof (Forall_inv H) as Hb. cbn [snd] in Hb. rewrite payload_cons.
  destruct b; [congruence|discriminate].
Qed.

Lemma chunks_nonempty_app a b : chunks_nonempty (a ++ b) -> chunks_nonempty a /\ chunks_nonempty b.
Proof. unfold chunks_nonempty. apply Forall_app. Qed.

(* every boundary inside a segmentation of a frame lies strictly below its length *)
Lemma inner_boundary_short chunks pre post :
  chunks_nonempty chunks -> chunks = pre ++ post -> post <> [] ->
  (length (payload pre) < length (payload chunks))%nat.
Proof.
  intros Hn Hs Hp. subst chunks. apply chunks_nonempty_app in Hn. destruct Hn as [_ Hn].
  pose proof (payload_nonempty post Hn Hp) as Hq. rewrite payload_app, app_length.
  destruct (payload post); [congruence|cbn [length]; lia].
Qed.

(* THE CORE OF C07: a stop threshold equal to the length of the reply, and a reply whose function
   byte is below 128.  Every segmentation into non-empty reads, with any number of empty timed-out
   reads in between, makes the call return what the parser says about exactly the reply. *)
Theorem exact_threshold_complete cfg sc q chunks tail reply :
  c_connected cfg = true -> writes_ok sc -> flush_ok cfg sc ->
  sc_steps sc = script_of chunks ++ tail ->
  chunks_nonempty chunks -> payload chunks = reply ->
  reply <> [] ->
  length reply = q_expected q ->
  (length reply <= max_len (c_kind cfg))%nat ->
  nth (fc_pos (c_kind cfg)) reply 0 < 128 ->
  client_do cfg sc (Some q) =
  (outcome_of_parse (c_kind cfg) reply,
   write_trace cfg (q_bytes q) ++ reads_trace cfg chunks ++ flush_trace cfg ++ hk cfg (HBeforeParse reply)).
Proof.
  intros Hc Hw Hf Hs Hn Hp Hne Hl Hm Hfc. subst reply.
  assert (Hch : chunks <> []) by (intros ->; apply Hne; reflexivity).
  apply (client_stop cfg sc q Hc Hw chunks tail); try assumption; try lia.
  - intros pre post Hsplit Hpost. cbn [app].
    pose proof (inner_boundary_short chunks pre post Hn Hsplit Hpost) as Hlt.
    split; [lia|split; [lia|]].
    apply (recognise_prefix _ (payload chunks) (payload pre) (payload post)); [|exact Hfc].
    rewrite Hsplit, payload_app. reflexivity.
  - apply (recognise_prefix _ (payload chunks) (payload chunks) []); [|exact Hfc].
    rewrite app_nil_r. reflexivity.
Qed.

(* The same for ANY threshold: the call stops at the first boundary at or past [q_expected q] and
   parses what it has.  [pre] are the reads up to that boundary. *)
Theorem stops_at_first_boundary_past_threshold cfg sc q pre post tail reply :
  c_connected cfg = true -> writes_ok sc -> flush_ok cfg sc ->
  sc_steps sc = script_of (pre ++ post) ++ tail ->
  chunks_nonempty (pre ++ post) -> payload (pre ++ post) = reply ->
  pre <> [] ->
  (length reply <= max_len (c_kind cfg))%nat ->
  nth (fc_pos (c_kind cfg)) reply 0 < 128 ->
  (* no earlier boundary reaches the threshold, this one does *)
  (forall a b, pre = a ++ b -> b <> [] -> (length (payload a) < q_expected q)%nat) ->
  (q_expected q <= length (payload pre))%nat ->
  client_do cfg sc (Some q) =
  (outcome_of_parse (c_kind cfg) (payload pre),
   write_trace cfg (q_bytes q) ++ reads_trace cfg pre ++ flush_trace cfg ++ hk cfg (HBeforeParse (payload pre))).
Proof.
  intros Hc Hw Hf Hs Hn Hp Hne Hm Hfc Hbefore Hreach. subst reply.
  rewrite script_of_app, <- app_assoc in Hs.
  pose proof (chunks_nonempty_app _ _ Hn) as [Hn1 _].
  assert (Hlen : (length (payload pre) <= length (payload (pre ++ post)))%nat).
  { rewrite payload_app, app_length. lia. }
  apply (client_stop cfg sc q Hc Hw pre (script_of post ++ tail)); try assumption; try lia.
  - intros a b Hsplit Hb. cbn [app].
    pose proof (inner_boundary_short pre a b Hn1 Hsplit Hb) as Hlt.
    split; [exact (Hbefore a b Hsplit Hb)|split; [lia|]].
    apply (recognise_prefix _ (payload (pre ++ post)) (payload a) (payload b ++ payload post)); [|exact Hfc].
    rewrite Hsplit, !payload_app, <- app_assoc. reflexivity.
  - apply payload_nonempty; assumption.
  - apply (recognise_prefix _ (payload (pre ++ post)) (payload pre) (payload post)); [|exact Hfc].
    rewrite payload_app. reflexivity.
Qed.

(* A threshold the reply never reaches: the call ends with the total timer, whatever the segmentation *)
Theorem long_threshold_times_out cfg sc q chunks w pick r tail reply :
  c_connected cfg = true -> writes_ok sc ->
  sc_steps sc = script_of chunks ++ repeat quiet w ++ timer_step pick r :: tail ->
  payload chunks = reply ->
  (length reply < q_expected q)%nat ->
  (length reply <= max_len (c_kind cfg))%nat ->
  nth (fc_pos (c_kind cfg)) reply 0 < 128 ->
  client_do cfg sc (Some q) =
  (OFail CTimeout, write_trace cfg (q_bytes q) ++ reads_trace cfg chunks ++ quiet_trace cfg w).
Proof.
  intros Hc Hw Hs Hp Hl Hm Hfc. subst reply.
  apply (client_waits cfg sc q Hc Hw chunks w pick r tail Hs).
  intros pre post Hsplit. cbn [app].
  assert (Hlen : (length (payload pre) <= length (payload chunks))%nat).
  { rewrite Hsplit, payload_app, app_length. lia. }
  split; [lia|split; [lia|]].
  apply (recognise_prefix _ (payload chunks) (payload pre) (payload post)); [|exact Hfc].
  rewrite Hsplit, payload_app. reflexivity.
Qed.
