(* BuilderC13.v -- property C13 for field extraction: BuilderRequest.ExtractFields and
   Field.ExtractFrom never change the response payload, and what they report for a member depends
   only on the payload, the request's start address and that member -- not on the other members,
   their order, the extraction mode or earlier extractions.  Rests on the registers layer's
   "no accessor writes to the payload" (via BuilderDeps). *)
From Coq Require Import ZifyBool ZifyN ZifyNat Permutation.
Require Import MB.GoSem MB.PacketModel MB.RegistersSpec MB.RegistersModel.
Require Import MB.BuilderSpec MB.BuilderModel MB.proofs.BuilderProofs MB.proofs.BuilderDeps MB.proofs.BuilderC05.
Open Scope N_scope.

(* ---------- Field.ExtractFrom leaves the payload alone ---------- *)
Lemma extract_from_keeps f regs : snd (extract_from f regs) = r_data regs.
Proof.
  rewrite extract_from_accessor. destruct (field_accessor f) as [a|]; [|reflexivity].
  pose proof (dep_access_keeps_data regs a (f_addr f)) as K.
  destruct (access regs a (f_addr f)) as [x d]. exact K.
Qed.

(* any sequence of ExtractFrom calls on one shared Registers: every call returns what it returns
   on the fresh object, and the object is unchanged *)
Theorem extract_from_seq_pure : forall fs regs,
  extract_from_seq fs regs = (map (fun f => (f, fst (extract_from f regs))) fs, regs).
Proof.
  induction fs as [|f rest IH]; intros regs; [reflexivity|].
  cbn [extract_from_seq map]. pose proof (extract_from_keeps f regs) as K.
  destruct (extract_from f regs) as [x d]. cbn [fst snd] in *. subst d.
  rewrite dep_set_data_same, IH. reflexivity.
Qed.

(* ---------- the loops as a function of the per-member outcomes ---------- *)
Definition to_fvalue (x : res xerr aval) : fvalue := match x with Ok v => FVal v | _ => FErr end.
Fixpoint combine_outcomes (cont had : bool) (acc : list (field * fvalue))
                          (l : list (field * res xerr aval)) : xres :=
  match l with
  | [] => Ok (had, acc)
  | (f, x) :: rest =>
      match x with
      | Panic => Panic
      | Err e => if negb cont then Err e else combine_outcomes cont true (acc ++ [(f, FErr)]) rest
      | Ok v => combine_outcomes cont had (acc ++ [(f, FVal v)]) rest
      end
  end.

Lemma register_loop_data_spec fs regs cont : forall had acc,
  extract_register_loop_data fs regs cont had acc =
  (combine_outcomes cont had acc (map (fun f => (f, fst (extract_from f regs))) fs), r_data regs).
Proof.
  induction fs as [|f rest IH]; intros had acc; [reflexivity|].
  cbn [extract_register_loop_data map combine_outcomes].
  pose proof (extract_from_keeps f regs) as K.
  destruct (extract_from f regs) as [x d]. cbn [fst snd] in *. subst d.
  rewrite dep_set_data_same. destruct x as [v|e|]; [apply IH| |reflexivity].
  destruct (negb cont); [reflexivity|apply IH].
Qed.
Lemma register_loop_spec fs regs cont : forall had acc,
  extract_register_loop fs regs cont had acc =
  combine_outcomes cont had acc (map (fun f => (f, fst (extract_from f regs))) fs).
Proof.
  induction fs as [|f rest IH]; intros had acc; [reflexivity|].
  cbn [extract_register_loop map combine_outcomes].
  pose proof (extract_from_keeps f regs) as K.
  destruct (extract_from f regs) as [x d]. cbn [fst snd] in *. subst d.
  rewrite dep_set_data_same. destruct x as [v|e|]; [apply IH| |reflexivity].
  destruct (negb cont); [reflexivity|apply IH].
Qed.
Lemma coil_loop_spec fs data start cont : forall had acc,
  extract_coil_loop fs data start cont had acc =
  combine_outcomes cont had acc
    (map (fun f => (f, match is_bit_set data start (f_addr f) with
                       | Some b => Ok (VBool b) | None => Err XCoil end)) fs).
Proof.
  induction fs as [|f rest IH]; intros had acc; [reflexivity|].
  cbn [extract_coil_loop map combine_outcomes].
  destruct (is_bit_set data start (f_addr f)); [apply IH|].
  destruct (negb cont); [reflexivity|apply IH].
Qed.

Lemma new_registers_data d s regs : new_registers d s = Ok regs -> r_data regs = d.
Proof.
  unfold new_registers. intros H.
  destruct (N.of_nat (slen d) <? 2); [discriminate|].
  destruct (negb (N.of_nat (slen d) mod 2 =? 0)); [discriminate|].
  inversion H. reflexivity.
Qed.

(* ---------- what a response offers to a member: depends on (response, start) only ---------- *)
Definition member_view (start : N) (response : resp) (spare : list N)
  : res xerr (field -> res xerr aval) :=
  match response with
  | PBytes fc _ _ data =>
      if is_coil_fc fc
      then Ok (fun f => match is_bit_set data start (f_addr f) with
                        | Some b => Ok (VBool b) | None => Err XCoil end)
      else match new_registers {| vis := data; spare := spare |} start with
           | Ok regs => Ok (fun f => fst (extract_from f regs))
           | Err e => Err (XRegisters e)
           | Panic => Panic
           end
  | PWReg _ _ d0 d1 =>
      match new_registers (exact [d0; d1]) start with
      | Ok regs => Ok (fun f => fst (extract_from f regs))
      | Err e => Err (XRegisters e)
      | Panic => Panic
      end
  | _ => Err XUnsupported
  end.

(* ExtractFields = the members' own outcomes, put together in the order of the members *)
Theorem extract_fields_view r response spare cont :
  extract_fields r response spare cont =
  match member_view (br_start r) response spare with
  | Ok g => combine_outcomes cont false [] (map (fun f => (f, g f)) (br_fields r))
  | Err e => Err e
  | Panic => Panic
  end.
Proof.
  destruct response as [fc u bl data|u a st|u a d0 d1|fc u s c|u st id add];
    cbn [extract_fields member_view]; try reflexivity.
  - destruct (is_coil_fc fc).
    + unfold extract_coil_fields. apply coil_loop_spec.
    + unfold extract_register_fields.
      destruct (new_registers {| vis := data; spare := spare |} (br_start r)); try reflexivity.
      apply register_loop_spec.
  - unfold extract_register_fields.
    destruct (new_registers (exact [d0; d1]) (br_start r)); try reflexivity.
    apply register_loop_spec.
Qed.

(* the version that reports the Data slice afterwards: same result, slice unchanged *)
Theorem extract_fields_data_pure r fc u bl data spare cont :
  extract_fields_data r (PBytes fc u bl data) spare cont =
  (extract_fields r (PBytes fc u bl data) spare cont, {| vis := data; spare := spare |}).
Proof.
  cbn [extract_fields_data extract_fields]. destruct (is_coil_fc fc); [reflexivity|].
  unfold extract_register_fields_data, extract_register_fields.
  destruct (new_registers {| vis := data; spare := spare |} (br_start r)) as [regs|e|] eqn:E; try reflexivity.
  rewrite register_loop_data_spec, register_loop_spec, (new_registers_data _ _ _ E). reflexivity.
Qed.

(* repetition: a second extraction (any mode, any member list) sees what the first saw *)
Corollary extract_fields_twice r r' fc u bl data spare cont cont' :
  let '(x1, d1) := extract_fields_data r (PBytes fc u bl data) spare cont in
  extract_fields_data r' (PBytes fc u bl (vis d1)) (GoSem.spare d1) cont' =
  extract_fields_data r' (PBytes fc u bl data) spare cont'.
Proof. rewrite extract_fields_data_pure. reflexivity. Qed.

(* ---------- consequences for permuted members ---------- *)
Lemma combine_lenient l : forall had acc,
  Forall (fun e => snd e <> Panic) l ->
  combine_outcomes true had acc l =
  Ok (had || existsb (fun e => is_err (snd e)) l, acc ++ map (fun e => (fst e, to_fvalue (snd e))) l).
Proof.
  induction l as [|[f x] rest IH]; intros had acc Hn.
  - cbn. rewrite orb_false_r, app_nil_r. reflexivity.
  - pose proof (Forall_inv Hn) as Hx. cbn [snd] in Hx.
    cbn [combine_outcomes existsb map fst snd negb]. destruct x as [v|e|]; [| |contradiction].
    + rewrite IH by exact (Forall_inv_tail Hn). cbn [is_err orb to_fvalue]. rewrite <- app_assoc. reflexivity.
    + rewrite IH by exact (Forall_inv_tail Hn). cbn [is_err orb to_fvalue]. rewrite orb_true_r, <- app_assoc. reflexivity.
Qed.
Lemma combine_lenient_inv l : forall had acc y,
  combine_outcomes true had acc l = Ok y -> Forall (fun e => snd e <> Panic) l.
Proof.
  induction l as [|[f x] rest IH]; intros had acc y H; [constructor|].
  cbn [combine_outcomes negb] in H. destruct x as [v|e|]; [| |discriminate];
    (constructor; [cbn; discriminate|eapply IH; exact H]).
Qed.
Lemma combine_strict l : forall had acc,
  Forall (fun e => is_ok (snd e) = true) l ->
  combine_outcomes false had acc l = Ok (had, acc ++ map (fun e => (fst e, to_fvalue (snd e))) l).
Proof.
  induction l as [|[f x] rest IH]; intros had acc Hn.
  - cbn. rewrite app_nil_r. reflexivity.
  - pose proof (Forall_inv Hn) as Hx. cbn [snd] in Hx.
    destruct x as [v|e|]; try discriminate.
    cbn [combine_outcomes map fst snd]. rewrite IH by exact (Forall_inv_tail Hn).
    cbn [to_fvalue]. rewrite <- app_assoc. reflexivity.
Qed.
Lemma combine_strict_inv l : forall had acc y,
  combine_outcomes false had acc l = Ok y -> Forall (fun e => is_ok (snd e) = true) l.
Proof.
  induction l as [|[f x] rest IH]; intros had acc y H; [constructor|].
  cbn [combine_outcomes negb] in H. destruct x as [v|e|]; try discriminate.
  constructor; [reflexivity|eapply IH; exact H].
Qed.

Lemma existsb_perm {A} (p : A -> bool) l l' : Permutation l l' -> existsb p l = existsb p l'.
Proof.
  induction 1; cbn [existsb]; try reflexivity.
  - rewrite IHPermutation. reflexivity.
  - destruct (p x), (p y); reflexivity.
  - congruence.
Qed.

Definition with_members (r : breq) (fs : list field) : breq :=
  {| br_req := br_req r; br_tcp := br_tcp r; br_server := br_server r; br_unit := br_unit r;
     br_start := br_start r; br_fields := fs |}.

(* if ExtractFields returns a result list, it is [member |-> g member] for a function g that does
   not depend on the member list; the same request with its members permuted returns the same
   error flag and the list [member |-> g member] in the permuted order *)
Theorem extract_fields_permuted r response spare cont fs' had vals :
  Permutation (br_fields r) fs' ->
  extract_fields r response spare cont = Ok (had, vals) ->
  exists g : field -> fvalue,
    vals = map (fun f => (f, g f)) (br_fields r) /\
    extract_fields (with_members r fs') response spare cont = Ok (had, map (fun f => (f, g f)) fs').
Proof.
  intros P H. rewrite extract_fields_view in *. cbn [with_members br_start br_fields].
  destruct (member_view (br_start r) response spare) as [g0|e|]; try discriminate.
  exists (fun f => to_fvalue (g0 f)).
  set (l := map (fun f => (f, g0 f)) (br_fields r)) in *.
  set (l' := map (fun f => (f, g0 f)) fs').
  assert (Pl : Permutation l l') by (apply Permutation_map; exact P).
  assert (Hmap : forall fs, map (fun e : field * res xerr aval => (fst e, to_fvalue (snd e)))
                                (map (fun f => (f, g0 f)) fs) = map (fun f => (f, to_fvalue (g0 f))) fs).
  { intros fs. rewrite map_map. reflexivity. }
  destruct cont.
  - pose proof (combine_lenient_inv _ _ _ _ H) as Hn.
    rewrite combine_lenient in H by exact Hn. inversion H. subst had vals. cbn [app orb].
    rewrite combine_lenient by (eapply Permutation_Forall; eassumption).
    cbn [app orb]. rewrite (existsb_perm _ _ _ Pl). unfold l, l'. rewrite !Hmap. split; reflexivity.
  - pose proof (combine_strict_inv _ _ _ _ H) as Hn.
    rewrite combine_strict in H by exact Hn. inversion H. subst had vals. cbn [app].
    rewrite combine_strict by (eapply Permutation_Forall; eassumption).
    cbn [app]. unfold l, l'. rewrite !Hmap. split; reflexivity.
Qed.

(* and a failure as a whole stays a failure as a whole under permutation *)
Theorem extract_fields_permuted_failure r response spare cont fs' :
  Permutation (br_fields r) fs' ->
  is_ok (extract_fields r response spare cont) = is_ok (extract_fields (with_members r fs') response spare cont).
Proof.
  intros P.
  destruct (extract_fields r response spare cont) as [[had vals]|e|] eqn:E.
  - destruct (extract_fields_permuted r response spare cont fs' had vals P E) as [g [_ ->]]. reflexivity.
  - destruct (extract_fields (with_members r fs') response spare cont) as [[had vals]|e'|] eqn:E'; try reflexivity.
    assert (P' : Permutation (br_fields (with_members r fs')) (br_fields r)) by (apply Permutation_sym; exact P).
    destruct (extract_fields_permuted (with_members r fs') response spare cont (br_fields r) had vals P' E') as [g [_ H]].
    change (with_members (with_members r fs') (br_fields r)) with (with_members r (br_fields r)) in H.
    replace (with_members r (br_fields r)) with r in H by (destruct r; reflexivity). congruence.
  - destruct (extract_fields (with_members r fs') response spare cont) as [[had vals]|e'|] eqn:E'; try reflexivity.
    assert (P' : Permutation (br_fields (with_members r fs')) (br_fields r)) by (apply Permutation_sym; exact P).
    destruct (extract_fields_permuted (with_members r fs') response spare cont (br_fields r) had vals P' E') as [g [_ H]].
    change (with_members (with_members r fs') (br_fields r)) with (with_members r (br_fields r)) in H.
    replace (with_members r (br_fields r)) with r in H by (destruct r; reflexivity). congruence.
Qed.
