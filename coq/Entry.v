(* Entry.v -- the shape of a correspondence entry.  Every layer (DispPacket, DispRegisters, ...)
   contributes a list of entries: for an entry point exercised by the Go harness, how the model
   computes the projected outcome from the case's input ([e_run]) and how the executable statement
   of property number p judges an implementation outcome ([e_verdict p], built from the independent
   specifications).  Dispatch.v concatenates the tables.  Used extracted (ocaml/driver) and by
   vm_compute (gen/Golden_*.v). *)
Require Import MB.GoSem MB.Val.
From Coq Require Import String.
Open Scope string_scope.

Record entry := { e_name : string; e_run : list val -> val; e_verdict : N -> list val -> val -> N }.

Definition no_verdict (_ : N) (_ : list val) (_ : val) : N := NOT_JUDGED.

Fixpoint lookup_in (t : list entry) (n : string) : option entry :=
  match t with
  | [] => None
  | e :: t' => if String.eqb (e_name e) n then Some e else lookup_in t' n
  end.

(* used by the kernel-checked golden samples *)
Definition case := (string * list val * val)%type.
Definition case_ok_in (t : list entry) (c : case) : bool :=
  match c with (n, a, o) =>
    match lookup_in t n with Some e => val_eqb (e_run e a) o | None => false end
  end.
Definition mismatches_in (t : list entry) (cs : list case) : list case :=
  filter (fun c => negb (case_ok_in t c)) cs.
