(* DispPacket.v -- correspondence entries of the packet layer: how the model computes each
   projected outcome, and how the properties' executable statements (Spec.v, CrcSpec.v) judge
   an implementation outcome. *)
Require Import MB.GoSem MB.Val MB.Entry MB.CrcModel MB.CrcSpec MB.Spec MB.PacketModel.
From Coq Require Import String.
Notation length := List.length (only parsing).
Open Scope N_scope.

(* ---------- projections model -> val ---------- *)
Definition proj_req (r : req) : val :=
  match r with
  | RRead fc u s q => VL [vN fc; vN u; vN s; vN q]
  | RWCoil u a st => VL [vN 5; vN u; vN a; vbool st]
  | RWReg u a d0 d1 => VL [vN 6; vN u; vN a; VB [d0; d1]]
  | RWCoils u s c d => VL [vN 15; vN u; vN s; vN c; VB d]
  | RWRegs u s c d => VL [vN 16; vN u; vN s; vN c; VB d]
  | RSrvId u => VL [vN 17; vN u]
  | RRW u rs rq ws wq d => VL [vN 23; vN u; vN rs; vN rq; vN ws; vN wq; VB d]
  end.
Definition proj_resp (p : resp) : val :=
  match p with
  | PBytes fc u bl d => VL [vN fc; vN u; vN bl; VB d]
  | PWCoil u a st => VL [vN 5; vN u; vN a; vbool st]
  | PWReg u a d0 d1 => VL [vN 6; vN u; vN a; VB [d0; d1]]
  | PWMulti fc u s c => VL [vN fc; vN u; vN s; vN c]
  | PSrvId u st id add => VL [vN 17; vN u; vN st; VB id; VB add]
  end.
Definition unproj_resp (v : val) : option resp :=
  match v with
  | VL [VI fc; VI u; x; y] =>
      let f := zN fc in
      if f =? 5 then match x, y with VI a, VI st => Some (PWCoil (zN u) (zN a) (zbool st)) | _, _ => None end
      else if f =? 6 then match x, y with VI a, VB [d0; d1] => Some (PWReg (zN u) (zN a) d0 d1) | _, _ => None end
      else if (f =? 15) || (f =? 16) then match x, y with VI s, VI c => Some (PWMulti f (zN u) (zN s) (zN c)) | _, _ => None end
      else match x, y with VI bl, VB d => Some (PBytes f (zN u) (zN bl) d) | _, _ => None end
  | VL [VI 17%Z; VI u; VI st; VB id; VB add] => Some (PSrvId (zN u) (zN st) id add)
  | _ => None
  end.
Definition proj_exc (k : Z) (e : exc) : list val := [VI k; vN (x_tid e); vN (x_unit e); vN (x_fc e); vN (x_code e)].
Definition proj_err (e : perr) : list val :=
  match e with
  | ETooShortTCP => [VI 10%Z]
  | ENotTCP => [VI 11%Z]
  | EParseTCP x => proj_exc 1 x
  | EParseRTU u f c => [VI 2%Z; vN u; vN f; vN c]
  | ERespTCP x => proj_exc 3 x
  | ERespRTU u f c => [VI 4%Z; vN u; vN f; vN c]
  | EInvalidCRC => [VI 5%Z]
  | EPlain => [VI 0%Z]
  end.
(* (value, error) results: the second element of an error outcome says that the value returned
   with the error was nil -- structural in the model *)
Definition out_err (e : perr) : val := v_err (VI 1%Z :: proj_err e).
Definition out_res {A} (f : A -> list val) (x : pres A) : val :=
  match x with Ok a => v_ok (f a) | Err e => out_err e | Panic => v_panic end.

Definition mk_slice (v s : list N) : slice := {| vis := v; spare := s |}.

(* re-encoding of a parsed FC17 response is only requested for ids that fit (see PacketModel) *)
Definition resp_reencodable (p : resp) : bool :=
  match p with PSrvId _ _ id _ => (length id <=? 251)%nat | _ => true end.

(* ---------- parse entry points, addressed by a code ----------
   fc (TCP request parser), 100+fc (RTU request parser), 200/201/202 request dispatchers
   (TCP, RTU, RTU with CRC); 1000+fc, 1100+fc response parsers, 300/301/302 response dispatchers;
   400 ParseMBAPHeader, 401/402 LooksLikeModbusTCP (allow=false/true), 403 AsTCPErrorPacket,
   404 AsRTUErrorPacket, 405 AsRTUErrorPacketWithCRC *)
Definition out_req_tcp (x : pres (N * req)) : val :=
  out_res (fun tr => [vN (fst tr); proj_req (snd tr); VB (req_bytes_tcp (fst tr) (snd tr))]) x.
Definition out_req_rtu (x : pres req) : val :=
  out_res (fun r => [vN 0; proj_req r; VB (req_bytes_rtu r)]) x.
Definition out_resp_tcp (x : pres (N * resp)) : val :=
  out_res (fun tp => [vN (fst tp); proj_resp (snd tp);
                      VB (if resp_reencodable (snd tp) then resp_bytes_tcp (fst tp) (snd tp) else [])]) x.
Definition out_resp_rtu (x : pres resp) : val :=
  out_res (fun p => [vN 0; proj_resp p; VB (if resp_reencodable p then resp_bytes_rtu p else [])]) x.

Definition is_read_fc (fc : N) : bool := (fc =? 1) || (fc =? 2) || (fc =? 3) || (fc =? 4).

Definition parse_any (which : N) (d : slice) : val :=
  if which <? 100 then
    let fc := which in
    if is_read_fc fc then out_req_tcp (parse_read_req_tcp fc d) else
    if fc =? 5 then out_req_tcp (parse_wcoil_req_tcp d) else
    if fc =? 6 then out_req_tcp (parse_wreg_req_tcp d) else
    if fc =? 15 then out_req_tcp (parse_wcoils_req_tcp d) else
    if fc =? 16 then out_req_tcp (parse_wregs_req_tcp d) else
    if fc =? 17 then out_req_tcp (parse_srvid_req_tcp d) else
    if fc =? 23 then out_req_tcp (parse_rw_req_tcp d) else v_bad
  else if which <? 200 then
    let fc := which - 100 in
    if is_read_fc fc then out_req_rtu (parse_read_req_rtu fc d) else
    if fc =? 5 then out_req_rtu (parse_wcoil_req_rtu d) else
    if fc =? 6 then out_req_rtu (parse_wreg_req_rtu d) else
    if fc =? 15 then out_req_rtu (parse_wcoils_req_rtu d) else
    if fc =? 16 then out_req_rtu (parse_wregs_req_rtu d) else
    if fc =? 17 then out_req_rtu (parse_srvid_req_rtu d) else
    if fc =? 23 then out_req_rtu (parse_rw_req_rtu d) else v_bad
  else if which =? 200 then out_req_tcp (parse_tcp_request d)
  else if which =? 201 then out_req_rtu (parse_rtu_request d)
  else if which =? 202 then out_req_rtu (parse_rtu_request_crc d)
  else if which =? 300 then out_resp_tcp (parse_tcp_response d)
  else if which =? 301 then out_resp_rtu (parse_rtu_response d)
  else if which =? 302 then out_resp_rtu (parse_rtu_response_crc d)
  else if which =? 400 then out_res (fun t => [vN t]) (parse_mbap d)
  else if (which =? 401) || (which =? 402) then
    match looks_like d (which =? 402) with
    | Ok (n, None) => v_ok [vN n; VL []]
    | Ok (n, Some e) => v_ok [vN n; VL (proj_err e)]
    | Err _ => v_bad
    | Panic => v_panic
    end
  else if which =? 403 then
    match as_tcp_error d with
    | Ok None => v_ok [] | Ok (Some x) => v_err (proj_exc 3 x) | Err _ => v_bad | Panic => v_panic end
  else if (which =? 404) || (which =? 405) then
    match (if which =? 404 then as_rtu_error d else as_rtu_error_crc d) with
    | Ok None => v_ok [] | Ok (Some (u, f, c)) => v_err [VI 4%Z; vN u; vN f; vN c] | Err _ => v_bad | Panic => v_panic end
  else if (1000 <? which) && (which <? 1100) then
    let fc := which - 1000 in
    if is_read_fc fc || (fc =? 23) then out_resp_tcp (parse_bytes_resp_tcp fc d) else
    if fc =? 5 then out_resp_tcp (parse_wcoil_resp_tcp d) else
    if fc =? 6 then out_resp_tcp (parse_wreg_resp_tcp d) else
    if (fc =? 15) || (fc =? 16) then out_resp_tcp (parse_wmulti_resp_tcp fc d) else
    if fc =? 17 then out_resp_tcp (parse_srvid_resp_tcp d) else v_bad
  else if (1100 <? which) && (which <? 1200) then
    let fc := which - 1100 in
    if is_read_fc fc || (fc =? 23) then out_resp_rtu (parse_bytes_resp_rtu fc d) else
    if fc =? 5 then out_resp_rtu (parse_wcoil_resp_rtu d) else
    if fc =? 6 then out_resp_rtu (parse_wreg_resp_rtu d) else
    if (fc =? 15) || (fc =? 16) then out_resp_rtu (parse_wmulti_resp_rtu fc d) else
    if fc =? 17 then out_resp_rtu (parse_srvid_resp_rtu d) else v_bad
  else v_bad.

(* ---------- constructors ---------- *)
Definition bools_of (l : list N) : list bool := map (fun b => negb (b =? 0)) l.

(* spec-level arguments of a constructor case; [None] for a malformed case *)
Definition ctor_args (name : string) (a : list val) : option (N * sreq * N * pres req) :=
  (* (framing, spec request, tid, model constructor result) *)
  match name, a with
  | "new_read"%string, [VI fr; VI fc; VI u; VI s; VI q; VI tid] =>
      Some (zN fr, SRead (zN fc) (zN u) (zN s) (zN q), zN tid, new_read (zN fc) (zN u) (zN s) (zN q))
  | "new_wcoil"%string, [VI fr; VI u; VI ad; VI st; VI tid] =>
      Some (zN fr, SWCoil (zN u) (zN ad) (zbool st), zN tid, new_wcoil (zN u) (zN ad) (zbool st))
  | "new_wreg"%string, [VI fr; VI u; VI ad; VB d; VI tid] =>
      Some (zN fr, SWReg (zN u) (zN ad) (nth 0 d 0) (nth 1 d 0), zN tid, new_wreg (zN u) (zN ad) d)
  | "new_wcoils"%string, [VI fr; VI u; VI s; VB cs; VI tid] =>
      Some (zN fr, SWCoils (zN u) (zN s) (bools_of cs), zN tid, new_wcoils (zN u) (zN s) (bools_of cs))
  | "new_wregs"%string, [VI fr; VI u; VI s; VB d; VI tid] =>
      Some (zN fr, SWRegs (zN u) (zN s) d, zN tid, new_wregs (zN u) (zN s) d)
  | "new_srvid"%string, [VI fr; VI u; VI tid] =>
      Some (zN fr, SSrvId (zN u), zN tid, new_srvid (zN u))
  | "new_rw"%string, [VI fr; VI u; VI rs; VI rq; VI ws; VB d; VI tid] =>
      Some (zN fr, SRW (zN u) (zN rs) (zN rq) (zN ws) d, zN tid, new_rw (zN u) (zN rs) (zN rq) (zN ws) d)
  | _, _ => None
  end.

Definition run_ctor (name : string) (a : list val) : val :=
  match ctor_args name a with
  | None => v_bad
  | Some (fr, _, tid, Ok r) =>
      if fr =? 0 then v_ok [proj_req r; VB (req_bytes_tcp tid r); vN (expected_len_tcp r)]
      else v_ok [proj_req r; VB (req_bytes_rtu r); vN (expected_len_rtu r)]
  | Some (_, _, _, Err e) => out_err e
  | Some (_, _, _, Panic) => v_panic
  end.

(* C01: whatever the library agrees to construct is the specified ADU of a legal request.
   101: FC16 constructor accepts 124 registers; 102: FC23 constructor accepts 122..124 write registers *)
Definition nat_in (x : nat) (l : list nat) : bool := existsb (Nat.eqb x) l.
Definition verdict_ctor_C01 (name : string) (a : list val) (out : val) : N :=
  match ctor_args name a, out with
  | Some (fr, sr, tid, _), VL [VI 0%Z; _; VB bytes; _] =>
      let want := if fr =? 0 then request_adu_tcp tid sr else request_adu_rtu sr in
      let lim := if fr =? 0 then max_adu_tcp else max_adu_rtu in
      if negb (list_eqb bytes want) then VIOLATES else
      if legal sr && (length bytes <=? lim)%nat then HOLDS else
      match sr with
      | SWRegs _ _ v => if (length v =? 248)%nat then 101 else VIOLATES
      | SRW _ _ rq _ v => if (1 <=? rq) && (rq <=? 125) && nat_in (length v) [244; 246; 248]%nat then 102 else VIOLATES
      | _ => VIOLATES
      end
  | Some _, VL (VI 1%Z :: _) => HOLDS      (* refusing is always allowed by C01 *)
  | Some _, _ => VIOLATES                  (* a panic, or an outcome of unknown shape *)
  | None, _ => NOT_JUDGED
  end.

(* C03 (b): every RTU frame an encoder emits ends in the specified CRC of the preceding bytes *)
Definition ends_in_spec_crc (bytes : list N) : bool :=
  let n := length bytes in
  (2 <=? n)%nat && list_eqb (skipn (n - 2) bytes) (spec_trailer (firstn (n - 2) bytes)).
Definition verdict_ctor_C03 (name : string) (a : list val) (out : val) : N :=
  match ctor_args name a, out with
  | Some (fr, _, _, _), VL [VI 0%Z; _; VB bytes; _] =>
      if fr =? 0 then NOT_JUDGED else if ends_in_spec_crc bytes then HOLDS else VIOLATES
  | _, _ => NOT_JUDGED
  end.

(* ---------- encode -> parse round trip of requests (C09) ----------
   args = [which; ctor name as bytes; ctor args...]: construct, encode, parse with [which] *)
Definition string_of_bytes (l : list N) : string :=
  fold_right (fun b s => String (Ascii.ascii_of_N b) s) EmptyString l.

Definition run_rt_req (a : list val) : val :=
  match a with
  | VI which :: VB nm :: rest =>
      match ctor_args (string_of_bytes nm) rest with
      | Some (fr, _, tid, Ok r) =>
          let bytes := if fr =? 0 then req_bytes_tcp tid r else req_bytes_rtu r in
          (* the per-function RTU parsers are also fed the frame without its CRC trailer: which + 10000 *)
          let w := zN which in
          if 10000 <=? w then parse_any (w - 10000) (exact (firstn (length bytes - 2) bytes))
          else parse_any w (exact bytes)
      | Some (_, _, _, Err e) => VL [VI 3%Z]     (* constructor refused: nothing to parse *)
      | _ => v_bad
      end
  | _ => v_bad
  end.

(* what a request decoded from the frame of spec request [sr] must look like *)
Definition expect_req (sr : sreq) : val :=
  match sr with
  | SRead fc u s q => VL [vN fc; vN u; vN s; vN q]
  | SWCoil u a on => VL [vN 5; vN u; vN a; vbool on]
  | SWReg u a v0 v1 => VL [vN 6; vN u; vN a; VB [v0; v1]]
  | SWCoils u s cs => VL [vN 15; vN u; vN s; vnat (length cs); VB (pack_coils cs)]
  | SWRegs u s v => VL [vN 16; vN u; vN s; vnat (length v / 2); VB v]
  | SSrvId u => VL [vN 17; vN u]
  | SRW u rs rq ws v => VL [vN 23; vN u; vN rs; vN rq; vN ws; vnat (length v / 2); VB v]
  end.

(* 103: FC1/FC2 parsers refuse 126..2000 coils *)
Definition verdict_rt_req_C09 (a : list val) (out : val) : N :=
  match a with
  | VI which :: VB nm :: rest =>
      match ctor_args (string_of_bytes nm) rest with
      | Some (fr, sr, tid, _) =>
          match out with
          | VL [VI 3%Z] => NOT_JUDGED          (* not constructed *)
          | _ =>
            if negb (legal sr) then NOT_JUDGED else   (* only legal requests must survive *)
            let adu := if fr =? 0 then request_adu_tcp tid sr else request_adu_rtu sr in
            let wtid := if fr =? 0 then tid else 0 in
            match out with
            | VL [VI 0%Z; VI t; pr; VB re] =>
                if Z.eqb t (Z.of_N wtid) && val_eqb pr (expect_req sr) && list_eqb re adu then HOLDS else VIOLATES
            | VL (VI 1%Z :: _ :: VI k :: _ :: _ :: rest') =>
                match sr with
                | SRead fc _ _ q =>
                    if ((fc =? 1) || (fc =? 2)) && (126 <=? q) && (q <=? 2000)
                       && (match rev rest' with VI 3%Z :: _ => true | _ => false end)
                    then 103 else VIOLATES
                | _ => VIOLATES
                end
            | _ => VIOLATES
            end
          end
      | None => NOT_JUDGED
      end
  | _ => NOT_JUDGED
  end.

(* ---------- single parse with a given capacity; three capacities at once (C10) ---------- *)
Definition run_parse1 (a : list val) : val :=
  match a with
  | [VI which; VB v; VB s] => parse_any (zN which) (mk_slice v s)
  | _ => v_bad
  end.
Definition run_parse3 (a : list val) : val :=
  match a with
  | [VI which; VB v; VB s1; VB s2] =>
      VL [parse_any (zN which) (mk_slice v []); parse_any (zN which) (mk_slice v s1); parse_any (zN which) (mk_slice v s2)]
  | _ => v_bad
  end.

(* C10: no panic; the same result whatever lies in the spare capacity; nil value with an error *)
Definition out_is_panic (o : val) : bool := match o with VL [VI 2%Z] => true | _ => false end.
Definition out_err_nonnil (o : val) : bool :=
  match o with VL (VI 1%Z :: VI 0%Z :: _) => true | _ => false end.
Definition verdict_parse3_C10 (a : list val) (out : val) : N :=
  match out with
  | VL [o0; o1; o2] =>
      if out_is_panic o0 || out_is_panic o1 || out_is_panic o2 then VIOLATES else
      if negb (val_eqb o0 o1 && val_eqb o0 o2) then VIOLATES else
      if out_err_nonnil o0 then VIOLATES else HOLDS
  | _ => VIOLATES
  end.

(* C09, second half: a frame whose quantity / count / coil value is outside the limits of the
   specification must not be decoded.  Judged from the frame bytes at the offsets MAP 6.x gives. *)
Definition fld16 (l : list N) (off : nat) : N := nth off l 0 * 256 + nth (S off) l 0.
Definition frame_fields_legal (pdu_off : nat) (l : list N) : bool :=
  (* pdu_off: index of the function code *)
  let fc := nth pdu_off l 0 in
  let q := fld16 l (pdu_off + 3) in
  if (fc =? 1) || (fc =? 2) then (1 <=? q) && (q <=? 2000) else
  if (fc =? 3) || (fc =? 4) then (1 <=? q) && (q <=? 125) else
  if fc =? 5 then (q =? 0xFF00) || (q =? 0) else
  if fc =? 15 then (1 <=? q) && (q <=? 1968) else
  if fc =? 16 then (1 <=? q) && (q <=? 123) else
  if fc =? 23 then (1 <=? q) && (q <=? 125) && (1 <=? fld16 l (pdu_off + 7)) && (fld16 l (pdu_off + 7) <=? 121) else
  true.
Definition verdict_parse1_C09 (a : list val) (out : val) : N :=
  match a, out with
  | [VI which; VB v; VB _], VL (VI 0%Z :: _) =>
      let w := zN which in
      if (w <? 100) || (w =? 200) then (if frame_fields_legal 7 v then HOLDS else VIOLATES)
      else if (w <? 200) || (w =? 201) || (w =? 202) then (if frame_fields_legal 1 v then HOLDS else VIOLATES)
      else NOT_JUDGED
  | [VI which; VB v; VB _], VL (VI 2%Z :: _) => VIOLATES
  | _, _ => NOT_JUDGED
  end.

(* C03 (c): the CRC-verifying entry points accept a frame iff its last two bytes are the CRC of
   the rest (for frames of at least 4 bytes; shorter ones are rejected as too short) *)
Definition verdict_parse1_C03 (a : list val) (out : val) : N :=
  match a with
  | [VI which; VB v; VB _] =>
      let w := zN which in
      if w =? 405 then
        (* AsRTUErrorPacketWithCRC recognises a frame only if it is exactly 5 bytes ending in their CRC *)
        (match out with
         | VL (VI 1%Z :: _) => if (length v =? 5)%nat && ends_in_spec_crc v then HOLDS else VIOLATES
         | VL (VI 2%Z :: _) => VIOLATES
         | _ => HOLDS
         end) else
      if (w =? 202) || (w =? 302) then
        if (length v <? 4)%nat then (match out with VL (VI 1%Z :: _) => HOLDS | _ => VIOLATES end) else
        let crc_ok := ends_in_spec_crc v in
        let said_bad_crc := match out with VL [VI 1%Z; _; VI 5%Z] => true | _ => false end in
        if Bool.eqb said_bad_crc (negb crc_ok) then HOLDS else VIOLATES
      else NOT_JUDGED
  | _ => NOT_JUDGED
  end.

(* ---------- responses ---------- *)
(* resp_bytes: args [fr; projected response; tid] -> encoded bytes *)
Definition run_resp_bytes (a : list val) : val :=
  match a with
  | [VI fr; pv; VI tid] =>
      match unproj_resp pv with
      | Some p => VB (if zN fr =? 0 then resp_bytes_tcp (zN tid) p else resp_bytes_rtu p)
      | None => v_bad
      end
  | _ => v_bad
  end.
(* exc_bytes: args [fr; tid; u; fc; code] *)
Definition run_exc_bytes (a : list val) : val :=
  match a with
  | [VI fr; VI tid; VI u; VI fc; VI code] =>
      VB (if zN fr =? 0 then exc_bytes_tcp (mk_exc (zN tid) (zN u) (zN fc) (zN code)) else exc_bytes_rtu (zN u) (zN fc) (zN code))
  | _ => v_bad
  end.
Definition verdict_bytes_C03 (a : list val) (out : val) : N :=
  match a, out with
  | VI fr :: _, VB bytes => if zN fr =? 0 then NOT_JUDGED else if ends_in_spec_crc bytes then HOLDS else VIOLATES
  | _, _ => NOT_JUDGED
  end.

(* spec view of a projected response, when it is well-formed in the sense of C02 *)
Definition wf_sresp (pv : val) : option sresp :=
  match unproj_resp pv with
  | Some (PBytes fc u bl d) =>
      if (bl =? N.of_nat (length d)) && (length d <=? 255)%nat then Some (SPBytes fc u d) else None
  | Some (PWCoil u a st) => Some (SPWCoil u a st)
  | Some (PWReg u a d0 d1) => Some (SPWReg u a d0 d1)
  | Some (PWMulti fc u s c) => Some (SPWMulti fc u s c)
  | _ => None     (* FC17: judged separately *)
  end.

(* rt_resp: args [which; fr; projected response; tid]: encode, parse with [which].
   outcome = [encoded; parse outcome] *)
Definition run_rt_resp (a : list val) : val :=
  match a with
  | [VI which; VI fr; pv; VI tid] =>
      match unproj_resp pv with
      | Some p =>
          let bytes := if zN fr =? 0 then resp_bytes_tcp (zN tid) p else resp_bytes_rtu p in
          VL [VB bytes; parse_any (zN which) (exact bytes)]
      | None => v_bad
      end
  | _ => v_bad
  end.
(* C02 (a): a well-formed response encodes to the specified ADU, parses to exactly its fields and
   re-encodes to the same bytes *)
Definition verdict_rt_resp_C02 (a : list val) (out : val) : N :=
  match a with
  | [VI which; VI fr; pv; VI tid] =>
      match wf_sresp pv with
      | Some sp =>
          let adu := if zN fr =? 0 then adu_tcp (zN tid) (sresp_unit sp) (rpdu sp) else adu_rtu (sresp_unit sp) (rpdu sp) in
          let wtid := if zN fr =? 0 then tid else 0%Z in
          (* the parsers' minimum sizes: an empty payload is not a well-formed reply *)
          let nonempty := match sp with SPBytes fc _ d => if is_coil_fc fc then (1 <=? length d)%nat else (2 <=? length d)%nat | _ => true end in
          if negb nonempty then NOT_JUDGED else
          match out with
          | VL [VB enc; po] =>
              if negb (list_eqb enc adu) then VIOLATES else
              match po with
              | VL [VI 0%Z; VI t; pr; VB re] =>
                  if Z.eqb t wtid && val_eqb pr pv && list_eqb re enc then HOLDS else VIOLATES
              | _ => VIOLATES
              end
          | _ => VIOLATES       (* the encoder panicked on a well-formed response *)
          end
      | None => NOT_JUDGED
      end
  | _ => NOT_JUDGED
  end.

(* fc17: args [which; fr; tid; u; id; run; add; layout] layout 0 = specification (count covers
   id + run + add), 1 = the library's documented layout (count = id only).  The harness builds the
   frame itself; outcome = parse outcome.  104: specification layout not decoded as such. *)
Definition fc17_frame (fr tid u : N) (id : list N) (run : N) (add : list N) (layout : N) : list N :=
  let p := if layout =? 0 then rpdu (SPSrvId u id run add) else rpdu_library_fc17 id run add in
  if fr =? 0 then adu_tcp tid u p else adu_rtu u p.
Definition run_fc17 (a : list val) : val :=
  match a with
  | [VI which; VI fr; VI tid; VI u; VB id; VI run; VB add; VI layout] =>
      parse_any (zN which) (exact (fc17_frame (zN fr) (zN tid) (zN u) id (zN run) add (zN layout)))
  | _ => v_bad
  end.
Definition verdict_fc17_C02 (a : list val) (out : val) : N :=
  match a with
  | [VI which; VI fr; VI tid; VI u; VB id; VI run; VB add; VI layout] =>
      let frame := fc17_frame (zN fr) (zN tid) (zN u) id (zN run) add (zN layout) in
      let want := VL [vN 17; VI u; VI run; VB id; VB add] in
      let wtid := if zN fr =? 0 then tid else 0%Z in
      if (length id =? 0)%nat || (251 <? length id + length add)%nat then NOT_JUDGED else
      match out with
      | VL [VI 0%Z; VI t; pr; VB re] =>
          if Z.eqb t wtid && val_eqb pr want && list_eqb re frame then HOLDS
          else if zN layout =? 0 then 104 else VIOLATES
      | VL (VI 1%Z :: _) => if zN layout =? 0 then 104 else VIOLATES
      | _ => VIOLATES
      end
  | _ => NOT_JUDGED
  end.

(* exc: args [which (300..302, 403..405); tid; u; fcbyte; code]: the harness builds the 9 / 5 byte
   exception frame from the specification (RTU with the right CRC) and parses it *)
Definition exc_frame (which tid u fcb code : N) : list N :=
  if (which =? 300) || (which =? 403) then adu_tcp tid u [fcb; code] else adu_rtu u [fcb; code].
Definition run_exc (a : list val) : val :=
  match a with
  | [VI which; VI tid; VI u; VI fcb; VI code] =>
      parse_any (zN which) (exact (exc_frame (zN which) (zN tid) (zN u) (zN fcb) (zN code)))
  | _ => v_bad
  end.
(* C02 (b): every exception frame is an error carrying unit, originating function and code *)
Definition verdict_exc_C02 (a : list val) (out : val) : N :=
  match a with
  | [VI which; VI tid; VI u; VI fcb; VI code] =>
      let w := zN which in
      if zN fcb <? 128 then NOT_JUDGED else
      let f := VI (fcb - 128)%Z in
      let tcp := (w =? 300) || (w =? 403) in
      let want_disp := if tcp then VL [VI 1%Z; VI 1%Z; VI 3%Z; VI tid; VI u; f; VI code]
                       else VL [VI 1%Z; VI 1%Z; VI 4%Z; VI u; f; VI code] in
      let want_rec := if tcp then VL [VI 1%Z; VI 3%Z; VI tid; VI u; f; VI code]
                      else VL [VI 1%Z; VI 4%Z; VI u; f; VI code] in
      if val_eqb out (if w <? 400 then want_disp else want_rec) then HOLDS else VIOLATES
  | _ => NOT_JUDGED
  end.

(* C02 (c): a byte-counted frame whose length disagrees with its count field is rejected; no frame
   with the high bit set at the function position is ever returned as a response *)
Definition verdict_parse1_C02 (a : list val) (out : val) : N :=
  match a, out with
  | [VI which; VB v; VB _], VL (VI 0%Z :: _) =>
      let w := zN which in
      let tcp := (w =? 300) || ((1000 <? w) && (w <? 1100)) in
      let rtu := (w =? 301) || (w =? 302) || ((1100 <? w) && (w <? 1200)) in
      if negb (tcp || rtu) then NOT_JUDGED else
      let off := if tcp then 7%nat else 1%nat in
      let fc := if (w =? 300) || (w =? 301) || (w =? 302) then nth off v 0
                else if tcp then w - 1000 else w - 1100 in
      if ((w =? 300) || (w =? 301) || (w =? 302)) && (128 <=? nth off v 0) then VIOLATES else
      if is_read_fc fc || (fc =? 23) then
        let cnt := N.to_nat (nth (S off) v 0) in
        if (length v =? off + 2 + cnt + (if tcp then 0 else 2))%nat then HOLDS else VIOLATES
      else HOLDS
  | [VI _; VB _; VB _], VL (VI 2%Z :: _) => VIOLATES
  | _, _ => NOT_JUDGED
  end.

(* ---------- coils ---------- *)
Definition run_coils_to_bytes (a : list val) : val :=
  match a with [VB cs] => VB (coils_to_bytes (bools_of cs)) | _ => v_bad end.
Definition verdict_coils_C01 (a : list val) (out : val) : N :=
  match a, out with
  | [VB cs], VB b => if list_eqb b (pack_coils (bools_of cs)) then HOLDS else VIOLATES
  | [VB _], _ => VIOLATES       (* packing a coil list never fails *)
  | _, _ => NOT_JUDGED
  end.

(* is_coil_set: args [fc; payload; start; addr] -> ok [bool] | err *)
Definition run_is_coil_set (a : list val) : val :=
  match a with
  | [VI _; VB d; VI s; VI ad] =>
      match is_bit_set d (zN s) (zN ad) with Some b => v_ok [vbool b] | None => v_err [] end
  | _ => v_bad
  end.
(* C11: coil start+i is bit (i mod 8) of byte (i div 8); errors before the start and beyond the
   last bit.  105: payloads of >= 2 bytes are indexed from the end *)
Definition verdict_is_coil_set_C11 (a : list val) (out : val) : N :=
  match a with
  | [VI _; VB d; VI s; VI ad] =>
      let s := zN s in let ad := zN ad in
      if (ad <? s) || (s + 8 * N.of_nat (length d) <=? ad) then
        (match out with VL (VI 1%Z :: _) => HOLDS | _ => VIOLATES end)
      else
        let i := ad - s in
        if val_eqb out (v_ok [vbool (coil_at d i)]) then HOLDS
        else if (2 <=? length d)%nat && val_eqb out (v_ok [vbool (coil_at (rev d) i)]) then 105
        else VIOLATES
  | _ => NOT_JUDGED
  end.

(* coil_readback: args [coils; start]: write-multiple-coils request built by the library, a
   conforming device stores the coils by the specification's layout and answers a read with the
   specification's packing, the library's coil lookup reads every coil back.
   outcome = the recovered pattern (2 = lookup error) *)
Definition run_coil_readback (a : list val) : val :=
  match a with
  | [VB cs; VI s; VI _] =>     (* the third argument is the framing of the constructor used: same model *)
      let coils := bools_of cs in
      match new_wcoils 1 (zN s) coils with
      | Ok (RWCoils _ _ _ data) =>
          (* the device decodes the request data with the specification's layout ... *)
          let mem := map (fun i => coil_at data (N.of_nat i)) (seq 0 (length coils)) in
          (* ... and answers with the specification's packing *)
          let payload := pack_coils mem in
          VB (map (fun i => match is_bit_set payload (zN s) (u16 (zN s + N.of_nat i)) with
                            | Some true => 1 | Some false => 0 | None => 2 end) (seq 0 (length coils)))
      | _ => VL [VI 3%Z]
      end
  | _ => v_bad
  end.
Definition verdict_coil_readback_C11 (a : list val) (out : val) : N :=
  match a, out with
  | [VB cs; VI s; VI _], VB got =>
      if 65536 <? zN s + N.of_nat (length cs) then NOT_JUDGED else
      if list_eqb got (map (fun b => if b =? 0 then 0 else 1) cs) then HOLDS
      else if (8 <? length cs)%nat then 105 else VIOLATES
  | [VB cs; VI _; VI _], VL [VI 3%Z] =>
      (* a pattern of 1..1968 coils that cannot even be written is not recovered *)
      if (1 <=? length cs)%nat && (length cs <=? 1968)%nat then VIOLATES else NOT_JUDGED
  | _, _ => VIOLATES
  end.

(* ---------- classifier (C18) ----------
   classify: args [data; allow] -> [n; err; parse outcome of the first n bytes | [3]] *)
Definition run_classify (a : list val) : val :=
  match a with
  | [VB v; VI allow] =>
      match looks_like (exact v) (zbool allow) with
      | Ok (n, e) =>
          let pe := match e with None => VL [] | Some x => VL (proj_err x) end in
          let po := match e with
                    | None => if (N.to_nat n <=? length v)%nat then parse_any 200 (exact (firstn (N.to_nat n) v)) else VL [VI 3%Z]
                    | Some _ => VL [VI 3%Z]
                    end in
          VL [vN n; pe; po]
      | _ => v_panic
      end
  | _ => v_bad
  end.
(* judged from the 8-byte header by the statement of C18:
   - fewer than 8 bytes: too short;
   - protocol id 0, a supported function code and a length field >= 3 (2 for function 17):
     accepted with n = 6 + length field; once n bytes are there the dispatcher either parses them
     or rejects them with an error that encodes to a 9-byte exception reply;
   - an unsupported function code 1..127 (length field >= 3): n = 6 + length and the illegal-function
     exception for the header's transaction id, unit id and function code. *)
Definition supported_fc (fc : N) : bool :=
  (fc =? 1) || (fc =? 2) || (fc =? 3) || (fc =? 4) || (fc =? 5) || (fc =? 6) || (fc =? 15) || (fc =? 16) || (fc =? 17) || (fc =? 23).
Definition valid_exception_err (tid u fc : N) (o : val) : bool :=
  (* an *ErrorParseTCP with an exception code 1..4 addressed to the frame it refuses (transaction
     id, unit id and function code of the header): its Bytes() are the 9-byte exception ADU the
     server sends (theorem C18_accepted_is_parsed_or_addressed_exception) *)
  match o with
  | VL [VI 1%Z; VI 1%Z; VI 1%Z; VI t; VI un; VI f; VI c] =>
      (1 <=? c)%Z && (c <=? 4)%Z && Z.eqb t (Z.of_N tid) && Z.eqb un (Z.of_N u) && Z.eqb f (Z.of_N fc)
  | _ => false
  end.
Definition verdict_classify_C18 (a : list val) (out : val) : N :=
  match a, out with
  | [VB v; VI allow], VL [VI n; pe; po] =>
      if zbool allow then NOT_JUDGED else
      if (length v <? 8)%nat then (if val_eqb pe (VL [VI 10%Z]) && Z.eqb n 0 then HOLDS else VIOLATES) else
      let proto := fld16 v 2 in let len := fld16 v 4 in let fc := nth 7 v 0 in
      if negb (proto =? 0) then (match pe with VL [] => VIOLATES | _ => HOLDS end) else
      if supported_fc fc && ((3 <=? len) || ((len =? 2) && (fc =? 17))) then
        if negb (val_eqb pe (VL []) && Z.eqb n (Z.of_N (6 + len))) then VIOLATES else
        if (N.to_nat (6 + len) <=? length v)%nat then
          (match po with
           | VL (VI 0%Z :: _) => HOLDS
           | _ => if valid_exception_err (fld16 v 0) (nth 6 v 0) fc po then HOLDS else VIOLATES
           end)
        else HOLDS
      else if (1 <=? fc) && (fc <? 128) && negb (supported_fc fc) && (3 <=? len) then
        if Z.eqb n (Z.of_N (6 + len)) &&
           val_eqb pe (VL [VI 1%Z; vN (fld16 v 0); vN (nth 6 v 0); vN fc; VI 1%Z]) then HOLDS else VIOLATES
      else (match pe with VL [] => (if supported_fc fc then HOLDS else VIOLATES) | _ => HOLDS end)
  | _, _ => NOT_JUDGED
  end.

(* classify_enc: args [k; ctor name; ctor args...] (TCP only): the classifier on the first k bytes
   of the encoded frame -> [n; err] *)
Definition run_classify_enc (a : list val) : val :=
  match a with
  | VI k :: VB nm :: rest =>
      match ctor_args (string_of_bytes nm) rest with
      | Some (_, _, tid, Ok r) =>
          let bytes := req_bytes_tcp tid r in
          match looks_like (exact (firstn (Z.to_nat k) bytes)) false with
          | Ok (n, None) => VL [vN n; VL []]
          | Ok (n, Some e) => VL [vN n; VL (proj_err e)]
          | _ => v_panic
          end
      | Some (_, _, _, Err _) => VL [VI 3%Z]
      | _ => v_bad
      end
  | _ => v_bad
  end.
Definition verdict_classify_enc_C18 (a : list val) (out : val) : N :=
  match a with
  | VI k :: VB nm :: rest =>
      match ctor_args (string_of_bytes nm) rest, out with
      | Some (_, sr, tid, _), VL [VI n; pe] =>
          let frame := request_adu_tcp tid sr in
          if (Z.to_nat k <? 8)%nat then (if val_eqb pe (VL [VI 10%Z]) then HOLDS else VIOLATES)
          else if val_eqb pe (VL []) && Z.eqb n (Z.of_nat (length frame)) && Z.eqb n (Z.of_N (6 + fld16 frame 4)) then HOLDS else VIOLATES
      | _, _ => NOT_JUDGED
      end
  | _ => NOT_JUDGED
  end.

(* parse_pair: args [which; A; B]: parse A, keep the value, parse B (same kind, other buffer), look
   at A's value again -> [[projection; re-encoding] early; the same late] | [3] when A is refused *)
Definition req_view (w : N) (v : list N) : val :=
  match parse_any w (exact v) with
  | VL [VI 0%Z; VI _; pr; VB re] => VL [pr; VB re]
  | _ => VL [VI 3%Z]
  end.
Definition run_parse_pair (a : list val) : val :=
  match a with
  | [VI w; VB x; VB _] =>
      match req_view (zN w) x with
      | VL [VI 3%Z] => VL [VI 3%Z]
      | v => VL [v; v]
      end
  | _ => v_bad
  end.
Definition verdict_parse_pair (a : list val) (out : val) : N :=
  match out with
  | VL [VI 3%Z] => NOT_JUDGED
  | VL [early; late] => if val_eqb early late then HOLDS else VIOLATES
  | _ => VIOLATES
  end.

(* classify_pair: args [A; B]: classify A, keep its error, classify B, look at A's error again
   -> [error of A right away; error of A afterwards].  Errors are values in the model. *)
Definition classify_err (v : list N) : val :=
  match looks_like (exact v) false with
  | Ok (_, None) => VL []
  | Ok (_, Some e) => VL (proj_err e)
  | _ => v_panic
  end.
Definition run_classify_pair (a : list val) : val :=
  match a with
  | [VB x; VB _] => VL [classify_err x; classify_err x]
  | _ => v_bad
  end.
Definition verdict_classify_pair_C18 (a : list val) (out : val) : N :=
  match a, out with
  | [VB x; VB _], VL [early; late] =>
      if val_eqb early late && val_eqb early (classify_err x) then HOLDS else VIOLATES
  | _, _ => VIOLATES
  end.

(* ---------- package-level sentinel errors (C10: a result depends on its input only) ----------
   sentinels: no arguments -> the fields and wire bytes of ErrTCPDataTooShort and ErrIsNotTCPPacket
   after all the calls of the stream; the model has no state: they are what error.go declares *)
Definition sentinel_val : val :=
  VL [vN 0; vN 0; vN 0; vN 0; VB (exc_bytes_tcp (mk_exc 0 0 0 0))].
Definition run_sentinels (a : list val) : val := VL [sentinel_val; sentinel_val].
Definition verdict_sentinels_C10 (a : list val) (out : val) : N :=
  if val_eqb out (VL [sentinel_val; sentinel_val]) then HOLDS else VIOLATES.

(* ---------- the table of this layer ---------- *)
Open Scope string_scope.
Open Scope N_scope.
(* ---- CRC16 itself (C03 a) ---- *)
Definition run_crc16 (a : list val) : val :=
  match a with [VB l] => vN (crc16 l) | _ => v_bad end.
Definition verdict_crc16 (p : N) (a : list val) (out : val) : N :=
  match a with
  | [VB l] => if val_eqb out (vN (spec_crc16 l)) then HOLDS else VIOLATES
  | _ => NOT_JUDGED
  end.

Definition ctor_entry (nm : string) : entry :=
  {| e_name := nm; e_run := run_ctor nm;
     e_verdict := fun p a o => if p =? 1 then verdict_ctor_C01 nm a o
                               else if p =? 3 then verdict_ctor_C03 nm a o else NOT_JUDGED |}.

Definition table_packet : list entry :=
  [ {| e_name := "crc16"; e_run := run_crc16; e_verdict := verdict_crc16 |};
    ctor_entry "new_read"; ctor_entry "new_wcoil"; ctor_entry "new_wreg"; ctor_entry "new_wcoils";
    ctor_entry "new_wregs"; ctor_entry "new_srvid"; ctor_entry "new_rw";
    {| e_name := "rt_req"; e_run := run_rt_req;
       e_verdict := fun p a o => if p =? 9 then verdict_rt_req_C09 a o else NOT_JUDGED |};
    {| e_name := "parse1"; e_run := run_parse1;
       e_verdict := fun p a o => if p =? 9 then verdict_parse1_C09 a o
                                 else if p =? 3 then verdict_parse1_C03 a o
                                 else if p =? 2 then verdict_parse1_C02 a o else NOT_JUDGED |};
    {| e_name := "parse3"; e_run := run_parse3;
       e_verdict := fun p a o => if p =? 10 then verdict_parse3_C10 a o else NOT_JUDGED |};
    {| e_name := "resp_bytes"; e_run := run_resp_bytes;
       e_verdict := fun p a o => if p =? 3 then verdict_bytes_C03 a o else NOT_JUDGED |};
    {| e_name := "exc_bytes"; e_run := run_exc_bytes;
       e_verdict := fun p a o => if p =? 3 then verdict_bytes_C03 a o else NOT_JUDGED |};
    {| e_name := "rt_resp"; e_run := run_rt_resp;
       e_verdict := fun p a o => if p =? 2 then verdict_rt_resp_C02 a o else NOT_JUDGED |};
    {| e_name := "fc17"; e_run := run_fc17;
       e_verdict := fun p a o => if p =? 2 then verdict_fc17_C02 a o else NOT_JUDGED |};
    {| e_name := "exc"; e_run := run_exc;
       e_verdict := fun p a o => if p =? 2 then verdict_exc_C02 a o else NOT_JUDGED |};
    {| e_name := "coils_to_bytes"; e_run := run_coils_to_bytes;
       e_verdict := fun p a o => if (p =? 1) || (p =? 11) then verdict_coils_C01 a o else NOT_JUDGED |};
    {| e_name := "is_coil_set"; e_run := run_is_coil_set;
       e_verdict := fun p a o => if p =? 11 then verdict_is_coil_set_C11 a o else NOT_JUDGED |};
    {| e_name := "coil_readback"; e_run := run_coil_readback;
       e_verdict := fun p a o => if p =? 11 then verdict_coil_readback_C11 a o else NOT_JUDGED |};
    {| e_name := "classify"; e_run := run_classify;
       e_verdict := fun p a o => if p =? 18 then verdict_classify_C18 a o else NOT_JUDGED |};
    {| e_name := "parse_pair"; e_run := run_parse_pair;
       e_verdict := fun p a o => if (p =? 10) || (p =? 9) then verdict_parse_pair a o else NOT_JUDGED |};
    {| e_name := "classify_pair"; e_run := run_classify_pair;
       e_verdict := fun p a o => if (p =? 10) || (p =? 18) then verdict_classify_pair_C18 a o else NOT_JUDGED |};
    {| e_name := "sentinels"; e_run := run_sentinels;
       e_verdict := fun p a o => if (p =? 10) || (p =? 18) then verdict_sentinels_C10 a o else NOT_JUDGED |};
    {| e_name := "classify_enc"; e_run := run_classify_enc;
       e_verdict := fun p a o => if p =? 18 then verdict_classify_enc_C18 a o else NOT_JUDGED |}
  ].

