(* DispBuilder.v -- correspondence entries of the builder layer (properties C06 and C05): how the
   model computes each projected outcome, and how the properties' executable statements
   (BuilderSpec.v, written independently of the model) judge an implementation outcome.

   A field definition travels as [server; unit; address; type; bit; fromHighByte; length; byteOrder];
   its identity (Field.Name in Go) is its position in the list. *)
Require Import MB.GoSem MB.Val MB.Entry MB.CrcModel MB.CrcSpec MB.Spec MB.PacketModel.
Require Import MB.RegistersSpec MB.RegistersModel MB.BuilderSpec MB.BuilderModel.
From Coq Require Import String.
Notation length := List.length (only parsing).
Open Scope N_scope.

(* ---------- decoding of the case input ---------- *)
Definition field_of_val (i : nat) (v : val) : option field :=
  match v with
  | VL [VB srv; VI u; VI a; VI t; VI b; VI h; VI l; VI o] =>
      Some {| f_name := N.of_nat i; f_server := srv; f_unit := zN u; f_addr := zN a; f_type := zN t;
              f_bit := zN b; f_high := zbool h; f_len := zN l; f_order := zN o |}
  | _ => None
  end.
Fixpoint fields_of_vals (i : nat) (vs : list val) : option (list field) :=
  match vs with
  | [] => Some []
  | v :: r =>
      match field_of_val i v, fields_of_vals (S i) r with
      | Some f, Some fs => Some (f :: fs)
      | _, _ => None
      end
  end.

Fixpoint map_opt {A B} (f : A -> option B) (l : list A) : option (list B) :=
  match l with
  | [] => Some []
  | x :: r => match f x, map_opt f r with Some y, Some ys => Some (y :: ys) | _, _ => None end
  end.

(* ---------- requests are compared sorted by (server, unit, start) ---------- *)
Fixpoint bytes_ltb (a b : list N) : bool :=
  match a, b with
  | [], [] => false
  | [], _ :: _ => true
  | _ :: _, [] => false
  | x :: a', y :: b' => if x <? y then true else if y <? x then false else bytes_ltb a' b'
  end.
Definition breq_leb (x y : breq) : bool :=
  if bytes_ltb (br_server x) (br_server y) then true else
  if bytes_ltb (br_server y) (br_server x) then false else
  if br_unit x <? br_unit y then true else
  if br_unit y <? br_unit x then false else
  br_start x <=? br_start y.
Fixpoint insert_by {A} (leb : A -> A -> bool) (x : A) (l : list A) : list A :=
  match l with [] => [x] | y :: r => if leb x y then x :: l else y :: insert_by leb x r end.
Fixpoint sort_by {A} (leb : A -> A -> bool) (l : list A) : list A :=
  match l with [] => [] | x :: r => insert_by leb x (sort_by leb r) end.

Definition proj_packet (r : req) : val :=
  match r with
  | RRead fc u s q => VL [vN fc; vN u; vN s; vN q]
  | _ => VL []
  end.
Definition val_N (v : val) : N := match v with VI z => zN z | _ => 0 end.
(* the i-th request carries the i-th transaction id read back from the implementation's packets *)
Fixpoint proj_breqs (tids : list val) (rs : list breq) : list val :=
  match rs with
  | [] => []
  | r :: rest =>
      let tid := val_N (hd (VI 0%Z) tids) in
      VL [VB (br_server r); vN (br_unit r); vN (br_start r); vN tid; proj_packet (br_req r);
          VB (breq_bytes tid r); VL (map (fun f => vN (f_name f)) (br_fields r))]
      :: proj_breqs (tl tids) rest
  end.

(* ---------- split: args [target; fields; tids] -> error | sorted request descriptors ---------- *)
Definition run_split (a : list val) : val :=
  match a with
  | [VI t; VL fvs; VL tids] =>
      match fields_of_vals 0 fvs with
      | Some fields =>
          match builder_read (zN t) fields with
          | Ok reqs => v_ok [VL (proj_breqs tids (sort_by breq_leb reqs))]
          | Err _ => v_err [VI 1%Z]
          | Panic => v_panic
          end
      | None => v_bad
      end
  | _ => v_bad
  end.

Definition id_of_val (v : val) : option nat :=
  match v with VI z => if (z <? 0)%Z then None else Some (Z.to_nat z) | _ => None end.
Definition rdesc_of_val (v : val) : option rdesc :=
  match v with
  | VL [VB srv; VI u; VI s; VI tid; VL [VI pfc; VI pu; VI ps; VI pq]; VB bytes; VL ids] =>
      match map_opt id_of_val ids with
      | Some l =>
          Some {| d_server := srv; d_unit := zN u; d_start := zN s; d_tid := zN tid;
                  d_pfc := zN pfc; d_punit := zN pu; d_pstart := zN ps; d_pqty := zN pq;
                  d_bytes := bytes; d_ids := l |}
      | None => None
      end
  | _ => None
  end.

(* C06 on an implementation outcome: an error is allowed; a list of requests must satisfy the
   statement [c06_check] for the field list of the case; a panic or a request that cannot be related
   to the input (a member that is none of the input fields) violates it *)
Definition verdict_split_C06 (a : list val) (out : val) : N :=
  match a with
  | [VI t; VL fvs; _] =>
      match fields_of_vals 0 fvs with
      | Some fields =>
          match out with
          | VL (VI 1%Z :: _) => HOLDS
          | VL [VI 0%Z; VL rs] =>
              match map_opt rdesc_of_val rs with
              | Some ds => if c06_check (zN t) fields ds then HOLDS else VIOLATES
              | None => VIOLATES
              end
          | _ => VIOLATES
          end
      | None => NOT_JUDGED
      end
  | _ => NOT_JUDGED
  end.

(* ---------- extract: args [target; fields; tids; memory seed; ks] ----------
   The builder's requests (sorted as above) are encoded, answered by the conforming device of
   BuilderSpec (memory image [mem_word (dev_seed ms server unit)], the i-th request truncated to
   [ks_i] items when [ks_i >= 0]), the reply is parsed by the response dispatcher and handed to
   ExtractFields, strict and lenient.  Outcome: error | per request
   [server; unit; start; quantity; strict; lenient] with an extraction outcome
   [0; entries] | [3; entries] (lenient, had errors) | [1] (failed) | [2] (panic) | [4] (the reply
   was an exception or did not parse); entry = [id; 0; value] | [id; 1]. *)
Definition proj_aval (v : aval) : val :=
  match v with VBool b => vbool b | VInt z => VI z | VBytes l => VB l end.
Definition proj_entries (es : list (field * fvalue)) : val :=
  VL (map (fun e => match snd e with
                    | FVal v => VL [vN (f_name (fst e)); VI 0%Z; proj_aval v]
                    | FErr => VL [vN (f_name (fst e)); VI 1%Z]
                    end) es).
Definition proj_xres (x : xres) : val :=
  match x with
  | Ok (false, es) => VL [VI 0%Z; proj_entries es]
  | Ok (true, es) => VL [VI 3%Z; proj_entries es]
  | Err _ => VL [VI 1%Z]
  | Panic => VL [VI 2%Z]
  end.
Definition trunc_of (k : val) : option N :=
  match k with VI z => if (z <? 0)%Z then None else Some (Z.to_N z) | _ => None end.
Definition packet_qty (r : req) : N := match r with RRead _ _ _ q => q | _ => 0 end.

Definition extract_one (ms tid : N) (k : val) (r : breq) : val :=
  let bytes := breq_bytes tid r in
  let seed := dev_seed ms (br_server r) (br_unit r) in
  let reply := device_reply (br_tcp r) (mem_word seed) (mem_coil seed) bytes (trunc_of k) in
  let head := [VB (br_server r); vN (br_unit r); vN (br_start r); vN (packet_qty (br_req r))] in
  (* the reply buffer has exact capacity: behind the Data of an RTU response lies its CRC *)
  let spare := if br_tcp r then [] else skipn (length reply - 2) reply in
  let parsed := if br_tcp r then map_ok snd (parse_tcp_response (exact reply))
                else parse_rtu_response_crc (exact reply) in
  match parsed with
  | Ok p => VL (head ++ [proj_xres (extract_fields r p spare false); proj_xres (extract_fields r p spare true)])
  | Err _ => VL (head ++ [VL [VI 4%Z]; VL [VI 4%Z]])
  | Panic => VL (head ++ [VL [VI 2%Z]; VL [VI 2%Z]])
  end.
Fixpoint extract_all (ms : N) (tids ks : list val) (rs : list breq) : list val :=
  match rs with
  | [] => []
  | r :: rest =>
      extract_one ms (val_N (hd (VI 0%Z) tids)) (hd (VI (-1)%Z) ks) r :: extract_all ms (tl tids) (tl ks) rest
  end.
Definition run_extract (a : list val) : val :=
  match a with
  | [VI t; VL fvs; VL tids; VI ms; VL ks] =>
      match fields_of_vals 0 fvs with
      | Some fields =>
          match builder_read (zN t) fields with
          | Ok reqs => v_ok [VL (extract_all (zN ms) tids ks (sort_by breq_leb reqs))]
          | Err _ => v_err [VI 1%Z]
          | Panic => v_panic
          end
      | None => v_bad
      end
  | _ => v_bad
  end.

(* extract_resp: args [target; fields; tids; frame; tcp]: the first request (in sorted order) of the
   builder is handed an arbitrary response frame -- the type switch of ExtractFields (register
   responses incl. FC23 and the FC6 echo, coil responses, everything else unsupported), fields of
   the wrong kind, payloads of any length.  Outcome [0; strict; lenient] | [4] (frame does not
   parse) | [5] (no request).  Correspondence only, no property is judged on it. *)
Definition run_extract_resp (a : list val) : val :=
  match a with
  | [VI t; VL fvs; VL tids; VB frame; VI tcp] =>
      match fields_of_vals 0 fvs with
      | Some fields =>
          match builder_read (zN t) fields with
          | Ok reqs =>
              match sort_by breq_leb reqs with
              | r :: _ =>
                  let parsed := if zbool tcp then map_ok snd (parse_tcp_response (exact frame))
                                else parse_rtu_response_crc (exact frame) in
                  let spare := if zbool tcp then [] else skipn (length frame - 2) frame in
                  match parsed with
                  | Ok p => v_ok [proj_xres (extract_fields r p spare false); proj_xres (extract_fields r p spare true)]
                  | Err _ => VL [VI 4%Z]
                  | Panic => v_panic
                  end
              | [] => VL [VI 5%Z]
              end
          | Err _ => v_err [VI 1%Z]
          | Panic => v_panic
          end
      | None => v_bad
      end
  | _ => v_bad
  end.

(* decoding of an implementation outcome for the verdicts *)
Definition aval_of_val (f : field) (v : val) : option aval :=
  match v with
  | VI z => if (f_type f =? T_BIT) || (f_type f =? T_COIL) then Some (VBool (zbool z)) else Some (VInt z)
  | VB l => Some (VBytes l)
  | _ => None
  end.
Definition entry_of_val (fields : list field) (v : val) : option (nat * fout) :=
  match v with
  | VL [VI id; VI 0%Z; x] =>
      if (id <? 0)%Z then None else
      match aval_of_val (nth (Z.to_nat id) fields nil_field) x with
      | Some w => Some (Z.to_nat id, FValue w)
      | None => None
      end
  | VL [VI id; VI 1%Z] => if (id <? 0)%Z then None else Some (Z.to_nat id, FError)
  | _ => None
  end.
Definition xout_of_val (fields : list field) (v : val) : option xout :=
  match v with
  | VL [VI 1%Z] => Some XFailed
  | VL [VI 0%Z; VL es] => option_map (XEntries false) (map_opt (entry_of_val fields) es)
  | VL [VI 3%Z; VL es] => option_map (XEntries true) (map_opt (entry_of_val fields) es)
  | _ => None
  end.
Fixpoint xdescs_of_vals (fields : list field) (ks rs : list val) : option (list xdesc) :=
  match rs with
  | [] => Some []
  | VL [VB srv; VI u; VI s; VI q; st; le] :: rest =>
      match xout_of_val fields st, xout_of_val fields le, xdescs_of_vals fields (tl ks) rest with
      | Some a, Some b, Some xs =>
          let k := match trunc_of (hd (VI (-1)%Z) ks) with Some k => N.min k (zN q) | None => zN q end in
          Some ({| x_server := srv; x_unit := zN u; x_start := zN s; x_qty := zN q; x_k := k;
                   x_strict := a; x_lenient := b |} :: xs)
      | _, _, _ => None
      end
  | _ => None
  end.

(* C05 on an implementation outcome.  Judged: register targets, all definitions valid, every
   requested span inside the address space, every (possibly truncated) reply at least one
   register long (a reply without registers is no response at all).  Then every request must have
   produced a parsed reply and the two extractions must satisfy [c05_check]. *)
Definition verdict_extract_C05 (a : list val) (out : val) : N :=
  match a with
  | [VI t; VL fvs; _; VI ms; VL ks] =>
      match fields_of_vals 0 fvs with
      | Some fields =>
          if zN t <? 4 then NOT_JUDGED else
          if negb (forallb field_valid fields) then NOT_JUDGED else
          if negb (forallb (fun f => negb (wanted (zN t) f) || (f_end f <=? 65536)) fields) then NOT_JUDGED else
          if existsb (fun k => match k with VI 0%Z => true | _ => false end) ks then NOT_JUDGED else
          match out with
          | VL (VI 1%Z :: _) => NOT_JUDGED
          | VL [VI 0%Z; VL rs] =>
              match xdescs_of_vals fields ks rs with
              | Some xs => if c05_check (zN t) (zN ms) fields xs then HOLDS else VIOLATES
              | None => VIOLATES
              end
          | _ => VIOLATES
          end
      | None => NOT_JUDGED
      end
  | _ => NOT_JUDGED
  end.

(* C11 on the coil targets of the same entry: every value ExtractFields returns for a coil field
   is the coil of the device's memory.  Code 120 = differs, inside the region of the known finding
   of C11 (isBitSet indexes the payload bytes from the end: replies of two or more bytes). *)
Definition KF_COIL_BYTE_ORDER : N := 120.
Definition coil_entry_ok (ms : N) (fields : list field) (e : nat * fout) : bool :=
  let f := nth (fst e) fields nil_field in
  match snd e with
  | FValue (VBool b) => Bool.eqb b (mem_coil (dev_seed ms (f_server f) (f_unit f)) (f_addr f))
  | FValue _ => false
  | FError => true
  end.
Definition verdict_extract_C11 (a : list val) (out : val) : N :=
  match a with
  | [VI t; VL fvs; _; VI ms; VL ks] =>
      match fields_of_vals 0 fvs with
      | Some fields =>
          if negb (zN t <? 4) then NOT_JUDGED else
          match out with
          | VL [VI 0%Z; VL rs] =>
              match xdescs_of_vals fields ks rs with
              | Some xs =>
                  let bad := filter (fun x => match x_lenient x with
                                              | XEntries _ es => (x_k x =? x_qty x) &&     (* complete replies only *)
                                                                 negb (forallb (coil_entry_ok (zN ms) fields) es)
                                              | XFailed => false end) xs in
                  if (length bad =? 0)%nat then HOLDS
                  else if forallb (fun x => 8 <? x_k x) bad then KF_COIL_BYTE_ORDER else VIOLATES
              | None => NOT_JUDGED
              end
          | _ => NOT_JUDGED
          end
      | None => NOT_JUDGED
      end
  | _ => NOT_JUDGED
  end.

(* ---------- extract_seq (property C13 for field extraction) ----------
   args [target; fields; tids; memory seed; ks; rot].  Every request of the builder gets one reply
   of the conforming device (as in "extract"); then, on the SAME response object / frame buffer:
   ExtractFields strict, lenient, strict, lenient; the same four with a second BuilderRequest that
   shares the packet but has its Fields reversed, resp. rotated by [rot]; and Field.ExtractFrom for
   every member on ONE shared *Registers in the original, the reversed and again the original
   order.  Outcome per request: [server; unit; start; quantity; frame before; frame after;
   [the eight ExtractFields outcomes]; [the three ExtractFrom lists]] (or [..; [4]] when the reply
   does not parse).  The model threads the response's Data slice through all calls. *)
Definition with_fields (r : breq) (fs : list field) : breq :=
  {| br_req := br_req r; br_tcp := br_tcp r; br_server := br_server r; br_unit := br_unit r;
     br_start := br_start r; br_fields := fs |}.
Definition rotate {A} (n : nat) (l : list A) : list A :=
  match l with [] => [] | _ => skipn (n mod length l) l ++ firstn (n mod length l) l end.
Definition with_data (p : resp) (d : slice) : resp :=
  match p with PBytes fc u bl _ => PBytes fc u bl (vis d) | _ => p end.
Fixpoint run_steps (p : resp) (steps : list (breq * bool)) (d : slice) : list val * slice :=
  match steps with
  | [] => ([], d)
  | (r, cont) :: rest =>
      let '(x, d1) := extract_fields_data r (with_data p d) (spare d) cont in
      let '(xs, d2) := run_steps p rest d1 in
      (proj_xres x :: xs, d2)
  end.
Definition proj_member (e : field * res xerr aval) : val :=
  match snd e with
  | Ok v => VL [vN (f_name (fst e)); VI 0%Z; proj_aval v]
  | Err _ => VL [vN (f_name (fst e)); VI 1%Z]
  | Panic => VL [vN (f_name (fst e)); VI 2%Z]
  end.
Definition shared_registers_runs (r : breq) (p : resp) (d : slice) : val * slice :=
  match p with
  | PBytes fc _ _ _ =>
      if is_coil_fc fc then (VL [VI 7%Z], d) else
      match new_registers d (br_start r) with
      | Ok regs =>
          let '(l1, regs1) := extract_from_seq (br_fields r) regs in
          let '(l2, regs2) := extract_from_seq (rev (br_fields r)) regs1 in
          let '(l3, regs3) := extract_from_seq (br_fields r) regs2 in
          (VL [VL (map proj_member l1); VL (map proj_member l2); VL (map proj_member l3)], r_data regs3)
      | Err _ => (VL [VI 1%Z], d)
      | Panic => (VL [VI 2%Z], d)
      end
  | _ => (VL [VI 7%Z], d)
  end.
Definition resp_data (p : resp) : list N := match p with PBytes _ _ _ data => data | _ => [] end.

Definition extract_seq_one (ms tid : N) (k : val) (rot : nat) (r : breq) : val :=
  let bytes := breq_bytes tid r in
  let seed := dev_seed ms (br_server r) (br_unit r) in
  let reply := device_reply (br_tcp r) (mem_word seed) (mem_coil seed) bytes (trunc_of k) in
  let head := [VB (br_server r); vN (br_unit r); vN (br_start r); vN (packet_qty (br_req r))] in
  let sp := if br_tcp r then [] else skipn (length reply - 2) reply in
  let parsed := if br_tcp r then map_ok snd (parse_tcp_response (exact reply))
                else parse_rtu_response_crc (exact reply) in
  match parsed with
  | Ok p =>
      let d0 := {| vis := resp_data p; spare := sp |} in
      let prefix := firstn (length reply - length (resp_data p) - length sp) reply in
      let rrev := with_fields r (rev (br_fields r)) in
      let rrot := with_fields r (rotate rot (br_fields r)) in
      let '(outs, d1) := run_steps p [(r, false); (r, true); (r, false); (r, true);
                                      (rrev, false); (rrev, true); (rrot, false); (rrot, true)] d0 in
      let '(shared, d2) := shared_registers_runs r (with_data p d1) d1 in
      VL (head ++ [VB reply; VB (prefix ++ vis d2 ++ spare d2); VL outs; shared])
  | Err _ => VL (head ++ [VL [VI 4%Z]])
  | Panic => VL (head ++ [VL [VI 2%Z]])
  end.
Fixpoint extract_seq_all (ms : N) (rot : nat) (tids ks : list val) (rs : list breq) : list val :=
  match rs with
  | [] => []
  | r :: rest =>
      extract_seq_one ms (val_N (hd (VI 0%Z) tids)) (hd (VI (-1)%Z) ks) rot r
      :: extract_seq_all ms rot (tl tids) (tl ks) rest
  end.
Definition run_extract_seq (a : list val) : val :=
  match a with
  | [VI t; VL fvs; VL tids; VI ms; VL ks; VI rot] =>
      match fields_of_vals 0 fvs with
      | Some fields =>
          match builder_read (zN t) fields with
          | Ok reqs => v_ok [VL (extract_seq_all (zN ms) (Z.to_nat rot) tids ks (sort_by breq_leb reqs))]
          | Err _ => v_err [VI 1%Z]
          | Panic => v_panic
          end
      | None => v_bad
      end
  | _ => v_bad
  end.

(* C13 on an implementation outcome, judged on the outcome alone: the frame buffer is unchanged;
   the repeated ExtractFields calls return what the first returned; the calls with permuted Fields
   return the same outcome class and, per field id, the same entry; the ExtractFrom runs on one
   shared Registers agree with each other per field id (the third with the first literally) and
   with the lenient ExtractFields result. *)
Definition result_parts (v : val) : option (Z * list val) :=
  match v with
  | VL [VI c; VL es] => Some (c, es)
  | VL [VI c] => Some (c, [])
  | _ => None
  end.
Definition same_set (a b : list val) : bool :=
  (length a =? length b)%nat && forallb (fun e => existsb (val_eqb e) b) a.
Definition same_result (a b : val) : bool :=
  match result_parts a, result_parts b with
  | Some (c, es), Some (c', es') => Z.eqb c c' && same_set es es'
  | _, _ => false
  end.
Definition c13_request (v : val) : bool :=
  match v with
  | VL [_; _; _; _; VB before; VB after; VL [e1; l1; e2; l2; e3; l3; e4; l4]; shared] =>
      list_eqb before after &&
      val_eqb e2 e1 && val_eqb l2 l1 &&
      same_result e3 e1 && same_result e4 e1 && same_result l3 l1 && same_result l4 l1 &&
      match shared, result_parts l1 with
      | VL [VL s1; VL s2; VL s3], Some (_, es) => val_eqb (VL s3) (VL s1) && same_set s2 s1 && same_set es s1
      | VL [VI 1%Z], Some (1%Z, _) => true      (* AsRegisters refuses the payload: so did ExtractFields *)
      | VL [VI 7%Z], _ => true                  (* not a register response *)
      | _, _ => false
      end
  | VL [_; _; _; _; VL [VI 4%Z]] => true        (* no response object *)
  | _ => false
  end.
Definition verdict_extract_seq_C13 (a : list val) (out : val) : N :=
  match out with
  | VL (VI 1%Z :: _) => NOT_JUDGED
  | VL [VI 0%Z; VL rs] => if forallb c13_request rs then HOLDS else VIOLATES
  | _ => VIOLATES
  end.

(* the same outcome judged by C05: the first strict / lenient pair, and the last pair obtained
   with rotated members (all values were held until every call of the case had run) *)
Definition seq_as_extract (first : bool) (v : val) : val :=
  match v with
  | VL [srv; u; s; q; _; _; VL [e1; l1; _; _; _; _; e4; l4]; _] =>
      if first then VL [srv; u; s; q; e1; l1] else VL [srv; u; s; q; e4; l4]
  | VL [srv; u; s; q; x] => VL [srv; u; s; q; x; x]
  | _ => v
  end.
Definition verdict_extract_seq_C05 (a : list val) (out : val) : N :=
  match a, out with
  | [t; fvs; tids; ms; ks; _], VL [VI 0%Z; VL rs] =>
      let a' := [t; fvs; tids; ms; ks] in
      let v1 := verdict_extract_C05 a' (VL [VI 0%Z; VL (map (seq_as_extract true) rs)]) in
      let v2 := verdict_extract_C05 a' (VL [VI 0%Z; VL (map (seq_as_extract false) rs)]) in
      if (v1 =? VIOLATES) || (v2 =? VIOLATES) then VIOLATES
      else if (v1 =? HOLDS) && (v2 =? HOLDS) then HOLDS else NOT_JUDGED
  | _, _ => NOT_JUDGED
  end.

(* ---------- several verdicts on one case ---------- *)
Definition combine_verdicts (l : list N) : N :=
  if existsb (N.eqb VIOLATES) l then VIOLATES else
  match filter (fun c => 100 <=? c) l with
  | c :: _ => c
  | [] => if existsb (N.eqb HOLDS) l then HOLDS else NOT_JUDGED
  end.

(* ---------- split_seq: args [fields; targets; tids per build; memory seed] ----------
   ONE Builder, several builds in a row.  In the model a build does not change the Builder
   (BuilderModel.builder_builds): every build is [split] of the original field list.  Outcome: per
   build [outcome of "split"; outcome of "extract" with complete replies (register targets) | []]. *)
Fixpoint run_builds (fvs : val) (ms : val) (ts tidss : list val) : list val :=
  match ts with
  | [] => []
  | t :: rest =>
      let tids := hd (VL []) tidss in
      let reg := match t with VI z => (4 <=? z)%Z | _ => false end in
      VL [run_split [t; fvs; tids]; if reg then run_extract [t; fvs; tids; ms; VL []] else VL []]
      :: run_builds fvs ms rest (tl tidss)
  end.
Definition run_split_seq (a : list val) : val :=
  match a with
  | [VL fvs; VL ts; VL tidss; VI ms] => v_ok [VL (run_builds (VL fvs) (VI ms) ts tidss)]
  | _ => v_bad
  end.
Fixpoint verdicts_builds (p : N) (fvs ms : val) (ts tidss outs : list val) : list N :=
  match ts, outs with
  | t :: ts', VL [so; xo] :: outs' =>
      let tids := hd (VL []) tidss in
      (if p =? 6 then verdict_split_C06 [t; fvs; tids] so
       else if p =? 5 then verdict_extract_C05 [t; fvs; tids; ms; VL []] xo
       else NOT_JUDGED) :: verdicts_builds p fvs ms ts' (tl tidss) outs'
  | [], [] => []
  | _, _ => [VIOLATES]            (* the outcome does not have one element per build *)
  end.
Definition verdict_split_seq (p : N) (a : list val) (out : val) : N :=
  if negb ((p =? 5) || (p =? 6)) then NOT_JUDGED else
  match a, out with
  | [VL fvs; VL ts; VL tidss; VI ms], VL [VI 0%Z; VL outs] =>
      combine_verdicts (verdicts_builds p (VL fvs) (VI ms) ts tidss outs)
  | [VL _; VL _; VL _; VI _], _ => VIOLATES
  | _, _ => NOT_JUDGED
  end.

(* ---------- extract_client: args [target; fields; tids; memory seed; client kind] ----------
   The requests go through a real client (TCP, RTU over a network connection, serial) to the
   conforming device: the transport is transparent, so the model is that of "extract" with complete
   replies -- for phase A (all requests sent first, extraction afterwards) and for phase B
   (extraction right after each Do) alike.  Outcome [0; phase A; phase B]. *)
Definition run_extract_client (a : list val) : val :=
  match a with
  | [t; fvs; tids; ms; VI _] =>
      match run_extract [t; fvs; tids; ms; VL []] with
      | VL [VI 0%Z; l] => v_ok [l; l]
      | other => other
      end
  | _ => v_bad
  end.
Definition verdict_extract_client_C05 (a : list val) (out : val) : N :=
  match a with
  | [t; fvs; tids; ms; VI _] =>
      let a' := [t; fvs; tids; ms; VL []] in
      match out with
      | VL [VI 0%Z; la; lb] =>
          combine_verdicts [verdict_extract_C05 a' (VL [VI 0%Z; la]); verdict_extract_C05 a' (VL [VI 0%Z; lb])]
      | _ => verdict_extract_C05 a' out
      end
  | _ => NOT_JUDGED
  end.

(* ---------- extract_hand: args [start; fields; frame; tcp] ----------
   A BuilderRequest made by hand (or re-ordered by its user): StartAddress and Fields in ANY order,
   addresses before the start or beyond the reply included, in first / middle / last position.
   ExtractFields (strict, lenient) on the response parsed from [frame].  Outcome [0; strict;
   lenient] | [4] (frame does not parse). *)
Definition hand_request (start : N) (fields : list field) : breq :=
  {| br_req := RSrvId 0; br_tcp := true; br_server := []; br_unit := 0; br_start := start; br_fields := fields |}.
Definition run_extract_hand (a : list val) : val :=
  match a with
  | [VI start; VL fvs; VB frame; VI tcp] =>
      match fields_of_vals 0 fvs with
      | Some fields =>
          let r := hand_request (zN start) fields in
          let parsed := if zbool tcp then map_ok snd (parse_tcp_response (exact frame))
                        else parse_rtu_response_crc (exact frame) in
          let spare := if zbool tcp then [] else skipn (length frame - 2) frame in
          match parsed with
          | Ok p => v_ok [proj_xres (extract_fields r p spare false); proj_xres (extract_fields r p spare true)]
          | Err _ => VL [VI 4%Z]
          | Panic => v_panic
          end
      | None => v_bad
      end
  | _ => v_bad
  end.

(* judged for FC1 / FC2 replies, from the frame bytes (Modbus layout) and the member list alone:
   lenient mode returns one entry per member, in member order, a value iff the member's address is
   one of the coil positions of the reply, an error otherwise, and flags errors iff there is one;
   strict mode fails as a whole iff some member is outside and otherwise returns the same entries.
   With [values] the reported coil states are compared with the reply's bits (LSB of the first
   data byte = coil at the start address): a difference is code 120 (known finding of C11, reply
   of two or more bytes) or a violation (one byte). *)
Fixpoint hand_entries (start : N) (data : list N) (i : nat) (fs : list field) (es : list val)
  : bool * bool :=            (* structure as required, values as the specification says *)
  match fs, es with
  | [], [] => (true, true)
  | f :: fs', e :: es' =>
      let '(s, v) := hand_entries start data (S i) fs' es' in
      if coil_inside start (8 * N.of_nat (length data)) (f_addr f) then
        match e with
        | VL [VI id; VI 0%Z; VI b] =>
            (s && Z.eqb id (Z.of_nat i), v && Bool.eqb (zbool b) (coil_at data (f_addr f - start)))
        | _ => (false, v)
        end
      else
        match e with
        | VL [VI id; VI 1%Z] => (s && Z.eqb id (Z.of_nat i), v)
        | _ => (false, v)
        end
  | _, _ => (false, true)
  end.
Definition verdict_extract_hand (values : bool) (a : list val) (out : val) : N :=
  match a with
  | [VI start; VL fvs; VB frame; VI tcp] =>
      match fields_of_vals 0 fvs with
      | Some fields =>
          let off := if zbool tcp then 7%nat else 1%nat in
          let fc := nth off frame 0 in
          let data := firstn (N.to_nat (nth (S off) frame 0)) (skipn (off + 2) frame) in
          if negb ((fc =? 1) || (fc =? 2)) then NOT_JUDGED else
          match out with
          | VL [VI 0%Z; st; VL [VI c; VL es]] =>
              let any_out := existsb (fun f => negb (coil_inside (zN start) (8 * N.of_nat (length data)) (f_addr f))) fields in
              let '(s, v) := hand_entries (zN start) data 0 fields es in
              let flag_ok := Z.eqb c (if any_out then 3 else 0) in
              let strict_ok := if any_out then val_eqb st (VL [VI 1%Z]) else val_eqb st (VL [VI 0%Z; VL es]) in
              if negb (s && flag_ok && strict_ok) then VIOLATES
              else if negb values || v then HOLDS
              else if (2 <=? length data)%nat then KF_COIL_BYTE_ORDER else VIOLATES
          | VL [VI 4%Z] => NOT_JUDGED
          | _ => VIOLATES
          end
      | None => NOT_JUDGED
      end
  | _ => NOT_JUDGED
  end.

(* ---------- the table of this layer ---------- *)
Open Scope string_scope.
Open Scope N_scope.
Definition table_builder : list entry :=
  [ {| e_name := "split"; e_run := run_split;
       e_verdict := fun p a o => if p =? 6 then verdict_split_C06 a o else NOT_JUDGED |};
    {| e_name := "extract"; e_run := run_extract;
       e_verdict := fun p a o => if p =? 5 then verdict_extract_C05 a o
                                 else if p =? 11 then verdict_extract_C11 a o else NOT_JUDGED |};
    {| e_name := "extract_resp"; e_run := run_extract_resp; e_verdict := no_verdict |};
    {| e_name := "extract_seq"; e_run := run_extract_seq;
       e_verdict := fun p a o => if p =? 13 then verdict_extract_seq_C13 a o
                                 else if p =? 5 then verdict_extract_seq_C05 a o else NOT_JUDGED |};
    {| e_name := "split_seq"; e_run := run_split_seq; e_verdict := verdict_split_seq |};
    {| e_name := "extract_client"; e_run := run_extract_client;
       e_verdict := fun p a o => if p =? 5 then verdict_extract_client_C05 a o else NOT_JUDGED |};
    {| e_name := "extract_hand"; e_run := run_extract_hand;
       e_verdict := fun p a o => if p =? 11 then verdict_extract_hand true a o
                                 else if p =? 5 then verdict_extract_hand false a o else NOT_JUDGED |}
  ].
