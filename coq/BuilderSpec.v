(* BuilderSpec.v -- what properties C06 and C05 say about the request builder, written from the
   property texts, the Modbus specification (Spec.v) and the documentation of the field types, and
   independently of BuilderModel.v.

   * the input data: a field definition (the Go struct Field; the Name is the identity of a field
     and is modelled by a number, server addresses are byte strings) and the split target;
   * [span]: how many consecutive addresses a field occupies;
   * C06: the executable statement [c06_check] judging a list of request descriptors against the
     field list it was built from;
   * C05: [direct_value]: the value of a field decoded directly from a device memory image;
     [device_reply]: how a conforming device answers the bytes of a read request;
     [c05_check]: the executable statement judging the extracted values. *)
Require Import MB.GoSem MB.CrcSpec MB.Spec MB.RegistersSpec.
Open Scope N_scope.

(* ---------- field definitions ---------- *)
Record field := {
  f_name : N;            (* Field.Name: the identity of the definition *)
  f_server : list N;     (* Field.ServerAddress, as bytes *)
  f_unit : N;            (* Field.UnitID *)
  f_addr : N;            (* Field.Address *)
  f_type : N;            (* Field.Type: 1 bit 2 byte 3 uint8 4 int8 5 uint16 6 int16 7 uint32 8 int32
                            9 uint64 10 int64 11 float32 12 float64 13 string 14 coil *)
  f_bit : N;             (* Field.Bit *)
  f_high : bool;         (* Field.FromHighByte *)
  f_len : N;             (* Field.Length (strings, in bytes) *)
  f_order : N            (* Field.ByteOrder *)
}.

Definition T_BIT : N := 1.     Definition T_BYTE : N := 2.    Definition T_UINT8 : N := 3.
Definition T_INT8 : N := 4.    Definition T_UINT16 : N := 5.  Definition T_INT16 : N := 6.
Definition T_UINT32 : N := 7.  Definition T_INT32 : N := 8.   Definition T_UINT64 : N := 9.
Definition T_INT64 : N := 10.  Definition T_FLOAT32 : N := 11. Definition T_FLOAT64 : N := 12.
Definition T_STRING : N := 13. Definition T_COIL : N := 14.

(* a coil field is read with FC1/FC2, every other field with FC3/FC4 *)
Definition is_coil (f : field) : bool := f_type f =? T_COIL.

(* number of consecutive register (coil) addresses a field occupies: 32-bit types two registers,
   64-bit types four, a string of n bytes ceil(n/2), everything else one *)
Definition span (f : field) : N :=
  let t := f_type f in
  if (t =? T_UINT32) || (t =? T_INT32) || (t =? T_FLOAT32) then 2
  else if (t =? T_UINT64) || (t =? T_INT64) || (t =? T_FLOAT64) then 4
  else if t =? T_STRING then (f_len f + 1) / 2
  else 1.
Definition f_end (f : field) : N := f_addr f + span f.     (* unbounded: may exceed 65536 *)

(* the 8 split targets, numbered as in the Go enumeration: FC1 TCP, FC1 RTU, FC2 TCP, ..., FC4 RTU *)
Definition target_fc (t : N) : N := t / 2 + 1.
Definition target_tcp (t : N) : bool := t mod 2 =? 0.
Definition target_coils (t : N) : bool := t <? 4.
(* fields the target asks for *)
Definition wanted (t : N) (f : field) : bool := Bool.eqb (is_coil f) (target_coils t).
(* MAP 6.1-6.4: at most 2000 coils / 125 registers per read *)
Definition kind_limit (coils : bool) : N := if coils then 2000 else 125.

(* ---------- C06: the statement on request descriptors ---------- *)
Record rdesc := {
  d_server : list N;     (* BuilderRequest.ServerAddress *)
  d_unit : N;            (* BuilderRequest.UnitID *)
  d_start : N;           (* BuilderRequest.StartAddress *)
  d_tid : N;             (* transaction id of the packet (0 for RTU) *)
  d_pfc : N; d_punit : N; d_pstart : N; d_pqty : N;   (* the packet's own function / unit / start / quantity *)
  d_bytes : list N;      (* BuilderRequest.Bytes() *)
  d_ids : list nat       (* BuilderRequest.Fields, as positions in the input list *)
}.

Definition nil_field : field :=
  {| f_name := 0; f_server := []; f_unit := 0; f_addr := 0; f_type := 0; f_bit := 0; f_high := false; f_len := 0; f_order := 0 |}.
Definition count_nat (i : nat) (l : list nat) : nat := length (filter (Nat.eqb i) l).
Definition min_list (l : list N) : N := match l with [] => 0 | x :: r => fold_left N.min r x end.
Definition max_list (l : list N) : N := fold_left N.max l 0.
Definition same_dev (srv : list N) (u : N) (f : field) : bool := list_eqb (f_server f) srv && (f_unit f =? u).

(* clause 1 + "other kind absent": every wanted field in exactly one request, nothing else anywhere *)
Definition c06_cover (t : N) (fields : list field) (ds : list rdesc) : bool :=
  let ids := concat (map d_ids ds) in
  forallb (fun i => (i <? length fields)%nat) ids &&
  forallb (fun i => (count_nat i ids =? (if wanted t (nth i fields nil_field) then 1 else 0))%nat)
          (seq 0 (length fields)).

(* clauses 2-7 for one request *)
Definition c06_request (t : N) (fields : list field) (d : rdesc) : bool :=
  let ms := map (fun i => nth i fields nil_field) (d_ids d) in
  let q := d_pqty d in
  negb (length ms =? 0)%nat &&                                                      (* 7 *)
  forallb (same_dev (d_server d) (d_unit d)) ms &&                                  (* 2 *)
  forallb (fun f => (d_start d <=? f_addr f) && (f_end f <=? d_start d + q)) ms &&  (* 3, unbounded *)
  (d_start d =? min_list (map f_addr ms)) && (d_start d + q =? max_list (map f_end ms)) &&   (* 4 *)
  (1 <=? q) && (q <=? kind_limit (target_coils t)) &&                               (* 5 *)
  (d_pfc d =? target_fc t) && (d_punit d =? d_unit d) && (d_pstart d =? d_start d) &&
  list_eqb (d_bytes d)
    (if target_tcp t then request_adu_tcp (d_tid d) (SRead (target_fc t) (d_unit d) (d_start d) q)
     else request_adu_rtu (SRead (target_fc t) (d_unit d) (d_start d) q)).         (* 6 *)

(* clause 8: the wanted fields of a device whose total span fits one request are in one request *)
Definition c06_nosplit (t : N) (fields : list field) (ds : list rdesc) : bool :=
  forallb (fun d =>
    let grp := filter (fun f => wanted t f && same_dev (d_server d) (d_unit d) f) fields in
    if max_list (map f_end grp) - min_list (map f_addr grp) <=? kind_limit (target_coils t)
    then Nat.eqb (length (filter (fun e => list_eqb (d_server e) (d_server d) && (d_unit e =? d_unit d)) ds)) 1
    else true) ds.

Definition c06_check (t : N) (fields : list field) (ds : list rdesc) : bool :=
  c06_cover t fields ds && forallb (c06_request t fields) ds && c06_nosplit t fields ds.

(* ---------- C05: the value of a field in a device's memory ---------- *)
(* the default order of the library: big endian, high word first *)
Definition DEFAULT_ORDER : N := 9.
(* the typed access a field type stands for (doc comments of the FieldType constants) *)
Definition field_accessor (f : field) : option accessor :=
  let t := f_type f in
  if t =? T_BIT then Some (ABit (f_bit f)) else
  if t =? T_BYTE then Some (AByte (f_high f)) else
  if t =? T_UINT8 then Some (AUint8 (f_high f)) else
  if t =? T_INT8 then Some (AInt8 (f_high f)) else
  if t =? T_UINT16 then Some AUint16 else
  if t =? T_INT16 then Some AInt16 else
  if t =? T_UINT32 then Some (AUint32BO (f_order f)) else
  if t =? T_INT32 then Some (AInt32BO (f_order f)) else
  if t =? T_UINT64 then Some (AUint64BO (f_order f)) else
  if t =? T_INT64 then Some (AInt64BO (f_order f)) else
  if t =? T_FLOAT32 then Some (AFloat32BO (f_order f)) else
  if t =? T_FLOAT64 then Some (AFloat64BO (f_order f)) else
  if t =? T_STRING then Some (AStringBO (f_len f) (f_order f)) else None.

(* a device memory: address -> 16 bit register value; its registers as (high byte, low byte) *)
Definition mem_regs (mem : N -> N) (a n : N) : list (N * N) :=
  map (fun i => let w := mem (a + i) in (w / 256, w mod 256)) (seqN n).
(* decoding the memory directly at the field's address with the field's type and byte order *)
Definition direct_value (mem : N -> N) (f : field) : option aval :=
  match field_accessor f with
  | Some a => if well_formed a then Some (decode DEFAULT_ORDER a (mem_regs mem (f_addr f) (size_of a))) else None
  | None => None
  end.

(* a field definition the library documents as valid *)
Definition field_valid (f : field) : bool :=
  negb (length (f_server f) =? 0)%nat && (1 <=? f_type f) && (f_type f <=? 14) && (f_bit f <=? 15) &&
  negb ((f_type f =? T_STRING) && (f_len f =? 0)).

(* ---------- a device that answers as MAP 6.1-6.4 require ---------- *)
(* reads the request off the wire; answers a read of [s, s+q) with the q registers / coils of its
   memory, or with exception 02 when the range leaves the address space; [trunc = Some k] makes it
   answer with only the first k (< q) items -- the "too short" reply of the robustness clause *)
Definition fld16 (l : list N) (i : nat) : N := nth i l 0 * 256 + nth (S i) l 0.
Definition device_reply (tcp : bool) (memw : N -> N) (memc : N -> bool) (request : list N) (trunc : option N) : list N :=
  let off := if tcp then 6%nat else 0%nat in
  let tid := fld16 request 0 in
  let u := nth off request 0 in
  let fc := nth (S off) request 0 in
  let s := fld16 request (2 + off) in
  let q := fld16 request (4 + off) in
  let k := match trunc with Some k => N.min k q | None => q end in
  let pdu :=
    if 65536 <? s + q then exception_pdu fc ILLEGAL_DATA_ADDRESS
    else if (fc =? 1) || (fc =? 2)
    then rpdu (SPBytes fc u (pack_coils (map (fun i => memc (s + i)) (seqN k))))
    else rpdu (SPBytes fc u (flat_map (fun i => let w := memw (s + i) in [N.shiftr w 8; N.land w 255]) (seqN k))) in   (* = w16 w: high byte first *)
  if tcp then adu_tcp tid u pdu else adu_rtu u pdu.

(* ---------- the memories of the correspondence cases: a seeded image ---------- *)
Definition mem_word (seed a : N) : N :=
  (* shifts and masks only (land 65535 = mod 65536): cheap in the extracted model *)
  let h0 := (a + 1) * 40503 + seed * 25173 in
  let h := N.land (N.lxor h0 (N.shiftr h0 7)) 65535 in
  let mode := N.land seed 3 in
  if mode =? 0 then (32 + N.land (N.shiftr h 8) 63) * 256 + (33 + N.land h 63)      (* printable text *)
  else if mode =? 2 then (let m := N.land h 3 in if m =? 0 then 0 else if m =? 1 then 65535 else h)
  else h.
Definition mem_coil (seed a : N) : bool := N.testbit (mem_word (seed + 1) a) 5.
Definition dev_seed (ms : N) (srv : list N) (u : N) : N :=
  N.land (fold_left (fun h b => N.land (h * 31 + b) 65535) srv ms * 257 + u) 65535.   (* land 65535 = mod 65536 *)

(* ---------- C05: the statement on extraction outcomes ---------- *)
(* what ExtractFields returned for one field *)
Inductive fout := FValue (v : aval) | FError.
(* the outcome of one ExtractFields call: failed as a whole, or one entry per field (position in
   the input list, value or error) and whether the call also reported ErrorFieldExtractHadError *)
Inductive xout := XFailed | XEntries (had_errors : bool) (es : list (nat * fout)).
(* one request as the device saw it, the number of registers the device answered with, and the two
   extractions *)
Record xdesc := { x_server : list N; x_unit : N; x_start : N; x_qty : N; x_k : N; x_strict : xout; x_lenient : xout }.

Definition aval_eqb (a b : aval) : bool :=
  match a, b with
  | VBool x, VBool y => Bool.eqb x y
  | VInt x, VInt y => Z.eqb x y
  | VBytes x, VBytes y => list_eqb x y
  | _, _ => false
  end.
(* a field can be served from the first k registers of the window starting at [start] *)
Definition reachable (start k : N) (f : field) : bool := (start <=? f_addr f) && (f_end f <=? start + k).

(* [full]: the device answered the request as sent (complete reply).  Then EVERY member must come
   back with the direct decoding of its own device's memory -- whatever window the request asked
   for; an error mark is a violation.  Only a truncated reply may leave members unreachable. *)
Definition entry_ok (ms : N) (fields : list field) (full : bool) (start k : N) (e : nat * fout) : bool :=
  let f := nth (fst e) fields nil_field in
  match snd e with
  | FValue v =>
      (full || reachable start k f) &&
      match direct_value (mem_word (dev_seed ms (f_server f) (f_unit f))) f with
      | Some w => aval_eqb v w
      | None => false
      end
  | FError => negb full && negb (reachable start k f)
  end.
Definition has_error (es : list (nat * fout)) : bool :=
  existsb (fun e => match snd e with FError => true | _ => false end) es.
Definition entry_eqb (a b : nat * fout) : bool :=
  Nat.eqb (fst a) (fst b) &&
  match snd a, snd b with
  | FValue x, FValue y => aval_eqb x y
  | FError, FError => true
  | _, _ => false
  end.
Fixpoint entries_eqb (a b : list (nat * fout)) : bool :=
  match a, b with
  | [], [] => true
  | x :: a', y :: b' => entry_eqb x y && entries_eqb a' b'
  | _, _ => false
  end.

(* one request: lenient mode returns one entry per member; after a complete reply (x_k = x_qty)
   every entry is a value, the direct decoding of the member's own device memory; after a
   truncated reply a value exactly for the reachable members and an error for the others; errors
   are flagged iff there is one; strict mode fails as a whole iff lenient mode marked an error
   (never after a complete reply) and otherwise returns the same entries *)
Definition c05_request (ms : N) (fields : list field) (x : xdesc) : bool :=
  match x_lenient x with
  | XEntries had es =>
      forallb (fun e => (fst e <? length fields)%nat) es &&
      forallb (fun e => same_dev (x_server x) (x_unit x) (nth (fst e) fields nil_field)) es &&
      forallb (entry_ok ms fields (x_k x =? x_qty x) (x_start x) (x_k x)) es &&
      Bool.eqb had (has_error es) &&
      match x_strict x with
      | XFailed => has_error es
      | XEntries had' es' => negb (has_error es) && negb had' && entries_eqb es es'
      end
  | XFailed => false
  end.
(* all requests together: every register field of the input is reported exactly once *)
Definition c05_check (t ms : N) (fields : list field) (xs : list xdesc) : bool :=
  let ids := flat_map (fun x => match x_lenient x with XEntries _ es => map fst es | XFailed => [] end) xs in
  forallb (fun i => (count_nat i ids =? (if wanted t (nth i fields nil_field) then 1 else 0))%nat)
          (seq 0 (length fields)) &&
  forallb (c05_request ms fields) xs.

(* ---------- coil members of a request against a FC1/FC2 reply ---------- *)
(* the reply holds 8 * (number of data bytes) coil positions, the first one is the coil at the
   request's start address (MAP 6.1/6.2); a member is served iff its address is one of them *)
Definition coil_inside (start nbits a : N) : bool := (start <=? a) && (a - start <? nbits).
