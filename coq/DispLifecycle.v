(* DispLifecycle.v -- correspondence entry of the server life-cycle layer (C17): trace validation.

   The harness (harness/cmd/observe/lifecycle*.go) runs the real server.Server over an in-memory
   listener with scripted clients and emits, per run, the callback configuration, the script and the
   observed event log; the outcome is the harness' own quiescent summary of the run.
   [run_lifecycle] replays the log through the LTS of LifecycleModel.v, keeping the SET of states
   compatible with the log so far (closed under the hidden steps, i.e. those whose [observe] is None),
   and projects the summary from the final states; an unreplayable log gives [v_bad] (a mismatch).
   [verdict_lifecycle] judges the observed log + summary against the text of C17 directly, without
   the LTS.
   Serving the same Server value a second time (stream lifecycle_reserve) is a step of the LTS too
   (LReServe); see [run_reserve]. *)
Require Import MB.GoSem MB.Val MB.Entry MB.LifecycleModel.
From Coq Require Import String.
Notation length := List.length (only parsing).
Open Scope list_scope.
Open Scope Z_scope.

(* ---------- canonical encodings (only used to compare states / observations) ---------- *)
Definition zb (b : bool) : Z := if b then 1 else 0.
Definition zn (n : nat) : Z := Z.of_nat n.
Definition enc_phase (p : phase) : Z :=
  match p with PAccepted => 0 | PRejected => 1 | PIdle => 2 | PReadDone => 3 | PHandling => 4 | PInHandler => 5
  | PReplied => 6 | PLeaving => 7 | PExiting => 8 | PExited => 9 | PUntracked => 10 | PDone => 11
  | PDropping => 12 | PDropped => 13 end.
Definition enc_cst (c : cstate) : Z := match c with CIdle => 0 | CHandling => 1 | CClosed => 2 end.
Definition enc_via (v : via) : Z := match v with ViaNone => 0 | ViaCas => 1 | ViaLoadClosed => 2 | ViaLoadIdle => 3 end.
Definition enc_err (e : err) : Z := match e with ENil => 0 | EClosed => 1 | EOther => 2 | ECtx => 3 | EPanic => 4 end.
Definition dec_err (z : Z) : option err :=
  if z =? 0 then Some ENil else if z =? 1 then Some EClosed else if z =? 2 then Some EOther
  else if z =? 3 then Some ECtx else if z =? 4 then Some EPanic else None.
Definition enc_rres (r : rres) : Z := match r with RData => 0 | RTimeout => 1 | REof => 2 | RErr => 3 | RIdleTo => 4 end.
Definition dec_rres (z : Z) : option rres :=
  if z =? 0 then Some RData else if z =? 1 then Some RTimeout else if z =? 2 then Some REof
  else if z =? 3 then Some RErr else if z =? 4 then Some RIdleTo else None.

Definition enc_conn (x : conn) : list Z :=
  [enc_phase (ph x); enc_cst (cst x); zb (sock x); zb (inmap x); zb (resp x); zb (closeconn x); zb (panicked x);
   zb (pend_err x); zn (close_cb x); match acc_arg x with Some n => n | None => -1 end; live_at_cb x;
   zn (started x); zn (replied x); zn (length (owed x))] ++ map zn (owed x) ++ [zn (lost x); enc_via (sd_via x)].
Definition enc_spc (p : spc) : list Z :=
  match p with
  | SStart => [0; 0] | SCalled => [1; 0] | SLoop => [2; 0] | SAccepted c => [3; zn c] | SRejected c => [4; zn c]
  | SPassed c => [5; zn c] | STrack c => [6; zn c] | SReturned e => [7; enc_err e]
  | SDrop c r => [8; zn c; zb r] | SDropCb c r => [9; zn c; zb r] | SLeaving r => [10; zb r]
  | SErrCb c n => [11; zn c; zn n]
  end.
Definition enc_sdpc (p : sdpc) : list Z :=
  match p with
  | SdIdle => [0]
  | SdPass t a => [1; zb a; zn (length t)] ++ map zn t
  | SdFailed c t a => [2; zn c; zb a; zn (length t)] ++ map zn t
  | SdClosing c t a => [3; zn c; zb a; zn (length t)] ++ map zn t
  | SdWait => [4]
  | SdReturned e => [5; enc_err e]
  end.
Definition enc_state (s : state) : list Z :=
  [zb (lis_set s); zb (lis_open s); zb (shut s); zb (cancelled s); zb (sd_req s); zb (sd_err s); zb (mu s);
   count s; zb (crashed s); zn (errs s); zn (upto s); zn (length (conns s))]
  ++ enc_spc (sp s) ++ enc_sdpc (sd s) ++ flat_map enc_conn (conns s).

Fixpoint zlist_eqb (a b : list Z) : bool :=
  match a, b with
  | [], [] => true
  | x :: a', y :: b' => (x =? y) && zlist_eqb a' b'
  | _, _ => false
  end.

Definition enc_obs (o : obs) : list Z :=
  match o with
  | OServeCb => [1] | OAccept c => [2; zn c] | OAcceptCb c n ok => [3; zn c; n; zb ok] | OConnClose c => [4; zn c]
  | OServeReturn e => [5; enc_err e] | ORead c r => [6; zn c; enc_rres r] | OHandlerStart c => [7; zn c]
  | OHandlerEnd c ok => [8; zn c; zb ok] | OWrite c ok => [9; zn c; zb ok] | OErrCb => [10]
  | OCloseCb c b => [11; zn c; zb b] | OSdCall => [12] | OSdReturn e => [13; enc_err e] | OCancel => [14]
  | ODefLog => [17] | OReServe => [18]
  end.
Definition obs_eqb (a b : obs) : bool := zlist_eqb (enc_obs a) (enc_obs b).

(* ---------- hidden steps ---------- *)
Definition hidden_cands (k : cfg) (s : state) : list label :=
  [LServeCb; LPublish; LSdBegin; LSdPassEnd; LSdRetry; LAfterClose]
  ++ flat_map (fun c => [LCtxPass c; LCtxDone c; LTrack c; LDropCb c; LConnCtxExit c; LHandleStart c; LProtoReply c; LHandleEnd c;
                         LConnLeave c; LUntrack c; LCloseCb c; LSdCas c; LSdLoad c])
              (seq 0 (length (conns s))).

Definition succs_by (k : cfg) (s : state) (ls : list label) (want : option obs) : list state :=
  flat_map (fun l =>
    let same := match observe k s l, want with
                | None, None => true
                | Some a, Some b => obs_eqb a b
                | _, _ => false
                end in
    if same then match step_now k s l with Some s' => [s'] | None => [] end else []) ls.

(* Shutdown's return: the step that releases mu is not what the log records -- the caller logs the
   return value after it has received it, by which time connection goroutines may already have
   untracked and run their close callbacks.  The releasing step is therefore treated as hidden and
   the logged return is checked against the state ([sd = SdReturned e], no newer call pending). *)
Definition sd_return_succs (k : cfg) (s : state) : list state :=
  flat_map (fun l => match step_now k s l with Some s' => [s'] | None => [] end) [LSdReturn; LSdTimeout].

Definition hidden_succs (k : cfg) (s : state) : list state :=
  succs_by k s (hidden_cands k s) None ++ sd_return_succs k s.

(* ---------- events ---------- *)
Definition obs_cands (n : nat) (o : obs) : list label :=
  match o with
  | OServeCb => [LServeCb]
  | OAccept c => [LAccept c]
  | OAcceptCb c m ok => [LAcceptCb c m ok]
  | OConnClose c => [LRejectClose c; LConnExit c; LSdClose c; LDropClose c; LRejectCloseErr c; LDropCloseErr c; LConnExitErr c]
  | OServeReturn e => [LServeReturn e]
  | ORead c r => [LConnRead c r]
  | OHandlerStart c => [LHandlerStart c]
  | OHandlerEnd c ok => [LHandlerEnd c ok]
  | OWrite c ok => [LReplyWrite c ok]
  | OErrCb | ODefLog => map LErrCb (seq 0 n) ++ map LServeErrCb (seq 0 n)
  | OCloseCb c _ => [LCloseCb c; LDropCb c]
  | OSdCall => [LSdCall]
  | OSdReturn _ => [LSdReturn; LSdTimeout; LSdBegin]
  | OCancel => [LCancel]
  | OReServe => [LReServe]
  end.

Inductive event :=
| EObs (o : obs)
| EClientRecv (c : nat) (n : nat)      (* the client of c has received n replies to its requests *)
| EClientClosed (c : nat).             (* the client of c saw its connection closed by the server *)

Definition zbool' (z : Z) : bool := negb (z =? 0).
Definition parse_event (v : val) : option event :=
  match v with
  | VL [VI code; VI c; VI a; VI b] =>
      let cn := Z.to_nat c in
      if code =? 1 then Some (EObs OServeCb)
      else if code =? 2 then Some (EObs (OAccept cn))
      else if code =? 3 then Some (EObs (OAcceptCb cn a (zbool' b)))
      else if code =? 4 then Some (EObs (OConnClose cn))
      else if code =? 5 then match dec_err a with Some e => Some (EObs (OServeReturn e)) | None => None end
      else if code =? 6 then match dec_rres a with Some r => Some (EObs (ORead cn r)) | None => None end
      else if code =? 7 then Some (EObs (OHandlerStart cn))
      else if code =? 8 then Some (EObs (OHandlerEnd cn (zbool' a)))
      else if code =? 9 then Some (EObs (OWrite cn (zbool' a)))
      else if code =? 10 then Some (EObs OErrCb)
      else if code =? 11 then Some (EObs (OCloseCb cn (zbool' a)))
      else if code =? 12 then Some (EObs OSdCall)
      else if code =? 13 then match dec_err a with Some e => Some (EObs (OSdReturn e)) | None => None end
      else if code =? 14 then Some (EObs OCancel)
      else if code =? 15 then Some (EClientRecv cn (Z.to_nat a))
      else if code =? 16 then Some (EClientClosed cn)
      else if code =? 17 then Some (EObs ODefLog)
      else if code =? 18 then Some (EObs OReServe)
      else None
  | _ => None
  end.

(* ---------- quiescent summary ---------- *)
Definition conn_class (x : conn) : Z :=
  match ph x with PRejected => 1 | PDone | PDropped => 2 | PAccepted => 3 | _ => 0 end.
Definition conn_summary (x : conn) : val :=
  VL [VI (match acc_arg x with Some n => n | None => -1 end); VI (conn_class x); VI (zn (close_cb x));
      VI (zn (replied x)); VI (zb (negb (sock x)))].
Definition summary (s : state) : val :=
  VL [VI (match sp s with SReturned e => enc_err e | _ => -1 end);
      VI (match sd s with SdReturned e => enc_err e | SdIdle => -1 | _ => -2 end);
      VI (count s); VI (zn (errs s)); VL (map conn_summary (conns s))].

(* a state is final when the server has nothing left to do on its own: no hidden step and none of
   the observable steps that do not need the environment (a peer connecting / sending / hanging up,
   a caller invoking Shutdown or cancelling, Shutdown's own context expiring, an I/O fault) *)
Definition autonomous_cands (s : state) : list label :=
  [LServeCb; LServeReturn EClosed]
  ++ flat_map (fun c =>
       [LAcceptCb c (count s + 1) true; LRejectClose c; LDropClose c; LDropCb c; LConnExit c; LErrCb c; LServeErrCb c; LCloseCb c;
        LHandlerEnd c true; LReplyWrite c true]
       ++ match LifecycleModel.get s c with
          | Some x => if sock x then [] else [LConnRead c RErr; LReplyWrite c false]
          | None => []
          end)
     (seq 0 (length (conns s))).
Definition enabled_any (k : cfg) (s : state) (ls : list label) : bool :=
  existsb (fun l => match step_now k s l with Some _ => true | None => false end) ls.
Definition quiescent (k : cfg) (s : state) : bool :=
  match hidden_succs k s with [] => negb (enabled_any k s (autonomous_cands s)) | _ => false end.

Definition cfg_of (z : Z) : cfg :=
  {| on_serve := Z.testbit z 0; on_error := Z.testbit z 1; on_accept := Z.testbit z 2; on_close := Z.testbit z 3 |}.

Fixpoint parse_events (l : list val) : option (list event) :=
  match l with
  | [] => Some []
  | v :: t => match parse_event v, parse_events t with Some e, Some r => Some (e :: r) | _, _ => None end
  end.

(* ---------- the validator ----------
   Decides whether SOME run of the LTS produces the log: the set of LTS states compatible with the
   log so far is explored depth-first (the observable step for the next event if it is enabled, else
   hidden steps -- those of the event's own goroutine first), with the set of (position, state) pairs
   already seen kept so that nothing is explored twice and hidden cycles (Shutdown's retry loop)
   terminate.  After the last event the run must be extendable by hidden steps to a final state; its
   projection is the summary.  A log that no run produces exhausts the search: [None]. *)
(* visited states, one bucket per position in the log (indexed by the number of events left) *)
Definition seen := list (list (list Z)).
Fixpoint mem_bucket (e : list Z) (B : list (list Z)) : bool :=
  match B with [] => false | e' :: t => zlist_eqb e e' || mem_bucket e t end.
Definition mem_seen (n : nat) (e : list Z) (V : seen) : bool := mem_bucket e (nth n V []).
Fixpoint add_seen (n : nat) (e : list Z) (V : seen) : seen :=
  match n, V with
  | O, B :: t => (e :: B) :: t
  | O, [] => [[e]]
  | S m, B :: t => B :: add_seen m e t
  | S m, [] => [] :: add_seen m e []
  end.

Definition ev_gor (ev : event) : option gor :=
  match ev with
  | EObs o => match o with
              | OServeCb | OAccept _ | OAcceptCb _ _ _ | OServeReturn _ => Some GServe
              | OConnClose c | ORead c _ | OHandlerStart c | OHandlerEnd c _ | OWrite c _ | OCloseCb c _ => Some (GConn c)
              | OSdCall | OSdReturn _ => Some GShutdown
              | _ => None
              end
  | EClientRecv c _ | EClientClosed c => Some (GConn c)
  end.
Definition gor_eqb (a b : gor) : bool :=
  match a, b with
  | GServe, GServe | GShutdown, GShutdown | GCaller, GCaller | GAfter, GAfter => true
  | GConn c, GConn d => Nat.eqb c d
  | _, _ => false
  end.

(* hidden successors, those of goroutine g first *)
Definition hidden_labels (k : cfg) (s : state) : list label :=
  filter (fun l => match observe k s l with None => true | Some _ => false end) (hidden_cands k s) ++ [LSdReturn; LSdTimeout].
Definition hidden_succs_for (k : cfg) (s : state) (g : option gor) : list state :=
  let ls := hidden_labels k s in
  let mine := filter (fun l => match g with Some g' => gor_eqb (label_gor l) g' | None => false end) ls in
  let rest := filter (fun l => match g with Some g' => negb (gor_eqb (label_gor l) g') | None => true end) ls in
  flat_map (fun l => match step_now k s l with Some s' => [s'] | None => [] end) (mine ++ rest).

(* ways of consuming event ev in state s *)
Definition consume (k : cfg) (ev : event) (s : state) : list state :=
  match ev with
  | EObs (OSdReturn EPanic) => []          (* Shutdown does not panic *)
  | EObs (OSdReturn e) =>
      if negb (sd_req s) && match sd s with SdReturned e' => enc_err e =? enc_err e' | _ => false end then [s] else []
  | EObs o => succs_by k s (obs_cands (length (conns s)) o) (Some o)
  | EClientRecv c n => match LifecycleModel.get s c with Some x => if (n <=? replied x)%nat then [s] else [] | None => [] end
  | EClientClosed c => match LifecycleModel.get s c with Some x => if sock x then [] else [s] | None => [] end
  end.

(* search state: what has been seen and how many expansions are left *)
Definition sstate := (seen * nat)%type.

Fixpoint dfs (depth : nat) (k : cfg) (evs : list event) (s : state) (st : sstate) : option state * sstate :=
  match depth with
  | O => (None, st)
  | S d =>
      let '(V, budget) := st in
      match budget with
      | O => (None, st)
      | S b =>
          let n := length evs in
          let e := enc_state s in
          if mem_seen n e V then (None, st)
          else
            let st1 : sstate := (add_seen n e V, b) in
            let try_all :=
              fix try_all (opts : list (list event * state)) (st : sstate) : option state * sstate :=
                match opts with
                | [] => (None, st)
                | (evs', s') :: rest =>
                    match dfs d k evs' s' st with
                    | (Some r, st') => (Some r, st')
                    | (None, st') => try_all rest st'
                    end
                end in
            match evs with
            | [] =>
                if quiescent k s then (Some s, st1)
                else try_all (map (fun s' => ([], s')) (hidden_succs_for k s None)) st1
            | ev :: t =>
                try_all (map (fun s' => (t, s')) (consume k ev s)
                         ++ map (fun s' => (evs, s')) (hidden_succs_for k s (ev_gor ev))) st1
            end
      end
  end.

(* A Shutdown call logs whether its context is generous (15 s: it must not expire in a run that
   releases every blocked handler) or short.  The LTS leaves the expiry of Shutdown's context to the
   environment (LSdTimeout); by C17_shutdown_progress a Shutdown whose connections are outside an
   exchange returns by its own steps, so the expiry of a generous context is not a behaviour of a
   correct server: such a log is rejected. *)
Fixpoint timeouts_ok (evs : list val) (generous : bool) : bool :=
  match evs with
  | [] => true
  | VL [VI code; _; VI a; _] :: t =>
      if code =? 12 then timeouts_ok t (negb (a =? 0))
      else if code =? 13 then negb (generous && (a =? 3)) && timeouts_ok t false
      else timeouts_ok t generous
  | _ :: t => timeouts_ok t generous
  end.

(* A failed reply write logs why it failed: 0 the server side had closed the socket, 1 the peer (reset /
   gone), 2 the write deadline had ALREADY passed when the server set it.  The LTS leaves a failing write
   on an open socket to the environment (the peer); the code sets the deadline to now + WriteTimeout, so a
   deadline that is in the past when it is set is not a behaviour of the code, however long the handler
   took: such a log is rejected, and the verdict counts it as a started handler whose reply was not
   delivered. *)
Fixpoint writes_ok (evs : list val) : bool :=
  match evs with
  | [] => true
  | VL [VI code; _; VI a; VI b] :: t => negb ((code =? 9) && (a =? 0) && (b =? 2)) && writes_ok t
  | _ :: t => writes_ok t
  end.

Definition run_lifecycle (a : list val) : val :=
  match a with
  | [VI kz; VL _script; VL evs] =>
      let k := cfg_of kz in
      match (if timeouts_ok evs false && writes_ok evs then parse_events evs else None) with
      | None => v_bad
      | Some l =>
          match fst (dfs (40 * 100)%nat k l init ([], (200 * 100)%nat)) with
          | Some s => v_ok [summary s]
          | None => v_bad                      (* no run of the LTS produces this log *)
          end
      end
  | _ => v_bad
  end.

(* ---------- the property's own statement, judged on the observed log and summary ----------
   Independent of the LTS: plain counting over the event log.  Arguments of a case:
     [cfg; script; log; extra]   extra = [serve returned within the bound after cancel/shutdown (0/1);
                                          a connect attempted after a successful Shutdown was refused (0/1/2 = not tried);
                                          a panic escaped into the harness (0/1)]
   Outcome: v_ok [summary]. *)
(* the regions of the former known findings 165-168 (accept-then-cancel leak, connection tracked after
   Shutdown, Shutdown before serve, reply lost through the failed-CAS window) are repaired in /repo:
   what used to be reported under those codes is now an ordinary violation *)
Definition is_obs (f : obs -> bool) (e : event) : bool := match e with EObs o => f o | _ => false end.
Definition cnt (f : obs -> bool) (l : list event) : nat := List.length (filter (is_obs f) l).
Definition any (f : obs -> bool) (l : list event) : bool := existsb (is_obs f) l.

Definition ev_accept (c : nat) (o : obs) := match o with OAccept d => Nat.eqb c d | _ => false end.
Definition ev_cb_ok (c : nat) (o : obs) := match o with OAcceptCb d _ true => Nat.eqb c d | _ => false end.
Definition ev_cb_rej (c : nat) (o : obs) := match o with OAcceptCb d _ false => Nat.eqb c d | _ => false end.
Definition ev_close (c : nat) (o : obs) := match o with OConnClose d => Nat.eqb c d | _ => false end.
Definition ev_closecb (c : nat) (o : obs) := match o with OCloseCb d _ => Nat.eqb c d | _ => false end.
Definition ev_read (c : nat) (o : obs) := match o with ORead d _ => Nat.eqb c d | _ => false end.
Definition ev_any_accept (o : obs) := match o with OAccept _ => true | _ => false end.
Definition ev_sd_nil (o : obs) := match o with OSdReturn ENil => true | _ => false end.
Definition ev_sd_panic (o : obs) := match o with OSdReturn EPanic => true | _ => false end.
Definition ev_cancel (o : obs) := match o with OCancel => true | _ => false end.
Definition ev_serve_ret (o : obs) := match o with OServeReturn _ => true | _ => false end.
Definition ev_serve_closed (o : obs) := match o with OServeReturn EClosed => true | _ => false end.

(* was connection c let through by the accept stage within log l *)
Definition passed (k : cfg) (l : list event) (c : nat) : bool :=
  any (ev_accept c) l && (negb (on_accept k) || any (ev_cb_ok c) l).

(* "the accept callback is told the true number of live connections".  A connection that was let
   through is live until it is un-counted, which the code does just before its close callback: when
   the close callback is set, the argument must be EXACTLY 1 + the number of connections let through
   so far whose close callback has not started (a connection whose socket is closed and whose close
   callback is running is not live).  Without a close callback the moment of un-counting is not
   observable; the argument must then lie between lo = passed connections on which the server has not
   called Close yet (surely live) and hi = all passed connections not known to be gone. *)
Fixpoint accept_counts_ok (k : cfg) (nconn : nat) (pre : list event) (rest : list event) : bool :=
  match rest with
  | [] => true
  | e :: t =>
      (match e with
       | EObs (OAcceptCb c n _) =>
           let others := filter (fun d => negb (Nat.eqb d c)) (seq 0 nconn) in
           let lo := List.length (filter (fun d => passed k pre d && negb (any (ev_close d) pre)) others) in
           let hi := List.length (filter (fun d => passed k pre d && negb (any (ev_closecb d) pre)) others) in
           if on_close k then n =? Z.of_nat hi + 1
           else (Z.of_nat lo + 1 <=? n) && (n <=? Z.of_nat hi + 1)
       | _ => true
       end) && accept_counts_ok k nconn (pre ++ [e]) t
  end.

(* per connection: walk its events; a reply is owed from handler start until the write *)
Fixpoint owed_ok (c : nat) (l : list event) (pending : bool) (closed : bool) : bool :=
  match l with
  | [] => negb pending
  | EObs (OHandlerStart d) :: t => if Nat.eqb c d then owed_ok c t true closed else owed_ok c t pending closed
  | EObs (OHandlerEnd d ok) :: t =>
      if Nat.eqb c d then owed_ok c t (if ok then pending else false) closed else owed_ok c t pending closed
  | EObs (OWrite d ok) :: t =>
      if Nat.eqb c d then (if ok then owed_ok c t false closed
                           else if closed then negb pending && owed_ok c t false closed   (* lost to the server's own close *)
                           else owed_ok c t false closed)                                  (* the peer's fault *)
      else owed_ok c t pending closed
  | EObs (OConnClose d) :: t =>
      if Nat.eqb c d then negb pending && owed_ok c t pending true else owed_ok c t pending closed
  | _ :: t => owed_ok c t pending closed
  end.

(* Shutdown returned from a pass that found everything idle: nil, or the error of closing a listener
   that an earlier call (or a cancel) had closed already *)
Definition ev_sd_graceful (o : obs) := match o with OSdReturn ENil | OSdReturn EOther => true | _ => false end.
(* at EVERY such return (not only the first): each connection Accept had returned by then is closed, or
   was not tracked yet and is never served afterwards *)
Fixpoint graceful_returns_ok (ids : list nat) (all : list event) (pre rest : list event) : bool :=
  match rest with
  | [] => true
  | e :: t =>
      (if is_obs ev_sd_graceful e
       then forallb (fun c => negb (any (ev_accept c) pre) || any (ev_close c) pre || negb (any (ev_read c) all)) ids
       else true) && graceful_returns_ok ids all (pre ++ [e]) t
  end.

Fixpoint split_at_sd_nil (pre : list event) (l : list event) : option (list event * list event) :=
  match l with
  | [] => None
  | e :: t => if is_obs ev_sd_nil e then Some (pre ++ [e], t) else split_at_sd_nil (pre ++ [e]) t
  end.

Definition summary_conn_field (sm : val) (c : nat) (i : nat) : Z :=
  match sm with
  | VL [_; _; _; _; VL cs] => match nth_error cs c with Some (VL fs) => match nth_error fs i with Some (VI z) => z | _ => -99 end | _ => -99 end
  | _ => -99
  end.

Definition verdict_lifecycle_C17 (a : list val) (o : val) : N :=
  match a, o with
  | [VI kz; VL _; VL evs; VL [VI inbound; VI refused; VI escaped]], VL [VI 0; sm] =>
      match parse_events evs with
      | None => VIOLATES
      | Some l =>
          let k := cfg_of kz in
          let nconn := cnt ev_any_accept l in
          let ids := seq 0 nconn in
          (* no crash *)
          if negb (escaped =? 0) then VIOLATES
          else if any ev_sd_panic l then VIOLATES
          (* graceful shutdown: a Shutdown given a generous context returns by itself (nil, or the listener's
             close error), it does not sit until the context expires *)
          else if negb (timeouts_ok evs false) then VIOLATES
          (* every started handler's reply is written: the server does not give its own write an expired deadline *)
          else if negb (writes_ok evs) then VIOLATES
          else
          (* accounting *)
          if negb (accept_counts_ok k nconn [] l) then VIOLATES
          (* rejected connections are closed, never served, no close callback *)
          else if negb (forallb (fun c => negb (any (ev_cb_rej c) l) ||
                          (any (ev_close c) l && negb (any (ev_read c) l) && negb (any (ev_closecb c) l)
                           && (summary_conn_field sm c 4 =? 1) && (summary_conn_field sm c 2 =? 0))) ids) then VIOLATES
          (* close callback exactly once per accepted connection iff set *)
          else
            (* every connection that was let through is closed by the server in the end: none is left open *)
            let leaked := filter (fun c => passed k l c && negb (any (ev_close c) l)) ids in
            let served := filter (fun c => passed k l c && any (ev_close c) l) ids in
            if negb (forallb (fun c => Nat.eqb (cnt (ev_closecb c) l) (if on_close k then 1 else 0)
                                       && (summary_conn_field sm c 2 =? (if on_close k then 1 else 0))) served) then VIOLATES
            else if match leaked with [] => false | _ => true end then VIOLATES
            else
            (* serve's return after cancel / shutdown *)
            if (any ev_cancel l || any ev_sd_nil l) && negb (any ev_serve_closed l && (inbound =? 1)) then VIOLATES
            else
            (* graceful shutdown, for every graceful return of Shutdown *)
            if negb (graceful_returns_ok ids l [] l) then VIOLATES
            else if any ev_sd_graceful l && negb (forallb (fun c => owed_ok c l false false) ids) then VIOLATES
            else
            match split_at_sd_nil [] l with
            | Some (pre, post) => if any ev_any_accept post || (refused =? 0) then VIOLATES else HOLDS
            | None => HOLDS
            end
      end
  | _, _ => VIOLATES
  end.

Definition run_lifecycle4 (a : list val) : val :=
  match a with
  | [k; s; e; _] => run_lifecycle [k; s; e]
  | _ => v_bad
  end.

(* Stream lifecycle_flood (harness/cmd/observe/lifecycleflood.go): one Shutdown call under a flood of
   pipelined requests; args [try; Shutdown result; handlers started - replies written; writes failed
   on the connection the server had closed].  The absolute counts are scheduling noise and are not
   compared; by C17_shutdown_replies_complete no run of the LTS loses a reply, so a run in which
   Shutdown returned nil and a started handler's reply was lost violates C17 (before fix fb6684d this
   was known finding 168). *)
Definition run_flood (_ : list val) : val := v_ok [].
Definition verdict_flood_C17 (a : list val) (o : val) : N :=
  match a with
  | [VI _; VI code; VI lost; VI failed] =>
      if code =? 0 then (if (lost =? 0) && (failed =? 0) then HOLDS else VIOLATES) else NOT_JUDGED
  | _ => VIOLATES
  end.

(* Stream lifecycle_reserve: the SAME Server value served a second time (first Serve ended by cancelling
   its context while one of its connections is still alive; Serve again on a new listener; Shutdown).
   Serving again is a step of the LTS (LReServe, logged as event 18): the log is replayed through the
   validator like every other run, and judged by [verdict_lifecycle_C17].  (The 5th argument repeats the
   observed summary; it is not used.) *)
Definition run_reserve (a : list val) : val :=
  match a with
  | [k; s; e; _; _] => run_lifecycle [k; s; e]
  | _ => v_bad
  end.
Definition verdict_reserve_C17 (a : list val) (o : val) : N :=
  match a with
  | [k; s; e; x; _] => verdict_lifecycle_C17 [k; s; e; x] o
  | _ => VIOLATES
  end.

Definition table_lifecycle : list entry :=
  [ {| e_name := "lifecycle"; e_run := run_lifecycle4;
       e_verdict := fun p a o => if (p =? 17)%N then verdict_lifecycle_C17 a o else NOT_JUDGED |};
    {| e_name := "lifecycle_reserve"; e_run := run_reserve;
       e_verdict := fun p a o => if (p =? 17)%N then verdict_reserve_C17 a o else NOT_JUDGED |};
    {| e_name := "lifecycle_flood"; e_run := run_flood;
       e_verdict := fun p a o => if (p =? 17)%N then verdict_flood_C17 a o else NOT_JUDGED |} ].
