(* CrcSpec.v -- the CRC of "MODBUS over Serial Line, Specification and Implementation Guide V1.02",
   section 2.5.1.2 and appendix B ("CRC Generation"), written on bit vectors and independently of
   the code:

     1. Load a 16-bit register with FFFF hex (all 1's).
     2. Exclusive OR the first 8-bit byte of the message with the low-order byte of the register.
     3. Shift the CRC register one bit to the right (toward the LSB), zero-filling the MSB.
        Extract and examine the LSB.
     4. If the LSB was 0: repeat step 3.  If the LSB was 1: exclusive OR the CRC register with the
        polynomial value 0xA001 (1010 0000 0000 0001).
     5. Repeat steps 3 and 4 until 8 shifts have been performed.
     6. Repeat steps 2 through 5 for the next byte, until all bytes have been processed.
     7. The final content of the CRC register is the CRC value; it is appended low byte first.

   A register is a [list bool], least significant bit first. *)
Require Import MB.GoSem.
Open Scope N_scope.

Definition bv := list bool.
Fixpoint bv_of_N (w : nat) (n : N) : bv :=
  match w with O => [] | S k => N.odd n :: bv_of_N k (N.div2 n) end.
Fixpoint N_of_bv (v : bv) : N :=
  match v with [] => 0 | b :: r => (if b then 1 else 0) + 2 * N_of_bv r end.
Fixpoint xorv (a b : bv) : bv :=
  match a, b with x :: a', y :: b' => xorb x y :: xorv a' b' | _, _ => a end.

(* 0xA001 = 1010 0000 0000 0001, written LSB first *)
Definition poly : bv :=
  [true; false; false; false;  false; false; false; false;
   false; false; false; false; false; true; false; true].

Definition spec_bit_step (r : bv) : bv :=
  match r with
  | [] => []
  | lsb :: rest => let sh := rest ++ [false] in if lsb then xorv sh poly else sh
  end.
Definition spec_byte_step (r : bv) (b : bv) : bv := iter 8 spec_bit_step (xorv r b).
Definition spec_crc (l : list bv) : bv := fold_left spec_byte_step l (repeat true 16).

Definition bits8 (b : N) : bv := bv_of_N 8 b.
(* the CRC of a message given as bytes, as a number *)
Definition spec_crc16 (l : list N) : N := N_of_bv (spec_crc (map bits8 l)).
(* the two bytes transmitted after the message: low-order byte first (section 2.5.1.2) *)
Definition spec_trailer (l : list N) : list N :=
  let c := spec_crc (map bits8 l) in [N_of_bv (firstn 8 c); N_of_bv (skipn 8 c)].
