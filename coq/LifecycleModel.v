(* LifecycleModel.v -- labelled transition system of server/server.go (property C17).
   Definitions only.  One step = one atomic action of the code AS IT IS NOW (after the fix: commits
   7acbe3f e8510bb 26d02fd f337e9e fb6684d c43a822 ac00631 17ec04c), tagged with the goroutine taking
   it.  The step relation is an executable function
   [step : variant -> cfg -> state -> label -> option state]; [GuardNow] is the current code, the other
   variants switch single fixes off (comparison lemmas in Properties/C17.v).

   What is transcribed (server/server.go):
     serve          : LServeCb, LPublish (lock; store listener; read isShutdown; unlock), LAccept, LAcceptCb,
                      LRejectClose, LCtxPass / LCtxDone (the select), LTrack (trackConn(c,true), may refuse),
                      LDropClose, LDropCb (close + close callback of a connection that is not served),
                      LServeReturn
     go func(){..}  : (handle) LConnRead .. LHandleEnd, LConnCtxExit;  (deferred) LConnLeave, LErrCb,
                      LConnExit, LUntrack, LCloseCb
     trackConn      : LTrack / LUntrack (lock; map update; counter add; unlock = one atomic step)
     Shutdown       : LSdCall, LSdBegin, LSdCas, LSdLoad, LSdClose, LSdPassEnd, LSdRetry, LSdTimeout, LSdReturn
     context        : LCancel (caller), LAfterClose (goroutine started by context.AfterFunc)
     I/O faults     : LRejectCloseErr, LDropCloseErr, LConnExitErr (Close() failing), LServeErrCb (serve reporting it)
   The environment (peers, handler, clock) is the nondeterminism of the labels.  *)
From Coq Require Import List Arith ZArith Bool.
Import ListNotations.

(* ---------- configuration: which optional callbacks are set ---------- *)
Record cfg := { on_serve : bool; on_error : bool; on_accept : bool; on_close : bool }.

Definition all_cfgs : list cfg :=
  flat_map (fun a => flat_map (fun b => flat_map (fun c => map (fun d =>
    {| on_serve := a; on_error := b; on_accept := c; on_close := d |}) [false; true]) [false; true]) [false; true]) [false; true].

(* which field guards the call of OnCloseConnFunc in the deferred function of the connection
   goroutine: the code before fix 7acbe3f tested OnAcceptConnFunc, the code now tests OnCloseConnFunc.
   The other switches select the behaviour before the later fix: commits, so that the step function
   of the code as it is now ([GuardNow], all switches off) can be compared with its predecessors:
     v_load_old  (before fb6684d) Shutdown's fall-through after a failed CAS tested `Load() == handling`
     v_track_old (before c43a822) trackConn(c,true) added the connection even after Shutdown
     v_drop_old  (before ac00631) the select on ctx.Done() returned without closing the accepted connection
     v_nil_old   (before 17ec04c) Shutdown called s.listener.Close() on a nil listener; serve did not
                 look at isShutdown when publishing the listener *)
Record variant := { v_guard_old : bool; v_load_old : bool; v_track_old : bool; v_drop_old : bool; v_nil_old : bool;
                    v_raw_err : bool; v_map_reset : bool }.
Definition GuardNow : variant := Build_variant false false false false false false false.
Definition GuardOld : variant := Build_variant true false false false false false false.
Definition LoadOld : variant := Build_variant false true false false false false false.
Definition TrackOld : variant := Build_variant false false true false false false false.
Definition DropOld : variant := Build_variant false false false true false false false.
Definition NilOld : variant := Build_variant false false false false true false false.
(* not a historical version: the reject path reporting a close error through the raw field s.OnErrorFunc
   instead of the local onErrorFunc (which carries the logging default) *)
Definition RawErr : variant := Build_variant false false false false false true false.
(* not a historical version either: serve() allocating Server.activeConnections afresh every time it is
   called, so that serving the same Server value again forgets the connections of the earlier call *)
Definition MapReset : variant := Build_variant false false false false false false true.
Definition close_guard (v : variant) (k : cfg) : bool :=
  if v_guard_old v then on_accept k else on_close k.

(* ---------- per-connection state ---------- *)
Inductive phase :=
| PAccepted    (* Accept returned it; not (yet) tracked: callback pending / passed / leaked by serve's return *)
| PRejected    (* accept callback refused it and serve closed it; terminal *)
| PIdle        (* tracked, goroutine at the top of handle()'s loop (tracked-idle) *)
| PReadDone    (* Read returned data, compare-and-swap idle->handling not yet attempted *)
| PHandling    (* CAS succeeded, inside ReceiveRead, not inside the user's handler *)
| PInHandler   (* inside ModbusHandler.Handle *)
| PReplied     (* reply written, state not yet stored back to idle (replying) *)
| PLeaving     (* handle() is returning; deferred Store(connClosed) not yet done *)
| PExiting     (* Store(connClosed) done; deferred function: recover done, conn.Close() not yet *)
| PExited      (* conn.Close() done, trackConn(c,false) not yet *)
| PUntracked   (* untracked, close callback not yet consulted *)
| PDone        (* goroutine finished *)
| PDropping    (* let through by the accept stage but not going to be served: serve has closed it, close callback pending *)
| PDropped.    (* let through by the accept stage but not served: serve closed it and ran the close callback
                  (context cancelled in the select, or trackConn refused it after Shutdown); terminal *)

Inductive cstate := CIdle | CHandling | CClosed.          (* connection.state atom *)

(* ghost: how Shutdown came to close the connection *)
Inductive via := ViaNone | ViaCas | ViaLoadClosed | ViaLoadIdle.

Record conn := {
  ph : phase;
  cst : cstate;
  sock : bool;             (* socket open *)
  inmap : bool;            (* member of Server.activeConnections *)
  resp : bool;             (* ReceiveRead has produced bytes to send (toSend != nil) *)
  closeconn : bool;        (* ReceiveRead asked to close the connection *)
  panicked : bool;         (* the handler panicked; recovered in the deferred function *)
  pend_err : bool;         (* onErrorFunc is the next action of this goroutine *)
  (* ghost *)
  close_cb : nat;          (* invocations of OnCloseConnFunc for this connection *)
  acc_arg : option Z;      (* connectionCount argument OnAcceptConnFunc was given *)
  live_at_cb : Z;          (* number of live (tracked, not yet untracked) connections at that call *)
  started : nat;           (* handler invocations *)
  replied : nat;           (* requests whose reply was written completely *)
  owed : list nat;         (* requests whose handler started and whose reply is still due: not yet written,
                              the handler has not panicked and no write of it has failed *)
  lost : nat;              (* owed replies whose write failed on a socket the server side had closed *)
  sd_via : via
}.

Definition new_conn : conn :=
  {| ph := PAccepted; cst := CIdle; sock := true; inmap := false; resp := false; closeconn := false;
     panicked := false; pend_err := false; close_cb := 0; acc_arg := None; live_at_cb := 0%Z; started := 0;
     replied := 0; owed := []; lost := 0; sd_via := ViaNone |}.

(* field updates *)
Definition c_ph (p : phase) (x : conn) : conn :=
  Build_conn p (cst x) (sock x) (inmap x) (resp x) (closeconn x) (panicked x) (pend_err x) (close_cb x) (acc_arg x) (live_at_cb x) (started x) (replied x) (owed x) (lost x) (sd_via x).
Definition c_cst (v : cstate) (x : conn) : conn :=
  Build_conn (ph x) v (sock x) (inmap x) (resp x) (closeconn x) (panicked x) (pend_err x) (close_cb x) (acc_arg x) (live_at_cb x) (started x) (replied x) (owed x) (lost x) (sd_via x).
Definition c_sock (v : bool) (x : conn) : conn :=
  Build_conn (ph x) (cst x) v (inmap x) (resp x) (closeconn x) (panicked x) (pend_err x) (close_cb x) (acc_arg x) (live_at_cb x) (started x) (replied x) (owed x) (lost x) (sd_via x).
Definition c_inmap (v : bool) (x : conn) : conn :=
  Build_conn (ph x) (cst x) (sock x) v (resp x) (closeconn x) (panicked x) (pend_err x) (close_cb x) (acc_arg x) (live_at_cb x) (started x) (replied x) (owed x) (lost x) (sd_via x).
Definition c_resp (v : bool) (x : conn) : conn :=
  Build_conn (ph x) (cst x) (sock x) (inmap x) v (closeconn x) (panicked x) (pend_err x) (close_cb x) (acc_arg x) (live_at_cb x) (started x) (replied x) (owed x) (lost x) (sd_via x).
Definition c_closeconn (v : bool) (x : conn) : conn :=
  Build_conn (ph x) (cst x) (sock x) (inmap x) (resp x) v (panicked x) (pend_err x) (close_cb x) (acc_arg x) (live_at_cb x) (started x) (replied x) (owed x) (lost x) (sd_via x).
Definition c_panicked (v : bool) (x : conn) : conn :=
  Build_conn (ph x) (cst x) (sock x) (inmap x) (resp x) (closeconn x) v (pend_err x) (close_cb x) (acc_arg x) (live_at_cb x) (started x) (replied x) (owed x) (lost x) (sd_via x).
Definition c_pend (v : bool) (x : conn) : conn :=
  Build_conn (ph x) (cst x) (sock x) (inmap x) (resp x) (closeconn x) (panicked x) v (close_cb x) (acc_arg x) (live_at_cb x) (started x) (replied x) (owed x) (lost x) (sd_via x).
Definition c_close_cb (v : nat) (x : conn) : conn :=
  Build_conn (ph x) (cst x) (sock x) (inmap x) (resp x) (closeconn x) (panicked x) (pend_err x) v (acc_arg x) (live_at_cb x) (started x) (replied x) (owed x) (lost x) (sd_via x).
Definition c_acc (v : option Z) (w : Z) (x : conn) : conn :=
  Build_conn (ph x) (cst x) (sock x) (inmap x) (resp x) (closeconn x) (panicked x) (pend_err x) (close_cb x) v w (started x) (replied x) (owed x) (lost x) (sd_via x).
Definition c_started (v : nat) (x : conn) : conn :=
  Build_conn (ph x) (cst x) (sock x) (inmap x) (resp x) (closeconn x) (panicked x) (pend_err x) (close_cb x) (acc_arg x) (live_at_cb x) v (replied x) (owed x) (lost x) (sd_via x).
Definition c_replied (v : nat) (x : conn) : conn :=
  Build_conn (ph x) (cst x) (sock x) (inmap x) (resp x) (closeconn x) (panicked x) (pend_err x) (close_cb x) (acc_arg x) (live_at_cb x) (started x) v (owed x) (lost x) (sd_via x).
Definition c_owed (v : list nat) (x : conn) : conn :=
  Build_conn (ph x) (cst x) (sock x) (inmap x) (resp x) (closeconn x) (panicked x) (pend_err x) (close_cb x) (acc_arg x) (live_at_cb x) (started x) (replied x) v (lost x) (sd_via x).
Definition c_lost (v : nat) (x : conn) : conn :=
  Build_conn (ph x) (cst x) (sock x) (inmap x) (resp x) (closeconn x) (panicked x) (pend_err x) (close_cb x) (acc_arg x) (live_at_cb x) (started x) (replied x) (owed x) v (sd_via x).
Definition c_via (v : via) (x : conn) : conn :=
  Build_conn (ph x) (cst x) (sock x) (inmap x) (resp x) (closeconn x) (panicked x) (pend_err x) (close_cb x) (acc_arg x) (live_at_cb x) (started x) (replied x) (owed x) (lost x) v.

(* ghost bookkeeping: ViaLoadIdle (the fall-through after a failed CAS saw `idle`) is never overwritten *)
Definition via_set (n : via) (x : conn) : conn :=
  match sd_via x with ViaLoadIdle => x | _ => c_via n x end.

(* ---------- global state ---------- *)
Inductive err := ENil | EClosed (* ErrServerClosed *) | EOther | ECtx (* ctx.Err() *) | EPanic (* nil listener dereferenced in the caller's goroutine *).

Inductive spc :=             (* program counter of serve *)
| SStart                     (* before the OnServeFunc test *)
| SCalled                    (* OnServeFunc consulted, listener not yet published *)
| SLoop                      (* about to call Accept *)
| SAccepted (c : nat)        (* Accept returned c, OnAcceptConnFunc is set and not yet called *)
| SRejected (c : nat)        (* callback returned an error, netConn.Close() pending *)
| SPassed (c : nat)          (* callback passed (or unset); select on ctx.Done() pending *)
| STrack (c : nat)           (* ctx not done; trackConn(c,true) and go pending *)
| SDrop (c : nat) (ret : bool)     (* c is not going to be served (ret: ctx done in the select, serve returns
                                      afterwards; else trackConn refused it, serve continues): netConn.Close() pending *)
| SDropCb (c : nat) (ret : bool)   (* closed; `if s.OnCloseConnFunc != nil { call }` pending *)
| SErrCb (c : nat) (next : nat)    (* netConn.Close() of c returned an error, `onErrorFunc(..)` pending; then: next = 0 continue
                                      (reject path), 1 / 2 = the close callback of the dropped connection (ret = true / false) *)
| SLeaving (reg : bool)            (* about to `return ErrServerClosed` (reg: the AfterFunc has been registered) *)
| SReturned (e : err).

Inductive sdpc :=            (* program counter of Shutdown *)
| SdIdle
| SdPass (todo : list nat) (allidle : bool)               (* inside `for c := range activeConnections`, todo = not yet visited *)
| SdFailed (c : nat) (todo : list nat) (allidle : bool)   (* CAS idle->closed failed for c, state.Load() pending *)
| SdClosing (c : nat) (todo : list nat) (allidle : bool)  (* conn.Close(); delete pending for c *)
| SdWait                                                  (* in the select: ctx.Done() / 50 ms timer *)
| SdReturned (e : err).

Record state := {
  conns : list conn;        (* connection c = c-th connection handed out by Accept *)
  lis_set : bool;           (* s.listener published *)
  lis_open : bool;
  shut : bool;              (* isShutdown *)
  cancelled : bool;         (* serve's context *)
  sp : spc;
  sd : sdpc;
  sd_req : bool;            (* Shutdown has been called and is waiting for mu *)
  sd_err : bool;            (* listener.Close() in Shutdown returned an error (listener was closed already) *)
  mu : bool;                (* s.mu is held across steps; only Shutdown does that (every other critical section is one step) *)
  count : Z;                (* activeConnectionCount *)
  crashed : bool;           (* a nil function value was called: the process is gone *)
  errs : nat;               (* ghost: invocations of the user's OnErrorFunc *)
  upto : nat                (* connections 0 .. upto-1 were accepted by an earlier call of serve, whose context is cancelled *)
}.

Definition init : state :=
  {| conns := []; lis_set := false; lis_open := true; shut := false; cancelled := false; sp := SStart; sd := SdIdle;
     sd_req := false; sd_err := false; mu := false; count := 0%Z; crashed := false; errs := 0; upto := 0 |}.

Definition s_conns v s := Build_state v (lis_set s) (lis_open s) (shut s) (cancelled s) (sp s) (sd s) (sd_req s) (sd_err s) (mu s) (count s) (crashed s) (errs s) (upto s).
Definition s_lis_set v s := Build_state (conns s) v (lis_open s) (shut s) (cancelled s) (sp s) (sd s) (sd_req s) (sd_err s) (mu s) (count s) (crashed s) (errs s) (upto s).
Definition s_lis_open v s := Build_state (conns s) (lis_set s) v (shut s) (cancelled s) (sp s) (sd s) (sd_req s) (sd_err s) (mu s) (count s) (crashed s) (errs s) (upto s).
Definition s_shut v s := Build_state (conns s) (lis_set s) (lis_open s) v (cancelled s) (sp s) (sd s) (sd_req s) (sd_err s) (mu s) (count s) (crashed s) (errs s) (upto s).
Definition s_cancelled v s := Build_state (conns s) (lis_set s) (lis_open s) (shut s) v (sp s) (sd s) (sd_req s) (sd_err s) (mu s) (count s) (crashed s) (errs s) (upto s).
Definition s_sp v s := Build_state (conns s) (lis_set s) (lis_open s) (shut s) (cancelled s) v (sd s) (sd_req s) (sd_err s) (mu s) (count s) (crashed s) (errs s) (upto s).
Definition s_sd v s := Build_state (conns s) (lis_set s) (lis_open s) (shut s) (cancelled s) (sp s) v (sd_req s) (sd_err s) (mu s) (count s) (crashed s) (errs s) (upto s).
Definition s_sd_req v s := Build_state (conns s) (lis_set s) (lis_open s) (shut s) (cancelled s) (sp s) (sd s) v (sd_err s) (mu s) (count s) (crashed s) (errs s) (upto s).
Definition s_sd_err v s := Build_state (conns s) (lis_set s) (lis_open s) (shut s) (cancelled s) (sp s) (sd s) (sd_req s) v (mu s) (count s) (crashed s) (errs s) (upto s).
Definition s_mu v s := Build_state (conns s) (lis_set s) (lis_open s) (shut s) (cancelled s) (sp s) (sd s) (sd_req s) (sd_err s) v (count s) (crashed s) (errs s) (upto s).
Definition s_count v s := Build_state (conns s) (lis_set s) (lis_open s) (shut s) (cancelled s) (sp s) (sd s) (sd_req s) (sd_err s) (mu s) v (crashed s) (errs s) (upto s).
Definition s_crashed v s := Build_state (conns s) (lis_set s) (lis_open s) (shut s) (cancelled s) (sp s) (sd s) (sd_req s) (sd_err s) (mu s) (count s) v (errs s) (upto s).
Definition s_errs v s := Build_state (conns s) (lis_set s) (lis_open s) (shut s) (cancelled s) (sp s) (sd s) (sd_req s) (sd_err s) (mu s) (count s) (crashed s) v (upto s).
Definition s_upto v s := Build_state (conns s) (lis_set s) (lis_open s) (shut s) (cancelled s) (sp s) (sd s) (sd_req s) (sd_err s) (mu s) (count s) (crashed s) (errs s) v.

(* ---------- labels ---------- *)
Inductive rres := RData | RTimeout | REof | RErr | RIdleTo.   (* result of conn.Read, RIdleTo = nothing for 25 s *)

Inductive gor := GServe | GConn (c : nat) | GShutdown | GCaller | GAfter.

Inductive label :=
(* serve *)
| LServeCb                          (* `if s.OnServeFunc != nil { s.OnServeFunc(..) }` *)
| LPublish                          (* lock; s.listener = listener; unlock; context.AfterFunc registered *)
| LAccept (c : nat)                 (* l.Accept() returned connection number c *)
| LAcceptCb (c : nat) (n : Z) (ok : bool)   (* s.OnAcceptConnFunc(.., n) returned nil / an error *)
| LRejectClose (c : nat)
| LCtxPass (c : nat)                (* select: ctx not done *)
| LCtxDone (c : nat)                (* select: ctx done *)
| LTrack (c : nat)                  (* trackConn(c,true) (refuses after Shutdown); go ... *)
| LDropClose (c : nat)              (* netConn.Close() of a connection that is not going to be served *)
| LDropCb (c : nat)                 (* `if s.OnCloseConnFunc != nil { s.OnCloseConnFunc(..) }` for it; return / continue *)
| LServeReturn (e : err)            (* accept failed, or ctx done in the select; deferred l.Close() *)
(* connection goroutine *)
| LConnRead (c : nat) (r : rres)
| LConnCtxExit (c : nat)            (* select at the top of the loop: cCtx done *)
| LHandleStart (c : nat)            (* state.CompareAndSwap(idle, handling); failure leaves handle() *)
| LHandlerStart (c : nat)           (* assembler calls Handler.Handle for the next complete frame *)
| LHandlerEnd (c : nat) (ok : bool) (* Handle returned (a response or an error) / panicked *)
| LProtoReply (c : nat)             (* assembler answers by itself (not Modbus TCP) and asks to close *)
| LReplyWrite (c : nat) (ok : bool) (* conn.Write(toSend) *)
| LHandleEnd (c : nat)              (* state.Store(idle); `if closeConn return` *)
| LErrCb (c : nat)                  (* onErrorFunc(err): the user's OnErrorFunc if set, else log.Printf *)
| LConnLeave (c : nat)              (* handle()'s deferred Store(closed), cancel; recover() *)
| LConnExit (c : nat)               (* conn.conn.Close() *)
| LUntrack (c : nat)                (* trackConn(c,false) *)
| LCloseCb (c : nat)                (* `if <guard> != nil { s.OnCloseConnFunc(..) }` *)
(* Shutdown *)
| LSdCall                           (* the caller invokes Shutdown: it now waits for mu *)
| LSdBegin                          (* Lock; isShutdown.Store(true); s.listener.Close() *)
| LSdCas (c : nat)                  (* c.state.CompareAndSwap(idle, closed) *)
| LSdLoad (c : nat)                 (* c.state.Load() == handling *)
| LSdClose (c : nat)                (* c.conn.Close(); delete(activeConnections, c) *)
| LSdPassEnd                        (* range finished with allIdle == false *)
| LSdRetry                          (* timer fired, next pass *)
| LSdTimeout                        (* ctx of Shutdown done: return ctx.Err() (deferred Unlock) *)
| LSdReturn                         (* range finished with allIdle == true: return err (deferred Unlock) *)
(* context *)
| LCancel
| LAfterClose                       (* the AfterFunc goroutine: l.Close() *)
(* Close() returning an error although the socket was open (an I/O fault of the environment) *)
| LRejectCloseErr (c : nat)         (* serve, reject path: `if err := netConn.Close(); err != nil` taken *)
| LDropCloseErr (c : nat)           (* serve, drop paths: likewise *)
| LConnExitErr (c : nat)            (* connection goroutine's deferred function: likewise *)
| LServeErrCb (c : nat)
| LReServe.                         (* the caller serves the SAME Server value again (new listener, new context) after a serve
                                       that was ended by cancelling its context has returned *)            (* serve: onErrorFunc(fmt.Errorf("connection.close error, ..")) -- the LOCAL onErrorFunc,
                                       which is the user's OnErrorFunc if set and the logging default otherwise *)

Definition label_gor (l : label) : gor :=
  match l with
  | LServeCb | LPublish | LAccept _ | LAcceptCb _ _ _ | LRejectClose _ | LCtxPass _ | LCtxDone _ | LTrack _
  | LDropClose _ | LDropCb _ | LServeReturn _ | LRejectCloseErr _ | LDropCloseErr _ | LServeErrCb _ => GServe
  | LConnRead c _ | LConnCtxExit c | LHandleStart c | LHandlerStart c | LHandlerEnd c _ | LProtoReply c
  | LReplyWrite c _ | LHandleEnd c | LErrCb c | LConnLeave c | LConnExit c | LUntrack c | LCloseCb c
  | LConnExitErr c => GConn c
  | LSdCall | LSdBegin | LSdCas _ | LSdLoad _ | LSdClose _ | LSdPassEnd | LSdRetry | LSdTimeout | LSdReturn => GShutdown
  | LCancel | LReServe => GCaller
  | LAfterClose => GAfter
  end.

(* ---------- helpers ---------- *)
Definition get (s : state) (c : nat) : option conn := nth_error (conns s) c.

Fixpoint upd (cs : list conn) (c : nat) (x : conn) : list conn :=
  match cs, c with
  | [], _ => []
  | _ :: t, O => x :: t
  | h :: t, S c' => h :: upd t c' x
  end.

Definition put (s : state) (c : nat) (x : conn) : state := s_conns (upd (conns s) c x) s.

(* live = tracked and not yet untracked: trackConn(c,true) done, trackConn(c,false) not yet.  This is what
   activeConnectionCount counts; a connection that Shutdown already deleted from the map is still live
   until its goroutine untracks it. *)
Definition is_live (p : phase) : bool :=
  match p with
  | PIdle | PReadDone | PHandling | PInHandler | PReplied | PLeaving | PExiting | PExited => true
  | _ => false
  end.
Fixpoint live_count (cs : list conn) : Z :=
  match cs with [] => 0%Z | x :: t => ((if is_live (ph x) then 1 else 0) + live_count t)%Z end.

Fixpoint inmap_ids (cs : list conn) (i : nat) : list nat :=
  match cs with [] => [] | x :: t => (if inmap x then [i] else []) ++ inmap_ids t (S i) end.

Fixpoint remove_nat (c : nat) (l : list nat) : list nat :=
  match l with [] => [] | d :: t => if Nat.eqb c d then remove_nat c t else d :: remove_nat c t end.
Fixpoint mem_nat (c : nat) (l : list nat) : bool :=
  match l with [] => false | d :: t => Nat.eqb c d || mem_nat c t end.

(* the AfterFunc that closes the listener on cancel has been registered *)
Definition published (p : spc) : bool := match p with SStart | SCalled => false | SLeaving reg => reg | _ => true end.
Definition returned (p : spc) : bool := match p with SReturned _ => true | _ => false end.
Definition err_is_closed (e : err) : bool := match e with EClosed => true | _ => false end.
Definition err_is_other (e : err) : bool := match e with EOther => true | _ => false end.

(* a step of connection c's goroutine that is not the pending onErrorFunc call *)
Definition conn_step (s : state) (c : nat) (p : phase) (f : conn -> option conn) : option state :=
  match get s c with
  | Some x => if negb (pend_err x) && (match ph x, p with
                                        | PIdle, PIdle | PReadDone, PReadDone | PHandling, PHandling | PInHandler, PInHandler
                                        | PReplied, PReplied | PLeaving, PLeaving | PExiting, PExiting | PExited, PExited
                                        | PUntracked, PUntracked => true
                                        | _, _ => false end)
              then match f x with Some y => Some (put s c y) | None => None end
              else None
  | None => None
  end.

(* ---------- the step function ---------- *)
Definition step (v : variant) (k : cfg) (s : state) (l : label) : option state :=
  if crashed s then None else
  match l with
  (* ----- serve ----- *)
  | LServeCb =>
      (* `if s.OnServeFunc != nil { call }`: the guard is the callback's own field *)
      match sp s with SStart => Some (s_sp SCalled s) | _ => None end
  | LPublish =>
      match sp s with
      | SCalled =>
          (* lock; s.listener = listener; isShutdown := s.isShutdown.Load(); unlock; `if isShutdown { return ErrServerClosed }` *)
          if mu s then None
          else Some (s_sp (if shut s && negb (v_nil_old v) then SLeaving false else SLoop) (s_lis_set true s))
      | _ => None
      end
  | LAccept c =>
      match sp s with
      | SLoop => if lis_open s && Nat.eqb c (length (conns s))
                 then Some (s_sp (if on_accept k then SAccepted c else SPassed c) (s_conns (conns s ++ [new_conn]) s))
                 else None
      | _ => None
      end
  | LAcceptCb c n ok =>
      match sp s, get s c with
      | SAccepted c', Some x =>
          if Nat.eqb c c' && on_accept k && Z.eqb n (count s + 1)
          then Some (s_sp (if ok then SPassed c else SRejected c) (put s c (c_acc (Some n) (live_count (conns s)) x)))
          else None
      | _, _ => None
      end
  | LRejectClose c =>
      match sp s, get s c with
      | SRejected c', Some x =>
          if Nat.eqb c c' then Some (s_sp SLoop (put s c (c_ph PRejected (c_sock false x)))) else None
      | _, _ => None
      end
  | LCtxPass c =>
      match sp s with
      | SPassed c' => if Nat.eqb c c' && negb (cancelled s) then Some (s_sp (STrack c) s) else None
      | _ => None
      end
  | LCtxDone c =>
      match sp s with
      | SPassed c' => if Nat.eqb c c' && cancelled s && negb (v_drop_old v) then Some (s_sp (SDrop c true) s) else None
      | _ => None
      end
  | LTrack c =>
      match sp s, get s c with
      | STrack c', Some x =>
          if Nat.eqb c c' && negb (mu s)
          then if shut s && negb (v_track_old v)
               then (* trackConn returns false: Shutdown has run, the connection is not added *)
                    Some (s_sp (SDrop c false) s)
               else Some (s_sp SLoop (s_count (count s + 1)%Z (put s c (c_ph PIdle (c_inmap true x)))))
          else None
      | _, _ => None
      end
  | LDropClose c =>
      match sp s, get s c with
      | SDrop c' r, Some x =>
          if Nat.eqb c c' then Some (s_sp (SDropCb c r) (put s c (c_ph PDropping (c_sock false x)))) else None
      | _, _ => None
      end
  | LDropCb c =>
      match sp s, get s c with
      | SDropCb c' r, Some x =>
          if Nat.eqb c c'
          then Some (s_sp (if r then SLeaving true else SLoop)
                       (put s c (c_ph PDropped (if on_close k then c_close_cb (S (close_cb x)) x else x))))
          else None
      | _, _ => None
      end
  | LServeReturn e =>
      let ret := Some (s_sp (SReturned e) (s_lis_open false s)) in
      match sp s with
      | SLoop =>
          (* Accept returned an error *)
          if shut s || cancelled s
          then (if err_is_closed e && negb (lis_open s) then ret else None)
          else (if err_is_other e then ret else None)
      | SLeaving _ =>
          (* `return ErrServerClosed` *)
          if err_is_closed e then ret else None
      | SPassed _ =>
          (* before ac00631: the select on ctx.Done() returned at once *)
          if v_drop_old v && cancelled s && err_is_closed e then ret else None
      | _ => None
      end
  (* ----- connection goroutine ----- *)
  | LConnRead c r =>
      conn_step s c PIdle (fun x =>
        match r with
        | RData => if sock x then Some (c_ph PReadDone x) else None
        | RTimeout => if sock x then Some x else None
        | REof => if sock x then Some (c_ph PLeaving x) else None
        | RIdleTo => if sock x then Some (c_ph PLeaving (c_pend true x)) else None
        | RErr => Some (c_ph PLeaving (c_pend true x))
        end)
  | LConnCtxExit c =>
      conn_step s c PIdle (fun x => if cancelled s || (c <? upto s)%nat then Some (c_ph PLeaving x) else None)
  | LHandleStart c =>
      conn_step s c PReadDone (fun x =>
        match cst x with
        | CIdle => Some (c_ph PHandling (c_cst CHandling (c_resp false (c_closeconn false x))))
        | _ => Some (c_ph PLeaving x)
        end)
  | LHandlerStart c =>
      conn_step s c PHandling (fun x =>
        if closeconn x then None
        else Some (c_ph PInHandler (c_started (S (started x)) (c_owed (owed x ++ [started x]) x))))
  | LHandlerEnd c ok =>
      conn_step s c PInHandler (fun x =>
        if ok then Some (c_ph PHandling (c_resp true x))
        else Some (c_ph PLeaving (c_panicked true (c_owed [] x))))
  | LProtoReply c =>
      conn_step s c PHandling (fun x =>
        if closeconn x then None else Some (c_resp true (c_closeconn true x)))
  | LReplyWrite c ok =>
      conn_step s c PHandling (fun x =>
        if resp x then
          if ok then (if sock x then Some (c_ph PReplied (c_replied (replied x + length (owed x)) (c_owed [] x))) else None)
          else Some (c_ph PLeaving (c_pend true (c_owed [] (c_lost (if sock x then lost x else lost x + length (owed x)) x))))
        else None)
  | LHandleEnd c =>
      match get s c with
      | Some x =>
          if negb (pend_err x) then
            match ph x with
            | PHandling => if resp x then None
                           else Some (put s c (c_ph (if closeconn x then PLeaving else PIdle) (c_cst CIdle x)))
            | PReplied => Some (put s c (c_ph (if closeconn x then PLeaving else PIdle) (c_cst CIdle x)))
            | _ => None
            end
          else None
      | None => None
      end
  | LErrCb c =>
      match get s c with
      | Some x => if pend_err x
                  then Some (s_errs (if on_error k then S (errs s) else errs s) (put s c (c_pend false x)))
                  else None
      | None => None
      end
  | LConnLeave c =>
      conn_step s c PLeaving (fun x => Some (c_ph PExiting (c_cst CClosed (c_pend (panicked x) x))))
  | LConnExit c =>
      conn_step s c PExiting (fun x => Some (c_ph PExited (c_sock false (c_pend (negb (sock x)) x))))
  | LUntrack c =>
      if mu s then None else
      match conn_step s c PExited (fun x => Some (c_ph PUntracked (c_inmap false x))) with
      | Some s' => Some (s_count (count s - 1)%Z s')
      | None => None
      end
  | LCloseCb c =>
      match conn_step s c PUntracked (fun x =>
              Some (c_ph PDone (if close_guard v k then c_close_cb (S (close_cb x)) x else x))) with
      | Some s' => if close_guard v k && negb (on_close k) then Some (s_crashed true s) else Some s'
      | None => None
      end
  (* ----- Shutdown ----- *)
  | LSdCall =>
      match sd s with
      | SdIdle | SdReturned _ => if sd_req s then None else Some (s_sd_req true s)
      | _ => None
      end
  | LSdBegin =>
      match sd s with
      | SdIdle | SdReturned _ =>
          if sd_req s && negb (mu s) then
            if lis_set s
            then Some (s_sd (SdPass (inmap_ids (conns s) 0) true)
                        (s_mu true (s_sd_req false (s_sd_err (negb (lis_open s)) (s_lis_open false (s_shut true s))))))
            else if v_nil_old v
            then (* before 17ec04c: s.listener is nil, the method call panics in the caller's goroutine; the deferred Unlock runs *)
                 Some (s_sd (SdReturned EPanic) (s_sd_req false (s_shut true s)))
            else (* `if s.listener != nil`: serve has not started yet, nothing to close *)
                 Some (s_sd (SdPass (inmap_ids (conns s) 0) true)
                        (s_mu true (s_sd_req false (s_sd_err false (s_shut true s)))))
          else None
      | _ => None
      end
  | LSdCas c =>
      match sd s, get s c with
      | SdPass todo ai, Some x =>
          (* `range` only yields current members of the map *)
          if mem_nat c todo && inmap x then
            match cst x with
            | CIdle => Some (s_sd (SdClosing c (remove_nat c todo) ai) (put s c (c_cst CClosed (via_set ViaCas x))))
            | _ => Some (s_sd (SdFailed c (remove_nat c todo) ai) s)
            end
          else None
      | _, _ => None
      end
  | LSdLoad c =>
      match sd s, get s c with
      | SdFailed c' todo ai, Some x =>
          if Nat.eqb c c' then
            (* `c.state.Load() != connClosed` => look at it again in the next round *)
            match cst x with
            | CHandling => Some (s_sd (SdPass todo false) s)
            | CClosed => Some (s_sd (SdClosing c todo ai) (put s c (via_set ViaLoadClosed x)))
            | CIdle => if v_load_old v
                       then (* before fb6684d the test was `Load() == connHandling` *)
                            Some (s_sd (SdClosing c todo ai) (put s c (c_via ViaLoadIdle x)))
                       else Some (s_sd (SdPass todo false) s)
            end
          else None
      | _, _ => None
      end
  | LSdClose c =>
      match sd s, get s c with
      | SdClosing c' todo ai, Some x =>
          if Nat.eqb c c' then Some (s_sd (SdPass todo ai) (put s c (c_sock false (c_inmap false x)))) else None
      | _, _ => None
      end
  | LSdPassEnd =>
      match sd s with SdPass [] false => Some (s_sd SdWait s) | _ => None end
  | LSdRetry =>
      match sd s with SdWait => Some (s_sd (SdPass (inmap_ids (conns s) 0) true) s) | _ => None end
  | LSdTimeout =>
      match sd s with SdWait => Some (s_sd (SdReturned ECtx) (s_mu false s)) | _ => None end
  | LSdReturn =>
      match sd s with
      | SdPass [] true => Some (s_sd (SdReturned (if sd_err s then EOther else ENil)) (s_mu false s))
      | _ => None
      end
  (* ----- context ----- *)
  | LCancel => if cancelled s then None else Some (s_cancelled true s)
  | LAfterClose =>
      if cancelled s && published (sp s) && negb (returned (sp s)) && lis_open s then Some (s_lis_open false s) else None
  (* ----- Close() failing on an open socket ----- *)
  | LRejectCloseErr c =>
      match sp s, get s c with
      | SRejected c', Some x =>
          if Nat.eqb c c' then Some (s_sp (SErrCb c 0) (put s c (c_ph PRejected (c_sock false x)))) else None
      | _, _ => None
      end
  | LDropCloseErr c =>
      match sp s, get s c with
      | SDrop c' r, Some x =>
          if Nat.eqb c c' then Some (s_sp (SErrCb c (if r then 1 else 2)) (put s c (c_ph PDropping (c_sock false x)))) else None
      | _, _ => None
      end
  | LConnExitErr c =>
      conn_step s c PExiting (fun x => if sock x then Some (c_ph PExited (c_sock false (c_pend true x))) else None)
  | LServeErrCb c =>
      match sp s with
      | SErrCb c' n =>
          if Nat.eqb c c' then
            if v_raw_err v && Nat.eqb n 0 && negb (on_error k)
            then Some (s_crashed true s)          (* s.OnErrorFunc is nil *)
            else Some (s_errs (if on_error k then S (errs s) else errs s)
                        (s_sp (match n with 0 => SLoop | 1 => SDropCb c true | _ => SDropCb c false end) s))
          else None
      | _ => None
      end
  | LReServe =>
      (* serve(ctx', listener') on the same Server value: the tracked set, the counter and every connection
         stay as they are (the map is allocated lazily by trackConn, once); the connections accepted so far
         keep their -- cancelled -- context.  Not after Shutdown (serve would return at once). *)
      match sp s with
      | SReturned _ =>
          if cancelled s && negb (shut s) && negb (v_drop_old v)   (* (the DropOld variant may have left a connection behind) *)
          then Some (s_upto (length (conns s)) (s_sp SStart (s_lis_open true (s_cancelled false
                 (if v_map_reset v then s_conns (map (c_inmap false) (conns s)) s else s)))))
          else None
      | _ => None
      end
  end.

(* the step function of the code as it is now *)
Definition step_now := step GuardNow.

(* ---------- runs ---------- *)
Fixpoint run (v : variant) (k : cfg) (s : state) (ls : list label) : option state :=
  match ls with
  | [] => Some s
  | l :: t => match step v k s l with Some s' => run v k s' t | None => None end
  end.

Inductive reach (v : variant) (k : cfg) : state -> Prop :=
| reach_init : reach v k init
| reach_step s l s' : reach v k s -> step v k s l = Some s' -> reach v k s'.

(* ---------- observable projection ----------
   What the harness can see of a step (None = hidden).  Codes are those of the event log:
   [code; connection; a; b]. *)
Inductive obs :=
| OServeCb | OAccept (c : nat) | OAcceptCb (c : nat) (n : Z) (ok : bool) | OConnClose (c : nat)
| OServeReturn (e : err) | ORead (c : nat) (r : rres) | OHandlerStart (c : nat) | OHandlerEnd (c : nat) (ok : bool)
| OWrite (c : nat) (ok : bool) | OErrCb | OCloseCb (c : nat) (isshut : bool)
| OSdCall | OSdReturn (e : err) | OCancel
| ODefLog
| OReServe.   (* onErrorFunc was the logging default: a line of the standard logger *)

Definition observe (k : cfg) (s : state) (l : label) : option obs :=
  match l with
  | LServeCb => if on_serve k then Some OServeCb else None
  | LAccept c => Some (OAccept c)
  | LAcceptCb c n ok => Some (OAcceptCb c n ok)
  | LRejectClose c | LConnExit c | LSdClose c | LDropClose c
  | LRejectCloseErr c | LDropCloseErr c | LConnExitErr c => Some (OConnClose c)
  | LServeReturn e => Some (OServeReturn e)
  | LConnRead c r => match r with RTimeout => None | _ => Some (ORead c r) end
  | LHandlerStart c => Some (OHandlerStart c)
  | LHandlerEnd c ok => Some (OHandlerEnd c ok)
  | LReplyWrite c ok => Some (OWrite c ok)
  | LErrCb _ | LServeErrCb _ => if on_error k then Some OErrCb else Some ODefLog
  | LCloseCb c => if on_close k then Some (OCloseCb c (shut s)) else None
  | LDropCb c => if on_close k
                 then Some (OCloseCb c (match sp s with SDropCb _ false => true | _ => shut s end))
                 else None
  | LSdCall => Some OSdCall
  | LSdReturn => Some (OSdReturn (if sd_err s then EOther else ENil))
  | LSdTimeout => Some (OSdReturn ECtx)
  | LCancel => Some OCancel
  | LReServe => Some OReServe
  | _ => None
  end.
