(* DispConc.v -- entries of the C14 runtime supporting run (harness stream "conc").
   EVIDENCE ONLY, NOT A THEOREM: the run exercises what no model covers (sync.RWMutex, the Go
   memory model, the race detector when built with -race).  A case is one run of N goroutines x M
   Do calls (mixed request types) on ONE client, plus concurrent Close/Connect, against an
   in-memory transport that records every byte written and answers requests in arrival order with
   a reply derived from the request.

   case input  [ kind ; logs ; calls ; conns ; panics ; [latency_ms; hooked] ; trace ;
                 [strict; failed; failed_without_error; answering] ]
     kind   0 = Client (Modbus TCP framing), 1 = Client (RTU framing over net.Conn), 2 = SerialClient
     logs   one byte string per connection: everything written to it, in order
     calls  [g; k; request bytes; status; reply bytes; abandoned]
            status 0 = reply received, 1 = error returned, 2 = the call panicked, 3 = never returned
            abandoned 1 = the caller gives the call up: its context ends after 20..90 ms and the
            request goes to the unit that never answers (so it ends while the caller is queued for
            the client, or waits for the reply; a serial port's Read then really blocks 100 ms)
            abandoned 2 = NOT abandoned by its caller: the request goes to the unit that answers with
            an over-long frame (265 bytes); the call has to fail, its caller formats the error while
            other goroutines are inside Do (several clients at once) -- exercises the race detector
            abandoned 3 = the call is expected to PANIC inside the library while it holds the lock (the
            user's hook panics on requests to unit 96, or the request is a typed-nil pointer whose
            Bytes() panics; request bytes empty then) and its caller recovers: status 2 is not a
            failure for such a call; everybody else has to be served afterwards (the lock was
            released by the deferred unlock; a case that hangs is a violation)
     conns  per connection, in the order they were dialled, [overlaps; midclose; closed; outside]: how often the library entered a call on the
            transport object (Read / Write / Close / Flush / Set*Deadline) while another of its calls
            was inside, and how often Close arrived between the write of a request and the read of
            its reply; whether the connection is closed after the final Close of the case; how
            often a Read / Write / Flush / Set*Deadline was inside the transport while NO Do call was
            in progress on the client (an abandoned call left a Read behind on the port)
     panics number of recovered panics (callers and the Close/Connect goroutines)
     latency_ms  slow device: a reply is readable that long after its request (6 callers queue for
            the lock; the wait exceeds the client's write + read time-out, the exchange does not)
     hooked 1 = the client was given a recording ClientHooks object that is NOT goroutine-safe
     trace  its records in the order they were appended: [tag; bytes],
            tag 0 = BeforeWrite, 1 = AfterEachRead (n > 0), 2 = BeforeParse, 9 = overflow
     strict 1 = nobody closes or reconnects during the case: every call that is not abandoned by
            its caller has to be served
     failed number of FAILING Connect calls made on the connected, shared client by a further
            goroutine (dial fails on demand: plain error / cancelled context / error together with a
            typed-nil conn); failed_without_error = how many of them returned nil
     answering 1 = the abandoned calls of this case go to a unit that DOES answer (all requests then
            have one shape).  This is the region of KNOWN FINDING KF-C14-1 (code 160, defect D18):
            the reply an abandoned call leaves behind is read by the next caller as its own
            (C14_abandoned_call_stale_reply_refuted).  In that region a case whose only false flags
            are own / whole is judged 160; any other false flag there is an ordinary violation;
            a case of the region that passes HOLDS.  Outside the region nothing is excused.
   outcome  ok [ frames on the wire all whole ; each caller got its own reply ; no panic ;
                 serialised = no overlapping transport calls, no Close inside an exchange, no
                   transport call outside a Do ;
                 hooks_atomic = the trace is a concatenation of per-call blocks
                   [BeforeWrite req; AfterEachRead chunk*; BeforeParse reply], chunks = reply =
                   the reply to req, completed blocks = the successful calls ;
                 connect_atomic = a failed Connect left the client as it was: it returned an error,
                   the final Close closed the connection dialled last (the one the client must still
                   hold), and in a strict case every call was served ]
            err [7] = the case did not finish (dead- or livelock): always a violation

   Which theorem a flag is the runtime face of (Properties/C14.v):
     whole       C14_wire_whole_frames_in_lock_order, C14_wire_never_interleaved
     own         C14_every_caller_gets_own_reply
     serialised  C14_steps_by_holder / C14_one_at_a_time: every write, read, transport call of
                 Close / Connect and release is made by the lock holder, and while it holds the lock
                 nobody else takes a step -- so two calls on the transport never overlap and a Close
                 never falls inside an exchange
     hooks_atomic  hook calls are steps of the lock holder: in the skeleton they are uses of the
                 locked-use field hooks (LockModel.locked_use_fields), so by C14_well_locked_sound
                 they are EUse events made while owning the mutex, by C14_mutual_exclusion the
                 caller is THE holder, and by C14_one_at_a_time nobody else takes a step (makes a
                 hook call) until the release: the calls of one request form one block
     connect_atomic  in the wire model a Connect (failing or not) is a control call CCtl: it changes
                 neither the wire nor any reply, so with control calls interleaved anywhere
                 C14_every_caller_gets_own_reply and C14_wire_whole_frames_in_lock_order still give
                 every caller its own reply (the model run below includes the failed Connects as
                 control calls of one more caller); that a FAILED Connect must not assign conn is the
                 part the skeleton sees (translator: a field assigned together with an error value,
                 before the error check, is reported and fails the obligation)
     no panic / no hang: not a theorem of the wire model (the skeleton obligation excludes the
                 unlocked use of conn that leads to the nil dereference; C14_well_locked_sound:
                 complete executions end with the lock released)

   Model side [run_conc]: the callers of ClientConcModel perform the successful requests under the
   recorded schedule (the order of the frames on the wire = lock-acquisition order); the projected
   outcome is computed from the model's final state.  By ClientConcProofs it is all-true for every
   schedule, so a deviation of the implementation is both a mismatch and a violation.
   Verdict [verdict_conc] (property 14): the implementation's flags must be all-true AND the raw
   record must pass the same judgement recomputed here from the logs, replies and counters. *)
Require Import MB.GoSem MB.Val MB.Entry MB.CrcModel MB.LockModel MB.ClientConcModel.
From Coq Require Import String.
Open Scope N_scope.

(* ---- the transport of the supporting run (harness/cmd/observe/conctransport.go) ---- *)
(* reply PDU to a request PDU: reads answer with data derived from the start address, writes echo *)
Definition conc_reply_pdu (pdu : list N) : list N :=
  match pdu with
  | fc :: ah :: al :: xh :: xl :: _ =>
      let addr := be16 [ah; al] in
      let x := be16 [xh; xl] in
      if (fc =? 3) || (fc =? 4) then
        fc :: u8 (2 * x) :: flat_map (fun i => put16 (u16 (addr + i))) (seqN x)
      else if (fc =? 1) || (fc =? 2) then
        let nb := (x + 7) / 8 in
        fc :: u8 nb :: map (fun _ => al) (seqN nb)
      else if (fc =? 5) || (fc =? 6) || (fc =? 16) then [fc; ah; al; xh; xl]
      else [u8 (fc + 128); 1]
  | fc :: _ => [u8 (fc + 128); 1]
  | [] => []
  end.

Definition conc_reply (kind : N) (req : list N) : list N :=
  if kind =? 0 then
    match req with
    | t1 :: t2 :: p1 :: p2 :: _ :: _ :: unit :: pdu =>
        let r := conc_reply_pdu pdu in
        [t1; t2; p1; p2] ++ put16 (N.of_nat (S (List.length r))) ++ unit :: r
    | _ => []
    end
  else
    match req with
    | unit :: rest =>
        let pdu := firstn (List.length rest - 2) rest in
        with_crc (unit :: conc_reply_pdu pdu)
    | [] => []
    end.

(* how the transport splits its input stream into requests *)
Definition conc_frame_len (kind : N) (w : list N) : option nat :=
  if kind =? 0 then
    match w with
    | _ :: _ :: _ :: _ :: lh :: ll :: _ => Some (6 + N.to_nat (be16 [lh; ll]))%nat
    | _ => None
    end
  else
    match w with
    | _ :: fc :: _ :: _ :: _ :: _ :: bc :: _ =>
        if fc =? 16 then Some (9 + N.to_nat bc)%nat else Some 8%nat
    | _ => None
    end.

Fixpoint conc_split (fuel : nat) (kind : N) (w : list N) : list (list N) * list N :=
  match fuel with
  | O => ([], w)
  | S k =>
      match w with
      | [] => ([], [])
      | _ =>
          match conc_frame_len kind w with
          | Some n =>
              if ((List.length w <? n) || (n =? 0))%nat then ([], w)
              else let (fs, rest) := conc_split k kind (skipn n w) in (firstn n w :: fs, rest)
          | None => ([], w)
          end
      end
  end.
Definition conc_decode (kind : N) (w : list N) : list (list N) := fst (conc_split (List.length w) kind w).
Definition conc_leftover (kind : N) (w : list N) : list N := snd (conc_split (List.length w) kind w).

(* ---- reading the case ---- *)
Record ccall := { cc_g : nat; cc_k : nat; cc_req : list N; cc_ok : bool; cc_bad : bool; cc_reply : list N;
                  cc_abandon : bool;       (* may fail although nobody closes: abandoned, or over-long answer *)
                  cc_gave_up : bool }.     (* abandoned by its caller *)

Definition parse_call (v : val) : option ccall :=
  match v with
  | VL [VI g; VI k; VB req; VI st; VB rep; VI ab] =>
      Some {| cc_g := Z.to_nat g; cc_k := Z.to_nat k; cc_req := req; cc_ok := Z.eqb st 0;
              cc_bad := Z.leb 2 st && negb (Z.eqb ab 3 && Z.eqb st 2); cc_reply := rep;
              cc_abandon := negb (Z.eqb ab 0);
              cc_gave_up := Z.eqb ab 1 |}
  | _ => None
  end.
Fixpoint parse_calls (vs : list val) : option (list ccall) :=
  match vs with
  | [] => Some []
  | v :: r => match parse_call v, parse_calls r with Some c, Some cs => Some (c :: cs) | _, _ => None end
  end.
Fixpoint parse_logs (vs : list val) : option (list (list N)) :=
  match vs with
  | [] => Some []
  | VB b :: r => match parse_logs r with Some ls => Some (b :: ls) | None => None end
  | _ => None
  end.

(* remove the first occurrence of a frame *)
Fixpoint remove_frame (f : list N) (l : list (list N)) : option (list (list N)) :=
  match l with
  | [] => None
  | g :: r => if list_eqb f g then Some r
              else match remove_frame f r with Some r' => Some (g :: r') | None => None end
  end.
(* the two lists hold the same frames, each as often *)
Fixpoint same_frames (a b : list (list N)) : bool :=
  match a with
  | [] => match b with [] => true | _ => false end
  | f :: r => match remove_frame f b with Some b' => same_frames r b' | None => false end
  end.

(* ---- the judgement of a raw record (independent of the flags the harness computed) ---- *)
(* every served request is on the wire, whole, exactly once; what else is on the wire are whole
   requests of abandoned calls that were not served (the caller gave up after writing), each once *)
Fixpoint remove_all (fs : list (list N)) (l : list (list N)) : option (list (list N)) :=
  match fs with
  | [] => Some l
  | f :: r => match remove_frame f l with Some l' => remove_all r l' | None => None end
  end.
Definition raw_whole (kind : N) (logs : list (list N)) (calls : list ccall) : bool :=
  forallb (fun l => match conc_leftover kind l with [] => true | _ => false end) logs &&
  match remove_all (map cc_req (filter cc_ok calls)) (flat_map (conc_decode kind) logs) with
  | Some extra =>
      match remove_all extra (map cc_req (filter (fun c => cc_abandon c && negb (cc_ok c)) calls)) with
      | Some _ => true
      | None => false
      end
  | None => false
  end.
Definition raw_own (kind : N) (calls : list ccall) : bool :=
  forallb (fun c => negb (cc_ok c) || list_eqb (cc_reply c) (conc_reply kind (cc_req c))) calls.

(* no overlapping transport calls, no Close inside an exchange: all counters zero *)
Fixpoint raw_serialised (conns : list val) : bool :=
  match conns with
  | [] => true
  | VL [VI a; VI b; VI _; VI d] :: r => Z.eqb a 0 && Z.eqb b 0 && Z.eqb d 0 && raw_serialised r
  | _ => false
  end.
Definition raw_no_panic (panics : Z) (calls : list ccall) : bool :=
  Z.eqb panics 0 && forallb (fun c => negb (cc_bad c)) calls.

(* a failed Connect left the client as it was *)
Fixpoint last_closed (conns : list val) : bool :=
  match conns with
  | [] => false
  | [VL [VI _; VI _; VI c; VI _]] => negb (Z.eqb c 0)
  | _ :: r => last_closed r
  end.
Definition raw_connect (conns : list val) (strict noerr : Z) (calls : list ccall) : bool :=
  last_closed conns && Z.eqb noerr 0 &&
  (Z.eqb strict 0 || forallb (fun c => cc_ok c || cc_abandon c) calls).

(* ---- the hook trace ---- *)
Fixpoint parse_trace (vs : list val) : option (list (Z * list N)) :=
  match vs with
  | [] => Some []
  | VL [VI t; VB b] :: r => match parse_trace r with Some l => Some ((t, b) :: l) | None => None end
  | _ => None
  end.
(* the AfterEachRead chunks at the head of the trace, concatenated, and what follows them *)
Fixpoint take_chunks (t : list (Z * list N)) : list N * list (Z * list N) :=
  match t with
  | (1%Z, b) :: r => let (c, r') := take_chunks r in (b ++ c, r')
  | _ => ([], t)
  end.
(* concatenation of per-call blocks; [want] = requests of the successful calls still to be seen *)
Fixpoint blocks_ok (fuel : nat) (kind : N) (t : list (Z * list N)) (want : list (list N)) : bool :=
  match fuel with
  | O => false
  | S k =>
      match t with
      | [] => match want with [] => true | _ => false end
      | (0%Z, req) :: r =>
          let (chunks, r1) := take_chunks r in
          match r1 with
          | (2%Z, reply) :: r2 =>
              list_eqb reply (conc_reply kind req) && list_eqb chunks reply &&
              match remove_frame req want with Some w' => blocks_ok k kind r2 w' | None => false end
          | _ => blocks_ok k kind r1 want       (* an exchange that failed after BeforeWrite *)
          end
      | _ => false
      end
  end.
Definition raw_hooks (kind : N) (hooked : Z) (trace : list val) (calls : list ccall) : bool :=
  if Z.eqb hooked 0 then true
  else match parse_trace trace with
       | Some t => blocks_ok (S (List.length t)) kind t (map cc_req (filter cc_ok calls))
       | None => false
       end.

(* ---- model side ---- *)
Fixpoint nat_max (l : list nat) : nat := match l with [] => O | x :: r => Nat.max x (nat_max r) end.

(* units whose requests produce no reply that anybody could take for one: 99 is switched off (the
   transport receives its requests and never answers), 98 answers with 265 bytes, which the call
   itself consumes and refuses (too long).  Unit 97 answers normally, only late (the completing Read
   returns 2 ms after the client's read time-out has elapsed): an ordinary served call. *)
Definition conc_silent (kind : N) (f : list N) : bool :=
  if kind =? 0 then match nth_error f 6 with Some u => 98 <=? u | None => false end
  else match f with u :: _ => 98 <=? u | [] => false end.
(* what the transport answers, in arrival order *)
Definition conc_answered (kind : N) (w : list N) : list (list N) :=
  filter (fun f => negb (conc_silent kind f)) (conc_decode kind w).

(* the calls that take part in the model run: served ones perform an exchange, abandoned ones whose
   frame is on the wire write it and leave without reading (CAb) *)
Definition conc_call_of (c : ccall) : call := if cc_ok c then CDo (cc_req c) else CAb (cc_req c).
Definition call_steps (c : ccall) : nat :=
  if cc_ok c then (List.length (cc_req c) + 3)%nat else (List.length (cc_req c) + 2)%nat.
Definition conc_reqs (part : list ccall) (g : nat) : list call :=
  map conc_call_of (filter (fun c => Nat.eqb (cc_g c) g) part).
Definition owner_of (part : list ccall) (f : list N) : option ccall :=
  match filter (fun c => list_eqb (cc_req c) f) part with c :: _ => Some c | [] => None end.

(* one model run under a schedule, observed: the final state; whether every step was made by the
   holder (acquire: while the mutex was free) -- always true by C14_steps_by_holder, computed so that
   the model side produces the flag rather than assumes it; and the hook calls, which are made inside
   the holder's own steps: BeforeWrite with the acquire of a request call (before its first write),
   AfterEachRead with its read, BeforeParse before its release *)
Fixpoint run_observed (reply_of : frm -> frm) (dec : list N -> list frm) (sched : list nat) (s : cst)
  : cst * bool * list (Z * list N) :=
  match sched with
  | [] => (s, true, [])
  | i :: r =>
      match step_fun reply_of dec s i with
      | Some (a, s') =>
          let by_holder := match a, c_owner s with
                           | AAcq _, None => true
                           | AAcq _, Some _ => false
                           | _, Some j => Nat.eqb j i
                           | _, None => false
                           end in
          let hk := match a, ph (callers s i) with
                    | AAcq (CDo f), _ => [(0%Z, f)]
                    | ARead (Some rep), _ => [(1%Z, rep)]
                    | ARel, PGot _ (Some rep) => [(2%Z, rep)]
                    | _, _ => []
                    end in
          match run_observed reply_of dec r s' with
          | (sf, ok, ht) => (sf, by_holder && ok, hk ++ ht)
          end
      | None => run_observed reply_of dec r s
      end
  end.

(* whole calls of two schedules in turn (each element is the steps of one complete call) *)
Fixpoint interleave (a b : list (list nat)) : list nat :=
  match a with
  | [] => List.concat b
  | x :: a' => match b with [] => List.concat a | y :: b' => x ++ y ++ interleave a' b' end
  end.

Definition run_conc (args : list val) : val :=
  match args with
  | [VI kind; VL logs; VL calls; VL _; VI _; VL [VI _; VI hooked]; VL _; VL [VI _; VI failed; VI _; VI _]] =>
      match parse_logs logs, parse_calls calls with
      | Some ls, Some cs =>
          let kd := Z.to_N kind in
          let dec := conc_decode kd in
          let order := flat_map dec ls in
          let oks := filter cc_ok cs in
          let part := filter (fun c => cc_ok c ||
                                       (cc_abandon c && existsb (list_eqb (cc_req c)) order)) cs in
          (* the recorded schedule: in wire order, the owner of each frame performs a whole call *)
          let groups := map (fun f => match owner_of part f with
                                      | Some c => repeat (cc_g c) (call_steps c)
                                      | None => [] end) order in
          (* then whoever has calls left finishes them, caller after caller *)
          let ng := S (nat_max (map cc_g part)) in
          let tail := flat_map (fun g => flat_map (fun c => repeat g (call_steps c))
                                                   (filter (fun c => Nat.eqb (cc_g c) g) part)) (seq 0 ng) in
          (* the failing Connect calls: control calls of one more caller, in turn with the recorded
             exchanges (where exactly does not matter: C14_every_caller_gets_own_reply) *)
          let ctl := ng in
          let nfail := Z.to_nat failed in
          let reqs := fun g => if Nat.eqb g ctl then repeat CCtl nfail else conc_reqs part g in
          let sched := interleave (repeat [ctl; ctl; ctl] nfail) groups in
          let '(s, ser, ht) :=
            run_observed (conc_reply kd) (conc_answered kd) (sched ++ tail) (cinit reqs) in
          let all_results := flat_map (fun g => results (callers s g)) (seq 0 ng) in
          let whole := match c_owner s with None => true | Some _ => false end &&
                       match conc_leftover kd (wire s) with [] => true | _ => false end &&
                       same_frames (dec (wire s)) (map cc_req part) in
          (* every served caller got the reply to its own request: by C14_every_caller_gets_own_reply
             true whenever no abandoned call of the run is answered; false in the witness of
             C14_abandoned_call_stale_reply_refuted (known finding KF-C14-1) *)
          let own := Nat.eqb (List.length all_results) (List.length oks) &&
                     forallb (fun x => match snd x with
                                       | Some r => list_eqb r (conc_reply kd (fst x))
                                       | None => false end) all_results in
          let hooks := Z.eqb hooked 0 || blocks_ok (S (List.length ht)) kd ht (map cc_req oks) in
          let connect := forallb (fun g => match pending (callers s g) with [] => true | _ => false end)
                                 (seq 0 (S ctl)) in
          v_ok [vbool whole; vbool own; vbool true; vbool ser; vbool hooks; vbool connect]
      | _, _ => v_bad
      end
  | _ => v_bad
  end.

(* the region of known finding KF-C14-1 (code 160, defect D18), decidable from the case input: the
   case says that abandoned calls go to a unit that answers, and it has such a call *)
Definition KF_C14_1 : N := 160.
Definition in_region_160 (answering : Z) (calls : list ccall) : bool :=
  negb (Z.eqb answering 0) && existsb cc_gave_up calls.
(* in the region only the flags own / whole may be false (a later caller consumed the stale reply) *)
Definition others_true (o : val) : bool :=
  match o with
  | VL [VI 0%Z; VI _; VI _; VI np; VI ser; VI hk; VI ca] =>
      negb (Z.eqb np 0) && negb (Z.eqb ser 0) && negb (Z.eqb hk 0) && negb (Z.eqb ca 0)
  | _ => false
  end.

Definition verdict_conc (p : N) (args : list val) (o : val) : N :=
  if p =? 14 then
    match args with
    | [VI kind; VL logs; VL calls; VL conns; VI panics; VL [VI _; VI hooked]; VL trace;
       VL [VI strict; VI _; VI noerr; VI answering]] =>
        match parse_logs logs, parse_calls calls with
        | Some ls, Some cs =>
            let kd := Z.to_N kind in
            let rest_ok := raw_no_panic panics cs && raw_serialised conns &&
                           raw_hooks kd hooked trace cs && raw_connect conns strict noerr cs in
            if val_eqb o (v_ok [vbool true; vbool true; vbool true; vbool true; vbool true; vbool true]) &&
               raw_whole kd ls cs && raw_own kd cs && rest_ok
            then HOLDS
            else if in_region_160 answering cs && others_true o && rest_ok then KF_C14_1
            else VIOLATES
        | _, _ => VIOLATES
        end
    | _ => VIOLATES
    end
  else NOT_JUDGED.

Definition table_conc : list entry :=
  [ {| e_name := "conc_tcp"%string; e_run := run_conc; e_verdict := verdict_conc |};
    {| e_name := "conc_rtu"%string; e_run := run_conc; e_verdict := verdict_conc |};
    {| e_name := "conc_serial"%string; e_run := run_conc; e_verdict := verdict_conc |} ].

(* sanity of the transport description *)
Example conc_reply_tcp_fc3 :
  conc_reply 0 [0; 7; 0; 0; 0; 6; 1; 3; 0; 16; 0; 2] = [0; 7; 0; 0; 0; 7; 1; 3; 4; 0; 16; 0; 17].
Proof. vm_compute. reflexivity. Qed.
Example conc_decode_tcp :
  conc_decode 0 ([0; 7; 0; 0; 0; 6; 1; 3; 0; 16; 0; 2] ++ [0; 8; 0; 0; 0; 6; 1; 6; 0; 1; 0; 9])
  = [[0; 7; 0; 0; 0; 6; 1; 3; 0; 16; 0; 2]; [0; 8; 0; 0; 0; 6; 1; 6; 0; 1; 0; 9]].
Proof. vm_compute. reflexivity. Qed.

(* the observed run is the scheduler of ClientConcModel (whose steps are steps of the relation:
   ClientConcProofs.step_fun_sound / run_schedule_reach) with two observations added *)
Lemma run_observed_state reply_of dec : forall sched s,
  fst (fst (run_observed reply_of dec sched s)) = run_schedule reply_of dec sched s.
Proof.
  induction sched as [|i sched IH]; intros s; [reflexivity|].
  cbn [run_observed run_schedule]. destruct (step_fun reply_of dec s i) as [[a s']|]; [|apply IH].
  specialize (IH s'). destruct (run_observed reply_of dec sched s') as [[sf ok] ht]. exact IH.
Qed.
