(* BuilderModel.v -- hand-written, executable transcription of builder.go and splitter.go (package
   modbus) of the repaired tree, function by function.

   Modelling decisions:
   * a Field is the record [field] of BuilderSpec.v (the input data type); server addresses are byte
     strings, the Name is a number;
   * the map key fmt.Sprintf("%v_%v_%v", server, unitID, isCoil) of groupForSingleConnection is
     modelled by the triple (server, unit, isCoil) -- that the formatted string determines the
     triple is proved separately (BuilderProofs.group_key_injective);
   * Go's map iteration order is random: the model lists the groups in order of first occurrence;
     the correspondence check compares requests sorted by (server, unit, start);
   * sort.Sort on the slots of a group: the slot addresses of a group are pairwise different
     (AddField merges equal addresses), so every sorting algorithm yields the same order; the
     model uses insertion sort;
   * the transaction id of a TCP request is random in Go and not part of the model's request. *)
Require Import MB.GoSem MB.PacketModel MB.RegistersSpec MB.RegistersModel MB.BuilderSpec.
Open Scope N_scope.

(* ---------- builder.go ---------- *)

(* Field.registerSize (uint16 arithmetic; Length is a uint8 so nothing wraps) *)
Definition register_size (f : field) : N :=
  let t := f_type f in
  if (t =? 12) || (t =? 10) || (t =? 9) then 4
  else if (t =? 11) || (t =? 8) || (t =? 7) then 2
  else if t =? 13 then
    (if f_len f mod 2 =? 0 then u16 (f_len f) / 2 else add16 (u16 (f_len f) / 2) 1)
  else 1.

(* Field.Validate *)
Definition validate (f : field) : pres unit :=
  if (length (f_server f) =? 0)%nat then Err EPlain else
  if f_type f =? 0 then Err EPlain else
  if 14 <? f_type f then Err EPlain else
  if 15 <? f_bit f then Err EPlain else
  if (f_type f =? 13) && (f_len f =? 0) then Err EPlain else
  Ok tt.

(* Builder.Bit / Coil / Byte / Uint8 / ... / String and BField.ServerAddress / UnitID / ByteOrder /
   Name only fill in the fields of a Field; Builder.Add / AddAll append to Builder.fields.  They are
   the identity on the [field] record and have no separate definition here (the harness builds half
   of its field lists through them). *)

(* ---------- splitter.go ---------- *)
Record slot := { s_addr : N; s_size : N; s_fields : list field }.           (* builderSlot *)
Record sgroup := { g_server : list N; g_unit : N; g_coils : bool; g_slots : list slot }. (* builderSlotGroup *)
Record batch := { b_server : list N; b_unit : N; b_start : N; b_qty : N; b_fields : list field }. (* requestBatch *)
(* BuilderRequest: the packet, its framing, and the descriptor *)
Record breq := { br_req : req; br_tcp : bool; br_server : list N; br_unit : N; br_start : N; br_fields : list field }.

(* builderSlotGroup.AddField: builderSlots.IndexOf (first slot with that address) and the update,
   in one pass *)
Fixpoint add_field (slots : list slot) (f : field) : list slot :=
  match slots with
  | [] => [{| s_addr := f_addr f; s_size := register_size f; s_fields := [f] |}]
  | s :: rest =>
      if s_addr s =? f_addr f
      then {| s_addr := s_addr s;
              s_size := (if s_size s <? register_size f then register_size f else s_size s);
              s_fields := s_fields s ++ [f] |} :: rest
      else s :: add_field rest f
  end.

(* groups[gID] lookup / insert / write back; the key is the triple *)
Definition key_eqb (g : sgroup) (f : field) (coil : bool) : bool :=
  list_eqb (g_server g) (f_server f) && (g_unit g =? f_unit f) && Bool.eqb (g_coils g) coil.
Fixpoint group_add (gs : list sgroup) (f : field) (coil : bool) : list sgroup :=
  match gs with
  | [] => [{| g_server := f_server f; g_unit := f_unit f; g_coils := coil; g_slots := add_field [] f |}]
  | g :: rest =>
      if key_eqb g f coil
      then {| g_server := g_server g; g_unit := g_unit g; g_coils := g_coils g; g_slots := add_field (g_slots g) f |} :: rest
      else g :: group_add rest f coil
  end.

(* groupForSingleConnection: the loop over the fields, [gs] = the map so far *)
Fixpoint group_fields (fields : list field) (only_coils : bool) (gs : list sgroup) : pres (list sgroup) :=
  match fields with
  | [] => Ok gs
  | f :: rest =>
      let* _ := validate f in
      let coil := f_type f =? 14 in
      if only_coils && negb coil then group_fields rest only_coils gs
      else if negb only_coils && coil then group_fields rest only_coils gs
      else group_fields rest only_coils (group_add gs f coil)
  end.
Definition group_for_single_connection (fields : list field) (only_coils : bool) : pres (list sgroup) :=
  group_fields fields only_coils [].

(* sort.Sort(slotsSorter(slots)): ascending by address *)
Fixpoint insert_slot (s : slot) (l : list slot) : list slot :=
  match l with
  | [] => [s]
  | x :: r => if s_addr s <=? s_addr x then s :: l else x :: insert_slot s r
  end.
Fixpoint sort_slots (l : list slot) : list slot :=
  match l with [] => [] | s :: r => insert_slot s (sort_slots r) end.

(* batchToRequests, the loop over the slots of one group.  State: isFirstSeen, firstAddress, the
   batch being built, the batches closed so far. *)
Fixpoint scan (limit : N) (server : list N) (unit : N) (slots : list slot)
              (seen : bool) (first : N) (cur : batch) (acc : list batch) : list batch :=
  match slots with
  | [] => acc ++ [cur]                                   (* result = append(result, batch) after the loop *)
  | s :: rest =>
      let slot_address := s_addr s in
      let first1 := if seen then first else slot_address in
      let cur1 := if seen then cur else
        {| b_server := server; b_unit := unit; b_start := slot_address; b_qty := b_qty cur; b_fields := b_fields cur |} in
      (* slotEndAddress := uint32(slotAddress) + uint32(slot.size) *)
      let slot_end := u32 (slot_address + s_size s) in
      (* addressDiff := uint16(min(slotEndAddress-uint32(firstAddress), 0xffff)) *)
      let diff := u16 (N.min (u32 (slot_end + 4294967296 - first1)) 65535) in
      if limit <? diff then
        let fresh := {| b_server := server; b_unit := unit; b_start := slot_address; b_qty := 0; b_fields := [] |} in
        let diff' := s_size s in
        scan limit server unit rest true slot_address
          {| b_server := b_server fresh; b_unit := b_unit fresh; b_start := b_start fresh;
             b_qty := (if b_qty fresh <? diff' then diff' else b_qty fresh);
             b_fields := b_fields fresh ++ s_fields s |}
          (acc ++ [cur1])
      else
        scan limit server unit rest true first1
          {| b_server := b_server cur1; b_unit := b_unit cur1; b_start := b_start cur1;
             b_qty := (if b_qty cur1 <? diff then diff else b_qty cur1);
             b_fields := b_fields cur1 ++ s_fields s |}
          acc
  end.

Definition zero_batch : batch := {| b_server := []; b_unit := 0; b_start := 0; b_qty := 0; b_fields := [] |}.
(* MaxRegistersInReadResponse / MaxCoilsInReadResponse *)
Definition address_limit (coils : bool) : N := if coils then 2000 else 125.
Definition batches_of_group (g : sgroup) : list batch :=
  scan (address_limit (g_coils g)) (g_server g) (g_unit g) (sort_slots (g_slots g)) false 0 zero_batch [].
(* batchToRequests *)
Definition batch_to_requests (groups : list sgroup) : list batch := flat_map batches_of_group groups.

(* split: the targets are numbered as the Go constants splitToFC1TCP = 0 ... splitToFC4RTU = 7
   (BuilderSpec.target_fc / target_tcp; domain 0..7) *)
Definition request_of_batch (target : N) (b : batch) : pres breq :=
  let* r := new_read (target / 2 + 1) (b_unit b) (b_start b) (b_qty b) in
  Ok {| br_req := r; br_tcp := (target mod 2 =? 0); br_server := b_server b; br_unit := b_unit b;
        br_start := b_start b; br_fields := b_fields b |}.
Fixpoint requests_of_batches (target : N) (bs : list batch) : pres (list breq) :=
  match bs with
  | [] => Ok []
  | b :: rest =>
      let* r := request_of_batch target b in
      let* rs := requests_of_batches target rest in
      Ok (r :: rs)
  end.
Definition split (fields : list field) (target : N) : pres (list breq) :=
  let only_coils := target <? 4 in
  let* groups := group_for_single_connection fields only_coils in
  requests_of_batches target (batch_to_requests groups).

(* Builder.ReadCoilsTCP ... Builder.ReadInputRegistersRTU: return split(b.fields, splitTo...) *)
Definition builder_read (target : N) (fields : list field) : pres (list breq) := split fields target.

(* BuilderRequest.Bytes(): the embedded packet's Bytes() *)
Definition breq_bytes (tid : N) (r : breq) : list N :=
  if br_tcp r then req_bytes_tcp tid (br_req r) else req_bytes_rtu (br_req r).

(* ---------- builder.go, second half: extraction ---------- *)
Inductive xerr :=
| XUnknownType                  (* "extraction failure due unknown field type" *)
| XRegisters (e : rerr)         (* an error of a Registers accessor / NewRegisters *)
| XCoil                         (* an error of IsCoilSet *)
| XUnsupported.                 (* "can not extract fields from unsupported response type" *)

(* Field.ExtractFrom: the typed accessor for the field type, with the field's byte order.  Returns
   the outcome and the register payload afterwards (RegistersModel.access). *)
Definition extract_from (f : field) (regs : registers) : res xerr aval * slice :=
  let t := f_type f in
  let via (a : accessor) := let '(x, d) := access regs a (f_addr f) in (map_err XRegisters x, d) in
  if t =? 1 then via (ABit (f_bit f)) else
  if t =? 2 then via (AByte (f_high f)) else
  if t =? 3 then via (AUint8 (f_high f)) else
  if t =? 4 then via (AInt8 (f_high f)) else
  if t =? 5 then via AUint16 else
  if t =? 6 then via AInt16 else
  if t =? 7 then via (AUint32BO (f_order f)) else
  if t =? 8 then via (AInt32BO (f_order f)) else
  if t =? 9 then via (AUint64BO (f_order f)) else
  if t =? 10 then via (AInt64BO (f_order f)) else
  if t =? 11 then via (AFloat32BO (f_order f)) else
  if t =? 12 then via (AFloat64BO (f_order f)) else
  if t =? 13 then via (AStringBO (f_len f) (f_order f)) else
  (Err XUnknownType, r_data regs).

(* FieldValue: the field, and its value or its error *)
Inductive fvalue := FVal (v : aval) | FErr.
(* ([]FieldValue, error): nil with an error is [Err]; a result (with or without
   ErrorFieldExtractHadError) is [Ok (hadErrors, result)] *)
Definition xres := res xerr (bool * list (field * fvalue)).

(* the loop of extractRegisterFields over r.Fields *)
Fixpoint extract_register_loop (fs : list field) (regs : registers) (cont had : bool)
                               (acc : list (field * fvalue)) : xres :=
  match fs with
  | [] => Ok (had, acc)
  | f :: rest =>
      let '(x, d) := extract_from f regs in
      match x with
      | Panic => Panic
      | Err e => if negb cont then Err e
                 else extract_register_loop rest (set_data regs d) cont true (acc ++ [(f, FErr)])
      | Ok v => extract_register_loop rest (set_data regs d) cont had (acc ++ [(f, FVal v)])
      end
  end.
(* BuilderRequest.extractRegisterFields; [payload] is the response's Data slice *)
Definition extract_register_fields (r : breq) (payload : slice) (cont : bool) : xres :=
  match new_registers payload (br_start r) with      (* response.AsRegisters(r.StartAddress) *)
  | Ok regs => extract_register_loop (br_fields r) regs cont false []
  | Err e => Err (XRegisters e)
  | Panic => Panic
  end.

(* BuilderRequest.extractCoilFields: response.IsCoilSet(r.StartAddress, f.Address) per field *)
Fixpoint extract_coil_loop (fs : list field) (data : list N) (start : N) (cont had : bool)
                           (acc : list (field * fvalue)) : xres :=
  match fs with
  | [] => Ok (had, acc)
  | f :: rest =>
      match is_bit_set data start (f_addr f) with
      | None => if negb cont then Err XCoil
                else extract_coil_loop rest data start cont true (acc ++ [(f, FErr)])
      | Some b => extract_coil_loop rest data start cont had (acc ++ [(f, FVal (VBool b))])
      end
  end.
Definition extract_coil_fields (r : breq) (data : list N) (cont : bool) : xres :=
  extract_coil_loop (br_fields r) data (br_start r) cont false [].

(* BuilderRequest.ExtractFields: the type switch.  RegistersResponse = has AsRegisters (FC3, FC4,
   FC23 and the FC6 echo, whose "registers" are its two data bytes); CoilsResponse = has IsCoilSet
   (FC1, FC2).  [spare] = the bytes behind the response's Data in its backing array (the CRC of an
   RTU frame): a parsed response's Data is a sub-slice of the frame. *)
Definition extract_fields (r : breq) (response : resp) (spare : list N) (cont : bool) : xres :=
  match response with
  | PBytes fc _ _ data =>
      if is_coil_fc fc then extract_coil_fields r data cont
      else extract_register_fields r {| vis := data; spare := spare |} cont
  | PWReg _ _ d0 d1 => extract_register_fields r (exact [d0; d1]) cont
  | _ => Err XUnsupported
  end.

(* ---------- the same extraction, also returning the response's Data slice afterwards ----------
   (property C13: the accessors work on the slice the response shares with its frame buffer; a
   write through it would be visible here) *)
Fixpoint extract_register_loop_data (fs : list field) (regs : registers) (cont had : bool)
                                    (acc : list (field * fvalue)) : xres * slice :=
  match fs with
  | [] => (Ok (had, acc), r_data regs)
  | f :: rest =>
      let '(x, d) := extract_from f regs in
      match x with
      | Panic => (Panic, d)
      | Err e => if negb cont then (Err e, d)
                 else extract_register_loop_data rest (set_data regs d) cont true (acc ++ [(f, FErr)])
      | Ok v => extract_register_loop_data rest (set_data regs d) cont had (acc ++ [(f, FVal v)])
      end
  end.
Definition extract_register_fields_data (r : breq) (payload : slice) (cont : bool) : xres * slice :=
  match new_registers payload (br_start r) with
  | Ok regs => extract_register_loop_data (br_fields r) regs cont false []
  | Err e => (Err (XRegisters e), payload)
  | Panic => (Panic, payload)
  end.
(* ExtractFields; second component = the Data slice of the response afterwards (the FC6 echo hands
   AsRegisters a slice of a copy of its two bytes: nothing can reach the response) *)
Definition extract_fields_data (r : breq) (response : resp) (spare : list N) (cont : bool) : xres * slice :=
  match response with
  | PBytes fc _ _ data =>
      if is_coil_fc fc then (extract_coil_fields r data cont, {| vis := data; spare := spare |})
      else extract_register_fields_data r {| vis := data; spare := spare |} cont
  | PWReg _ _ d0 d1 => (fst (extract_register_fields_data r (exact [d0; d1]) cont), exact [d0; d1])
  | _ => (Err XUnsupported, {| vis := []; spare := spare |})
  end.

(* Field.ExtractFrom called for a list of fields on ONE shared *Registers *)
Fixpoint extract_from_seq (fs : list field) (regs : registers) : list (field * res xerr aval) * registers :=
  match fs with
  | [] => ([], regs)
  | f :: rest =>
      let '(x, d) := extract_from f regs in
      let '(xs, regs') := extract_from_seq rest (set_data regs d) in
      ((f, x) :: xs, regs')
  end.

(* ---------- the Builder object across several builds ----------
   NewRequestBuilder / Add / AddAll only append to b.fields.  The Read... methods hand b.fields to
   split, and split only READS that slice: groupForSingleConnection ranges over it and AddField
   appends copies of the elements to the slots it owns -- nothing is written through the slice.
   A build therefore leaves the Builder as it was; this Go fact is what the "split_seq"
   correspondence stream checks (successive builds on one Builder). *)
Record builder := { bd_fields : list field }.
Definition builder_build (b : builder) (target : N) : builder * pres (list breq) :=
  (b, split (bd_fields b) target).
Fixpoint builder_builds (b : builder) (targets : list N) : builder * list (pres (list breq)) :=
  match targets with
  | [] => (b, [])
  | t :: rest =>
      let '(b1, x) := builder_build b t in
      let '(b2, xs) := builder_builds b1 rest in
      (b2, x :: xs)
  end.
