(* ServerSpec.v -- what the Modbus documents prescribe for a TCP server's request/reply exchange,
   written from "MODBUS Messaging on TCP/IP Implementation Guide V1.0b" (MBAP framing, 3.1.3/4.x)
   and "MODBUS Application Protocol V1.1b3" (MAP 6.x request layouts and limits, MAP 7 exceptions),
   independently of ServerModel.v / PacketModel.v.  Used by the executable statements of C15 and
   C16 in DispServer.v.

   A TCP byte stream carries ADUs back to back; the MBAP length field (bytes 4-5) says how many
   bytes follow it, so the stream is cut by the headers alone.  A server answers every request
   ADU with exactly one reply ADU carrying the same transaction id and unit id, in order. *)
Require Import MB.GoSem MB.Spec.
Open Scope N_scope.

Definition byte_at (l : list N) (i : nat) : N := nth i l 0.
Definition fld16 (l : list N) (off : nat) : N := byte_at l off * 256 + byte_at l (S off).
Definition a_tid (a : list N) : N := fld16 a 0.
Definition a_proto (a : list N) : N := fld16 a 2.
Definition a_len (a : list N) : N := fld16 a 4.
Definition a_unit (a : list N) : N := byte_at a 6.
Definition a_fc (a : list N) : N := byte_at a 7.

(* a well-formed TCP ADU: MBAP header, protocol id 0, length field = number of bytes that follow
   it, at least unit id and function code *)
Definition wf_adu (a : list N) : bool :=
  (8 <=? length a)%nat && (a_proto a =? 0) && (N.of_nat (length a) =? 6 + a_len a).
Definition addressed_to (f r : list N) : bool := (a_tid r =? a_tid f) && (a_unit r =? a_unit f).

(* ---------- cutting a request stream ---------- *)
(* bytes that cannot be the start of a Modbus TCP ADU: wrong protocol id, a length field that
   does not even cover unit id + function code, or the invalid function code 0 (MAP 4.1) *)
Definition not_modbus (s : list N) : bool :=
  negb (a_proto s =? 0) || (a_len s <? 2) || (a_fc s =? 0).

Inductive tail := TPartial (rest : list N) | TGarbage (rest : list N).

Fixpoint split_stream (fuel : nat) (s : list N) : list (list N) * tail :=
  match fuel with
  | O => ([], TPartial s)
  | S f =>
      if (length s <? 8)%nat then ([], TPartial s) else
      if not_modbus s then ([], TGarbage s) else
      let n := N.to_nat (6 + a_len s) in
      if (length s <? n)%nat then ([], TPartial s) else
      let (fs, t) := split_stream f (skipn n s) in (firstn n s :: fs, t)
  end.
(* the complete request ADUs contained in [s], and what follows them *)
Definition frames_of (s : list N) : list (list N) * tail := split_stream (S (length s)) s.
Definition is_garbage (t : tail) : bool := match t with TGarbage _ => true | _ => false end.

(* cutting a reply stream: it must consist of well-formed ADUs and nothing else *)
Fixpoint split_adus (fuel : nat) (o : list N) : option (list (list N)) :=
  match fuel with
  | O => None
  | S f =>
      match o with
      | [] => Some []
      | _ =>
        if (length o <? 8)%nat then None else
        if negb (a_proto o =? 0) then None else
        let n := N.to_nat (6 + a_len o) in
        if (n <? 8)%nat || (length o <? n)%nat then None else
        match split_adus f (skipn n o) with
        | Some rs => Some (firstn n o :: rs)
        | None => None
        end
      end
  end.
Definition adus_of (o : list N) : option (list (list N)) := split_adus (S (length o)) o.

(* ---------- request legality by the MAP 6.x layouts ---------- *)
Definition supported (fc : N) : bool := existsb (N.eqb fc) [1; 2; 3; 4; 5; 6; 15; 16; 17; 23].
Definition is_fixed6 (fc : N) : bool := (1 <=? fc) && (fc <=? 6).
(* bytes up to and including the last fixed field (for 15/16/23: the byte count) *)
Definition fixed_len (fc : N) : nat :=
  if is_fixed6 fc then 12%nat else if (fc =? 15) || (fc =? 16) then 13%nat else if fc =? 23 then 17%nat else 8%nat.
Definition between (lo x hi : N) : bool := (lo <=? x) && (x <=? hi).
Definition quantities_ok (f : list N) : bool :=
  let fc := a_fc f in
  let q := fld16 f 10 in
  if (fc =? 1) || (fc =? 2) then between 1 q 2000 else
  if (fc =? 3) || (fc =? 4) then between 1 q 125 else
  if fc =? 5 then (q =? 0xFF00) || (q =? 0) else
  if fc =? 15 then between 1 q 1968 else
  if fc =? 16 then between 1 q 123 else
  if fc =? 23 then between 1 q 125 && between 1 (fld16 f 14) 121 else
  true.
Definition bc_off (fc : N) : nat := if fc =? 23 then 16%nat else 12%nat.
Definition has_bc (fc : N) : bool := (fc =? 15) || (fc =? 16) || (fc =? 23).

(* a request of a supported function that a server must answer with exception 03: the body is
   shorter than the function's fixed fields, a quantity / value is outside the MAP limits, or the
   byte count announces more data than the ADU holds *)
Definition must_refuse (f : list N) : bool :=
  let fc := a_fc f in
  (length f <? fixed_len fc)%nat || negb (quantities_ok f) ||
  (has_bc fc && (N.of_nat (length f) <? N.of_nat (bc_off fc) + 1 + byte_at f (bc_off fc))).

(* exactly the MAP layout with consistent counts and legal quantities *)
Definition clean_legal (f : list N) : bool :=
  let fc := a_fc f in
  let len := N.of_nat (length f) in
  let bc := byte_at f (bc_off fc) in
  if is_fixed6 fc then (len =? 12) && quantities_ok f else
  if fc =? 15 then (len =? 13 + bc) && quantities_ok f && (bc =? (fld16 f 10 + 7) / 8) else
  if fc =? 16 then (len =? 13 + bc) && quantities_ok f && (bc =? 2 * fld16 f 10) else
  if fc =? 17 then len =? 8 else
  if fc =? 23 then (len =? 17 + bc) && quantities_ok f && (bc =? 2 * fld16 f 14) else
  false.

(* the exception reply MAP 7 prescribes for request [f] *)
Definition exception_for (f : list N) (code : N) : list N :=
  exception_adu_tcp (a_tid f) (a_unit f) (a_fc f) code.
Definition is_exception_for (f r : list N) (code : N) : bool := list_eqb r (exception_for f code).
(* an exception reply to [f] with an unspecified code *)
Definition is_some_exception_for (f r : list N) : bool :=
  wf_adu r && (length r =? 9)%nat && addressed_to f r && (a_fc r =? a_fc f + 128).
(* a normal (non-exception) reply to [f] *)
Definition is_response_for (f r : list N) : bool :=
  wf_adu r && addressed_to f r && (a_fc r =? a_fc f).
