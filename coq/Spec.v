(* Spec.v -- what "MODBUS Application Protocol Specification V1.1b3" (MAP) and "MODBUS Messaging on
   TCP/IP Implementation Guide V1.0b" prescribe, written from those documents and independently
   of the Go code and of PacketModel.v.  References are to MAP sections. *)
Require Import MB.GoSem MB.CrcSpec.
Open Scope N_scope.

(* big-endian encoding of a 16-bit field (MAP 4.2 "MODBUS uses a big-Endian representation") *)
Definition hi (x : N) : N := x / 256.
Definition lo (x : N) : N := x mod 256.
Definition w16 (x : N) : list N := [hi x; lo x].

(* ---------- ADUs ---------- *)
(* TCP: MBAP header = transaction id, protocol id 0, length = number of following bytes (unit id
   + PDU), unit id; then the PDU (Messaging Guide 3.1.3) *)
Definition adu_tcp (tid unit : N) (pdu : list N) : list N :=
  w16 tid ++ w16 0 ++ w16 (1 + N.of_nat (length pdu)) ++ [unit] ++ pdu.
(* serial line RTU: address, PDU, CRC low byte first (Serial Line spec 2.5.1) *)
Definition adu_rtu (unit : N) (pdu : list N) : list N :=
  let b := unit :: pdu in b ++ spec_trailer b.

(* MAP 4.1: PDU <= 253 bytes, hence TCP ADU <= 260 and RTU ADU <= 256 *)
Definition max_pdu : nat := 253.
Definition max_adu_tcp : nat := 260.
Definition max_adu_rtu : nat := 256.

(* ---------- coil packing (MAP 6.1, 6.11) ----------
   "The LSB of the first data byte contains the output addressed in the query. The other coils
   follow toward the high order end of this byte, and from low order to high order in subsequent
   bytes."  Byte k = sum_j coil(8k+j) * 2^j; unused high bits of the last byte are zero. *)
Fixpoint byte_of_bits (bs : list bool) : N :=
  match bs with [] => 0 | b :: r => (if b then 1 else 0) + 2 * byte_of_bits r end.
Definition coil_bytes (n : nat) : nat := ((n + 7) / 8)%nat.
Definition pack_coils (coils : list bool) : list N :=
  map (fun k => byte_of_bits (firstn 8 (skipn (8 * k) coils))) (seq 0 (coil_bytes (length coils))).
(* reading: coil number i of a payload *)
Definition coil_at (payload : list N) (i : N) : bool :=
  N.testbit (nth (N.to_nat (i / 8)) payload 0) (i mod 8).

(* ---------- requests: arguments, legality, PDU (MAP 6.x) ---------- *)
Inductive sreq :=
| SRead (fc u start qty : N)                       (* 6.1-6.4 *)
| SWCoil (u addr : N) (on : bool)                  (* 6.5 *)
| SWReg (u addr : N) (v0 v1 : N)                   (* 6.6: register value, two bytes *)
| SWCoils (u start : N) (coils : list bool)        (* 6.11 *)
| SWRegs (u start : N) (values : list N)           (* 6.12: register values as bytes, 2 per register *)
| SSrvId (u : N)                                   (* 6.13 *)
| SRW (u rstart rqty wstart : N) (values : list N). (* 6.17 *)

Definition sreq_unit (r : sreq) : N :=
  match r with
  | SRead _ u _ _ | SWCoil u _ _ | SWReg u _ _ _ | SWCoils u _ _ | SWRegs u _ _ | SSrvId u | SRW u _ _ _ _ => u
  end.

(* quantity limits per function *)
Definition read_limit (fc : N) : N := if (fc =? 1) || (fc =? 2) then 2000 else 125.
Definition even (n : nat) : bool := (n mod 2 =? 0)%nat.

Definition legal (r : sreq) : bool :=
  match r with
  | SRead fc u start qty =>
      ((fc =? 1) || (fc =? 2) || (fc =? 3) || (fc =? 4)) && (1 <=? qty) && (qty <=? read_limit fc)
  | SWCoil _ _ _ => true
  | SWReg _ _ _ _ => true
  | SWCoils _ _ coils => (1 <=? length coils)%nat && (length coils <=? 1968)%nat     (* 0x07B0 *)
  | SWRegs _ _ v => even (length v) && (1 <=? length v / 2)%nat && (length v / 2 <=? 123)%nat (* 0x7B *)
  | SSrvId _ => true
  | SRW _ _ rq _ v =>
      (1 <=? rq) && (rq <=? 125) && even (length v) && (1 <=? length v / 2)%nat && (length v / 2 <=? 121)%nat
  end.

Definition pdu (r : sreq) : list N :=
  match r with
  | SRead fc _ start qty => [fc] ++ w16 start ++ w16 qty
  | SWCoil _ addr on => [5] ++ w16 addr ++ (if on then [0xFF; 0x00] else [0x00; 0x00])
  | SWReg _ addr v0 v1 => [6] ++ w16 addr ++ [v0; v1]
  | SWCoils _ start coils =>
      [15] ++ w16 start ++ w16 (N.of_nat (length coils)) ++ [N.of_nat (coil_bytes (length coils))] ++ pack_coils coils
  | SWRegs _ start v =>
      [16] ++ w16 start ++ w16 (N.of_nat (length v / 2)) ++ [N.of_nat (length v)] ++ v
  | SSrvId _ => [17]
  | SRW _ rs rq ws v =>
      [23] ++ w16 rs ++ w16 rq ++ w16 ws ++ w16 (N.of_nat (length v / 2)) ++ [N.of_nat (length v)] ++ v
  end.

Definition request_adu_tcp (tid : N) (r : sreq) : list N := adu_tcp tid (sreq_unit r) (pdu r).
Definition request_adu_rtu (r : sreq) : list N := adu_rtu (sreq_unit r) (pdu r).

(* ---------- responses (MAP 6.x "Response") ---------- *)
Inductive sresp :=
| SPBytes (fc u : N) (data : list N)     (* FC1,2,3,4,23: function, byte count, data *)
| SPWCoil (u addr : N) (on : bool)       (* FC5: echo *)
| SPWReg (u addr v0 v1 : N)              (* FC6: echo *)
| SPWMulti (fc u start qty : N)          (* FC15,16: start, quantity *)
| SPSrvId (u : N) (id : list N) (run : N) (add : list N). (* FC17 *)

Definition sresp_unit (p : sresp) : N :=
  match p with SPBytes _ u _ | SPWCoil u _ _ | SPWReg u _ _ _ | SPWMulti _ u _ _ | SPSrvId u _ _ _ => u end.

(* MAP 6.13 response: function, byte count, server id (device specific), run indicator status,
   additional data -- the byte count covers everything that follows it *)
Definition rpdu (p : sresp) : list N :=
  match p with
  | SPBytes fc _ data => [fc; N.of_nat (length data)] ++ data
  | SPWCoil _ addr on => [5] ++ w16 addr ++ (if on then [0xFF; 0x00] else [0x00; 0x00])
  | SPWReg _ addr v0 v1 => [6] ++ w16 addr ++ [v0; v1]
  | SPWMulti fc _ start qty => [fc] ++ w16 start ++ w16 qty
  | SPSrvId _ id run add => [17; N.of_nat (length id + 1 + length add)] ++ id ++ [run] ++ add
  end.
(* the layout this library documents for FC17: the count byte is the length of the server id
   only; run indicator and additional data follow outside the count *)
Definition rpdu_library_fc17 (id : list N) (run : N) (add : list N) : list N :=
  [17; N.of_nat (length id)] ++ id ++ [run] ++ add.

(* MAP 7: exception response = function code with the MSB set, exception code *)
Definition exception_pdu (fc code : N) : list N := [fc + 128; code].
Definition exception_adu_tcp (tid u fc code : N) : list N := adu_tcp tid u (exception_pdu fc code).
Definition exception_adu_rtu (u fc code : N) : list N := adu_rtu u (exception_pdu fc code).

(* exception codes (MAP 7) used by the server properties *)
Definition ILLEGAL_FUNCTION : N := 1.
Definition ILLEGAL_DATA_ADDRESS : N := 2.
Definition ILLEGAL_DATA_VALUE : N := 3.

(* ---------- registers (MAP 4.2/4.3; the byte/word order conventions are the library's) ---------- *)
(* the 2*n wire bytes of the n registers starting at [addr] in a response payload whose first
   register is [start]; None when some addressed register is outside [start, start+count) *)
Definition reg_window (payload : list N) (start addr : N) (n : nat) : option (list N) :=
  let count := N.of_nat (length payload / 2) in
  if (start <=? addr) && (addr + N.of_nat n <=? start + count)
  then Some (firstn (2 * n) (skipn (2 * N.to_nat (addr - start)) payload))
  else None.
