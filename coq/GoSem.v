(* GoSem.v -- the few pieces of Go semantics the properties depend on.

   * bytes are [N] constrained by [bytes_ok];
   * fixed-width unsigned arithmetic wraps ([u8], [u16], [u32], [add16], [sub16], ...);
   * a Go []byte is its visible bytes plus the stale bytes between len and cap, so that
     an out-of-range index panics and an over-long re-slice silently reads stale bytes,
     exactly as in Go;
   * a Go call returning (value, error) that may also panic is a [res].

   Only definitions and small characterising lemmas; no property is stated here. *)
From Coq Require Export List NArith ZArith Lia Bool.
From Coq Require Import ZifyBool ZifyN ZifyNat.
Export ListNotations.
Open Scope N_scope.
Ltac Zify.zify_post_hook ::= Z.div_mod_to_equations.

(* ---------- outcome of a Go call ---------- *)
Inductive res (E A : Type) := Ok (a : A) | Err (e : E) | Panic.
Arguments Ok {E A}. Arguments Err {E A}. Arguments Panic {E A}.

Definition bind {E A B} (x : res E A) (f : A -> res E B) : res E B :=
  match x with Ok a => f a | Err e => Err e | Panic => Panic end.
Notation "'let*' x ':=' c 'in' k" := (bind c (fun x => k))
  (at level 200, x pattern, right associativity).

Definition is_ok {E A} (x : res E A) : bool := match x with Ok _ => true | _ => false end.
Definition is_err {E A} (x : res E A) : bool := match x with Err _ => true | _ => false end.
Definition is_panic {E A} (x : res E A) : bool := match x with Panic => true | _ => false end.
Definition map_err {E F A} (f : E -> F) (x : res E A) : res F A :=
  match x with Ok a => Ok a | Err e => Err (f e) | Panic => Panic end.
Definition map_ok {E A B} (f : A -> B) (x : res E A) : res E B :=
  match x with Ok a => Ok (f a) | Err e => Err e | Panic => Panic end.

(* ---------- fixed width unsigned integers ---------- *)
Definition u8 (x : N) : N := x mod 256.
Definition u16 (x : N) : N := x mod 65536.
Definition u32 (x : N) : N := x mod 4294967296.
Definition add8 (a b : N) : N := u8 (a + b).
Definition sub8 (a b : N) : N := u8 (a + 256 - b mod 256).
Definition add16 (a b : N) : N := u16 (a + b).
Definition sub16 (a b : N) : N := u16 (a + 65536 - b mod 65536).
Definition mul16 (a b : N) : N := u16 (a * b).

Definition bytes_ok (l : list N) : Prop := Forall (fun b => b < 256) l.
Definition bytes_okb (l : list N) : bool := forallb (fun b => b <? 256) l.

Lemma bytes_okb_spec l : bytes_okb l = true <-> bytes_ok l.
Proof.
  unfold bytes_okb, bytes_ok. rewrite forallb_forall, Forall_forall.
  split; intros H x Hx; specialize (H x Hx); lia.
Qed.

Lemma bytes_ok_app a b : bytes_ok (a ++ b) <-> bytes_ok a /\ bytes_ok b.
Proof. unfold bytes_ok. apply Forall_app. Qed.

Lemma bytes_ok_cons x l : bytes_ok (x :: l) <-> x < 256 /\ bytes_ok l.
Proof. unfold bytes_ok. split; [intros H; split; [exact (Forall_inv H)|exact (Forall_inv_tail H)]|intros [A B]; constructor; assumption]. Qed.

Lemma bytes_ok_nil : bytes_ok []. Proof. constructor. Qed.

Lemma bytes_ok_firstn n l : bytes_ok l -> bytes_ok (firstn n l).
Proof.
  unfold bytes_ok. rewrite !Forall_forall. intros H x Hx. apply H.
  rewrite <- (firstn_skipn n l). apply in_or_app. left. exact Hx.
Qed.
Lemma bytes_ok_skipn n l : bytes_ok l -> bytes_ok (skipn n l).
Proof.
  unfold bytes_ok. rewrite !Forall_forall. intros H x Hx. apply H.
  rewrite <- (firstn_skipn n l). apply in_or_app. right. exact Hx.
Qed.

(* ---------- big endian 16 bit fields ---------- *)
Definition be16 (l : list N) : N :=
  match l with [a; b] => a * 256 + b | _ => 0 end.
Definition le16 (l : list N) : N :=
  match l with [a; b] => b * 256 + a | _ => 0 end.
Definition put16 (x : N) : list N := [x / 256; x mod 256].

Lemma be16_put16 x : x < 65536 -> be16 (put16 x) = x.
Proof. unfold be16, put16. intros. lia. Qed.
Lemma put16_ok x : x < 65536 -> bytes_ok (put16 x).
Proof. intros H. unfold put16. repeat constructor; lia. Qed.
Lemma put16_length x : length (put16 x) = 2%nat. Proof. reflexivity. Qed.
Lemma put16_be16 a b : a < 256 -> b < 256 -> put16 (be16 [a; b]) = [a; b].
Proof. intros Ha Hb. unfold put16, be16. f_equal; [|f_equal]; lia. Qed.
Lemma be16_lt a b : a < 256 -> b < 256 -> be16 [a; b] < 65536.
Proof. unfold be16. lia. Qed.

(* ---------- slices ---------- *)
Record slice := { vis : list N; spare : list N }.
Definition slen (s : slice) : nat := length (vis s).
Definition scap (s : slice) : nat := (length (vis s) + length (spare s))%nat.
Definition exact (l : list N) : slice := {| vis := l; spare := [] |}.
Definition trim (d : slice) : slice := {| vis := vis d; spare := [] |}.

(* s[i] *)
Definition idx {E} (s : slice) (i : nat) : res E N :=
  match nth_error (vis s) i with Some b => Ok b | None => Panic end.
(* s[i:j] -- legal up to cap; bytes beyond len come from the spare capacity *)
Definition sub {E} (s : slice) (i j : nat) : res E (list N) :=
  if (i <=? j)%nat && (j <=? scap s)%nat
  then Ok (firstn (j - i) (skipn i (vis s ++ spare s))) else Panic.
(* s[i:] -- up to len *)
Definition from {E} (s : slice) (i : nat) : res E (list N) :=
  if (i <=? slen s)%nat then Ok (skipn i (vis s)) else Panic.

Lemma idx_lt {E} d i : (i < slen d)%nat ->
  exists b, @idx E d i = Ok b /\ nth_error (vis d) i = Some b.
Proof.
  unfold idx, slen. intros H. destruct (nth_error (vis d) i) eqn:E1.
  - eauto.
  - apply nth_error_None in E1. lia.
Qed.
Lemma sub_in {E} d i j : (i <= j)%nat -> (j <= slen d)%nat ->
  @sub E d i j = Ok (firstn (j - i) (skipn i (vis d))).
Proof.
  unfold sub, scap, slen. intros H1 H2.
  replace ((i <=? j)%nat && (j <=? length (vis d) + length (spare d))%nat) with true by lia.
  f_equal. rewrite skipn_app, firstn_app.
  rewrite skipn_length.
  replace (j - i - (length (vis d) - i))%nat with 0%nat by lia.
  rewrite firstn_O, app_nil_r. reflexivity.
Qed.
Lemma from_in {E} d i : (i <= slen d)%nat -> @from E d i = Ok (skipn i (vis d)).
Proof. unfold from. intros H. replace (i <=? slen d)%nat with true by lia. reflexivity. Qed.

Lemma slen_trim d : slen (trim d) = slen d. Proof. reflexivity. Qed.
Lemma vis_trim d : vis (trim d) = vis d. Proof. reflexivity. Qed.
Lemma idx_trim {E} d i : @idx E (trim d) i = idx d i. Proof. reflexivity. Qed.
Lemma from_trim {E} d i : @from E (trim d) i = from d i. Proof. reflexivity. Qed.
Lemma trim_exact d : trim d = exact (vis d). Proof. reflexivity. Qed.

Lemma nth_error_firstn_skipn {A} (l : list A) i b :
  nth_error l i = Some b -> firstn 1 (skipn i l) = [b].
Proof.
  revert i. induction l as [|x l IH]; intros [|i] H; cbn in *; try discriminate.
  - inversion H. reflexivity.
  - apply IH. exact H.
Qed.

Lemma firstn_skipn_succ {A} (l : list A) i n b :
  nth_error l i = Some b ->
  firstn (S n) (skipn i l) = b :: firstn n (skipn (S i) l).
Proof.
  revert i. induction l as [|x l IH]; intros [|i] H; cbn in *; try discriminate.
  - inversion H. reflexivity.
  - apply IH. exact H.
Qed.

Lemma nth_error_bytes_ok l i b : bytes_ok l -> nth_error l i = Some b -> b < 256.
Proof.
  unfold bytes_ok. rewrite Forall_forall. intros H Hn. apply H. eapply nth_error_In. exact Hn.
Qed.

(* One step of symbolic execution of a parser body over a slice [d] whose length facts are in the
   context: resolve an in-range [idx]/[sub]/[from], or split one [if]. *)
Ltac go_step :=
  match goal with
  | |- context [@idx ?E (trim ?d) ?i] => rewrite (@idx_trim E d i)
  | |- context [@from ?E (trim ?d) ?i] => rewrite (@from_trim E d i)
  | |- context [@idx ?E ?d ?i] =>
      let b := fresh "b" in let Hb := fresh "Hb" in let Hn := fresh "Hn" in
      destruct (@idx_lt E d i) as [b [Hb Hn]]; [rewrite ?slen_trim; lia|]; rewrite !Hb; cbn [bind]
  | |- context [@sub ?E ?d ?i ?j] =>
      rewrite (@sub_in E d i j) by (rewrite ?slen_trim; lia); rewrite ?vis_trim; cbn [bind]
  | |- context [@from ?E ?d ?i] =>
      rewrite (@from_in E d i) by (rewrite ?slen_trim; lia); rewrite ?vis_trim; cbn [bind]
  | |- context [if ?c then _ else _] => destruct c eqn:?
  end.

(* ---------- small list helpers ---------- *)
Fixpoint seqN_from (n : nat) (start : N) : list N :=
  match n with O => [] | S k => start :: seqN_from k (N.succ start) end.
Definition seqN (n : N) : list N := seqN_from (N.to_nat n) 0.
Lemma in_seqN_from n : forall s x, s <= x < s + N.of_nat n -> In x (seqN_from n s).
Proof.
  induction n as [|n IH]; intros s x H; [lia|]. cbn [seqN_from].
  destruct (N.eq_dec x s) as [->|Hne]; [left; reflexivity|right]. apply IH. lia.
Qed.
Lemma in_seqN n x : x < n -> In x (seqN n).
Proof. intros H. apply in_seqN_from. rewrite N2Nat.id. lia. Qed.

Fixpoint iter {A} (n : nat) (f : A -> A) (x : A) : A :=
  match n with O => x | S k => iter k f (f x) end.

Definition list_eqb (a b : list N) : bool :=
  (length a =? length b)%nat && forallb (fun p => fst p =? snd p) (combine a b).
Lemma list_eqb_eq : forall a b, list_eqb a b = true <-> a = b.
Proof.
  unfold list_eqb. induction a as [|x a IH]; intros [|y b]; cbn; split; intros H; try discriminate; try reflexivity.
  - apply andb_prop in H. destruct H as [H1 H2]. apply andb_prop in H2. destruct H2 as [H2 H3].
    apply N.eqb_eq in H2. subst y. f_equal. apply IH. rewrite H1, H3. reflexivity.
  - inversion H. subst. rewrite N.eqb_refl. cbn.
    specialize (IH b). destruct IH as [_ IH]. specialize (IH eq_refl). exact IH.
Qed.
