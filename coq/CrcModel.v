(* CrcModel.v -- transcription of packet.CRC16 (packet/packet.go).

     crc := uint16(0xffff)
     for _, b := range data {
         crc ^= uint16(b)
         for i := 0; i < 8; i++ {
             if crc&1 == 1 { crc = (crc >> 1) ^ 0xA001 } else { crc >>= 1 }
         }
     }
*)
Require Import MB.GoSem.
Open Scope N_scope.

Definition bit_step (c : N) : N :=
  if N.eqb (N.land c 1) 1 then N.lxor (N.shiftr c 1) 0xA001 else N.shiftr c 1.
Definition byte_step (c b : N) : N := iter 8 bit_step (N.lxor c b).
Definition crc16 (l : list N) : N := fold_left byte_step l 0xFFFF.

(* uint8(crc), uint8(crc >> 8): the trailer of every RTU frame, low byte first *)
Definition crc_lo (c : N) : N := c mod 256.
Definition crc_hi (c : N) : N := (c / 256) mod 256.
Definition crc_trailer (body : list N) : list N := [crc_lo (crc16 body); crc_hi (crc16 body)].
Definition with_crc (body : list N) : list N := body ++ crc_trailer body.
