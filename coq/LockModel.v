(* LockModel.v -- the lock-discipline layer (properties C14 and C17): statement language of the
   skeletons that /verif/translator regenerates from client.go, serialclient.go and
   server/server.go, its trace semantics, and the executable checker [well_locked].
   Definitions only; the proofs are in proofs/LockProofs.v.

   Three levels:
     1. SURFACE language [stmt] -- what the translator emits (DESIGN.md 4.2), with field and mutex
        names as strings.  The classification of fields (guarded by which mutex / atomic /
        configuration) lives HERE, not in the translator.
     2. CORE language [cstmt] for ONE mutex m -- obtained by [elab]: lock statements of other
        mutexes and accesses to fields not guarded by m disappear, n-ary branches become binary,
        [Call f] becomes [CScope (body of f)] (inlined up to [call_depth], deeper = rejected),
        [Go body] disappears from the parent (the body is a thread of its own, see [thread_bodies]),
        [Unknown] makes the elaboration fail.
     3. TRACE semantics [tr] of the core language: every finite partial execution -- any path
        through branches and loops, preempted (stopped) anywhere -- as the list of lock events
        [EAcq | ERel | EUse] the thread performs; deferred unlocks are performed at the return of
        the frame that registered them; a call is a new frame.
   The discipline [run]: acquire only when not owning, release and touch guarded fields only when
   owning.  The checker [chk] is proved sound for it (LockProofs.chk_entry_sound). *)
From Coq Require Import List String Bool Arith.
Import ListNotations.
Open Scope string_scope.
Open Scope list_scope.

(* ------------------------------------------------------------------------------------------ *)
(* 1. surface language                                                                         *)

Inductive rw := R | W.

Inductive stmt :=
| Lock (m : string)                 (* recv.mu.Lock() *)
| Unlock (m : string)               (* recv.mu.Unlock() *)
| DeferUnlock (m : string)          (* defer recv.mu.Unlock() *)
| RLock (m : string)                (* recv.mu.RLock(): for the discipline below it is a Lock (stricter:
                                        acquire only when not owning ...), but it does NOT exclude other
                                        readers -- what a function that read-locks may do is restricted
                                        separately, see [shared_ok] *)
| RUnlock (m : string)
| DeferRUnlock (m : string)
| Use (field : string) (a : rw)     (* recv.field read, written, called through or passed on *)
| Call (callee : string)            (* call of a function / method declared in the same file *)
| Go (body : list stmt)             (* go statement: a new thread, starts without any lock *)
| Branch (alts : list (list stmt))  (* if / switch / select *)
| Loop (body : list stmt)           (* for *)
| Return | Break | Continue
| Other
| Unknown (what : string).          (* not recognised by the translator: fails the obligation *)

Inductive fkind := KFunc | KClosure.
Record fn := { fn_name : string; fn_kind : fkind; fn_exported : bool; fn_body : list stmt }.

Inductive skind := SInit | SAssign.  (* composite literal of a fresh object | any other write *)
Record field := { fd_name : string; fd_type : string; fd_sites : list (string * skind) }.

Record program := {
  p_file : string;
  p_funcs : list fn;
  p_values : list string;     (* functions, methods and closures used as values *)
  p_fields : list field;
  p_foreign : list string     (* references to these structs from other files of the package *)
}.

(* ---- classification of fields ---- *)
Definition guarded_fields : list (string * string) :=
  [ ("Client.conn", "Client.mu"); ("Client.address", "Client.mu");
    ("SerialClient.serialPort", "SerialClient.mu");
    ("Server.listener", "Server.mu"); ("Server.activeConnections", "Server.mu") ].
(* fields that are written once before sharing (configuration rule below) but whose every READ --
   in particular every call through them -- must be made while holding the mutex: the user's hook
   object is only ever called by the lock holder, so it need not be goroutine-safe and its
   BeforeWrite / AfterEachRead / BeforeParse calls of one request are never interleaved with
   another request's *)
Definition locked_use_fields : list (string * string) :=
  [ ("Client.hooks", "Client.mu"); ("SerialClient.hooks", "SerialClient.mu") ].
Definition atomic_fields : list string :=
  [ "Server.isShutdown"; "Server.activeConnectionCount"; "connection.state" ].
Definition all_mutexes : list string := [ "Client.mu"; "SerialClient.mu"; "Server.mu" ].
(* every other field is "configuration": written only while its object is not yet shared, i.e. by a
   composite literal, or by an assignment inside one of these functions, or in the prologue of
   Server.serve before its first loop / go statement *)
Definition config_writers : list string :=
  [ "defaultClient"; "NewTCPClientWithConfig"; "NewRTUClientWithConfig";   (* constructors *)
    "WithSerialHooks$1"; "WithSerialReadTimeout$1";                        (* option functions *)
    "onceCloseListener.close" ].        (* runs under sync.Once, on a listener wrapper local to serve *)
Definition prologue_writers : list string := [ "Server.serve" ].

Fixpoint assoc (l : list (string * string)) (k : string) : option string :=
  match l with
  | [] => None
  | (a, b) :: r => if String.eqb a k then Some b else assoc r k
  end.
Definition mem (k : string) (l : list string) : bool := existsb (String.eqb k) l.
Definition guarded_by (f m : string) : bool :=
  match assoc guarded_fields f with Some m' => String.eqb m' m | None => false end.
Definition locked_use (f m : string) : bool :=
  match assoc locked_use_fields f with Some m' => String.eqb m' m | None => false end.
Definition is_guarded (f : string) : bool :=
  match assoc guarded_fields f with Some _ => true | None => false end.

(* ---- generic deep traversals of the surface language ---- *)
Fixpoint any_stmt (P : stmt -> bool) (s : stmt) {struct s} : bool :=
  let fix any_l (l : list stmt) : bool :=
    match l with [] => false | x :: r => any_stmt P x || any_l r end in
  let fix any_ll (ls : list (list stmt)) : bool :=
    match ls with [] => false | a :: r => any_l a || any_ll r end in
  P s ||
  match s with
  | Go b => any_l b
  | Branch alts => any_ll alts
  | Loop b => any_l b
  | _ => false
  end.
Definition any_list (P : stmt -> bool) (l : list stmt) : bool := existsb (any_stmt P) l.

(* bodies of all go statements, however deeply nested (each is a thread of its own) *)
Fixpoint go_bodies (s : stmt) {struct s} : list (list stmt) :=
  let fix gl (l : list stmt) : list (list stmt) :=
    match l with [] => [] | x :: r => go_bodies x ++ gl r end in
  let fix gll (ls : list (list stmt)) : list (list stmt) :=
    match ls with [] => [] | a :: r => gl a ++ gll r end in
  match s with
  | Go b => b :: gl b
  | Branch alts => gll alts
  | Loop b => gl b
  | _ => []
  end.
Definition go_bodies_list (l : list stmt) : list (list stmt) := flat_map go_bodies l.

(* ------------------------------------------------------------------------------------------ *)
(* 2. core language of one mutex, and the elaboration                                          *)

Inductive cstmt :=
| CLock | CUnlock | CDeferUnlock
| CUse                               (* access to a field guarded by the mutex (or a read of /
                                        call through a locked-use field, see above) *)
| CBranch (a b : list cstmt)
| CLoop (body : list cstmt)
| CBreak | CContinue | CRet
| CScope (body : list cstmt).        (* call: run body in a new frame *)

Section Elab.
  Variable m : string.                                  (* the mutex considered *)
  Variable call : string -> option (list cstmt).        (* elaborated callee bodies *)

  Fixpoint elab_stmt (s : stmt) {struct s} : option (list cstmt) :=
    let fix el (l : list stmt) : option (list cstmt) :=
      match l with
      | [] => Some []
      | x :: r => match elab_stmt x, el r with Some a, Some b => Some (a ++ b) | _, _ => None end
      end in
    let fix ealts (ls : list (list stmt)) : option (list cstmt) :=
      match ls with
      | [] => Some []
      | a :: r =>
          match r with
          | [] => el a
          | _ => match el a, ealts r with Some x, Some y => Some [CBranch x y] | _, _ => None end
          end
      end in
    match s with
    | Lock m' | RLock m' => Some (if String.eqb m' m then [CLock] else [])
    | Unlock m' | RUnlock m' => Some (if String.eqb m' m then [CUnlock] else [])
    | DeferUnlock m' | DeferRUnlock m' => Some (if String.eqb m' m then [CDeferUnlock] else [])
    | Use f a => Some (if guarded_by f m || (match a with R => locked_use f m | W => false end)
                       then [CUse] else [])
    | Call f => match call f with Some b => Some [CScope b] | None => None end
    | Go _ => Some []
    | Branch alts => ealts alts
    | Loop b => match el b with Some x => Some [CLoop x] | None => None end
    | Return => Some [CRet]
    | Break => Some [CBreak]
    | Continue => Some [CContinue]
    | Other => Some []
    | Unknown _ => None
    end.

  Fixpoint elab_list (l : list stmt) : option (list cstmt) :=
    match l with
    | [] => Some []
    | x :: r => match elab_stmt x, elab_list r with Some a, Some b => Some (a ++ b) | _, _ => None end
    end.
End Elab.

Fixpoint find_fn (fs : list fn) (name : string) : option fn :=
  match fs with
  | [] => None
  | f :: r => if String.eqb (fn_name f) name then Some f else find_fn r name
  end.

(* callee bodies, inlined to the given depth; deeper call chains (and recursion) are rejected *)
Fixpoint resolve (p : program) (m : string) (depth : nat) (f : string) : option (list cstmt) :=
  match depth with
  | O => None
  | S d => match find_fn (p_funcs p) f with
           | Some g => elab_list m (resolve p m d) (fn_body g)
           | None => None
           end
  end.
Definition call_depth : nat := 6.
Definition elab (p : program) (m : string) (body : list stmt) : option (list cstmt) :=
  elab_list m (resolve p m call_depth) body.

(* ------------------------------------------------------------------------------------------ *)
(* 3. trace semantics of the core language                                                     *)

Inductive event := EAcq | ERel | EUse.
Inductive status := Done | Stopped.     (* Stopped = the thread was not scheduled any further *)

(* running code: program statements, plus the marker "back at the head of this loop" that an
   entered loop leaves behind its body (the target of break / continue) *)
Inductive item := IStmt (s : cstmt) | IAgain (body : list cstmt).
Definition code (c : list cstmt) : list item := map IStmt c.
(* a suspended caller: what it still has to run, and how many deferred unlocks it has pending *)
Definition frame := (list item * nat)%type.

Fixpoint to_again (l : list item) : list item :=
  match l with
  | [] => []
  | IAgain b :: r => IAgain b :: r
  | IStmt _ :: r => to_again r
  end.

(* [tr n c d k t st]: the frame running [c] with [d] deferred unlocks pending, on top of the
   suspended frames [k], can perform the events [t] and then be in status [st].  [n] bounds the
   number of loop iterations entered; it only serves as an induction measure. *)
Inductive tr : nat -> list item -> nat -> list frame -> list event -> status -> Prop :=
| tr_stop n c d k : tr n c d k [] Stopped
| tr_end_rel n d k t st : tr n [] d k t st -> tr n [] (S d) k (ERel :: t) st
| tr_end_top n : tr n [] 0 [] [] Done
| tr_end_pop n c d k t st : tr n c d k t st -> tr n [] 0 ((c, d) :: k) t st
| tr_lock n r d k t st : tr n r d k t st -> tr n (IStmt CLock :: r) d k (EAcq :: t) st
| tr_unlock n r d k t st : tr n r d k t st -> tr n (IStmt CUnlock :: r) d k (ERel :: t) st
| tr_defer n r d k t st : tr n r (S d) k t st -> tr n (IStmt CDeferUnlock :: r) d k t st
| tr_use n r d k t st : tr n r d k t st -> tr n (IStmt CUse :: r) d k (EUse :: t) st
| tr_brl n a b r d k t st : tr n (code a ++ r) d k t st -> tr n (IStmt (CBranch a b) :: r) d k t st
| tr_brr n a b r d k t st : tr n (code b ++ r) d k t st -> tr n (IStmt (CBranch a b) :: r) d k t st
| tr_loop n body r d k t st : tr n (IAgain body :: r) d k t st -> tr n (IStmt (CLoop body) :: r) d k t st
| tr_again_out n body r d k t st : tr n r d k t st -> tr n (IAgain body :: r) d k t st
| tr_again_in n body r d k t st :
    tr n (code body ++ IAgain body :: r) d k t st -> tr (S n) (IAgain body :: r) d k t st
| tr_break n r body r' d k t st :
    to_again r = IAgain body :: r' -> tr n r' d k t st -> tr n (IStmt CBreak :: r) d k t st
| tr_continue n r body r' d k t st :
    to_again r = IAgain body :: r' -> tr n (IAgain body :: r') d k t st -> tr n (IStmt CContinue :: r) d k t st
| tr_ret n r d k t st : tr n [] d k t st -> tr n (IStmt CRet :: r) d k t st
| tr_scope n body r d k t st :
    tr n (code body) 0 ((r, d) :: k) t st -> tr n (IStmt (CScope body) :: r) d k t st.

(* all finite partial executions of a thread that runs [c] *)
Definition thread_trace (c : list cstmt) (t : list event) (st : status) : Prop :=
  exists n, tr n (code c) 0 [] t st.

(* ---- the discipline ---- *)
(* [run o t]: ownership after the events [t] when starting with ownership [o]; None = an event
   broke the discipline (acquire while owning, release or guarded access while not owning) *)
Fixpoint run (o : bool) (t : list event) : option bool :=
  match t with
  | [] => Some o
  | EAcq :: r => if o then None else run true r
  | ERel :: r => if o then run false r else None
  | EUse :: r => if o then run o r else None
  end.

(* the same, spelled out event by event *)
Fixpoint holds (o : bool) (t : list event) : bool :=     (* does the thread own the lock after t *)
  match t with
  | [] => o
  | EAcq :: r => holds true r
  | ERel :: r => holds false r
  | EUse :: r => holds o r
  end.
Definition disciplined (o : bool) (t : list event) : Prop :=
  forall pre e post, t = pre ++ e :: post ->
    match e with
    | EAcq => holds o pre = false         (* acquires only when it does not own the lock *)
    | ERel => holds o pre = true          (* releases only when it does *)
    | EUse => holds o pre = true          (* touches guarded fields only while owning it *)
    end.

(* [x] = the ownership a complete execution must end with *)
Definition ok_end (x o : bool) (t : list event) (st : status) : Prop :=
  match run o t with
  | None => False
  | Some o' => st = Stopped \/ o' = x
  end.
Definition safe_n (n : nat) (c : list item) (d : nat) (k : list frame) (x o : bool) : Prop :=
  forall m t st, m <= n -> tr m c d k t st -> ok_end x o t st.
(* a body entered with ownership [o] (and leaving with the same) *)
Definition safe_from (o : bool) (c : list cstmt) : Prop :=
  forall t st, thread_trace c t st -> ok_end o o t st.

(* ------------------------------------------------------------------------------------------ *)
(* 4. the checker                                                                              *)

Definition st2 := (bool * bool)%type.      (* owned, deferred-unlock pending in this frame *)

(* returning from a frame whose caller expects ownership [x] afterwards *)
Definition ret_ok (o d x : bool) : bool := if d then o && negb x else Bool.eqb o x.

Definition merge (a b : option st2) : option (option st2) :=
  match a, b with
  | None, z | z, None => Some z
  | Some (o1, d1), Some (o2, d2) => if Bool.eqb o1 o2 && Bool.eqb d1 d2 then Some a else None
  end.

(* result: None = rejected; Some None = no path falls through (all return / break / continue);
   Some (Some (o,d)) = falls through in this state.
   [x] = ownership the frame has to leave with; [lp] = state at the head of the enclosing loop *)
Fixpoint chk (fuel : nat) (s : list cstmt) (x : bool) (lp : option st2) (o d : bool)
  : option (option st2) :=
  match fuel with O => None | S fuel =>
  match s with
  | [] => Some (Some (o, d))
  | CLock :: r => if o then None else chk fuel r x lp true d
  | CUnlock :: r => if o && negb d then chk fuel r x lp false d else None
  | CDeferUnlock :: r => if o && negb d then chk fuel r x lp o true else None
  | CUse :: r => if o then chk fuel r x lp o d else None
  | CRet :: _ => if ret_ok o d x then Some None else None
  | CBreak :: _ | CContinue :: _ =>
      match lp with
      | Some (o0, d0) => if Bool.eqb o o0 && Bool.eqb d d0 then Some None else None
      | None => None
      end
  | CBranch a b :: r =>
      match chk fuel a x lp o d, chk fuel b x lp o d with
      | Some ra, Some rb =>
          match merge ra rb with
          | Some None => Some None
          | Some (Some (o', d')) => chk fuel r x lp o' d'
          | None => None
          end
      | _, _ => None
      end
  | CLoop body :: r =>
      match chk fuel body x (Some (o, d)) o d with
      | Some None => chk fuel r x lp o d
      | Some (Some (o', d')) => if Bool.eqb o o' && Bool.eqb d d' then chk fuel r x lp o d else None
      | None => None
      end
  | CScope body :: r =>
      (* a call must give the lock back in the state it got it *)
      match chk fuel body o None o false with
      | Some None => chk fuel r x lp o d
      | Some (Some (o', d')) => if ret_ok o' d' o then chk fuel r x lp o d else None
      | None => None
      end
  end end.

Fixpoint csize (s : cstmt) {struct s} : nat :=
  let fix cl (l : list cstmt) : nat := match l with [] => 1 | y :: r => S (csize y + cl r) end in
  match s with
  | CBranch a b => cl a + cl b
  | CLoop b => cl b
  | CScope b => cl b
  | _ => 0
  end.
Fixpoint csize_list (l : list cstmt) : nat :=
  match l with [] => 1 | y :: r => S (csize y + csize_list r) end.

(* a body entered with ownership [o] that must also leave with [o] *)
Definition chk_entry (o : bool) (c : list cstmt) : bool :=
  match chk (S (csize_list c)) c o None o false with
  | Some None => true
  | Some (Some (o', d')) => ret_ok o' d' o
  | None => false
  end.

(* no lock event at all, whatever is executed: required of everything that can be called through
   a function value (the translator cannot see those call sites) *)
Fixpoint neutral (s : cstmt) {struct s} : bool :=
  let fix nl (l : list cstmt) : bool := match l with [] => true | y :: r => neutral y && nl r end in
  match s with
  | CLock | CUnlock | CDeferUnlock | CUse => false
  | CBranch a b => nl a && nl b
  | CLoop b => nl b
  | CScope b => nl b
  | CBreak | CContinue | CRet => true
  end.
Definition neutral_list (l : list cstmt) : bool := forallb neutral l.

(* ------------------------------------------------------------------------------------------ *)
(* 5. the obligation on a generated program                                                    *)

Definition is_unknown (s : stmt) : bool := match s with Unknown _ => true | _ => false end.
Definition is_lock_op (s : stmt) : bool :=
  match s with
  | Lock _ | Unlock _ | DeferUnlock _ | RLock _ | RUnlock _ | DeferRUnlock _ => true
  | _ => false
  end.
Definition is_rlock (s : stmt) : bool := match s with RLock _ => true | _ => false end.
Definition mutex_known (s : stmt) : bool :=
  match s with
  | Lock m | Unlock m | DeferUnlock m | RLock m | RUnlock m | DeferRUnlock m => mem m all_mutexes
  | _ => true
  end.

(* ---- read locks ----
   The trace semantics and the global theorem model ONE holder at a time; an RWMutex admits several
   readers.  A function that read-locks is therefore only accepted if nothing it does, callees
   included, needs exclusion from other readers: it writes no guarded field, and it does not touch
   the transport handles at all (every use of conn / serialPort is part of an exchange or of
   Close / Connect, which must be carried out one at a time: exclusive lock only).  Server.Addr
   (RLock; read listener) is of this kind.  Coarse on purpose: the whole function is judged, not
   only its read-locked region. *)
Definition exclusive_use_fields : list string := [ "Client.conn"; "SerialClient.serialPort" ].

Fixpoint uses_stmt (call : string -> list (string * rw)) (s : stmt) {struct s} : list (string * rw) :=
  let fix ul (l : list stmt) : list (string * rw) :=
    match l with [] => [] | x :: r => uses_stmt call x ++ ul r end in
  let fix ull (ls : list (list stmt)) : list (string * rw) :=
    match ls with [] => [] | a :: r => ul a ++ ull r end in
  match s with
  | Use f a => [(f, a)]
  | Call g => call g
  | Branch alts => ull alts
  | Loop b => ul b
  | _ => []
  end.
Fixpoint uses_depth (p : program) (depth : nat) (f : string) : list (string * rw) :=
  match depth with
  | O => []
  | S d => match find_fn (p_funcs p) f with
           | Some g => flat_map (uses_stmt (uses_depth p d)) (fn_body g)
           | None => []
           end
  end.
Definition shared_use_ok (u : string * rw) : bool :=
  negb (mem (fst u) exclusive_use_fields) &&
  match snd u with W => negb (is_guarded (fst u)) | R => true end.
Definition shared_ok (p : program) : bool :=
  forallb (fun f => if any_list is_rlock (fn_body f)
                    then forallb shared_use_ok (flat_map (uses_stmt (uses_depth p call_depth)) (fn_body f))
                    else true) (p_funcs p).

Definition all_go_bodies (p : program) : list (list stmt) :=
  flat_map (fun f => go_bodies_list (fn_body f)) (p_funcs p).

(* the bodies that run as threads of their own, entered without any lock: exported functions and
   methods (called by the user's goroutines), and go statements *)
Definition thread_bodies (p : program) : list (list stmt) :=
  map fn_body (filter (fun f => match fn_kind f with KFunc => fn_exported f | KClosure => false end) (p_funcs p))
  ++ all_go_bodies p.

Definition entry_ok (p : program) (m : string) (o : bool) (body : list stmt) : bool :=
  match elab p m body with Some c => chk_entry o c | None => false end.
Definition neutral_ok (p : program) (m : string) (body : list stmt) : bool :=
  match elab p m body with Some c => neutral_list c | None => false end.

(* how a function may be entered with respect to mutex m:
   Some false = without the lock, Some true = with the lock held (helper), None = neither *)
Definition entry_mode (p : program) (m : string) (f : fn) : option bool :=
  if entry_ok p m false (fn_body f) then Some false
  else if negb (fn_exported f) && negb (any_list is_lock_op (fn_body f)) && entry_ok p m true (fn_body f)
       then Some true else None.
Definition entry_mode_of (p : program) (m name : string) : option bool :=
  match find_fn (p_funcs p) name with Some f => entry_mode p m f | None => None end.

Definition fn_ok (p : program) (m : string) (f : fn) : bool :=
  match fn_kind f with
  | KClosure => neutral_ok p m (fn_body f)
  | KFunc =>
      (if mem (fn_name f) (p_values p) then neutral_ok p m (fn_body f) else true) &&
      match entry_mode p m f with Some _ => true | None => false end
  end.

Definition mutex_ok (p : program) (m : string) : bool :=
  forallb (fn_ok p m) (p_funcs p) &&
  forallb (entry_ok p m false) (thread_bodies p).

Definition no_unknown (p : program) : bool :=
  forallb (fun f => negb (any_list is_unknown (fn_body f))
                    && negb (any_list (fun y => negb (mutex_known y)) (fn_body f))) (p_funcs p).

Definition no_foreign (p : program) : bool :=
  match p_foreign p with [] => true | _ => false end.

(* ---- release on every path, panics included ----
   The trace semantics does not model panics.  A lock released by `defer Unlock` is released when
   the function panics (a user hook, req.Bytes(), a parse function may panic and the caller may
   recover); a lock released by an explicit Unlock is not.  A function with an explicit
   (non-deferred) Unlock is therefore only accepted if, at the top level of its body, everything
   between a Lock and the next Unlock is a plain assignment to a field (Use _ W: cannot call
   anything) or a use of an atomic field (Load / Store: cannot panic), and no explicit Unlock occurs
   deeper.  Server.serve (Lock; listener = ...; isShutdown.Load(); Unlock) is of this kind. *)
Definition is_explicit_unlock (s : stmt) : bool :=
  match s with Unlock _ | RUnlock _ => true | _ => false end.
Fixpoint plain_sections (inside : bool) (l : list stmt) : bool :=
  match l with
  | [] => true
  | s :: r =>
      if inside then
        match s with
        | Use _ W => plain_sections true r
        | Use f R => mem f atomic_fields && plain_sections true r
        | Unlock _ | RUnlock _ => plain_sections false r
        | _ => false
        end
      else
        match s with
        | Lock _ | RLock _ => plain_sections true r
        | _ => negb (any_stmt is_explicit_unlock s) && plain_sections false r
        end
  end.
Definition panic_safe (p : program) : bool :=
  forallb (fun f => if any_list is_explicit_unlock (fn_body f) then plain_sections false (fn_body f) else true)
          (p_funcs p).

(* the lock discipline of the file: read locks only in functions that need no exclusion; nothing
   unrecognised, only known mutexes, no reference to the
   structs' fields / unexported methods from other files, and for every mutex: every function has a
   definite entry mode, everything callable through a function value is neutral, and every thread
   body (exported function, go statement) is checked from "lock free" *)
Definition locks_ok (p : program) : bool :=
  no_unknown p && no_foreign p && shared_ok p && panic_safe p && forallb (mutex_ok p) all_mutexes.

(* ---- configuration fields: written only before the object is shared ---- *)
Definition is_go_or_loop (s : stmt) : bool := match s with Go _ | Loop _ => true | _ => false end.
Definition writes_field (f : string) (s : stmt) : bool :=
  match s with Use g W => String.eqb g f | _ => false end.
(* in the body: every write of [f] comes before the first statement that contains a loop or a go *)
Fixpoint prologue_ok (f : string) (l : list stmt) : bool :=
  match l with
  | [] => true
  | s :: r => if any_stmt is_go_or_loop s then negb (any_list (writes_field f) (s :: r))
              else prologue_ok f r
  end.

Definition prefix_atomic (t : string) : bool := String.prefix "atomic." t.
Definition is_mutex_type (t : string) : bool := String.eqb t "sync.Mutex" || String.eqb t "sync.RWMutex".

Definition site_ok (p : program) (f : string) (s : string * skind) : bool :=
  match s with
  | (_, SInit) => true
  | (g, SAssign) =>
      mem g config_writers ||
      (mem g prologue_writers &&
       match find_fn (p_funcs p) g with Some fd => prologue_ok f (fn_body fd) | None => false end)
  end.

Definition field_ok (p : program) (fd : field) : bool :=
  if is_mutex_type (fd_type fd) then true                          (* only used through lock statements *)
  else if is_guarded (fd_name fd) then true                        (* every access is a Use, checked by locks_ok *)
  else if mem (fd_name fd) atomic_fields
       then prefix_atomic (fd_type fd) && forallb (fun s => match s with (_, SInit) => true | _ => false end) (fd_sites fd)
  else forallb (site_ok p (fd_name fd)) (fd_sites fd).

(* fields that carry the type of an atomic must be classified atomic, guarded ones must exist *)
Definition config_ok (p : program) : bool := forallb (field_ok p) (p_fields p).

(* THE regenerated obligation *)
Definition well_locked (p : program) : bool := locks_ok p && config_ok p.
