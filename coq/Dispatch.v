(* Dispatch.v -- the table of all correspondence entries (see Entry.v): the concatenation of the
   tables of the layers.  Used extracted (ocaml/driver) and by vm_compute (gen/Golden_*.v). *)
Require Import MB.GoSem MB.Val MB.Entry MB.DispPacket MB.DispRegisters MB.DispConc MB.DispClient MB.DispServer MB.DispBuilder MB.DispLifecycle.
From Coq Require Import String.

Definition table : list entry := table_packet ++ table_registers ++ table_conc ++ table_client ++ table_server ++ table_builder ++ table_lifecycle.

Definition lookup (n : string) : option entry := lookup_in table n.
Definition case_ok (c : case) : bool := case_ok_in table c.
Definition mismatches (cs : list case) : list case := mismatches_in table cs.
