(* Dispatch.v -- the table of correspondence entries: for every entry point exercised by the Go
   harness, how the model computes the projected outcome from the case's input ([e_run]) and how
   the executable statement of property number p judges an implementation outcome
   ([e_verdict p], built from the independent specifications).
   Used extracted (ocaml/driver) and by vm_compute (gen/Golden_*.v). *)
Require Import MB.GoSem MB.Val MB.CrcModel MB.CrcSpec MB.DispPacket.
From Coq Require Import String.
Open Scope string_scope.
Open Scope N_scope.

Record entry := { e_name : string; e_run : list val -> val; e_verdict : N -> list val -> val -> N }.

Definition no_verdict (_ : N) (_ : list val) (_ : val) : N := NOT_JUDGED.

(* ---- CRC16 itself (C03 a) ---- *)
Definition run_crc16 (a : list val) : val :=
  match a with [VB l] => vN (crc16 l) | _ => v_bad end.
Definition verdict_crc16 (p : N) (a : list val) (out : val) : N :=
  match a with
  | [VB l] => if val_eqb out (vN (spec_crc16 l)) then HOLDS else VIOLATES
  | _ => NOT_JUDGED
  end.

Definition ctor_entry (nm : string) : entry :=
  {| e_name := nm; e_run := run_ctor nm;
     e_verdict := fun p a o => if p =? 1 then verdict_ctor_C01 nm a o
                               else if p =? 3 then verdict_ctor_C03 nm a o else NOT_JUDGED |}.

Definition table : list entry :=
  [ {| e_name := "crc16"; e_run := run_crc16; e_verdict := verdict_crc16 |};
    ctor_entry "new_read"; ctor_entry "new_wcoil"; ctor_entry "new_wreg"; ctor_entry "new_wcoils";
    ctor_entry "new_wregs"; ctor_entry "new_srvid"; ctor_entry "new_rw";
    {| e_name := "rt_req"; e_run := run_rt_req;
       e_verdict := fun p a o => if p =? 9 then verdict_rt_req_C09 a o else NOT_JUDGED |};
    {| e_name := "parse1"; e_run := run_parse1;
       e_verdict := fun p a o => if p =? 9 then verdict_parse1_C09 a o
                                 else if p =? 3 then verdict_parse1_C03 a o
                                 else if p =? 2 then verdict_parse1_C02 a o else NOT_JUDGED |};
    {| e_name := "parse3"; e_run := run_parse3;
       e_verdict := fun p a o => if p =? 10 then verdict_parse3_C10 a o else NOT_JUDGED |};
    {| e_name := "resp_bytes"; e_run := run_resp_bytes;
       e_verdict := fun p a o => if p =? 3 then verdict_bytes_C03 a o else NOT_JUDGED |};
    {| e_name := "exc_bytes"; e_run := run_exc_bytes;
       e_verdict := fun p a o => if p =? 3 then verdict_bytes_C03 a o else NOT_JUDGED |};
    {| e_name := "rt_resp"; e_run := run_rt_resp;
       e_verdict := fun p a o => if p =? 2 then verdict_rt_resp_C02 a o else NOT_JUDGED |};
    {| e_name := "fc17"; e_run := run_fc17;
       e_verdict := fun p a o => if p =? 2 then verdict_fc17_C02 a o else NOT_JUDGED |};
    {| e_name := "exc"; e_run := run_exc;
       e_verdict := fun p a o => if p =? 2 then verdict_exc_C02 a o else NOT_JUDGED |};
    {| e_name := "coils_to_bytes"; e_run := run_coils_to_bytes;
       e_verdict := fun p a o => if (p =? 1) || (p =? 11) then verdict_coils_C01 a o else NOT_JUDGED |};
    {| e_name := "is_coil_set"; e_run := run_is_coil_set;
       e_verdict := fun p a o => if p =? 11 then verdict_is_coil_set_C11 a o else NOT_JUDGED |};
    {| e_name := "coil_readback"; e_run := run_coil_readback;
       e_verdict := fun p a o => if p =? 11 then verdict_coil_readback_C11 a o else NOT_JUDGED |};
    {| e_name := "classify"; e_run := run_classify;
       e_verdict := fun p a o => if p =? 18 then verdict_classify_C18 a o else NOT_JUDGED |};
    {| e_name := "classify_enc"; e_run := run_classify_enc;
       e_verdict := fun p a o => if p =? 18 then verdict_classify_enc_C18 a o else NOT_JUDGED |}
  ].

Fixpoint lookup_in (t : list entry) (n : string) : option entry :=
  match t with
  | [] => None
  | e :: t' => if String.eqb (e_name e) n then Some e else lookup_in t' n
  end.
Definition lookup (n : string) : option entry := lookup_in table n.

(* used by the kernel-checked golden samples *)
Definition case := (string * list val * val)%type.
Definition case_ok (c : case) : bool :=
  match c with (n, a, o) =>
    match lookup n with Some e => val_eqb (e_run e a) o | None => false end
  end.
Definition mismatches (cs : list case) : list case := filter (fun c => negb (case_ok c)) cs.
