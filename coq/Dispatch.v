(* Dispatch.v -- for every entry point exercised by the Go harness: how the model computes the
   projected outcome from the case's input ([e_run]) and how the property's own executable
   statement judges an implementation outcome ([e_verdict], from the independent specifications).
   Used extracted (ocaml/driver) and by vm_compute (gen/Golden_*.v). *)
Require Import MB.GoSem MB.Val MB.CrcModel MB.CrcSpec.
From Coq Require Import String.
Open Scope N_scope.
Open Scope string_scope.

Record entry := { e_name : string; e_run : list val -> val; e_verdict : list val -> val -> N }.

Definition no_verdict (_ : list val) (_ : val) : N := NOT_JUDGED.

(* ---- C03 ---- *)
Definition run_crc16 (a : list val) : val :=
  match a with [VB l] => vN (crc16 l) | _ => v_bad end.
Definition verdict_crc16 (a : list val) (out : val) : N :=
  match a with
  | [VB l] => if val_eqb out (vN (spec_crc16 l)) then HOLDS else VIOLATES
  | _ => NOT_JUDGED
  end.

Definition table : list entry :=
  [ {| e_name := "crc16"; e_run := run_crc16; e_verdict := verdict_crc16 |}
  ].

Fixpoint lookup_in (t : list entry) (n : string) : option entry :=
  match t with
  | [] => None
  | e :: t' => if String.eqb (e_name e) n then Some e else lookup_in t' n
  end.
Definition lookup (n : string) : option entry := lookup_in table n.

(* used by the kernel-checked golden samples *)
Definition case := (string * list val * val)%type.
Definition case_ok (c : case) : bool :=
  match c with (n, a, o) =>
    match lookup n with Some e => val_eqb (e_run e a) o | None => false end
  end.
Definition mismatches (cs : list case) : list case := filter (fun c => negb (case_ok c)) cs.
