(* CrcAlgebra.v -- definitions for the algebraic characterisation of packet.CRC16 (C03, stretch):
   polynomials over GF(2), remainder modulo a generator, and the conventions of CRC-16/MODBUS
   (generator x^16 + x^15 + x^2 + 1, register and message bytes bit-reflected, preset 0xFFFF, no
   final xor).  Definitions only; the proofs are in proofs/CrcAlgebraProofs.v.

   A polynomial over GF(2) is an [N]: bit i of the number is the coefficient of x^i (so 0x18005 is
   x^16 + x^15 + x^2 + 1).  This representation is canonical (no trailing-zero ambiguity), addition
   is [N.lxor], multiplication by x is [N.double], "degree < n" is "< 2^n" and the degree of a
   non-zero polynomial is [N.log2]. *)
Require Import MB.GoSem MB.CrcModel MB.CrcSpec.
Open Scope N_scope.

(* ---------------------------------------------------------------------------------------------- *)
(* GF(2)[x]                                                                                        *)
(* ---------------------------------------------------------------------------------------------- *)
Definition padd (a b : N) : N := N.lxor a b.            (* a + b  (= a - b) *)
Definition pmulx (a : N) : N := N.double a.              (* a * x *)
Definition pshift (a k : N) : N := N.shiftl a k.         (* a * x^k *)

(* a * b: schoolbook multiplication, recursion on the coefficients of a:
   (1 + x a') b = b + x (a' b),   (x a') b = x (a' b) *)
Fixpoint pmul_pos (a : positive) (b : N) : N :=
  match a with
  | xH => b
  | xO a' => N.double (pmul_pos a' b)
  | xI a' => N.lxor b (N.double (pmul_pos a' b))
  end.
Definition pmul (a b : N) : N := match a with 0 => 0 | Npos p => pmul_pos p b end.

Definition pdeg (a : N) : N := N.log2 a.                 (* degree, for a <> 0 *)
Definition deg_lt (a n : N) : Prop := a < 2 ^ n.         (* deg a < n (true for a = 0) *)

(* r is a remainder of a modulo g: a = g q + r for some quotient q, and deg r < deg g *)
Definition is_rem (a g r : N) : Prop :=
  deg_lt r (pdeg g) /\ exists q, a = padd (pmul g q) r.

(* the remainder as a function: Horner evaluation over the coefficients of a from the top,
   reducing once after each step:   (x a' + c) mod g = reduce (x (a' mod g) + c) *)
Definition reduce1 (g t : N) : N := if N.testbit t (pdeg g) then N.lxor t g else t.
Fixpoint pmod_pos (g : N) (a : positive) : N :=
  match a with
  | xH => reduce1 g 1
  | xO a' => reduce1 g (N.double (pmod_pos g a'))
  | xI a' => reduce1 g (N.succ_double (pmod_pos g a'))
  end.
Definition pmod (a g : N) : N := match a with 0 => 0 | Npos p => pmod_pos g p end.

(* ---------------------------------------------------------------------------------------------- *)
(* CRC-16/MODBUS conventions                                                                       *)
(* ---------------------------------------------------------------------------------------------- *)
(* the generator x^16 + x^15 + x^2 + 1; without the leading term it is 0x8005 ("normal" form),
   bit-reversed in 16 bits that is the 0xA001 of the code *)
Definition G16 : N := 0x18005.

(* bit reversal of a w-bit word: bit i <-> bit w-1-i *)
Definition revw (w : nat) (c : N) : N := N_of_bv (rev (bv_of_N w c)).
Definition rev16 (c : N) : N := revw 16 c.

(* the register started from an arbitrary value; [crc16 = crc_from 0xFFFF] by definition *)
Definition crc_from (init : N) (m : list N) : N := fold_left byte_step m init.
Definition crc0 (m : list N) : N := crc_from 0 m.

(* the message as transmitted on the serial line: byte after byte, least significant bit of each
   byte first (section 2.5.1.2 of the serial-line specification) ... *)
Definition msg_bits (m : list N) : list bool := flat_map bits8 m.
(* ... read as a polynomial whose highest-degree coefficient is the first transmitted bit:
   M(x) = sum_j bit_j x^(8n-1-j) *)
Definition hstep (p : N) (b : bool) : N := N.lxor (N.double p) (N.b2n b).
Definition poly_of_bits (bs : list bool) : N := fold_left hstep bs 0.
Definition msg_poly (m : list N) : N := poly_of_bits (msg_bits m).

(* the bit-serial form of the register update: one message bit enters at the low end *)
Definition feed (c : N) (b : bool) : N := bit_step (N.lxor c (N.b2n b)).
Definition crc_bits (init : N) (bs : list bool) : N := fold_left feed bs init.

(* the same register written unreflected (bit i = coefficient of x^i): multiply by x, add the
   message bit at x^16, reduce modulo G16 *)
Definition nfeed (r : N) (b : bool) : N :=
  reduce1 G16 (N.lxor (N.double r) (if b then 65536 else 0)).

(* ---------------------------------------------------------------------------------------------- *)
(* byte strings as vectors over GF(2), error patterns, the receiver's check                        *)
(* ---------------------------------------------------------------------------------------------- *)
Fixpoint xorl (a b : list N) : list N :=
  match a, b with x :: a', y :: b' => N.lxor x y :: xorl a' b' | _, _ => [] end.
Definition zeros (n : nat) : list N := repeat 0 n.

(* byte i of f xor-ed with d *)
Fixpoint flip_at (i : nat) (d : N) (f : list N) : list N :=
  match f with
  | [] => []
  | x :: r => match i with O => N.lxor x d :: r | S k => x :: flip_at k d r end
  end.
(* the error pattern of length n that is d in byte i and 0 elsewhere *)
Definition unit_err (n i : nat) (d : N) : list N := zeros i ++ d :: zeros (n - S i).

(* what a receiver does: the last two bytes must be the CRC (low byte first) of the rest *)
Definition frame_check (f : list N) : bool :=
  (2 <=? length f)%nat &&
  list_eqb (skipn (length f - 2) f) (crc_trailer (firstn (length f - 2) f)).

(* an error pattern is a burst of length <= 16: on the wire (bit stream, LSB of each byte first)
   all its 1-bits lie within 16 consecutive positions, and there is at least one *)
Definition burst16 (e : list N) : Prop :=
  exists k w j, msg_bits e = repeat false k ++ w ++ repeat false j /\
                (length w <= 16)%nat /\ In true w.
