(* ClientModel.v -- hand-written, executable transcription of client.go (Client.Do, Client.do)
   and serialclient.go (SerialClient.Do, SerialClient.do, SerialClient.flush) of the
   repaired tree, as ONE function of

     - the client configuration: which constructor made the client (NewTCPClient*, NewRTUClient*,
       NewSerialClient), whether it is connected, whether hooks are installed, whether the serial
       port implements Flusher;
     - the request (None = a nil packet.Request; otherwise framing, transaction id, request);
     - a *script* that fixes everything the environment decides: the results of SetWriteDeadline,
       Write and Flush, and for each iteration of the read loop whether the context is done,
       whether the total-timeout timer has fired (when both are ready Go's select picks either
       case: a script bit), and what the transport's Read returns (a Read may return bytes
       together with any of its errors).

   It returns the outcome of the call and the trace of observable calls the client makes: the
   three ClientHooks callbacks with their arguments, and the transport calls (SetWriteDeadline,
   Write, Read, Flush).  SetReadDeadline, time.Sleep(30ms) and the mutex are not in the trace.

   The two Go read loops are copies of each other that differ in five places; they share one
   parametrised definition here and every difference is marked [net]/[serial]:
     buffer and limit     [net] 270 / 260 (tcpPacketMaxLen, also for the RTU network client)
                          [serial] 266 / 256
     flush                [serial] c.flush() before every return after the write and before the
                          break at the threshold; a flush error replaces the result
     io.EOF               [net] leaves the loop; [serial] is ignored like a timed-out read
     SetWriteDeadline     [net] only
     not connected        [net] &ErrClientNotConnected; [serial] errors.New

   The loop is a structural recursion on the script: one step per iteration; running out of steps
   is the distinguished result [OOutOfScript] (the theorems exclude it).  A Read can never return
   more bytes than the slice it was given (received[total:maxBytes]): a scripted chunk is cut to
   the room that is left.  No proofs in this file. *)
Require Import MB.GoSem MB.CrcModel MB.PacketModel.
Open Scope N_scope.

(* ---------- configuration, request, script ---------- *)
Inductive kind := KTcp | KRtuNet | KSerial.

Record config := { c_kind : kind; c_connected : bool; c_hooks : bool; c_flusher : bool }.

(* a packet.Request value: <X>RequestTCP (q_rtu = false) or <X>RequestRTU *)
Record creq := { q_rtu : bool; q_tid : N; q_req : req }.
(* req.Bytes(), req.ExpectedResponseLength() *)
Definition q_bytes (q : creq) : list N :=
  if q_rtu q then req_bytes_rtu (q_req q) else req_bytes_tcp (q_tid q) (q_req q).
Definition q_expected (q : creq) : nat :=
  N.to_nat (if q_rtu q then expected_len_rtu (q_req q) else expected_len_tcp (q_req q)).

(* what one call of conn.Read / serialPort.Read returns *)
Inductive rd :=
| RData (b : list N)      (* n = len b, err = nil *)
| RTimeout (b : list N)   (* n = len b (usually 0), os.ErrDeadlineExceeded *)
| REof (b : list N)       (* n = len b, io.EOF *)
| RIoErr (b : list N).    (* n = len b, any other error *)

(* s_ctx: ctx.Done() is closed when the select is reached; s_deadline: ctx.Err() is then
   context.DeadlineExceeded (the caller's own deadline), otherwise context.Canceled *)
Record step := { s_ctx : bool; s_deadline : bool; s_timer : bool; s_pick : bool; s_rd : rd }.

Record script := { sc_swd_err : bool; sc_write_err : bool; sc_flush_err : bool; sc_steps : list step }.

(* ---------- results ---------- *)
Inductive site := SiteSWD | SiteWrite | SiteRead | SiteFlush.

Inductive cerr :=
| CNilRequest          (* errors.New("request can not be nil") *)
| CNotConnected        (* &ErrClientNotConnected *)
| CNoPort              (* errors.New("serial port is not set") *)
| CCtx (deadline : bool) (* ctx.Err(): context.Canceled / context.DeadlineExceeded, returned as it is *)
| CTimeout             (* &ClientError{errors.New("total read timeout exceeded")} *)
| CNoBytes             (* &ClientError{errors.New("no bytes received")} *)
| CIo (s : site)       (* &ClientError{Err: err}, err returned by the transport call [s] *)
| CTooLong             (* &ErrPacketTooLong *)
| CExc (e : perr)      (* &ClientError{Err: errPacket}: exception frame recognised in the loop *)
| CParse (e : perr).   (* the error of parseResponseFunc, returned as it is *)

Inductive outcome := OResp (tid : N) (p : resp) | OFail (e : cerr) | OPanic | OOutOfScript.

(* result of do(): the frame, or an error *)
Inductive dores := DBytes (b : list N) | DFail (e : cerr) | DPanic | DOutOfScript.

(* the error argument of AfterEachRead / the error of a Read: 0 nil, 1 deadline exceeded, 2 EOF, 3 other *)
Inductive ev :=
| HBeforeWrite (b : list N)
| HAfterRead (chunk : list N) (n : nat) (cls : N)
| HBeforeParse (b : list N)
| TSetWriteDeadline
| TWrite (b : list N)
| TRead (chunk : list N) (cls : N)
| TFlush.

Definition with_trace {A} (t : list ev) (x : A * list ev) : A * list ev := (fst x, t ++ snd x).

(* ---------- per-client constants and functions ---------- *)
(* tcpPacketMaxLen = 260 is used by Client.do whatever the framing; rtuPacketMaxLen = 256 by SerialClient.do *)
Definition max_len (k : kind) : nat := match k with KSerial => 256 | _ => 260 end.
(* const maxBytes = ...PacketMaxLen + 10 *)
Definition buf_size (k : kind) : nat := (max_len k + 10)%nat.
Definition eof_breaks (k : kind) : bool := match k with KSerial => false | _ => true end.

(* asProtocolErrorFunc: AsTCPErrorPacket / AsRTUErrorPacketWithCRC.  (The recognisers have no
   error result of their own; the [Err] branch of the result type is not produced.) *)
Inductive recog := RNone | RExc (e : perr) | RPanic.
Definition recognise (k : kind) (d : slice) : recog :=
  match k with
  | KTcp => match as_tcp_error d with
            | Ok None => RNone | Ok (Some x) => RExc (ERespTCP x) | _ => RPanic end
  | _ => match as_rtu_error_crc d with
         | Ok None => RNone | Ok (Some (u, f, c)) => RExc (ERespRTU u f c) | _ => RPanic end
  end.

(* parseResponseFunc: ParseTCPResponse / ParseRTUResponseWithCRC (RTU packets carry no transaction id) *)
Definition parse_resp (k : kind) (d : slice) : pres (N * resp) :=
  match k with
  | KTcp => parse_tcp_response d
  | _ => let* p := parse_rtu_response_crc d in Ok (0, p)
  end.

(* received[0:total]: the visible bytes, followed by the untouched (zero) rest of the array *)
Definition window (k : kind) (acc : list N) : slice :=
  {| vis := acc; spare := repeat 0 (buf_size k - length acc) |}.

(* n, err := Read(received[total:maxBytes]) *)
Definition delivered (k : kind) (acc : list N) (r : rd) : list N * N :=
  let room := (buf_size k - length acc)%nat in
  match r with
  | RData b => (firstn room b, 0)
  | RTimeout b => (firstn room b, 1)
  | REof b => (firstn room b, 2)
  | RIoErr b => (firstn room b, 3)
  end.

Section Do.
Variable cfg : config.
Variable sc : script.

Definition hk (e : ev) : list ev := if c_hooks cfg then [e] else [].

(* SerialClient.flush, and the pattern
     if err := c.flush(); err != nil { return nil, &ClientError{Err: err} }
     return <r>
   of serialclient.go; the network client has no flush *)
Definition flush_then (r : dores) : dores * list ev :=
  match c_kind cfg with
  | KSerial =>
      if c_flusher cfg
      then (if sc_flush_err sc then DFail (CIo SiteFlush) else r, [TFlush])
      else (r, [])
  | _ => (r, [])
  end.

(* after the loop:  if total == 0 { return nil, &ClientError{"no bytes received"} }; copy; return *)
Definition finish (acc : list N) : dores :=
  match acc with [] => DFail CNoBytes | _ => DBytes acc end.

Section Loop.
Variable expected : nat.

(* the for loop of Client.do (client.go) / SerialClient.do (serialclient.go) *)
Fixpoint loop (steps : list step) (acc : list N) : dores * list ev :=
  match steps with
  | [] => (DOutOfScript, [])
  | st :: rest =>
      (* select { case <-ctx.Done(): return nil, ctx.Err()
                  case <-readTimeout: return nil, &ClientError{...}
                  default: } *)
      if s_ctx st && (s_pick st || negb (s_timer st)) then (DFail (CCtx (s_deadline st)), []) else
      if s_timer st then (DFail CTimeout, []) else
      (* [net] _ = c.conn.SetReadDeadline(...)
         n, err := Read(received[total:maxBytes]); hooks.AfterEachRead(received[total:total+n], n, err) *)
      let chunk := fst (delivered (c_kind cfg) acc (s_rd st)) in
      let cls := snd (delivered (c_kind cfg) acc (s_rd st)) in
      with_trace (TRead chunk cls :: hk (HAfterRead chunk (length chunk) cls))
      ((* if err != nil && !(errors.Is(err, os.ErrDeadlineExceeded) || errors.Is(err, io.EOF)) *)
       if cls =? 3 then flush_then (DFail (CIo SiteRead)) else
       (* total += n; if total > ...PacketMaxLen *)
       let acc' := acc ++ chunk in
       if (max_len (c_kind cfg) <? length acc')%nat then flush_then (DFail CTooLong) else
       (* if errPacket := c.asProtocolErrorFunc(received[0:total]); errPacket != nil *)
       match recognise (c_kind cfg) (window (c_kind cfg) acc') with
       | RPanic => (DPanic, [])
       | RExc e => flush_then (DFail (CExc e))
       | RNone =>
           (* if total >= expectedLen { [serial] flush; break } *)
           if (expected <=? length acc')%nat then flush_then (finish acc') else
           (* [net] if errors.Is(err, io.EOF) { break } *)
           if (cls =? 2) && eof_breaks (c_kind cfg) then (finish acc', []) else
           loop rest acc'
       end)
  end.
End Loop.

(* Client.do / SerialClient.do *)
Definition do_ (data : list N) (expected : nat) : dores * list ev :=
  match c_kind cfg with
  | KSerial =>
      (* hooks.BeforeWrite(data); serialPort.Write(data) *)
      with_trace (hk (HBeforeWrite data) ++ [TWrite data])
        (if sc_write_err sc then flush_then (DFail (CIo SiteWrite))
         else (* time.Sleep(30ms); readTimeout := time.After(c.readTimeout) *)
           loop expected (sc_steps sc) [])
  | _ =>
      (* if err := c.conn.SetWriteDeadline(...); err != nil { return nil, &ClientError{Err: err} } *)
      with_trace [TSetWriteDeadline]
        (if sc_swd_err sc then (DFail (CIo SiteSWD), []) else
         (* hooks.BeforeWrite(data); c.conn.Write(data) *)
         with_trace (hk (HBeforeWrite data) ++ [TWrite data])
           (if sc_write_err sc then (DFail (CIo SiteWrite), [])
            else loop expected (sc_steps sc) []))
  end.

(* Client.Do / SerialClient.Do *)
Definition client_do (r : option creq) : outcome * list ev :=
  match r with
  | None => (OFail CNilRequest, [])                 (* if req == nil *)
  | Some q =>
      if negb (c_connected cfg)                     (* if c.conn == nil / c.serialPort == nil *)
      then (OFail (match c_kind cfg with KSerial => CNoPort | _ => CNotConnected end), [])
      else
        let x := do_ (q_bytes q) (q_expected q) in
        match fst x with
        | DFail e => (OFail e, snd x)
        | DPanic => (OPanic, snd x)
        | DOutOfScript => (OOutOfScript, snd x)
        | DBytes b =>
            (* hooks.BeforeParse(resp); return c.parseResponseFunc(resp) -- resp is a fresh copy
               with len = cap = total *)
            (match parse_resp (c_kind cfg) (exact b) with
             | Ok (tid, p) => OResp tid p
             | Err e => OFail (CParse e)
             | Panic => OPanic
             end, snd x ++ hk (HBeforeParse b))
        end
  end.
End Do.

(* ---------- one client object, several calls ----------
   Client.Connect, Client.Close / SerialClient.Close and Do in sequence on the same object.  What a
   call leaves behind is the connection field and whether the transport has been closed:

     Connect   conn, err := c.dialContextFunc(ctx, address); if err != nil { return err };
               c.conn = conn        (the old connection, if any, is neither closed nor kept)
     Close     if c.conn == nil { return nil }; return c.conn.Close()      (c.conn stays set)
     Do        does not assign c.conn / c.serialPort on any path, whatever its outcome

   A closed transport is environment behaviour like the rest of the script: SetWriteDeadline on a
   closed net.Conn fails, Write on a closed port fails ([on_closed]).  Every method takes c.mu at
   its start and releases it by defer: a call never waits for an earlier one that has returned.
   (That the lock is released on every path is not visible in this sequential model; it is the
   regenerated lock-skeleton obligation of C14.)  The serial client has no Connect: its port is
   given to the constructor. *)
Record cstate := { st_conn : bool; st_closed : bool }.

Inductive op :=
| OpConnect (dial_fails : bool)
| OpClose
| OpDo (r : option creq) (sc : script).

Inductive opres := RConnect (ok : bool) | RClose | RDo (x : outcome * list ev).

Definition on_closed (k : kind) (sc : script) : script :=
  match k with
  | KSerial => {| sc_swd_err := sc_swd_err sc; sc_write_err := true; sc_flush_err := sc_flush_err sc; sc_steps := sc_steps sc |}
  | _ => {| sc_swd_err := true; sc_write_err := sc_write_err sc; sc_flush_err := sc_flush_err sc; sc_steps := sc_steps sc |}
  end.

(* cfg0 gives kind, hooks and flusher; its c_connected is not used *)
Definition cfg_in (cfg0 : config) (s : cstate) : config :=
  {| c_kind := c_kind cfg0; c_connected := st_conn s; c_hooks := c_hooks cfg0; c_flusher := c_flusher cfg0 |}.

Definition step_op (cfg0 : config) (s : cstate) (o : op) : cstate * opres :=
  match o with
  | OpConnect fails =>
      match c_kind cfg0 with
      | KSerial => (s, RConnect true)                     (* not a method of SerialClient *)
      | _ => if fails then (s, RConnect false)
             else ({| st_conn := true; st_closed := false |}, RConnect true)
      end
  | OpClose =>
      if st_conn s then ({| st_conn := true; st_closed := true |}, RClose) else (s, RClose)
  | OpDo r sc =>
      (s, RDo (client_do (cfg_in cfg0 s) (if st_closed s then on_closed (c_kind cfg0) sc else sc) r))
  end.

Fixpoint run_ops (cfg0 : config) (s : cstate) (ops : list op) : list opres :=
  match ops with
  | [] => []
  | o :: rest => snd (step_op cfg0 s o) :: run_ops cfg0 (fst (step_op cfg0 s o)) rest
  end.
