(* DispClient.v -- correspondence entries of the client layer (C07, C08, C12, C19).

   Entry "cdo":  args [kind; connected; flusher; hooks; request; script; want]
                 outcome [result; trace]                      one call of Client.Do / SerialClient.Do
   Entry "cdo2": args [kind; connected; flusher; request; script; want]
                 outcome [result0; trace0; result1; trace1]   the same call without and with hooks

     kind      0 a TCP network client, 1 an RTU network client, 2 the serial client
     ctor      (optional last argument, default 0) WHICH public constructor made the client:
               TCP   0 NewTCPClientWithConfig(conf)  1 NewClient(conf)  2 NewClient(conf + the TCP functions)
                     3 NewTCPClientWithConfig(conf + the non-CRC RTU functions, which it must override)  4 NewTCPClient()
               RTU   0 NewRTUClientWithConfig(conf)  1 NewClient(conf + the RTU functions)
                     2 NewRTUClientWithConfig(conf + the TCP functions, which it must override)
                     3 NewRTUClientWithConfig(conf + packet.AsRTUErrorPacket / ParseRTUResponse, the
                       variants that do NOT check the CRC, which it must override)  4 NewRTUClient()
               serial 0..2 NewSerialClient(port, options in different orders / given twice)
                      3 NewSerialClient with WithSerialReadTimeout(20ms), below the 30 ms settle sleep
               The value may carry 10 x (how the ClientHooks are implemented): 0 methods on a pointer,
               1 methods on a struct value, 2 methods on a named func type; ctor = value mod 10.
               The model does NOT depend on either.  Of the configuration the model depends on: which
               pair asProtocolErrorFunc / parseResponseFunc ends up in the client (= kind), whether
               Hooks are set, whether the client is connected / has a port, whether the port is a
               Flusher.  It does not depend on ReadTimeout / WriteTimeout (their expiry is a script
               step), on DialContextFunc, or on the constructor.  ctor 4 takes no configuration:
               the harness then talks through a real loopback connection, cannot observe the
               transport calls and installs no hooks -- the trace of such a case is [] by convention
               (and only request types with an exact ExpectedResponseLength are used, for which the
               result does not depend on how the kernel segments the stream: C07).
     request   []  (a nil packet.Request)  |  [constructor name; constructor args...] as in DispPacket.ctor_args
     script    [swd_err; write_err; flush_err; [step...]],  step = [ctx; timer_fired; pick_ctx; rd; bytes]
               ctx: 0 not done, 1 done with context.Canceled, 2 done with context.DeadlineExceeded
               rd: 0 data, 1 os.ErrDeadlineExceeded, 2 io.EOF, 3 other error -- each with the bytes
               the Read returned together with it (n > 0 with an error is allowed by io.Reader).
               The deadline error of rd 1 is a *net.OpError (Timeout() = true) around
               os.ErrDeadlineExceeded; 4 is the bare os.ErrDeadlineExceeded; 5 is
               fmt.Errorf("...: %w", os.ErrDeadlineExceeded) (no Timeout method); 6 is io.EOF wrapped
               with %w; 7 is a hard I/O failure whose error says Timeout() = true but does not wrap
               os.ErrDeadlineExceeded (a net.OpError around the syscall error ETIMEDOUT).  The model
               reads 4, 5 as 1, 6 as 2 and 7 as 3.
               write_err: 0 Write takes everything, 1 Write fails, 2+k Write returns (k, nil), a short
               count without error.  Client.do / SerialClient.do call Write once and ignore the
               count (`if _, err := ...Write(data); err != nil`), so the model reads 2+k as 0.
     want      []  |  [0; projected response]  |  [1; unit; fc; code]     the reply the scripted device
               is sending (used only by the verdicts, never by the model)
     result    ok [tid; projected response] | err [value-was-nil; is-ClientError; class...] | panic | [99]
               class: bare     0 plain (errors.New / fmt.Errorf), 60 exactly context.Canceled,
                               61 exactly context.DeadlineExceeded (the harness cancels with a
                               custom CAUSE: the result must be ctx.Err(), not context.Cause(ctx)),
                               62 / 63 an error that only wraps them (never produced by the model),
                               else DispPacket.proj_err
                      wrapped  50 ErrPacketTooLong, 51 ErrClientNotConnected, 40..43 the transport's own
                               error (SetWriteDeadline, Write, Read, Flush), 0 an anonymous errors.New
                               (timeout / no bytes), 60 / 61 a context error inside a
                               ClientError (never produced by the model), else DispPacket.proj_err of the cause
               [99]: the script ran out while the client was still reading
     trace     [0;bytes] BeforeWrite  [1;chunk;n;cls] AfterEachRead  [2;bytes] BeforeParse
               [3] Flush  [4;bytes] transport Write  [5;chunk;cls] transport Read  [6] SetWriteDeadline
               [7] Bytes() of a user-defined request was called (see dec_req)

   The verdicts are the properties' own statements evaluated on the implementation's outcome; they
   use the script, Spec.v and CrcSpec.v, never ClientModel's functions (only its script datatypes,
   into which the case is decoded). *)
Require Import MB.GoSem MB.Val MB.Entry MB.CrcModel MB.CrcSpec MB.Spec MB.PacketModel MB.DispPacket MB.ClientModel.
From Coq Require Import String.
Notation length := List.length (only parsing).
Open Scope N_scope.

(* ---------- decoding a case ---------- *)
Definition dec_kind (z : Z) : option kind :=
  match z with 0%Z => Some KTcp | 1%Z => Some KRtuNet | 2%Z => Some KSerial | _ => None end.
Definition dec_rd (k : Z) (b : list N) : option rd :=
  match k with
  | 0%Z => Some (RData b) | 1%Z => Some (RTimeout b) | 2%Z => Some (REof b) | 3%Z => Some (RIoErr b)
  (* other dynamic shapes of the same errors; the client must treat them alike (errors.Is) *)
  | 4%Z | 5%Z => Some (RTimeout b) | 6%Z => Some (REof b)
  | 7%Z => Some (RIoErr b)
  | _ => None
  end.
Definition dec_step (v : val) : option step :=
  match v with
  | VL [VI c; VI t; VI p; VI k; VB b] =>
      match dec_rd k b with
      | Some r => Some {| s_ctx := zbool c; s_deadline := Z.eqb c 2; s_timer := zbool t; s_pick := zbool p; s_rd := r |}
      | None => None
      end
  | _ => None
  end.
Fixpoint dec_steps (l : list val) : option (list step) :=
  match l with
  | [] => Some []
  | v :: r => match dec_step v, dec_steps r with Some s, Some ss => Some (s :: ss) | _, _ => None end
  end.
Definition dec_script (v : val) : option script :=
  match v with
  | VL [VI swd; VI wr; VI fl; VL steps] =>
      match dec_steps steps with
      | Some ss => Some {| sc_swd_err := zbool swd; sc_write_err := Z.eqb wr 1; sc_flush_err := zbool fl; sc_steps := ss |}
      | None => None
      end
  | _ => None
  end.
(* Some None = nil request *)
(* [1; name; args...]: the same request wrapped in a user-defined packet.Request whose Bytes() is not
   idempotent: the k-th call returns the bytes with the first byte increased by k-1.  Do calls
   Bytes() once (`c.do(ctx, req.Bytes(), req.ExpectedResponseLength())`), so what is written and
   shown to BeforeWrite are the bytes of the first call = the wrapped request's; every call of
   Bytes() is recorded in the trace as [7] *)
Definition req_rolling (v : val) : bool := match v with VL (VI 1%Z :: _) => true | _ => false end.
Definition dec_req (v : val) : option (option (creq * sreq)) :=
  match (match v with VL (VI 1%Z :: r) => VL r | _ => v end) with
  | VL [] => Some None
  | VL (VB nm :: rest) =>
      match ctor_args (string_of_bytes nm) rest with
      | Some (fr, sr, tid, Ok r) => Some (Some ({| q_rtu := negb (fr =? 0); q_tid := tid; q_req := r |}, sr))
      | _ => None
      end
  | _ => None
  end.

Record ccase := { cc_cfg : config; cc_req : option (creq * sreq); cc_script : script; cc_want : val; cc_ctor : Z;
                   cc_rolling : bool }.
Definition dec_case_ctor (a : list val) (ctor : Z) : option ccase :=
  match a with
  | [VI k; VI conn; VI fl; VI hooks; rq; scv; want] =>
      match dec_kind k, dec_req rq, dec_script scv with
      | Some kd, Some r, Some s =>
          Some {| cc_cfg := {| c_kind := kd; c_connected := zbool conn; c_hooks := zbool hooks; c_flusher := zbool fl |};
                  cc_req := r; cc_script := s; cc_want := want; cc_ctor := ctor; cc_rolling := req_rolling rq |}
      | _, _, _ => None
      end
  | _ => None
  end.
Definition dec_case (a : list val) : option ccase :=
  match a with
  | [k; conn; fl; hooks; rq; scv; want; VI ctor] => dec_case_ctor [k; conn; fl; hooks; rq; scv; want] ctor
  | _ => dec_case_ctor a 0
  end.
Definition dec_case2 (a : list val) : option ccase :=
  match a with
  | [k; conn; fl; rq; scv; want] => dec_case_ctor [k; conn; fl; VI 1%Z; rq; scv; want] 0
  | [k; conn; fl; rq; scv; want; VI ctor] => dec_case_ctor [k; conn; fl; VI 1%Z; rq; scv; want] ctor
  | _ => None
  end.
(* the constructor without configuration: the transport calls cannot be observed *)
Definition blind (c : ccase) : bool := Z.eqb (cc_ctor c mod 10) 4.

(* ---------- projections model -> val ---------- *)
Definition proj_site (s : site) : val :=
  VI (match s with SiteSWD => 40 | SiteWrite => 41 | SiteRead => 42 | SiteFlush => 43 end)%Z.
Definition proj_cerr (e : cerr) : list val :=
  match e with
  | CNilRequest | CNoPort => [VI 0%Z; VI 0%Z]
  | CCtx d => [VI 0%Z; VI (if d then 61 else 60)%Z]
  | CParse p => VI 0%Z :: proj_err p
  | CNotConnected => [VI 1%Z; VI 51%Z]
  | CTooLong => [VI 1%Z; VI 50%Z]
  | CTimeout | CNoBytes => [VI 1%Z; VI 0%Z]
  | CIo s => [VI 1%Z; proj_site s]
  | CExc p => VI 1%Z :: proj_err p
  end.
Definition proj_ev (e : ev) : val :=
  match e with
  | HBeforeWrite b => VL [VI 0%Z; VB b]
  | HAfterRead c n cls => VL [VI 1%Z; VB c; vnat n; vN cls]
  | HBeforeParse b => VL [VI 2%Z; VB b]
  | TFlush => VL [VI 3%Z]
  | TWrite b => VL [VI 4%Z; VB b]
  | TRead c cls => VL [VI 5%Z; VB c; vN cls]
  | TSetWriteDeadline => VL [VI 6%Z]
  end.
Definition out_of_script : val := VL [VI 99%Z].
(* [result; trace] as a two-element list *)
Definition proj_result (x : outcome * list ev) : list val :=
  match fst x with
  | OResp tid p => [v_ok [vN tid; proj_resp p]; VL (map proj_ev (snd x))]
  | OFail e => [v_err (VI 1%Z :: proj_cerr e); VL (map proj_ev (snd x))]
  | OPanic => [v_panic; VL (map proj_ev (snd x))]
  | OOutOfScript => [out_of_script; VL []]
  end.

Definition run_case (c : ccase) (hooks : bool) : list val :=
  let cfg := {| c_kind := c_kind (cc_cfg c); c_connected := c_connected (cc_cfg c);
                c_hooks := hooks; c_flusher := c_flusher (cc_cfg c) |} in
  let res := proj_result (client_do cfg (cc_script c) (option_map fst (cc_req c))) in
  (* req.Bytes() is evaluated once, in Do, after the two argument checks *)
  match res, cc_req c with
  | [o; VL t], Some _ =>
      if cc_rolling c && c_connected (cc_cfg c) && negb (val_eqb o out_of_script)
      then [o; VL (VL [VI 7%Z] :: t)] else res
  | _, _ => res
  end.

Definition blank_trace (l : list val) : list val :=
  match l with [o; _] => [o; VL []] | _ => l end.
Definition run_cdo (a : list val) : val :=
  match dec_case a with
  | Some c => VL (if blind c then blank_trace (run_case c (c_hooks (cc_cfg c))) else run_case c (c_hooks (cc_cfg c)))
  | None => v_bad
  end.
Definition run_cdo2 (a : list val) : val :=
  match dec_case2 a with
  | Some c => VL (run_case c false ++ run_case c true)
  | None => v_bad
  end.

(* ====================================================================================== *)
(* the properties' statements                                                             *)
(* ====================================================================================== *)

Definition is_tcp_kind (k : kind) : bool := match k with KTcp => true | _ => false end.
Definition is_serial (k : kind) : bool := match k with KSerial => true | _ => false end.
Definition sreq_fc (r : sreq) : N :=
  match r with
  | SRead fc _ _ _ => fc | SWCoil _ _ _ => 5 | SWReg _ _ _ _ => 6 | SWCoils _ _ _ => 15
  | SWRegs _ _ _ => 16 | SSrvId _ => 17 | SRW _ _ _ _ _ => 23
  end.

(* the reply of [want] as (unit, PDU, is it an exception), by Spec.v.  For function 17 the layout
   is the one this library documents (Spec.rpdu_library_fc17); that the specification's layout is
   not decoded is the separate finding of C02 *)
Definition want_pdu (want : val) : option (N * list N * bool) :=
  match want with
  | VL [VI 0%Z; pv] =>
      match unproj_resp pv with
      | Some (PSrvId u st id add) => Some (u, rpdu_library_fc17 id st add, false)
      | _ => match wf_sresp pv with Some sp => Some (sresp_unit sp, rpdu sp, false) | None => None end
      end
  | VL [VI 1%Z; VI u; VI fc; VI code] => Some (zN u, exception_pdu (zN fc) (zN code), true)
  | _ => None
  end.
(* the ADU on the wire and the result C07 demands for it *)
Definition want_frame (tcp : bool) (tid : N) (want : val) : option (list N * val * bool) :=
  match want_pdu want with
  | Some (u, pdu, is_exc) =>
      let frame := if tcp then adu_tcp tid u pdu else adu_rtu u pdu in
      let res :=
        match want with
        | VL [VI 0%Z; pv] => v_ok [vN (if tcp then tid else 0); pv]
        | VL [VI 1%Z; VI u; VI fc; VI code] =>
            if tcp then v_err [VI 1%Z; VI 1%Z; VI 3%Z; vN tid; VI u; VI fc; VI code]
            else v_err [VI 1%Z; VI 1%Z; VI 4%Z; VI u; VI fc; VI code]
        | _ => v_bad
        end in
      Some (frame, res, is_exc)
  | None => None
  end.

(* is [want] a well-formed reply to the request (MAP 6.x: echoed fields, byte count from the quantity) *)
Definition nlen (l : list N) : N := N.of_nat (length l).
Definition reply_matches (sr : sreq) (want : val) : bool :=
  match want with
  | VL [VI 1%Z; VI u; VI fc; VI code] =>
      (zN u =? sreq_unit sr) && (zN fc =? sreq_fc sr) && (zN code <? 256)    (* every exception code, 5 and 0 included *)
  | VL [VI 0%Z; pv] =>
      legal sr &&
      match unproj_resp pv, sr with
      | Some (PBytes fc u bl d), SRead rfc ru _ q =>
          (fc =? rfc) && (u =? ru) && (bl =? nlen d) &&
          (nlen d =? (if (rfc =? 1) || (rfc =? 2) then (q + 7) / 8 else 2 * q))
      | Some (PBytes fc u bl d), SRW ru _ rq _ _ =>
          (fc =? 23) && (u =? ru) && (bl =? nlen d) && (nlen d =? 2 * rq)
      | Some (PWCoil u a st), SWCoil ru ra on => (u =? ru) && (a =? ra) && Bool.eqb st on
      | Some (PWReg u a d0 d1), SWReg ru ra v0 v1 => (u =? ru) && (a =? ra) && (d0 =? v0) && (d1 =? v1)
      | Some (PWMulti fc u s c), SWCoils ru rs coils =>
          (fc =? 15) && (u =? ru) && (s =? rs) && (c =? N.of_nat (length coils))
      | Some (PWMulti fc u s c), SWRegs ru rs v =>
          (fc =? 16) && (u =? ru) && (s =? rs) && (c =? N.of_nat (length v / 2))
      | Some (PSrvId u st id add), SSrvId ru => (u =? ru) && (1 <=? nlen id) && (st <? 256)
      | _, _ => false
      end
  | _ => false
  end.

Definition is_prefix (b l : list N) : bool :=
  (length b <=? length l)%nat && list_eqb b (firstn (length b) l).

(* C07 scripts: the reply arrives, cut into reads, with empty timed-out reads in between and nothing
   else happening, until it is complete.  Result: the sizes of the data reads. *)
Fixpoint clean_delivery (steps : list step) (rest : list N) : option (list nat) :=
  match rest with
  | [] => Some []
  | _ :: _ =>
      match steps with
      | [] => None
      | st :: more =>
          if s_ctx st || s_timer st then None else
          match s_rd st with
          | RData b | RTimeout b =>       (* with a nil error, or together with the read deadline *)
              if is_prefix b rest
              then option_map (cons (length b)) (clean_delivery more (skipn (length b) rest))
              else None
          | REof b =>                     (* the stream may end with the reply: the last bytes with io.EOF *)
              if list_eqb b rest then Some [length b] else None
          | _ => None
          end
      end
  end.

Fixpoint prefix_sums (acc : nat) (l : list nat) : list nat :=
  match l with [] => [] | x :: r => (acc + x)%nat :: prefix_sums (acc + x) r end.
Definition hits (p : nat -> bool) (sizes : list nat) : bool := existsb p (prefix_sums 0 sizes).

(* shapes of results *)
Definition res_is_ok (o : val) : bool := match o with VL (VI 0%Z :: _) => true | _ => false end.
Definition res_is_panic (o : val) : bool := match o with VL [VI 2%Z] => true | _ => false end.
Definition res_is_err (o : val) : bool := match o with VL (VI 1%Z :: VI 1%Z :: _) => true | _ => false end.
(* an error of the response parser: bare, plain or bad CRC *)
Definition res_bare_parse_err (o : val) : bool :=
  match o with VL [VI 1%Z; VI 1%Z; VI 0%Z; VI c] => Z.eqb c 0 || Z.eqb c 5 | _ => false end.
Definition res_anon_client_err (o : val) : bool := val_eqb o (v_err [VI 1%Z; VI 1%Z; VI 0%Z]).
Definition res_waits (o : val) : bool := res_anon_client_err o || val_eqb o out_of_script.

(* Known findings (D7: ExpectedResponseLength).  A result that is not the one the property demands is
   inside a documented region iff the request type, the framing, the sizes of the reads and the
   kind of wrong result are those of the entry:
     130..133  RTU FC1..FC4: some prefix sum of the read sizes = len-1 (= 4+N)   -> parser error
     134, 135  RTU FC5, FC6: some prefix sum in {6, 7}                           -> parser error
     136       TCP FC5:      some prefix sum = 11                                -> parser error
     137, 138  TCP / RTU FC23: always                                            -> the client keeps waiting
     139, 140  TCP / RTU FC17: some prefix sum in [8, len) / [2, len)            -> parser error or a
                                                                                    shorter reply
   [sizes] are the data reads before the reply is complete (C07) or before the fault (C08);
   [len] the length of the complete reply. *)
Definition d7_region (tcp fl : bool) (sr : sreq) (is_exc : bool) (sizes : list nat) (len : nat) (o : val) : N :=
  (* [fl]: the serial port's Flush fails too: that error replaces the parser's *)
  let res_bare_parse_err o := res_bare_parse_err o || (fl && val_eqb o (v_err [VI 1%Z; VI 1%Z; VI 43%Z])) in
  match sr with
  | SRead fc _ _ _ =>
      if negb tcp && negb is_exc && hits (fun s => (s =? len - 1)%nat) sizes && res_bare_parse_err o
      then 129 + fc else VIOLATES
  | SWCoil _ _ _ =>
      if negb is_exc && res_bare_parse_err o then
        if tcp then (if hits (fun s => (s =? 11)%nat) sizes then 136 else VIOLATES)
        else (if hits (fun s => (s =? 6)%nat || (s =? 7)%nat) sizes then 134 else VIOLATES)
      else VIOLATES
  | SWReg _ _ _ _ =>
      if negb tcp && negb is_exc && res_bare_parse_err o && hits (fun s => (s =? 6)%nat || (s =? 7)%nat) sizes
      then 135 else VIOLATES
  | SRW _ _ _ _ _ =>
      if negb is_exc && res_waits o then (if tcp then 137 else 138) else VIOLATES
  | SSrvId _ =>
      let lo := if tcp then 8%nat else 2%nat in
      if hits (fun s => (lo <=? s)%nat && (s <? len)%nat) sizes && (res_bare_parse_err o || res_is_ok o)
      then (if tcp then 139 else 140) else VIOLATES
  | _ => VIOLATES
  end.

Definition framing_agrees (c : ccase) : bool :=
  match cc_req c with
  | Some (q, _) => Bool.eqb (q_rtu q) (negb (is_tcp_kind (c_kind (cc_cfg c))))
  | None => false
  end.
Definition flush_fails (c : ccase) : bool :=
  is_serial (c_kind (cc_cfg c)) && c_flusher (cc_cfg c) && sc_flush_err (cc_script c).
Definition max_adu (tcp : bool) : nat := if tcp then max_adu_tcp else max_adu_rtu.

(* ---------- C07 ---------- *)
Definition verdict_C07 (c : ccase) (o : val) : N :=
  match cc_req c with
  | Some (q, sr) =>
      let tcp := is_tcp_kind (c_kind (cc_cfg c)) in
      if negb (c_connected (cc_cfg c)) || sc_swd_err (cc_script c) || sc_write_err (cc_script c)
         || flush_fails c || negb (framing_agrees c) then NOT_JUDGED else
      match want_frame tcp (q_tid q) (cc_want c) with
      | Some (frame, demanded, is_exc) =>
          if negb (reply_matches sr (cc_want c)) || (max_adu tcp <? length frame)%nat then NOT_JUDGED else
          match clean_delivery (sc_steps (cc_script c)) frame with
          | Some sizes =>
              if val_eqb o demanded then HOLDS
              else d7_region tcp false sr is_exc sizes (length frame) o
          | None => NOT_JUDGED
          end
      | None => NOT_JUDGED
      end
  | None => NOT_JUDGED
  end.

(* ---------- C08 ---------- *)
Inductive expect := XCtx (deadline : bool) | XTimeout | XCtxOrTimeout (deadline : bool) | XIo (code : Z) | XTooLong | XAnyErr | XNone.

(* more bytes than a Modbus frame can hold: 260 over the network, 256 on the serial line *)
Definition spec_max (k : kind) : nat := if is_serial k then max_adu_rtu else max_adu_tcp.

(* walk the script up to the first fault while the bytes delivered are a proper prefix of the
   reply: what the property demands there, and the sizes of the data reads before it *)
Fixpoint c08_walk (k : kind) (steps : list step) (n : nat) (rest : list N) (sizes : list nat) : expect * list nat :=
  match steps with
  | [] => (XNone, sizes)
  | st :: more =>
      if s_ctx st && s_timer st then (XCtxOrTimeout (s_deadline st), sizes) else
      if s_ctx st then (XCtx (s_deadline st), sizes) else
      if s_timer st then (XTimeout, sizes) else
      let data (b : list N) (eof : bool) :=
        let n' := (n + length b)%nat in
        if (spec_max k <? n')%nat then (XTooLong, sizes) else
        if negb (is_prefix b rest) then (XNone, sizes) else
        match skipn (length b) rest with
        | [] => (XNone, sizes)          (* the reply is complete: not a fault case *)
        | rest' =>
            if eof && negb (is_serial k) then (XAnyErr, (sizes ++ [length b])%list)
            else c08_walk k more n' rest' (sizes ++ [length b])%list
        end in
      match s_rd st with
      | RIoErr _ => (XIo 42, sizes)
      | RTimeout b => data b false
      | RData b => data b false
      | REof b => data b true
      end
  end.

Definition cerr_val (cls : Z) : val := v_err [VI 1%Z; VI 1%Z; VI cls].
(* the context's own error, returned as it is: nil response, NOT a ClientError, Canceled or DeadlineExceeded *)
Definition ctx_val (deadline : bool) : val := v_err [VI 1%Z; VI 0%Z; VI (if deadline then 61 else 60)%Z].
Definition class_ok (x : expect) (o : val) : bool :=
  match x with
  | XCtx d => val_eqb o (ctx_val d)
  | XTimeout => res_anon_client_err o
  | XCtxOrTimeout d => val_eqb o (ctx_val d) || res_anon_client_err o
  | XIo code => val_eqb o (cerr_val code)
  | XTooLong => val_eqb o (cerr_val 50)
  | XAnyErr => res_is_err o
  | XNone => false
  end.
(* the serial client flushes the port on every path that ends the exchange except the two of the
   select; when Flush itself fails that I/O error is reported instead (wrapped as well) *)
Definition flush_alt (c : ccase) (x : expect) (o : val) : bool :=
  flush_fails c && val_eqb o (cerr_val 43) &&
  match x with XIo _ | XTooLong | XAnyErr => true | _ => false end.

Definition no_transport_call (t : val) : bool := match t with VL [] => true | _ => false end.

(* the bytes the transport handed to the client: the chunks of the Read events of the trace *)
Fixpoint consumed (t : list val) : list N :=
  match t with
  | [] => []
  | VL [VI 5%Z; VB c; _] :: r => c ++ consumed r
  | _ :: r => consumed r
  end.
Definition has_failed_read (t : list val) : bool :=
  existsb (fun e => match e with VL [VI 5%Z; _; VI 3%Z] => true | _ => false end) t.
(* no frame is longer than this (MAP 4.1): 260 with the MBAP header, 256 on the serial line *)
Definition frame_max (k : kind) : nat := if is_tcp_kind k then max_adu_tcp else max_adu_rtu.
(* Oversize, judged on what the transport actually handed over (the Read events of the trace):
   once more bytes have been received than a frame of the client's framing can hold the result must
   be an error, and ErrPacketTooLong once they exceed the client's own limit (260 for the two
   network clients, 256 for the serial client). *)
Definition oversize_verdict (c : ccase) (o : val) (tl : list val) : option N :=
  let k := c_kind (cc_cfg c) in
  let got := length (consumed tl) in
  if has_failed_read tl || negb (frame_max k <? got)%nat then None else
  if (spec_max k <? got)%nat
  then Some (if val_eqb o (cerr_val 50) || (flush_fails c && val_eqb o (cerr_val 43)) then HOLDS else VIOLATES)
  else Some (if res_is_err o then HOLDS else VIOLATES).

(* A valid reply that arrives TOGETHER with trailing bytes: the read that completes the reply [frame]
   also carries further bytes.  Result: everything delivered up to and including that read, and the
   sizes of the reads before it.  (Until that read the reply is incomplete, so the client is still
   reading -- unless a short ExpectedResponseLength has stopped it, which [d7_region] recognises.) *)
Fixpoint ext_walk (steps : list step) (frame got : list N) (sizes : list nat) : option (list N * list nat) :=
  match steps with
  | [] => None
  | st :: more =>
      if s_ctx st || s_timer st then None else
      let data (b : list N) (eof : bool) :=
        let got' := (got ++ b)%list in
        if (length got' <? length frame)%nat
        then (if is_prefix got' frame && negb eof then ext_walk more frame got' (sizes ++ [length b])%list else None)
        else if (length frame <? length got')%nat && is_prefix frame got' then Some (got', sizes) else None in
      match s_rd st with
      | RIoErr _ => None
      | RData b => data b false
      | RTimeout b => data b false
      | REof b => data b true
      end
  end.
(* what the properties demand then.  [crc]: C12 (RTU: the bytes received do not end in their CRC:
   an error that is not a device exception); otherwise C08 (more than a frame can hold: an error);
   ErrPacketTooLong beyond the client's own limit *)
Definition ext_rule (c : ccase) (o : val) (crc : bool) (consumed_len : nat) : option N :=
  match cc_req c with
  | Some (q, sr) =>
      let k := c_kind (cc_cfg c) in
      let tcp := is_tcp_kind k in
      if negb (c_connected (cc_cfg c)) || sc_swd_err (cc_script c) || sc_write_err (cc_script c)
         || negb (framing_agrees c) then None else
      match want_frame tcp (q_tid q) (cc_want c) with
      | Some (frame, _, is_exc) =>
          if negb (reply_matches sr (cc_want c)) || (max_adu tcp <? length frame)%nat then None else
          match ext_walk (sc_steps (cc_script c)) frame [] [] with
          | Some (got, sizes) =>
              let too_long := (spec_max k <? length got)%nat in
              let applies := if crc then too_long || negb (ends_in_spec_crc got) else (frame_max k <? length got)%nat in
              if negb applies then None else
              let is_too_long := val_eqb o (cerr_val 50) || (flush_fails c && val_eqb o (cerr_val 43)) in
              let plain_err :=
                res_is_err o && negb (match o with VL (VI 1%Z :: _ :: _ :: VI 4%Z :: _) => true | _ => false end) in
              if crc then
                (* C12: never data, never a device exception; ErrPacketTooLong once the client has
                   itself taken more than its limit (a short ExpectedResponseLength may have made
                   it stop before: then the parser's error) *)
                Some (if (if (spec_max k <? consumed_len)%nat then is_too_long else plain_err) then HOLDS else VIOLATES)
              else
                Some (if (if too_long then is_too_long else plain_err) then HOLDS
                      else d7_region tcp (flush_fails c) sr is_exc sizes (length frame) o)
          | None => None
          end
      | None => None
      end
  | None => None
  end.

Definition verdict_C08 (c : ccase) (o t : val) : N :=
  let k := c_kind (cc_cfg c) in
  if res_is_panic o then VIOLATES else
  match cc_req c with
  | None => if val_eqb o (v_err [VI 1%Z; VI 0%Z; VI 0%Z]) && no_transport_call t then HOLDS else VIOLATES
  | Some (q, sr) =>
      if negb (c_connected (cc_cfg c)) then
        (if val_eqb o (if is_serial k then v_err [VI 1%Z; VI 0%Z; VI 0%Z] else cerr_val 51) && no_transport_call t
         then HOLDS else VIOLATES)
      else if sc_swd_err (cc_script c) && negb (is_serial k) then
        (if val_eqb o (cerr_val 40) then HOLDS else VIOLATES)
      else if sc_write_err (cc_script c) then
        (if val_eqb o (cerr_val 41) || (flush_fails c && val_eqb o (cerr_val 43)) then HOLDS else VIOLATES)
      else
        match (match t with VL tl => oversize_verdict c o tl | _ => None end), ext_rule c o false 0 with
        | Some v, _ => v
        | None, Some v => v
        | None, None =>
        let tcp := is_tcp_kind k in
        if negb (framing_agrees c) then NOT_JUDGED else
        match want_frame tcp (q_tid q) (cc_want c) with
        | Some (frame, _, is_exc) =>
            if negb (reply_matches sr (cc_want c)) || (max_adu tcp <? length frame)%nat then NOT_JUDGED else
            match c08_walk k (sc_steps (cc_script c)) 0 frame [] with
            | (XNone, _) => NOT_JUDGED
            | (x, sizes) =>
                if class_ok x o || flush_alt c x o then HOLDS
                (* in particular a success although the context was done before this read is a
                   violation -- unless a short ExpectedResponseLength had ended the call before
                   (FC17: the region of [d7_region] is judged on the reads BEFORE this step) *)
                else d7_region tcp (flush_fails c) sr is_exc sizes (length frame) o
            end
        | None => NOT_JUDGED
        end
        end
  end.

(* ---------- C12 ---------- *)
Definition res_is_rtu_exception (o : val) : bool :=
  match o with VL (VI 1%Z :: _ :: _ :: VI 4%Z :: _) => true | _ => false end.
Definition verdict_C12 (c : ccase) (o t : val) : N :=
  if is_tcp_kind (c_kind (cc_cfg c)) then NOT_JUDGED else
  if res_is_panic o then VIOLATES else
  match ext_rule c o true (match t with VL tl => length (consumed tl) | _ => 0%nat end) with Some v => v | None =>
  if res_is_ok o || res_is_rtu_exception o then
    match t with
    | VL tl => if ends_in_spec_crc (consumed tl) then HOLDS else VIOLATES
    | _ => VIOLATES
    end
  else HOLDS
  end.

(* ---------- C19 ---------- *)
Definition is_hook_ev (v : val) : bool :=
  match v with VL (VI k :: _) => (k <? 3)%Z | _ => true end.
(* where the hook calls belong, given the transport calls *)
Fixpoint insert_hooks (t : list val) : list val :=
  match t with
  | [] => []
  | VL [VI 4%Z; VB b] :: r => VL [VI 0%Z; VB b] :: VL [VI 4%Z; VB b] :: insert_hooks r
  | VL [VI 5%Z; VB ch; cls] :: r => VL [VI 5%Z; VB ch; cls] :: VL [VI 1%Z; VB ch; vnat (length ch); cls] :: insert_hooks r
  | e :: r => e :: insert_hooks r
  end.
(* was the reply handed to the parser: success, or an error that is not a ClientError, not the
   context's and not one of the two argument checks of Do *)
Definition parser_reached (c : ccase) (o : val) : bool :=
  match cc_req c with
  | None => false
  | Some _ =>
      c_connected (cc_cfg c) &&
      (res_is_ok o ||
       match o with VL (VI 1%Z :: _ :: VI 0%Z :: VI cls :: _) => negb (Z.eqb cls 60 || Z.eqb cls 61) | _ => false end)
  end.
Definition written (t : list val) : option (list N) :=
  match filter (fun e => match e with VL [VI 4%Z; _] => true | _ => false end) t with
  | [VL [_; VB b]] => Some b
  | _ => None
  end.
(* t1 = trace with hooks; t0 = its transport calls *)
Definition hook_trace_exact (c : ccase) (o : val) (t0 t1 : list val) : bool :=
  val_eqb (VL t1)
    (VL (insert_hooks t0 ++ (if parser_reached c o then [VL [VI 2%Z; VB (consumed t0)]] else []))) &&
  (length (filter (fun e => val_eqb e (VL [VI 7%Z])) t0) <=? 1)%nat &&   (* req.Bytes() called once *)
  (* the request is handed to the transport (and shown to BeforeWrite) once, whole *)
  (length (filter (fun e => match e with VL [VI 4%Z; _] => true | _ => false end) t0) <=? 1)%nat &&
  match cc_req c, written t0 with
  | Some (q, sr), Some b =>
      (* the bytes written (and shown to BeforeWrite) are the specified ADU of the request *)
      negb (legal sr) || list_eqb b (if q_rtu q then request_adu_rtu sr else request_adu_tcp (q_tid q) sr)
  | _, _ => true
  end.

Definition verdict_C19_single (c : ccase) (o t : val) : N :=
  if negb (c_hooks (cc_cfg c)) then NOT_JUDGED else
  if val_eqb o out_of_script then NOT_JUDGED else
  match t with
  | VL t1 => if hook_trace_exact c o (filter (fun e => negb (is_hook_ev e)) t1) t1 then HOLDS else VIOLATES
  | _ => VIOLATES
  end.
Definition verdict_C19_pair (c : ccase) (o0 t0 o1 t1 : val) : N :=
  if val_eqb o0 out_of_script && val_eqb o1 out_of_script then NOT_JUDGED else
  match t0, t1 with
  | VL l0, VL l1 =>
      if val_eqb o0 o1 && forallb (fun e => negb (is_hook_ev e)) l0 && hook_trace_exact c o1 l0 l1
      then HOLDS else VIOLATES
  | _, _ => VIOLATES
  end.

(* ---------- the table ---------- *)
Definition verdict_cdo (p : N) (a : list val) (out : val) : N :=
  match dec_case a, out with
  | Some c, VL [o; t] =>
      if p =? 7 then verdict_C07 c o
      else if p =? 8 then verdict_C08 c o t
      else if blind c then NOT_JUDGED      (* C12 and C19 are judged on the trace *)
      else if p =? 12 then verdict_C12 c o t
      else if p =? 19 then verdict_C19_single c o t
      else NOT_JUDGED
  | Some _, _ => if (p =? 7) || (p =? 8) || (p =? 12) || (p =? 19) then VIOLATES else NOT_JUDGED
  | None, _ => NOT_JUDGED
  end.
Definition verdict_cdo2 (p : N) (a : list val) (out : val) : N :=
  match dec_case2 a, out with
  | Some c, VL [o0; t0; o1; t1] =>
      if p =? 19 then verdict_C19_pair c o0 t0 o1 t1
      else if p =? 7 then verdict_C07 c o1
      else if p =? 8 then verdict_C08 c o1 t1
      else if p =? 12 then verdict_C12 c o1 t1
      else NOT_JUDGED
  | Some _, _ => if (p =? 7) || (p =? 8) || (p =? 12) || (p =? 19) then VIOLATES else NOT_JUDGED
  | None, _ => NOT_JUDGED
  end.

(* ---------- sequences of calls on one client object: entry "cdoseq" ----------
   args [kind; port; flusher; hooks; [op...]]   port: the serial client was given a port
   op   [0; dial_fails] Connect | [1] Close | [2; request; script; want] Do
        dial_fails: 0 the dial succeeds, 1 it returns (nil, err), 2 it returns a typed nil pointer
        (a non-nil net.Conn holding a nil pointer, as `return tls.Dial(...)` does) with err; the model
        does not distinguish 1 and 2: Connect returns the error before it touches c.conn
   a call that panics is [2]
   (optional sixth argument: ctor, as for "cdo"; not 4)
   outcome [r...], one per op:  [0] returned nil, [1] returned an error (Connect),
   [result; trace; late] for Do, [98] the call did not return (watchdog).
   late: the response object returned by THIS call projected once more after ALL calls of the
   sequence have been made: [tid; projected response; Bytes()] ([] if the call returned an error).
   Values are immutable in the model: late is the early result again, with its encoding. *)
Definition dec_op (v : val) : option (op * val) :=
  match v with
  | VL [VI 0%Z; VI f] => Some (OpConnect (zbool f), VL [])
  | VL [VI 1%Z] => Some (OpClose, VL [])
  | VL [VI 2%Z; rq; scv; want] =>
      match dec_req rq, dec_script scv with
      | Some r, Some sc => Some (OpDo (option_map fst r) sc, VL [rq; scv; want])
      | _, _ => None
      end
  | _ => None
  end.
Fixpoint dec_ops (l : list val) : option (list (op * val)) :=
  match l with
  | [] => Some []
  | v :: r => match dec_op v, dec_ops r with Some o, Some os => Some (o :: os) | _, _ => None end
  end.
Definition proj_opres (r : opres) : val :=
  match r with
  | RConnect ok => VL [VI (if ok then 0 else 1)%Z]
  | RClose => VL [VI 0%Z]
  | RDo x => VL (proj_result x)
  end.
Definition late_of (k : kind) (x : outcome * list ev) : val :=
  match fst x with
  | OResp tid p =>
      VL [vN tid; proj_resp p;
          VB (if resp_reencodable p then (if is_tcp_kind k then resp_bytes_tcp tid p else resp_bytes_rtu p) else [])]
  | _ => VL []
  end.
Definition proj_opres_late (k : kind) (r : opres) : val :=
  match r with
  | RDo x => VL (proj_result x ++ [late_of k x])
  | _ => proj_opres r
  end.
Definition init_state (k : kind) (port : bool) : cstate :=
  {| st_conn := if is_serial k then port else false; st_closed := false |}.
Definition seq_args (a : list val) : list val :=
  match a with [k; port; fl; hooks; ops; VI _] => [k; port; fl; hooks; ops] | _ => a end.
Definition run_cdoseq (a : list val) : val :=
  match seq_args a with
  | [VI k; VI port; VI fl; VI hooks; VL ops] =>
      match dec_kind k, dec_ops ops with
      | Some kd, Some os =>
          let cfg0 := {| c_kind := kd; c_connected := false; c_hooks := zbool hooks; c_flusher := zbool fl |} in
          VL (map (proj_opres_late kd) (run_ops cfg0 (init_state kd (zbool port)) (map fst os)))
      | _, _ => v_bad
      end
  | _ => v_bad
  end.

(* the verdict follows the object's state from the Connect / Close calls alone and judges every
   call by itself: it must return, and a Do must satisfy the single-call statement for the state
   it starts in (a closed transport refuses SetWriteDeadline / Write) *)
Definition hang : val := VL [VI 98%Z].
Definition closed_script_val (k : kind) (scv : val) : val :=
  match scv with
  | VL [swd; wr; fl; steps] => if is_serial k then VL [swd; VI 1%Z; fl; steps] else VL [VI 1%Z; wr; fl; steps]
  | _ => scv
  end.
(* C07 across calls: what a call returned stays what it returned.  The response object, looked at
   again after all later calls on the same client, still shows the same fields, and re-encodes to
   the reply that was sent for THAT call ([exact]: the early result was the one C07 demands, so the
   reply sent is the ADU of [want]) *)
Definition late_consistent (k : kind) (a' : list val) (o late : val) (exact : bool) : bool :=
  match o with
  | VL [VI 0%Z; tid; pv] =>
      match late with
      | VL [tid'; pv'; VB bytes] =>
          val_eqb tid tid' && val_eqb pv pv' &&
          (negb exact ||
           match dec_case a' with
           | Some c =>
               match cc_req c with
               | Some (q, _) =>
                   match want_frame (is_tcp_kind k) (q_tid q) (cc_want c) with
                   | Some (frame, _, _) => (length bytes =? 0)%nat || list_eqb bytes frame
                   | None => true
                   end
               | None => true
               end
           | None => true
           end)
      | _ => false
      end
  | _ => val_eqb late (VL [])
  end.
Definition judged_prop (p : N) : bool := (p =? 7) || (p =? 8) || (p =? 12) || (p =? 19).
Fixpoint seq_verdicts (p : N) (k fl hooks : Z) (conn closed : bool) (ops : list (op * val)) (outs : list val) : list N :=
  match ops, outs with
  | [], [] => []
  | (o, info) :: rest, out :: outs' =>
      let kd := match dec_kind k with Some x => x | None => KTcp end in
      let here :=
        if val_eqb out hang then VIOLATES else
        match o, info with
        | OpConnect f, _ =>
            if p =? 8 then (if val_eqb out (VL [VI (if is_serial kd || negb f then 0 else 1)%Z]) then HOLDS else VIOLATES) else NOT_JUDGED
        | OpClose, _ => if p =? 8 then (if val_eqb out (VL [VI 0%Z]) then HOLDS else VIOLATES) else NOT_JUDGED
        | OpDo _ _, VL [rq; scv; want] =>
            match out with
            | VL [o; t; late] =>
                let a' := [VI k; vbool conn; VI fl; VI hooks; rq; (if closed then closed_script_val kd scv else scv); want] in
                let v := verdict_cdo p a' (VL [o; t]) in
                if ((p =? 7) || (p =? 12)) && negb (late_consistent kd a' o late ((p =? 7) && (v =? HOLDS)))
                then VIOLATES else v
            | _ => VIOLATES
            end
        | _, _ => NOT_JUDGED
        end in
      let conn' := match o with OpConnect f => if is_serial kd || f then conn else true | _ => conn end in
      let closed' := match o with
                     | OpConnect f => if is_serial kd || f then closed else false
                     | OpClose => if conn then true else closed
                     | _ => closed end in
      here :: seq_verdicts p k fl hooks conn' closed' rest outs'
  | _, _ => [VIOLATES]      (* a result is missing *)
  end.
(* VIOLATES wins, then a known-finding code, then HOLDS *)
Definition combine (vs : list N) : N :=
  if existsb (N.eqb VIOLATES) vs then VIOLATES else
  match filter (fun v => 100 <=? v) vs with
  | c :: _ => c
  | [] => if existsb (N.eqb HOLDS) vs then HOLDS else NOT_JUDGED
  end.
Definition verdict_cdoseq (p : N) (a : list val) (out : val) : N :=
  if negb (judged_prop p) then NOT_JUDGED else
  match seq_args a, out with
  | [VI k; VI port; VI fl; VI hooks; VL ops], VL outs =>
      match dec_kind k, dec_ops ops with
      | Some kd, Some os =>
          combine (seq_verdicts p k fl hooks (if is_serial kd then zbool port else false) false os outs)
      | _, _ => NOT_JUDGED
      end
  | _, _ => VIOLATES
  end.

Open Scope string_scope.
Definition table_client : list entry :=
  [ {| e_name := "cdo"; e_run := run_cdo; e_verdict := verdict_cdo |};
    {| e_name := "cdo2"; e_run := run_cdo2; e_verdict := verdict_cdo2 |};
    {| e_name := "cdoseq"; e_run := run_cdoseq; e_verdict := verdict_cdoseq |} ].
