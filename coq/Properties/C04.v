(* C04 -- typed register access returns the addressed wire bytes or an error, never junk.
   Model: RegistersModel.v (packet/registers.go as repaired); specification: RegistersSpec.v. *)
Require Import MB.GoSem MB.RegistersSpec MB.RegistersModel MB.proofs.RegistersProofs.
Open Scope N_scope.

(* For EVERY payload (a non-empty sequence of registers made of bytes), every content of the spare
   capacity behind it, every start address with the window inside the 16 bit address space
   (start + count <= 65536, so windows ending at 65535 are included), every requested address
   0..65535, every one of the 23 accessors, every bit number, string length and byte-order value
   (any N, in particular 0..15 and 0 = default), with the library default order (9) and after
   WithByteOrder(dflt) for every dflt:
     the outcome is [Ok] of the value the specification assigns to the addressed registers when
     all of them lie in [start, start+count), and [Err] otherwise.
   Hence never [Panic], never a byte outside the addressed registers, never a byte of [spare]
   (the right-hand side mentions neither). *)
Theorem C04_typed_access :
  forall d start r dflt a addr,
    bytes_ok (vis d) -> 2 <= N.of_nat (slen d) -> N.of_nat (slen d) mod 2 = 0 ->
    start + N.of_nat (slen d) / 2 <= 65536 -> addr < 65536 ->
    new_registers d start = Ok r ->
    forget (fst (access r a addr)) = expected (spec_access (vis d) start 9 a addr) /\
    forget (fst (access (with_byte_order r dflt) a addr)) = expected (spec_access (vis d) start dflt a addr).
Proof. exact access_is_spec_in_address_space. Qed.
Print Assumptions C04_typed_access.

(* the same for any 16 bit start address and any payload shorter than 2^32 bytes (a window that
   would reach beyond 65535 cannot come from a device, but the arithmetic is right there too) *)
Theorem C04_typed_access_any_window :
  forall d start r dflt a addr,
    payload_ok (vis d) -> start < 65536 -> addr < 65536 ->
    new_registers d start = Ok r ->
    forget (fst (access r a addr)) = expected (spec_access (vis d) start 9 a addr) /\
    forget (fst (access (with_byte_order r dflt) a addr)) = expected (spec_access (vis d) start dflt a addr).
Proof. exact access_is_spec. Qed.
Print Assumptions C04_typed_access_any_window.

Theorem C04_never_panics :
  forall d start r dflt a addr,
    payload_ok (vis d) -> start < 65536 -> addr < 65536 -> new_registers d start = Ok r ->
    fst (access r a addr) <> Panic /\ fst (access (with_byte_order r dflt) a addr) <> Panic.
Proof. exact access_never_panics. Qed.
Print Assumptions C04_never_panics.

Theorem C04_independent_of_spare_capacity :
  forall v s1 s2 start r1 r2 dflt a addr,
    payload_ok v -> start < 65536 -> addr < 65536 ->
    new_registers {| vis := v; spare := s1 |} start = Ok r1 ->
    new_registers {| vis := v; spare := s2 |} start = Ok r2 ->
    forget (fst (access r1 a addr)) = forget (fst (access r2 a addr)) /\
    forget (fst (access (with_byte_order r1 dflt) a addr)) =
    forget (fst (access (with_byte_order r2 dflt) a addr)).
Proof. exact access_ignores_spare. Qed.
Print Assumptions C04_independent_of_spare_capacity.

(* NewRegisters accepts exactly the non-empty sequences of whole registers (no guard at all) *)
Theorem C04_new_registers :
  forall d start,
    forget (map_ok (fun _ => tt) (new_registers d start)) =
    if spec_payload_ok (vis d) then Ok tt else Err tt.
Proof. exact new_registers_accepts. Qed.
Print Assumptions C04_new_registers.

(* the three unexported readers everything else is built on (also used through the builder):
   exactly the wire bytes of the 1, 2, 4 addressed registers, words reversed under LowWordFirst *)
Theorem C04_raw_registers_window :
  forall d start dflt addr,
    payload_ok (vis d) -> start < 65536 -> addr < 65536 ->
    forget (register (regs_for d start dflt) addr) = expected (option_map wire (window (vis d) start addr 1)) /\
    (forall bo, forget (double_register (regs_for d start dflt) addr bo) =
                expected (option_map (image bo) (window (vis d) start addr 2))) /\
    (forall bo, forget (quad_register (regs_for d start dflt) addr bo) =
                expected (option_map (image bo) (window (vis d) start addr 4))).
Proof. exact raw_registers_window. Qed.
Print Assumptions C04_raw_registers_window.

(* ---------- the hypotheses are satisfiable; windows that end at 65535 work ---------- *)
Example C04_hypotheses_satisfiable :
  payload_ok [0x12; 0x34] /\ 65535 + N.of_nat (slen (exact [0x12; 0x34])) / 2 <= 65536 /\
  exists r, new_registers (exact [0x12; 0x34]) 65535 = Ok r.
Proof.
  split; [|split; [vm_compute; discriminate|eexists; reflexivity]].
  unfold payload_ok. split; [repeat constructor|]. cbn [length]. lia.
Qed.
Example C04_window_ending_at_65535 :
  try_access [0x12; 0x34] [] 65535 9 AUint16 65535 = Ok (VInt 0x1234) /\
  spec_access [0x12; 0x34] 65535 9 AUint16 65535 = Some (VInt 0x1234) /\
  try_access [1; 2; 3; 4] [] 65534 9 AUint32 65534 = Ok (VInt 0x01020304) /\
  try_access [1; 2; 3; 4] [] 65534 9 (ABit 9) 65535 = Ok (VBool true) /\
  try_access [65; 66; 0; 67] [] 65534 9 (AString 4) 65534 = Ok (VBytes [66; 65; 67]).
Proof. vm_compute. repeat split; reflexivity. Qed.
(* straddling or behind the end of such a window: an error, also with junk in the capacity *)
Example C04_beyond_65535_window_is_error :
  try_access [1; 2; 3; 4] [0xAA; 0xBB] 65534 9 AUint32 65535 = Err tt /\
  try_access [1; 2; 3; 4] [0xAA; 0xBB] 65534 9 AUint64 65534 = Err tt /\
  try_access [1; 2; 3; 4] [0xAA; 0xBB] 65534 9 AUint16 65533 = Err tt.
Proof. vm_compute. repeat split; reflexivity. Qed.
(* the inputs on which the tree as pinned went wrong (D10) now give what the specification says *)
Example C04_former_window_end_wrap : try_access [0x12; 0x34] [] 65535 9 AUint16 65535 = Ok (VInt 0x1234).
Proof. vm_compute. reflexivity. Qed.
Example C04_former_small_window_underflow :
  try_access [1; 2] [0xAA; 0xBB] 0 9 AUint32 0 = Err tt /\ try_access [1; 2] [] 0 9 AUint32 0 = Err tt.
Proof. vm_compute. split; reflexivity. Qed.
Example C04_former_string_index_wrap : try_access [65; 66; 67; 68] [] 0 9 (AString 2) 32768 = Err tt.
Proof. vm_compute. reflexivity. Qed.
(* the four layouts of the number 0xAE415652 in the table of registers.go decode to it *)
Example C04_word_and_byte_orders :
  spec_access [0xAE; 0x41; 0x56; 0x52] 0 9 (AUint32BO 9) 0 = Some (VInt 0xAE415652) /\   (* BigEndian | HighWordFirst *)
  spec_access [0x56; 0x52; 0xAE; 0x41] 0 9 (AUint32BO 5) 0 = Some (VInt 0xAE415652) /\   (* BigEndian | LowWordFirst *)
  spec_access [0x52; 0x56; 0x41; 0xAE] 0 9 (AUint32BO 10) 0 = Some (VInt 0xAE415652) /\  (* LittleEndian | HighWordFirst *)
  spec_access [0x41; 0xAE; 0x52; 0x56] 0 9 (AUint32BO 6) 0 = Some (VInt 0xAE415652) /\   (* LittleEndian | LowWordFirst *)
  try_access [0x41; 0xAE; 0x52; 0x56] [] 0 6 AFloat32 0 = Ok (VInt 0xAE415652) /\
  try_access [0xFF; 0xFE] [] 7 9 AInt16 7 = Ok (VInt (-2)) /\
  try_access [0xFF; 0xFE] [] 7 9 (AInt8 true) 7 = Ok (VInt (-1)).
Proof. vm_compute. repeat split; reflexivity. Qed.
