(* C07 -- clients return the complete reply however the transport fragments it.

   Model: ClientModel.client_do (Client.Do / SerialClient.Do).  A *segmentation* of a reply is a list
   of (w, late, chunk): w empty reads that end with the read deadline, then a read returning the
   non-empty chunk -- with a nil error, or (late = true) TOGETHER with os.ErrDeadlineExceeded, which
   io.Reader allows; [script_of] turns it into the script of the transport, [payload] is the
   concatenation of the chunks.  The script may continue with anything after it ([tail]).  All
   theorems quantify over both ways of delivering every chunk.

   The full statement of the property,

     forall client framing request reply segmentation,
       well-formed reply to the request -> payload segmentation = reply ->
       client_do ... = (what the parser says about exactly the reply, ...)            (FULL)

   is FALSE for the tree as it is: it depends on Request.ExpectedResponseLength being the length of
   the reply, which holds for 9 of the 20 request types (D7).  Proved here:
     C07_exact_threshold_complete   (FULL) for an abstract request whose threshold is the reply length
     C07_complete_reply_partial     (FULL) for the 9 request types with an exact formula
     C07_returns_the_reply_partial  ... = the reply itself (parser round trip on these replies)
     C07_exception_reply            exception replies: typed error, 18 request types (all but FC17)
     C07_stops_at_first_boundary    what the call does for ANY formula: it stops at the first read
                                    boundary at or past the threshold and parses what it has
     C07_short_formula / C07_long_formula / C07_fc23_times_out   the characterisation of the other 11
     C07_*_refuted                  a witness for each of the 11 (these are the known findings) *)
Require Import MB.GoSem MB.CrcModel MB.PacketModel MB.ClientModel.
Require Import MB.proofs.ClientProofs MB.proofs.ClientC07 MB.proofs.ClientC07Inst MB.proofs.ClientRoundTrip.
Open Scope N_scope.

(* ---------- the core: threshold = length of the reply ---------- *)
Theorem C07_exact_threshold_complete :
  forall cfg sc q chunks tail reply,
  c_connected cfg = true -> writes_ok sc -> flush_ok cfg sc ->
  sc_steps sc = script_of chunks ++ tail ->
  chunks_nonempty chunks -> payload chunks = reply ->
  reply <> [] ->
  length reply = q_expected q ->
  (length reply <= max_len (c_kind cfg))%nat ->
  nth (fc_pos (c_kind cfg)) reply 0 < 128 ->
  client_do cfg sc (Some q) =
  (outcome_of_parse (c_kind cfg) reply,
   write_trace cfg (q_bytes q) ++ reads_trace cfg chunks ++ flush_trace cfg ++ hk cfg (HBeforeParse reply)).
Proof. exact exact_threshold_complete. Qed.
Print Assumptions C07_exact_threshold_complete.

(* ---------- the request types for which the formula is exact ---------- *)
(* TCP FC1, FC2, FC3, FC4, FC6; FC15 and FC16 in both framings *)
Theorem C07_exact_formula :
  forall q p, exact_formula q = true -> resp_matches (q_req q) p ->
  length (reply_bytes q p) = q_expected q.
Proof. exact exact_formula_length. Qed.
Print Assumptions C07_exact_formula.

Theorem C07_complete_reply_partial :
  forall cfg sc q p chunks tail,
  framing_ok (c_kind cfg) q -> exact_formula q = true ->
  resp_matches (q_req q) p -> req_fc (q_req q) < 128 ->
  (length (reply_bytes q p) <= max_len (c_kind cfg))%nat ->
  c_connected cfg = true -> writes_ok sc -> flush_ok cfg sc ->
  sc_steps sc = script_of chunks ++ tail ->
  chunks_nonempty chunks -> payload chunks = reply_bytes q p ->
  client_do cfg sc (Some q) =
  (outcome_of_parse (c_kind cfg) (reply_bytes q p),
   write_trace cfg (q_bytes q) ++ reads_trace cfg chunks ++ flush_trace cfg
     ++ hk cfg (HBeforeParse (reply_bytes q p))).
Proof. exact exact_types_complete. Qed.
Print Assumptions C07_complete_reply_partial.

(* ... and with the parser's round trip on these replies: the client returns exactly that reply.
   [req_in_range]: transaction id, unit, addresses and counts fit their fields, function 1..4,
   quantity at least 1 (what the constructors guarantee). *)
Theorem C07_returns_the_reply_partial :
  forall cfg sc q p chunks tail,
  framing_ok (c_kind cfg) q -> exact_formula q = true ->
  resp_matches (q_req q) p -> req_in_range q ->
  (length (reply_bytes q p) <= max_len (c_kind cfg))%nat ->
  c_connected cfg = true -> writes_ok sc -> flush_ok cfg sc ->
  sc_steps sc = script_of chunks ++ tail ->
  chunks_nonempty chunks -> payload chunks = reply_bytes q p ->
  fst (client_do cfg sc (Some q)) = OResp (if q_rtu q then 0 else q_tid q) p.
Proof. exact exact_types_return_reply. Qed.
Print Assumptions C07_returns_the_reply_partial.

(* ---------- exception replies ---------- *)
Theorem C07_exception_reply :
  forall cfg sc q u f c chunks tail,
  framing_ok (c_kind cfg) q ->
  q_tid q < 65536 -> u < 256 -> f < 128 -> c < 256 ->
  (exc_len (c_kind cfg) <= q_expected q)%nat ->
  c_connected cfg = true -> writes_ok sc -> flush_ok cfg sc ->
  sc_steps sc = script_of chunks ++ tail ->
  chunks_nonempty chunks -> payload chunks = exception_bytes q u f c ->
  client_do cfg sc (Some q) =
  (OFail (CExc (exception_err q u f c)),
   write_trace cfg (q_bytes q) ++ reads_trace cfg chunks ++ flush_trace cfg).
Proof. exact exception_reply_typed. Qed.
Print Assumptions C07_exception_reply.

(* the threshold hypothesis holds for every request type except FC17 *)
Theorem C07_exception_threshold :
  forall k q, framing_ok k q ->
  (match q_req q with RSrvId _ => False | RRead _ _ _ n => 1 <= n | _ => True end) ->
  (exc_len k <= q_expected q)%nat.
Proof. exact exception_threshold_ok. Qed.
Print Assumptions C07_exception_threshold.

(* ---------- any formula: where the call stops ---------- *)
Theorem C07_stops_at_first_boundary :
  forall cfg sc q p pre post tail,
  framing_ok (c_kind cfg) q ->
  resp_matches (q_req q) p -> req_fc (q_req q) < 128 ->
  (length (reply_bytes q p) <= max_len (c_kind cfg))%nat ->
  c_connected cfg = true -> writes_ok sc -> flush_ok cfg sc ->
  sc_steps sc = script_of (pre ++ post) ++ tail ->
  chunks_nonempty (pre ++ post) -> payload (pre ++ post) = reply_bytes q p ->
  pre <> [] ->
  (* no boundary before the end of [pre] reaches the threshold, the end of [pre] does *)
  (forall a b, pre = a ++ b -> b <> [] -> (length (payload a) < q_expected q)%nat) ->
  (q_expected q <= length (payload pre))%nat ->
  client_do cfg sc (Some q) =
  (outcome_of_parse (c_kind cfg) (payload pre),
   write_trace cfg (q_bytes q) ++ reads_trace cfg pre ++ flush_trace cfg ++ hk cfg (HBeforeParse (payload pre))).
Proof. exact short_types_stop_early. Qed.
Print Assumptions C07_stops_at_first_boundary.

(* the 20 request types fall into three families *)
Theorem C07_families :
  forall q,
  (exact_formula q = true /\ short_formula q = false /\ long_formula q = false) \/
  (exact_formula q = false /\ short_formula q = true /\ long_formula q = false) \/
  (exact_formula q = false /\ short_formula q = false /\ long_formula q = true).
Proof. exact families_partition. Qed.
Print Assumptions C07_families.

(* RTU FC1-4, RTU FC5/6, TCP FC5, FC17: the threshold lies inside the reply, so by
   C07_stops_at_first_boundary a read boundary in [threshold, length) makes the call parse a
   truncated frame ([post] non-empty), and without such a boundary the reply is returned *)
Theorem C07_short_formula :
  forall q p, short_formula q = true -> resp_matches (q_req q) p ->
  (q_expected q < length (reply_bytes q p))%nat.
Proof. exact short_formula_length. Qed.
Print Assumptions C07_short_formula.

(* FC23: the threshold lies beyond the reply ... *)
Theorem C07_long_formula :
  forall q p, long_formula q = true -> resp_matches (q_req q) p ->
  (length (reply_bytes q p) < q_expected q)%nat.
Proof. exact long_formula_length. Qed.
Print Assumptions C07_long_formula.

(* ... so every segmentation of a complete, correct reply ends with the total read timeout *)
Theorem C07_fc23_times_out :
  forall cfg sc q p chunks w pick r tail,
  framing_ok (c_kind cfg) q -> long_formula q = true ->
  resp_matches (q_req q) p ->
  (length (reply_bytes q p) <= max_len (c_kind cfg))%nat ->
  c_connected cfg = true -> writes_ok sc ->
  sc_steps sc = script_of chunks ++ repeat quiet w ++ timer_step pick r :: tail ->
  payload chunks = reply_bytes q p ->
  client_do cfg sc (Some q) =
  (OFail CTimeout, write_trace cfg (q_bytes q) ++ reads_trace cfg chunks ++ quiet_trace cfg w).
Proof. exact long_types_time_out. Qed.
Print Assumptions C07_fc23_times_out.

(* ---------- non-vacuity ---------- *)
(* TCP FC3, two registers, reply in three reads with empty reads in between, script goes on *)
Definition ex_q : creq := rq false (RRead 3 1 0 2).
Definition ex_p : resp := PBytes 3 1 4 [0x12; 0x34; 0x56; 0x78].
Definition ex_chunks : list chunk :=
  [(2%nat, false, firstn 5 (reply_bytes ex_q ex_p)); (0%nat, true, firstn 3 (skipn 5 (reply_bytes ex_q ex_p)));
   (1%nat, false, skipn 8 (reply_bytes ex_q ex_p))].
Definition ex_sc : script := plain (script_of ex_chunks ++ [quiet; timer_step false (RTimeout [])]).

Example C07_hypotheses_satisfiable :
  framing_ok KTcp ex_q /\ exact_formula ex_q = true /\ resp_matches (q_req ex_q) ex_p /\
  req_fc (q_req ex_q) < 128 /\ (length (reply_bytes ex_q ex_p) <= max_len KTcp)%nat /\
  writes_ok ex_sc /\ flush_ok (cfg_of KTcp) ex_sc /\
  chunks_nonempty ex_chunks /\ payload ex_chunks = reply_bytes ex_q ex_p.
Proof.
  split; [reflexivity|]. split; [reflexivity|].
  split; [vm_compute; repeat split; reflexivity|].
  split; [reflexivity|]. split; [vm_compute; lia|].
  split; [split; reflexivity|]. split; [intros H; discriminate|].
  split; [vm_compute; repeat constructor; discriminate|vm_compute; reflexivity].
Qed.
Example C07_example_result :
  fst (client_do (cfg_of KTcp) ex_sc (Some ex_q)) = OResp 7 ex_p.
Proof. vm_compute. reflexivity. Qed.
(* RTU FC16 over the serial client, byte by byte, every byte together with the deadline error *)
Example C07_example_serial :
  let q := rq true (RWRegs 9 100 2 [0; 1; 0; 2]) in
  let p := PWMulti 16 9 100 2 in
  exact_formula q = true /\ resp_matches (q_req q) p /\
  fst (client_do (cfg_of KSerial) (plain (script_of (map (fun b => (1%nat, true, [b])) (reply_bytes q p)))) (Some q))
  = OResp 0 p.
Proof. cbn zeta. repeat split; vm_compute; reflexivity. Qed.
(* an exception reply cut in the middle *)
Example C07_example_exception :
  let q := rq true (RRead 3 1 0 2) in
  exception_bytes q 1 3 2 = [1; 0x83; 2; 0xC0; 0xF1] /\
  fst (client_do (cfg_of KRtuNet) (plain (script_of (two (exception_bytes q 1 3 2) 2))) (Some q))
  = OFail (CExc (ERespRTU 1 3 2)).
Proof. cbn zeta. split; vm_compute; reflexivity. Qed.

(* ---------- the 11 request types for which (FULL) is false: witnesses ----------
   [do_two k q p cut]: the reply [p] to [q] delivered in two reads, the first of [cut] bytes;
   each line: a well-formed reply, what the call returns, what the parser says about the reply *)
Ltac refute := cbn zeta; repeat split; try reflexivity; try (cbn; lia); try discriminate; vm_compute; reflexivity.

Theorem C07_rtu_fc1_refuted :
  let q := rq true (RRead 1 1 0 8) in let p := PBytes 1 1 1 [0xAA] in
  resp_matches (q_req q) p /\ do_two KRtuNet q p 5 = OFail (CParse EInvalidCRC) /\
  outcome_of_parse KRtuNet (reply_bytes q p) = OResp 0 p.
Proof. refute. Qed.
Theorem C07_rtu_fc2_refuted :
  let q := rq true (RRead 2 1 0 8) in let p := PBytes 2 1 1 [0xAA] in
  resp_matches (q_req q) p /\ do_two KSerial q p 5 = OFail (CParse EInvalidCRC) /\
  outcome_of_parse KSerial (reply_bytes q p) = OResp 0 p.
Proof. refute. Qed.
Theorem C07_rtu_fc3_refuted :
  let q := rq true (RRead 3 1 0 1) in let p := PBytes 3 1 2 [0x12; 0x34] in
  resp_matches (q_req q) p /\ do_two KRtuNet q p 6 = OFail (CParse EInvalidCRC) /\
  outcome_of_parse KRtuNet (reply_bytes q p) = OResp 0 p.
Proof. refute. Qed.
Theorem C07_rtu_fc4_refuted :
  let q := rq true (RRead 4 1 0 1) in let p := PBytes 4 1 2 [0x12; 0x34] in
  resp_matches (q_req q) p /\ do_two KSerial q p 6 = OFail (CParse EInvalidCRC) /\
  outcome_of_parse KSerial (reply_bytes q p) = OResp 0 p.
Proof. refute. Qed.
Theorem C07_rtu_fc5_refuted :
  let q := rq true (RWCoil 1 2 true) in let p := PWCoil 1 2 true in
  resp_matches (q_req q) p /\ do_two KRtuNet q p 6 = OFail (CParse EInvalidCRC) /\
  outcome_of_parse KRtuNet (reply_bytes q p) = OResp 0 p.
Proof. refute. Qed.
Theorem C07_rtu_fc6_refuted :
  let q := rq true (RWReg 1 2 3 4) in let p := PWReg 1 2 3 4 in
  resp_matches (q_req q) p /\ do_two KSerial q p 7 = OFail (CParse EInvalidCRC) /\
  outcome_of_parse KSerial (reply_bytes q p) = OResp 0 p.
Proof. refute. Qed.
Theorem C07_tcp_fc5_refuted :
  let q := rq false (RWCoil 1 2 true) in let p := PWCoil 1 2 true in
  resp_matches (q_req q) p /\ do_two KTcp q p 11 = OFail (CParse EPlain) /\
  outcome_of_parse KTcp (reply_bytes q p) = OResp 7 p.
Proof. refute. Qed.
(* FC17: a truncated frame is returned as a SUCCESSFULLY parsed, shorter reply *)
Theorem C07_tcp_fc17_refuted :
  let q := rq false (RSrvId 1) in let p := PSrvId 1 255 [1; 2] [9; 9] in
  resp_matches (q_req q) p /\ do_two KTcp q p 12 = OResp 7 (PSrvId 1 255 [1; 2] []) /\
  outcome_of_parse KTcp (reply_bytes q p) = OResp 7 p.
Proof. refute. Qed.
Theorem C07_rtu_fc17_refuted :
  let q := rq true (RSrvId 1) in let p := PSrvId 1 255 [1; 2] [9; 9] in
  resp_matches (q_req q) p /\ do_two KRtuNet q p 2 = OFail (CParse EPlain) /\
  outcome_of_parse KRtuNet (reply_bytes q p) = OResp 0 p.
Proof. refute. Qed.
(* ... and an exception reply to FC17 cut after 8 bytes is reported untyped *)
Theorem C07_tcp_fc17_exception_refuted :
  let q := rq false (RSrvId 1) in
  fst (client_do (cfg_of KTcp) (plain (script_of (two (exception_bytes q 1 17 4) 8))) (Some q)) = OFail (CParse EPlain).
Proof. vm_compute. reflexivity. Qed.
(* FC23: the whole reply in one read, then silence: total read timeout *)
Theorem C07_tcp_fc23_refuted :
  let q := rq false (RRW 1 0 1 0 1 [0; 1]) in let p := PBytes 23 1 2 [0x12; 0x34] in
  resp_matches (q_req q) p /\ do_whole_then_stall KTcp q p = OFail CTimeout /\
  outcome_of_parse KTcp (reply_bytes q p) = OResp 7 p.
Proof. refute. Qed.
Theorem C07_rtu_fc23_refuted :
  let q := rq true (RRW 1 0 1 0 1 [0; 1]) in let p := PBytes 23 1 2 [0x12; 0x34] in
  resp_matches (q_req q) p /\ do_whole_then_stall KSerial q p = OFail CTimeout /\
  outcome_of_parse KSerial (reply_bytes q p) = OResp 0 p.
Proof. refute. Qed.
