(* C06, successive builds on one Builder -- a build does not change the Builder.

   Modelling (BuilderModel.v, [builder] / [builder_build] / [builder_builds]): the Builder's state
   is its field list; a Read...() call passes it to [split] and returns the Builder unchanged.
   The Go fact this rests on: split only READS the slice it is given (groupForSingleConnection
   ranges over it, AddField appends copies of the elements to slots it owns) and never writes
   through it, so b.fields is the same after the call.  That fact is not provable inside the
   model; it is checked on every run by the correspondence stream "split_seq" (one Builder holding
   coil and register fields, 2..5 builds in a row over all 8 targets, every build compared with
   [split] of the ORIGINAL field list and judged by the C06 / C05 statements). *)
From Coq Require Import Permutation.
Require Import MB.GoSem MB.Spec MB.PacketModel MB.BuilderSpec MB.BuilderModel MB.proofs.BuilderProofs.
Open Scope N_scope.

(* any sequence of builds is the map of [split] over the targets, on the original fields, and the
   Builder afterwards is the Builder before *)
Theorem C06_successive_builds :
  forall targets b, builder_builds b targets = (b, map (split (bd_fields b)) targets).
Proof. exact builder_builds_map. Qed.
Print Assumptions C06_successive_builds.

(* hence every build of the sequence satisfies the statement of C06 (Properties/C06.v,
   C06_batching; [request_ok] / [fits_one_request] are its per-request clauses 2-7 and the
   hypothesis of clause 8) with respect to the ORIGINAL field list *)
Theorem C06_every_build_of_a_sequence :
  forall b targets,
  Forall field_typed (bd_fields b) -> Forall (fun t => t < 8) targets ->
  fst (builder_builds b targets) = b /\
  Forall2 (fun t out =>
             out = split (bd_fields b) t /\
             match out with
             | Panic => False
             | Err _ => True
             | Ok reqs =>
                 Permutation (concat (map br_fields reqs)) (filter (wanted t) (bd_fields b)) /\
                 Forall (request_ok t) reqs /\
                 (forall srv u, fits_one_request t (bd_fields b) srv u ->
                                (length (filter (dev_req srv u) reqs) <= 1)%nat)
             end) targets (snd (builder_builds b targets)).
Proof. exact builder_builds_c06. Qed.
Print Assumptions C06_every_build_of_a_sequence.

(* non-vacuity: coil fields BEFORE register fields in insertion order; coils, registers, coils again *)
Definition fld (name a ty : N) : field :=
  {| f_name := name; f_server := [97]; f_unit := 1; f_addr := a; f_type := ty; f_bit := 0; f_high := false;
     f_len := 0; f_order := 0 |}.
Definition ex_builder : builder := {| bd_fields := [fld 0 5 14; fld 1 6 5; fld 2 7 14; fld 3 8 7] |}.
Definition members (x : pres (list breq)) : list (list N) :=
  match x with Ok rs => map (fun r => map f_name (br_fields r)) rs | _ => [] end.
Example C06_three_builds :
  map members (snd (builder_builds ex_builder [0; 4; 1])) = [[[0; 2]]; [[1; 3]]; [[0; 2]]] /\
  fst (builder_builds ex_builder [0; 4; 1]) = ex_builder.
Proof. vm_compute. split; reflexivity. Qed.
