(* C13 -- reading values out of a response never changes it (Registers part; the ExtractFields
   part belongs to the builder layer).  Model: RegistersModel.v, where every accessor returns its
   outcome together with the payload afterwards and a call sequence threads that payload through. *)
From Coq Require Import Permutation.
Require Import MB.GoSem MB.RegistersSpec MB.RegistersModel MB.proofs.RegistersProofs.
Open Scope N_scope.

(* one step: whatever the Registers object (any payload, spare capacity, window, default order),
   accessor, arguments and address -- also for calls that fail or would panic -- the payload
   (visible bytes AND spare capacity) afterwards is the payload before *)
Theorem C13_access_preserves_payload :
  forall r a addr, snd (access r a addr) = r_data r.
Proof. exact access_keeps_data. Qed.
Print Assumptions C13_access_preserves_payload.

(* any sequence of calls on ONE object: the object (its payload included) is unchanged at the end,
   and the list of results is the list of results of each call on a fresh copy *)
Theorem C13_call_sequences :
  forall cs r, run_calls r cs = (map (fresh_result r) cs, r).
Proof. exact run_calls_pure. Qed.
Print Assumptions C13_call_sequences.

Theorem C13_payload_unchanged_after_any_sequence :
  forall r cs, r_data (snd (run_calls r cs)) = r_data r.
Proof. exact run_calls_payload. Qed.
Print Assumptions C13_payload_unchanged_after_any_sequence.

(* hence the order of the reads does not matter ... *)
Theorem C13_order_independent :
  forall r cs cs', Permutation cs cs' -> Permutation (fst (run_calls r cs)) (fst (run_calls r cs')).
Proof. exact run_calls_permutation. Qed.
Print Assumptions C13_order_independent.

(* ... and neither does what was read before: repeating reads repeats the results *)
Theorem C13_repetition_independent :
  forall r cs1 cs2, fst (run_calls r (cs1 ++ cs2)) = fst (run_calls r cs1) ++ fst (run_calls r cs2).
Proof. exact run_calls_app. Qed.
Print Assumptions C13_repetition_independent.

(* ---------- histories that also re-configure the object: WithByteOrder between the reads ---------- *)
(* WithByteOrder stores what it is given: the last call wins for EVERY value, 0 included (0 is not
   "keep the current order"), and neither the payload nor the window is touched *)
Theorem C13_with_byte_order_last_call_wins :
  forall r a b, with_byte_order (with_byte_order r a) b = with_byte_order r b /\
    r_order (with_byte_order r b) = b.
Proof. intros r a b. split; [exact (with_byte_order_last r a b)|exact (with_byte_order_order r b)]. Qed.
Print Assumptions C13_with_byte_order_last_call_wins.
Theorem C13_with_byte_order_keeps_payload :
  forall r bo, r_data (with_byte_order r bo) = r_data r /\ r_start (with_byte_order r bo) = r_start r /\
    r_end (with_byte_order r bo) = r_end r.
Proof. exact with_byte_order_keeps. Qed.
Print Assumptions C13_with_byte_order_keeps_payload.

(* any history of reads and WithByteOrder calls on ONE object: every read returns what it returns
   on a fresh copy of the object configured with the LAST order set before it (or the order the
   object started with) -- in particular not what an earlier caller had configured --, and at the
   end payload and window are unchanged and the order is the last one set *)
Theorem C13_histories_with_reconfiguration :
  forall os r,
    run_ops r os = (fresh_ops r (r_order r) os, with_byte_order r (last_order (r_order r) os)).
Proof. exact run_ops_pure. Qed.
Print Assumptions C13_histories_with_reconfiguration.
Theorem C13_payload_unchanged_after_any_history :
  forall r os,
    r_data (snd (run_ops r os)) = r_data r /\ r_start (snd (run_ops r os)) = r_start r /\
      r_end (snd (run_ops r os)) = r_end r /\ r_order (snd (run_ops r os)) = last_order (r_order r) os.
Proof. exact run_ops_payload. Qed.
Print Assumptions C13_payload_unchanged_after_any_history.

(* non-vacuity: order 6 (LittleEndian|LowWordFirst) set by an earlier caller, then 0: the read after
   WithByteOrder(0) is decoded with order 0 (big endian, high word first, characters in wire
   order), not with 6 and not with the library default 9 (which would swap the characters) *)
Example C13_reconfigured_to_zero :
  exists r, new_registers (exact [0x41; 0x42; 0x43; 0x44]) 10 = Ok r /\
    fst (run_ops r [OpRead AUint32 10; OpRead (AString 4) 10; OpOrder 6; OpRead AUint32 10; OpOrder 0;
                    OpRead AUint32 10; OpRead (AString 4) 10; OpRead (AUint32BO 0) 10]) =
      [Ok (VInt 0x41424344); Ok (VBytes [0x42; 0x41; 0x44; 0x43]); Ok (VInt 0x42414443);
       Ok (VInt 0x41424344); Ok (VBytes [0x41; 0x42; 0x43; 0x44]); Ok (VInt 0x41424344)] /\
         r_order (snd (run_ops r [OpOrder 6; OpRead AUint32 10; OpOrder 0])) = 0.
Proof. eexists. split; [reflexivity|]. split; vm_compute; reflexivity. Qed.

(* ---------- non-vacuity: the history on which the tree as pinned failed (D11) ---------- *)
(* String(0,4) twice on "ABCD" (default order has BigEndian: bytes are swapped per register) used to
   give "BADC" and then "ABCD"; now both calls give "BADC" and the payload still reads "ABCD" *)
Example C13_string_twice :
  exists r, new_registers (exact [65; 66; 67; 68]) 0 = Ok r /\
    run_calls r [(AString 4, 0); (AString 4, 0); (AUint16, 0)] =
      ([Ok (VBytes [66; 65; 68; 67]); Ok (VBytes [66; 65; 68; 67]); Ok (VInt 0x4142)], r) /\
    r_data r = exact [65; 66; 67; 68].
Proof. eexists. split; [reflexivity|]. split; vm_compute; reflexivity. Qed.
(* a sequence mixing successful reads, out-of-window reads and overlapping fields *)
Example C13_mixed_sequence :
  exists r, new_registers {| vis := [1; 2; 3; 4]; spare := [9; 9] |} 65534 = Ok r /\
    fst (run_calls r [(AUint32, 65534); (AUint16, 65535); (AUint32, 65535); (AStringBO 3 1, 65534); (AUint32, 65534)]) =
      [Ok (VInt 0x01020304); Ok (VInt 0x0304); Err EOver; Ok (VBytes [2; 1; 4]); Ok (VInt 0x01020304)] /\
    r_data (snd (run_calls r [(AUint32, 65534); (AUint16, 65535); (AUint32, 65535); (AStringBO 3 1, 65534); (AUint32, 65534)]))
      = {| vis := [1; 2; 3; 4]; spare := [9; 9] |}.
Proof. eexists. split; [reflexivity|]. split; vm_compute; reflexivity. Qed.
