(* C14 -- one client shared by goroutines: request calls are carried out one at a time, frames are
   never interleaved on the wire, each caller receives the reply to its own request.

   (1) thread-local: the skeleton checker is sound for the trace semantics of LockModel.v;
   (2) global: any number of disciplined threads, every schedule: mutual exclusion;
   (3) consequence on the wire (ClientConcModel.v);
   (4) the obligations regenerated from client.go / serialclient.go on every run.
   NOT a theorem (runtime, see DESIGN.md section 7): that sync.RWMutex implements the mutex of the
   global semantics, Go's memory model, the race detector; they are exercised by the supporting run
   (harness stream "conc", built with -race). *)
Require Import MB.LockModel MB.proofs.LockProofs MB.ClientConcModel MB.proofs.ClientConcProofs.
Require Import MB.gen.Skeletons.
From Coq Require Import List String NArith Bool.
Import ListNotations.
Open Scope string_scope.
Open Scope list_scope.

(* ------------------------------------------------------------------------------------------ *)
(* (1) thread-local soundness                                                                  *)

(* a body the checker accepts from ownership o: every partial execution -- any path through
   branches, loops and calls, preempted anywhere -- is disciplined, complete ones end with o *)
Theorem C14_checker_sound :
  forall o c, chk_entry o c = true ->
  forall t st, thread_trace c t st ->
    disciplined o t /\ (st = Done -> holds o t = o).
Proof. exact (fun o c H => safe_from_spec o c (chk_entry_sound o c H)). Qed.
Print Assumptions C14_checker_sound.

(* the regenerated obligation implies: every body that runs as a thread (exported function or
   method, go statement), for every mutex: acquires only when not owning, releases and touches
   guarded fields only while owning, and a complete execution ends with the lock released *)
Theorem C14_well_locked_sound :
  forall p, well_locked p = true ->
  forall m body, In m all_mutexes -> In body (thread_bodies p) ->
  exists c, elab p m body = Some c /\
    forall t st, thread_trace c t st -> disciplined false t /\ (st = Done -> holds false t = false).
Proof. exact well_locked_sound. Qed.
Print Assumptions C14_well_locked_sound.

(* every function has a definite entry requirement (without / with the lock) and is safe from it *)
Theorem C14_entry_mode_sound :
  forall p m f o, entry_mode p m f = Some o ->
  exists c, elab p m (fn_body f) = Some c /\ safe_from o c.
Proof. exact entry_mode_sound. Qed.
Print Assumptions C14_entry_mode_sound.

(* closures, and functions / methods used as values, may be called from places the translator
   cannot see; under the obligation their inlined bodies perform no lock event at all *)
Theorem C14_function_values_neutral :
  forall p, well_locked p = true ->
  forall m f, In m all_mutexes -> In f (p_funcs p) ->
  fn_kind f = KClosure \/ mem (fn_name f) (p_values p) = true ->
  exists c, elab p m (fn_body f) = Some c /\ forall t st, thread_trace c t st -> t = [].
Proof. exact function_values_neutral. Qed.
Print Assumptions C14_function_values_neutral.

(* ------------------------------------------------------------------------------------------ *)
(* (2) global: any number of threads and calls, EVERY schedule                                  *)

Theorem C14_mutual_exclusion :
  forall s l s', inv s -> gexec s l s' ->
  inv s' /\
  forall pre i e post s1, l = pre ++ (i, e) :: post -> gexec s pre s1 ->
    match e with
    | EAcq => owner s1 = None          (* the mutex is free when it is acquired *)
    | ERel => owner s1 = Some i        (* only the holder releases *)
    | EUse => owner s1 = Some i        (* a guarded access by i: i is the holder *)
    end.
Proof. exact mutual_exclusion. Qed.
Print Assumptions C14_mutual_exclusion.

(* at most one owner: what each thread concludes from its own history alone never makes two
   threads hold the mutex *)
Theorem C14_at_most_one_owner :
  forall s l s', inv s -> gexec s l s' ->
  forall i j, local_owns l i (owns s i) = true -> local_owns l j (owns s j) = true -> i = j.
Proof. exact at_most_one_owner. Qed.
Print Assumptions C14_at_most_one_owner.

(* threads running checked bodies (any partial executions of them) satisfy the hypothesis *)
Theorem C14_checked_threads :
  forall (bodies : nat -> list cstmt) ts sts l s',
  (forall i, chk_entry false (bodies i) = true) ->
  (forall i, thread_trace (bodies i) (ts i) (sts i)) ->
  gexec {| owner := None; todo := ts |} l s' ->
  (forall pre i e post s1, l = pre ++ (i, e) :: post -> gexec {| owner := None; todo := ts |} pre s1 ->
     match e with EAcq => owner s1 = None | ERel => owner s1 = Some i | EUse => owner s1 = Some i end) /\
  (forall i j, local_owns l i false = true -> local_owns l j false = true -> i = j).
Proof. exact checked_threads_mutual_exclusion. Qed.
Print Assumptions C14_checked_threads.

(* ------------------------------------------------------------------------------------------ *)
(* (3) on the wire: EVERY schedule of any number of callers performing
       Do = [acquire; write the frame byte by byte; read one reply; release] and Close/Connect,
       against a transport that frames its input with [decode] (self-delimiting on the request
       frames) and answers in arrival order with [reply_of].
       The hypothesis [na_reqs]: no caller ABANDONS a call, i.e. leaves after the write without
       reading the reply (its context ends).  The lock-level theorems (C14_steps_by_holder,
       C14_one_at_a_time) hold with abandoned calls as well; the wire-level ones do not:
       C14_abandoned_call_stale_reply_refuted below (known finding KF-C14-1, defect D18).        *)

(* every write, read, transport call of Close / Connect (ATouch) and release is made by the caller
   that holds the mutex; the mutex is free whenever it is acquired *)
Theorem C14_steps_by_holder :
  forall reply_of decode reqs l s i a s',
  creach reply_of decode reqs l s -> cstep reply_of decode s i a s' ->
  match a with AAcq _ => c_owner s = None | _ => c_owner s = Some i end.
Proof. exact steps_by_holder. Qed.
Print Assumptions C14_steps_by_holder.

(* one at a time (what the flag "serialised" of the supporting run observes on the transport):
   while a caller is inside Do / Close / Connect, every write, read, transport call of Close or
   Connect and release is made by that caller, and nobody acquires *)
Theorem C14_one_at_a_time :
  forall reply_of decode reqs l s i j a s',
  creach reply_of decode reqs l s -> c_owner s = Some i -> cstep reply_of decode s j a s' ->
  j = i /\ match a with AAcq _ => False | _ => True end.
Proof. exact only_holder_steps. Qed.
Print Assumptions C14_one_at_a_time.

Theorem C14_wire_whole_frames_in_lock_order :
  forall reply_of decode (wf : frm -> Prop),
  (forall fs, Forall wf fs -> decode (List.concat fs) = fs) ->
  forall reqs l s, wf_reqs wf reqs -> na_reqs reqs -> creach reply_of decode reqs l s ->
  c_owner s = None ->
  wire s = List.concat (frames_of (acq_order l)) /\ decode (wire s) = frames_of (acq_order l).
Proof. exact wire_whole_frames_in_lock_order. Qed.
Print Assumptions C14_wire_whole_frames_in_lock_order.

Theorem C14_wire_never_interleaved :
  forall reply_of decode (wf : frm -> Prop),
  (forall fs, Forall wf fs -> decode (List.concat fs) = fs) ->
  forall reqs l s i, wf_reqs wf reqs -> na_reqs reqs -> creach reply_of decode reqs l s ->
  c_owner s = Some i ->
  exists log' c written rest,
    acq_order l = log' ++ [(i, c)] /\
    wire s = List.concat (frames_of log') ++ written /\
    match c with CDo f => f = written ++ rest | CCtl => written = [] | CAb _ => False end.
Proof. exact wire_never_interleaved. Qed.
Print Assumptions C14_wire_never_interleaved.

Theorem C14_every_caller_gets_own_reply :
  forall reply_of decode (wf : frm -> Prop),
  (forall fs, Forall wf fs -> decode (List.concat fs) = fs) ->
  forall reqs l s i, wf_reqs wf reqs -> na_reqs reqs -> creach reply_of decode reqs l s ->
  (forall f r, In (f, r) (results (callers s i)) -> r = Some (reply_of f)) /\
  exists later, do_frames (reqs i) = map fst (results (callers s i)) ++ later.
Proof. exact every_caller_gets_own_reply. Qed.
Print Assumptions C14_every_caller_gets_own_reply.

(* ---- KNOWN FINDING KF-C14-1 (defect D18): an abandoned call leaves its reply behind ----
   client.go do / serialclient.go do write the frame BEFORE they look at the caller's context and
   leave the read loop on `case <-ctx.Done()` without consuming (or later discarding) the reply.  The
   device still answers; the next caller reads that stale frame as the reply to its own request
   (the TCP transaction id is not compared, RTU has none).  Witness = the deterministic harness
   case of stream conc: ONE caller, first call abandoned, second call of the same shape served. *)
Definition ab_reqs (i : nat) : list call :=
  match i with
  | 0 => [CAb (lp_frame [1; 10]%N); CDo (lp_frame [2; 20]%N)]
  | _ => []
  end.
Definition ab_reply (f : frm) : frm := map (fun b => b + 100)%N f.
Definition ab_final : cst := run_schedule ab_reply decode_lp (repeat 0 12) (cinit ab_reqs).
Theorem C14_abandoned_call_stale_reply_refuted :
  exists l s f r,
    creach ab_reply decode_lp ab_reqs l s /\ wf_reqs wf_lp ab_reqs /\
    In (f, Some r) (results (callers s 0)) /\ r <> ab_reply f /\
    (* it is the reply to the abandoned request *)
    r = ab_reply (lp_frame [1; 10]%N) /\ f = lp_frame [2; 20]%N.
Proof.
  destruct (run_schedule_reach ab_reply decode_lp ab_reqs (repeat 0 12) [] _ (cr_init _ _ _)) as [l H].
  exists l, ab_final, (lp_frame [2; 20]%N), (ab_reply (lp_frame [1; 10]%N)).
  split; [exact H|]. split.
  - intros [|i]; cbn; repeat constructor. exists [2; 20]%N. reflexivity.
  - split; [vm_compute; left; reflexivity|]. split; [vm_compute; discriminate|]. split; reflexivity.
Qed.
Print Assumptions C14_abandoned_call_stale_reply_refuted.
(* the positive side is the theorem above: C14_every_caller_gets_own_reply holds for every schedule
   as soon as nobody abandons a call (na_reqs); the same holds when the abandoned requests are never
   answered (a unit that is switched off: the transport of the supporting run leaves such frames out
   of what it answers, and those cases must and do hold). *)
Example C14_example_no_abandon : na_reqs ab_reqs -> False.
Proof. intros H. specialize (H 0). discriminate. Qed.

(* ---- the hypotheses are satisfiable ---- *)
(* a self-delimiting framing exists (one length byte) *)
Theorem C14_framing_exists : forall fs, Forall wf_lp fs -> decode_lp (List.concat fs) = fs.
Proof. exact decode_lp_concat. Qed.
Print Assumptions C14_framing_exists.

(* two callers, preempted inside their frames, reach a state through the scheduler *)
Definition ex_reqs (i : nat) : list call :=
  match i with
  | 0 => [CDo (lp_frame [1; 2]%N); CCtl]
  | 1 => [CDo (lp_frame [7]%N)]
  | _ => []
  end.
Definition ex_reply (f : frm) : frm := rev f.
Definition ex_final : cst :=
  run_schedule ex_reply decode_lp [1; 0; 1; 0; 1; 0; 1; 1; 0; 0; 0; 0; 0; 0; 0; 0; 0] (cinit ex_reqs).
Example C14_example_reachable :
  exists l, creach ex_reply decode_lp ex_reqs l ex_final.
Proof.
  destruct (run_schedule_reach ex_reply decode_lp ex_reqs
              [1; 0; 1; 0; 1; 0; 1; 1; 0; 0; 0; 0; 0; 0; 0; 0; 0] [] _ (cr_init _ _ _)) as [l H].
  exists l. exact H.
Qed.
Example C14_example_outcome :
  wire ex_final = [1; 7; 2; 1; 2]%N /\ c_owner ex_final = None /\
  results (callers ex_final 1) = [([1; 7]%N, Some [7; 1]%N)] /\
  results (callers ex_final 0) = [([2; 1; 2]%N, Some [2; 1; 2]%N)] /\
  pending (callers ex_final 0) = [].
Proof. vm_compute. repeat split. Qed.
Example C14_example_na : na_reqs ex_reqs.
Proof. intros [|[|i]]; reflexivity. Qed.
Example C14_example_wf : wf_reqs wf_lp ex_reqs.
Proof.
  intros [|[|i]]; cbn; repeat constructor.
  - exists [1; 2]%N. reflexivity.
  - exists [7]%N. reflexivity.
Qed.

(* the trace semantics is inhabited: the shape of Client.Do has the complete execution
   acquire, use, use, release(by the deferred unlock) *)
Example C14_trace_exists :
  thread_trace [CLock; CDeferUnlock; CUse; CBranch [CRet] []; CUse; CRet] [EAcq; EUse; EUse; ERel] Done.
Proof.
  exists 0. unfold code. cbn [map].
  apply tr_lock, tr_defer, tr_use, tr_brr. cbn [code map app].
  apply tr_use, tr_ret, tr_end_rel, tr_end_top.
Qed.
Example C14_shape_accepted :
  chk_entry false [CLock; CDeferUnlock; CUse; CBranch [CRet] []; CUse; CRet] = true.
Proof. vm_compute. reflexivity. Qed.
(* without the Lock the checker rejects, and indeed an undisciplined execution exists *)
Example C14_shape_without_lock_rejected :
  chk_entry false [CUse; CRet] = false /\
  thread_trace [CUse; CRet] [EUse] Done /\ run false [EUse] = None.
Proof.
  split; [vm_compute; reflexivity|]. split; [|reflexivity].
  exists 0. unfold code. cbn [map]. apply tr_use, tr_ret, tr_end_top.
Qed.

(* A FAILED Connect LEAVES THE CLIENT AS IT WAS (flag "connect_atomic" of the supporting run).
   In the wire model Close and Connect -- failing or not -- are control calls CCtl: critical sections
   that change neither the wire nor any reply.  C14_every_caller_gets_own_reply and
   C14_wire_whole_frames_in_lock_order quantify over request lists with control calls anywhere, so
   whatever Connect calls other goroutines make, every request call gets its own reply.  What the
   code must do for this to apply -- not assign conn when the dial failed -- is seen by the skeleton:
   the translator refuses (Unknown) a field assigned together with an error value, i.e. before the
   error check, which fails client_skeleton_well_locked. *)

(* HOOK CALLS ARE STEPS OF THE LOCK HOLDER (flag "hooks_atomic" of the supporting run).
   The user's ClientHooks object is reached through the field hooks, which LockModel classifies as a
   locked-use field: written once before the client is shared (configuration rule), and every read
   of it / call through it is a CUse of the core language.  Hence, under the regenerated
   obligation, by C14_well_locked_sound every BeforeWrite / AfterEachRead / BeforeParse call is an
   EUse event made while the thread owns the mutex; by C14_mutual_exclusion the thread is then THE
   holder; and by C14_one_at_a_time nobody else takes a step until it releases.  So the hook calls
   of one request are never interleaved with those of another, and a hook object need not be
   goroutine-safe.  (DispConc.run_observed attaches the hook calls to the holder's acquire, read and
   release steps accordingly.) *)
Example hooks_are_locked_use :
  locked_use "Client.hooks" "Client.mu" = true /\ locked_use "SerialClient.hooks" "SerialClient.mu" = true /\
  (* and the generated bodies of Do / do really call through them *)
  existsb (fun f => any_list (fun s => match s with Use "Client.hooks" R => true | _ => false end) (fn_body f))
          (p_funcs Skeletons.client) = true /\
  existsb (fun f => any_list (fun s => match s with Use "SerialClient.hooks" R => true | _ => false end) (fn_body f))
          (p_funcs Skeletons.serial_client) = true.
Proof. vm_compute. repeat split. Qed.

(* ------------------------------------------------------------------------------------------ *)
(* (4) the regenerated obligations (gen/Skeletons.v is rewritten by the translator on each run) *)

Example client_skeleton_well_locked : well_locked Skeletons.client = true.
Proof. vm_compute. reflexivity. Qed.
Example serial_client_skeleton_well_locked : well_locked Skeletons.serial_client = true.
Proof. vm_compute. reflexivity. Qed.

(* the entry requirements of DESIGN.md 4.2: Do / Close / Connect are entered WITHOUT the lock, the
   helpers that touch conn / serialPort (do, flush) WITH it *)
Example client_entry_modes :
  map (entry_mode_of Skeletons.client "Client.mu") ["Client.Do"; "Client.Close"; "Client.Connect"; "Client.do"]
  = [Some false; Some false; Some false; Some true].
Proof. vm_compute. reflexivity. Qed.
Example serial_client_entry_modes :
  map (entry_mode_of Skeletons.serial_client "SerialClient.mu")
      ["SerialClient.Do"; "SerialClient.Close"; "SerialClient.do"; "SerialClient.flush"]
  = [Some false; Some false; Some true; Some true].
Proof. vm_compute. reflexivity. Qed.
(* the request calls are among the checked thread bodies, and they do use the mutex *)
Example client_Do_is_a_checked_thread :
  existsb (fun b => any_list (fun s => match s with Lock "Client.mu" => true | _ => false end) b
                    && any_list (fun s => match s with Call "Client.do" => true | _ => false end) b)
          (thread_bodies Skeletons.client) = true /\
  existsb (fun b => any_list (fun s => match s with Lock "SerialClient.mu" => true | _ => false end) b
                    && any_list (fun s => match s with Call "SerialClient.do" => true | _ => false end) b)
          (thread_bodies Skeletons.serial_client) = true.
Proof. vm_compute. split; reflexivity. Qed.

(* ---- the checker discriminates: small skeletons with the faults the obligation is there for ---- *)
Definition mini (fs : list fn) : program :=
  {| p_file := "mini"; p_funcs := fs; p_values := []; p_fields := []; p_foreign := [] |}.
Definition mini_do : fn :=
  {| fn_name := "Client.do"; fn_kind := KFunc; fn_exported := false;
     fn_body := [Use "Client.conn" R; Loop [Use "Client.conn" R; Branch [[Return]; [Break]; []]]; Return] |}.
(* as in client.go *)
Example C14_mini_ok :
  well_locked (mini [ {| fn_name := "Client.Do"; fn_kind := KFunc; fn_exported := true;
                         fn_body := [Lock "Client.mu"; DeferUnlock "Client.mu"; Use "Client.conn" R;
                                     Branch [[Return]; []]; Call "Client.do"; Return] |}; mini_do ]) = true.
Proof. vm_compute. reflexivity. Qed.
(* c.mu.Lock() removed from Do *)
Example C14_mini_lock_removed :
  well_locked (mini [ {| fn_name := "Client.Do"; fn_kind := KFunc; fn_exported := true;
                         fn_body := [DeferUnlock "Client.mu"; Use "Client.conn" R;
                                     Branch [[Return]; []]; Call "Client.do"; Return] |}; mini_do ]) = false.
Proof. vm_compute. reflexivity. Qed.
(* the exchange moved out of the critical section *)
Example C14_mini_exchange_outside :
  well_locked (mini [ {| fn_name := "Client.Do"; fn_kind := KFunc; fn_exported := true;
                         fn_body := [Lock "Client.mu"; Use "Client.conn" R; Unlock "Client.mu";
                                     Call "Client.do"; Return] |}; mini_do ]) = false.
Proof. vm_compute. reflexivity. Qed.
(* conn read by an unlocked helper before the lock is taken *)
Example C14_mini_unlocked_helper :
  well_locked (mini [ {| fn_name := "Client.isConnected"; fn_kind := KFunc; fn_exported := false;
                         fn_body := [Use "Client.conn" R; Return] |};
                      {| fn_name := "Client.Do"; fn_kind := KFunc; fn_exported := true;
                         fn_body := [Call "Client.isConnected"; Lock "Client.mu"; DeferUnlock "Client.mu";
                                     Call "Client.do"; Return] |}; mini_do ]) = false.
Proof. vm_compute. reflexivity. Qed.
(* a path that returns with the lock held *)
Example C14_mini_return_locked :
  well_locked (mini [ {| fn_name := "Client.Close"; fn_kind := KFunc; fn_exported := true;
                         fn_body := [Lock "Client.mu"; Use "Client.conn" R; Branch [[Return]; []];
                                     Unlock "Client.mu"; Return] |} ]) = false.
Proof. vm_compute. reflexivity. Qed.
(* the hooks are called outside the critical section (lock taken only around the exchange helper):
   hooks is a locked-use field, every call through it must be made by the lock holder *)
Example C14_mini_hooks_outside_lock :
  well_locked (mini [ {| fn_name := "Client.exchange"; fn_kind := KFunc; fn_exported := false;
                         fn_body := [Lock "Client.mu"; DeferUnlock "Client.mu"; Use "Client.conn" R;
                                     Call "Client.do"; Return] |};
                      {| fn_name := "Client.Do"; fn_kind := KFunc; fn_exported := true;
                         fn_body := [Call "Client.exchange"; Branch [[Return]; []];
                                     Use "Client.hooks" R; Branch [[Use "Client.hooks" R]; []]; Return] |};
                      mini_do ]) = false.
Proof. vm_compute. reflexivity. Qed.
(* the exchange under a READ lock (exclusion left to something the skeleton does not see, e.g. a
   channel used as semaphore): a function that read-locks must not touch the transport handle *)
Example C14_mini_exchange_under_rlock :
  well_locked (mini [ {| fn_name := "Client.Do"; fn_kind := KFunc; fn_exported := true;
                         fn_body := [RLock "Client.mu"; DeferRUnlock "Client.mu"; Use "Client.conn" R;
                                     Branch [[Return]; []]; Call "Client.do"; Return] |}; mini_do ]) = false.
Proof. vm_compute. reflexivity. Qed.
(* a Read started in a goroutine of its own (so that Do can return while it is pending): the go
   body touches the port without holding the lock *)
Example C14_mini_read_in_goroutine :
  well_locked (mini [ {| fn_name := "SerialClient.Do"; fn_kind := KFunc; fn_exported := true;
                         fn_body := [Lock "SerialClient.mu"; DeferUnlock "SerialClient.mu";
                                     Use "SerialClient.serialPort" R;
                                     Loop [Go [Use "SerialClient.serialPort" R]; Branch [[Return]; [Return]; []]];
                                     Return] |} ]) = false.
Proof. vm_compute. reflexivity. Qed.
(* the lock is released by explicit Unlocks on every return path instead of a deferred one: a panic
   in between (a user hook, req.Bytes(), a parse function; recovered by the caller) leaves the mutex
   locked for ever *)
Example C14_mini_unlock_not_deferred :
  well_locked (mini [ {| fn_name := "Client.Do"; fn_kind := KFunc; fn_exported := true;
                         fn_body := [Lock "Client.mu"; Use "Client.conn" R;
                                     Branch [[Unlock "Client.mu"; Return]; []];
                                     Call "Client.do"; Use "Client.hooks" R; Unlock "Client.mu"; Return] |};
                      mini_do ]) = false.
Proof. vm_compute. reflexivity. Qed.
(* an unrecognised construct fails the obligation *)
Example C14_mini_unknown :
  well_locked (mini [ {| fn_name := "f"; fn_kind := KFunc; fn_exported := true;
                         fn_body := [Unknown "goto"] |} ]) = false.
Proof. vm_compute. reflexivity. Qed.
