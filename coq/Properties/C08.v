(* C08 -- a request call always terminates with a classified error on transport faults.

   Model: ClientModel.client_do over scripts.  "Within bounded time" is the iteration bound
   C08_bounded: if the total-timeout timer fires (or the context is done) at iteration T the call
   has returned by then, after at most T transport reads, whatever else the script holds; that one
   iteration is short is the transport honouring the 500 microsecond read deadline (network) or
   returning from Read (serial) and is not a statement about this code.

     C08_bounded            the loop ends at the timer; never "out of script"
     C08_never_panics       for every script
     C08_ok_only_complete   a response is returned only if the bytes read parse as one
     C08_error_has_cause    every reported error class names a fault that happened
     C08_nil_request, C08_not_connected, C08_set_write_deadline_fails, C08_write_fails
                            faults before the first read: immediate, classified
     C08_do_keeps_state, C08_sequence_is_map, C08_later_calls_independent
                            several calls on one object: no call depends on how earlier ones ended
     C08_prefix_is_live + C08_stall / _cancel / _io_error / _oversize / _eof_network / _eof_serial
                            the fault kinds after any prefix of a reply that is below the stop
                            threshold ([alive_through]: every read boundary so far is below the
                            threshold, within the frame limit, not an exception frame)

   With a short ExpectedResponseLength (D7, see C07) a prefix at or past the threshold is not live:
   the call has already returned the parser's error (for FC17 possibly a shorter reply) -- that
   part of the property is a known finding, C08_short_formula_refuted / C08_fc17_eof_refuted. *)
Require Import MB.GoSem MB.CrcModel MB.PacketModel MB.ClientModel.
Require Import MB.proofs.ClientProofs MB.proofs.ClientC07 MB.proofs.ClientC07Inst MB.proofs.ClientInv.
Require Import MB.proofs.ClientC08 MB.proofs.ClientNoPanic MB.proofs.ClientCause MB.proofs.ClientSeq.
Open Scope N_scope.

Theorem C08_bounded :
  forall cfg sc r T st,
  nth_error (sc_steps sc) T = Some st -> ends_call st = true ->
  client_do cfg (truncate sc (S T)) r = client_do cfg sc r /\
  fst (client_do cfg sc r) <> OOutOfScript /\
  (read_count (snd (client_do cfg sc r)) <= T)%nat.
Proof. exact client_bounded. Qed.
Print Assumptions C08_bounded.

Theorem C08_never_panics : forall cfg sc r, fst (client_do cfg sc r) <> OPanic.
Proof. exact client_no_panic. Qed.
Print Assumptions C08_never_panics.

(* success, a parser error and an exception all refer to exactly the bytes read *)
Theorem C08_ok_only_complete :
  forall cfg sc r,
  let x := client_do cfg sc r in
  match fst x with
  | OResp tid p => parse_resp (c_kind cfg) (exact (reads (snd x))) = Ok (tid, p)
  | OFail (CParse er) => parse_resp (c_kind cfg) (exact (reads (snd x))) = Err er
  | OFail (CExc er) => recognise (c_kind cfg) (window (c_kind cfg) (reads (snd x))) = RExc er
  | _ => True
  end.
Proof. exact client_consumed. Qed.
Print Assumptions C08_ok_only_complete.

(* no class is fabricated: the reported class of error names a fault that the script contains
   ([cause]: a step with the context done / the timer fired / a failing read, the failing
   SetWriteDeadline, Write or Flush, more than the limit received, nothing received) *)
Theorem C08_error_has_cause :
  forall cfg sc r,
  match fst (client_do cfg sc r) with
  | OFail CNilRequest => r = None
  | OFail CNotConnected => c_connected cfg = false /\ c_kind cfg <> KSerial
  | OFail CNoPort => c_connected cfg = false /\ c_kind cfg = KSerial
  | OFail (CParse _) => True
  | OFail e => cause cfg sc (sc_steps sc) (reads (snd (client_do cfg sc r))) e
  | _ => True
  end.
Proof. exact client_error_has_cause. Qed.
Print Assumptions C08_error_has_cause.

(* ---------- before the first read: no transport call, or only the failing one ---------- *)
Theorem C08_nil_request : forall cfg sc, client_do cfg sc None = (OFail CNilRequest, []).
Proof. exact nil_request. Qed.
Print Assumptions C08_nil_request.

Theorem C08_not_connected :
  forall cfg sc q, c_connected cfg = false ->
  client_do cfg sc (Some q) =
  (OFail (match c_kind cfg with KSerial => CNoPort | _ => CNotConnected end), []).
Proof. exact not_connected. Qed.
Print Assumptions C08_not_connected.

Theorem C08_set_write_deadline_fails :
  forall cfg sc q, c_connected cfg = true -> c_kind cfg <> KSerial -> sc_swd_err sc = true ->
  client_do cfg sc (Some q) = (OFail (CIo SiteSWD), [TSetWriteDeadline]).
Proof. exact swd_error. Qed.
Print Assumptions C08_set_write_deadline_fails.

Theorem C08_write_fails :
  forall cfg sc q, c_connected cfg = true ->
  (c_kind cfg = KSerial \/ sc_swd_err sc = false) -> sc_write_err sc = true ->
  fst (client_do cfg sc (Some q)) = OFail (CIo SiteWrite) \/
  (c_kind cfg = KSerial /\ c_flusher cfg = true /\ sc_flush_err sc = true /\
   fst (client_do cfg sc (Some q)) = OFail (CIo SiteFlush)).
Proof. exact write_error. Qed.
Print Assumptions C08_write_fails.

(* ---------- after a prefix of the reply ---------- *)
(* any segmentation of a prefix of a reply that is shorter than the stop threshold *)
Theorem C08_prefix_is_live :
  forall cfg e chunks reply s,
  reply = payload chunks ++ s ->
  (length (payload chunks) < e)%nat -> (length (payload chunks) <= max_len (c_kind cfg))%nat ->
  nth (fc_pos (c_kind cfg)) reply 0 < 128 ->
  alive_through cfg e [] chunks.
Proof. exact prefix_alive_through. Qed.
Print Assumptions C08_prefix_is_live.

(* ... or of a proper prefix of an exception frame *)
Theorem C08_short_prefix_is_live :
  forall cfg e chunks,
  (length (payload chunks) < e)%nat -> (length (payload chunks) < exc_len (c_kind cfg))%nat ->
  alive_through cfg e [] chunks.
Proof. exact short_prefix_alive_through. Qed.
Print Assumptions C08_short_prefix_is_live.

(* the transport stalls: any number of empty reads, then the timer *)
Theorem C08_stall :
  forall cfg sc q, c_connected cfg = true -> writes_ok sc ->
  forall chunks w pick r tail,
  sc_steps sc = script_of chunks ++ repeat quiet w ++ timer_step pick r :: tail ->
  alive_through cfg (q_expected q) [] chunks ->
  client_do cfg sc (Some q) =
  (OFail CTimeout, write_trace cfg (q_bytes q) ++ reads_trace cfg chunks ++ quiet_trace cfg w).
Proof. exact client_waits. Qed.
Print Assumptions C08_stall.

(* the caller cancels ([s_deadline st = false]: context.Canceled) or the caller's OWN deadline
   expires ([s_deadline st = true]: context.DeadlineExceeded) while the transport stalls: the result
   is the context's error [CCtx _], returned as it is -- not the client's timeout, not a ClientError
   (DispClient projects it as bare 60 / 61).  If the total timer has fired as well, select may take
   either case *)
Theorem C08_cancel :
  forall cfg sc q, c_connected cfg = true -> writes_ok sc ->
  forall chunks st tail,
  sc_steps sc = script_of chunks ++ st :: tail ->
  alive_through cfg (q_expected q) [] chunks ->
  s_ctx st = true ->
  fst (client_do cfg sc (Some q)) =
  (if s_pick st || negb (s_timer st) then OFail (CCtx (s_deadline st)) else OFail CTimeout).
Proof. exact fault_cancel. Qed.
Print Assumptions C08_cancel.

(* the stall case spelt out: the caller's context ends the call with ITS error and nothing else is
   called; a caller deadline shorter than the read timeout is never reported as the client's timeout *)
Theorem C08_caller_context_decides :
  forall cfg sc q, c_connected cfg = true -> writes_ok sc ->
  forall chunks w st tail,
  sc_steps sc = script_of chunks ++ repeat quiet w ++ st :: tail ->
  alive_through cfg (q_expected q) [] chunks ->
  s_ctx st = true -> s_timer st = false ->
  client_do cfg sc (Some q) =
  (OFail (CCtx (s_deadline st)), write_trace cfg (q_bytes q) ++ reads_trace cfg chunks ++ quiet_trace cfg w).
Proof. exact fault_ctx_after_stall. Qed.
Print Assumptions C08_caller_context_decides.

Theorem C08_io_error :
  forall cfg sc q, c_connected cfg = true -> writes_ok sc ->
  forall chunks st tail b,
  sc_steps sc = script_of chunks ++ st :: tail ->
  alive_through cfg (q_expected q) [] chunks ->
  no_select st -> s_rd st = RIoErr b ->
  fst (client_do cfg sc (Some q)) = OFail (CIo SiteRead) \/
  (~ flush_ok cfg sc /\ fst (client_do cfg sc (Some q)) = OFail (CIo SiteFlush)).
Proof. exact fault_io. Qed.
Print Assumptions C08_io_error.

Theorem C08_oversize :
  forall cfg sc q, c_connected cfg = true -> writes_ok sc ->
  forall chunks st tail b,
  sc_steps sc = script_of chunks ++ st :: tail ->
  alive_through cfg (q_expected q) [] chunks ->
  no_select st -> (s_rd st = RData b \/ s_rd st = RTimeout b \/ s_rd st = REof b) ->
  (max_len (c_kind cfg) <
   length (payload chunks ++ firstn (buf_size (c_kind cfg) - length (payload chunks)) b))%nat ->
  fst (client_do cfg sc (Some q)) = OFail CTooLong \/
  (~ flush_ok cfg sc /\ fst (client_do cfg sc (Some q)) = OFail (CIo SiteFlush)).
Proof. exact fault_oversize. Qed.
Print Assumptions C08_oversize.

Theorem C08_eof_network :
  forall cfg sc q, c_connected cfg = true -> writes_ok sc ->
  forall chunks st tail b,
  sc_steps sc = script_of chunks ++ st :: tail ->
  alive_through cfg (q_expected q) [] chunks ->
  no_select st -> s_rd st = REof b ->
  eof_breaks (c_kind cfg) = true ->
  alive cfg (q_expected q) (payload chunks ++ b) ->
  fst (client_do cfg sc (Some q)) =
  match payload chunks ++ b with
  | [] => OFail CNoBytes
  | _ => outcome_of_parse (c_kind cfg) (payload chunks ++ b)
  end.
Proof. exact fault_eof_net. Qed.
Print Assumptions C08_eof_network.

Theorem C08_eof_serial :
  forall cfg sc q, c_connected cfg = true -> writes_ok sc ->
  forall chunks st b w pick r tail,
  sc_steps sc = script_of chunks ++ st :: repeat quiet w ++ timer_step pick r :: tail ->
  alive_through cfg (q_expected q) [] chunks ->
  no_select st -> s_rd st = REof b ->
  eof_breaks (c_kind cfg) = false ->
  alive cfg (q_expected q) (payload chunks ++ b) ->
  fst (client_do cfg sc (Some q)) = OFail CTimeout.
Proof. exact fault_eof_serial. Qed.
Print Assumptions C08_eof_serial.

(* ---------- several calls on one client object ----------
   [run_ops cfg0 s ops] (ClientModel.v): Connect, Close and Do in sequence; the object's state is
   the connection field and whether the transport has been closed.
     C08_do_keeps_state          a Do leaves the state as it found it, whatever its outcome
     C08_sequence_is_map         the i-th result is the single call, made in the state left by the
                                 Connect / Close calls before it -- each Do is [client_do], so
                                 every single-call theorem of C07, C08, C12, C19 applies to it
     C08_later_calls_independent replacing the earlier calls by any others with the same Connect /
                                 Close calls (other requests, scripts, faults) leaves the later
                                 results unchanged: a failed call does not poison the next
   Go facts these rest on: (1) Do assigns neither c.conn nor c.serialPort (transcribed: ClientModel
   step_op); (2) every method releases c.mu on every return path, so a later call is never blocked by
   an earlier one that has returned -- not expressible in this sequential model: it is the regenerated
   lock-skeleton obligation of C14 (Properties/C14.v), and the correspondence stream c08seq runs
   every call under a watchdog and reports a call that does not return. *)
Theorem C08_do_keeps_state :
  forall cfg0 s r sc, fst (step_op cfg0 s (OpDo r sc)) = s.
Proof. exact do_keeps_state. Qed.
Print Assumptions C08_do_keeps_state.

Theorem C08_do_in_sequence_is_client_do :
  forall cfg0 s r sc,
  call cfg0 s (OpDo r sc) =
  RDo (client_do (cfg_in cfg0 s) (if st_closed s then on_closed (c_kind cfg0) sc else sc) r).
Proof. exact do_is_client_do. Qed.
Print Assumptions C08_do_in_sequence_is_client_do.

Theorem C08_sequence_is_map :
  forall cfg0 ops s i,
  nth_error (run_ops cfg0 s ops) i =
  option_map (call cfg0 (state_after cfg0 s (lifecycle (firstn i ops)))) (nth_error ops i).
Proof. exact run_ops_is_map. Qed.
Print Assumptions C08_sequence_is_map.

Theorem C08_later_calls_independent :
  forall cfg0 s before before' after,
  lifecycle before = lifecycle before' ->
  skipn (length before) (run_ops cfg0 s (before ++ after)) =
  skipn (length before') (run_ops cfg0 s (before' ++ after)).
Proof. exact later_calls_independent. Qed.
Print Assumptions C08_later_calls_independent.

(* not connected, then a failing call, then a good one, Close, Do on the closed connection, and a
   new Connect: each call returns what it would return alone *)
Example C08_example_sequence :
  let q := rq false (RWReg 1 2 3 4) in
  let reply := reply_bytes q (PWReg 1 2 3 4) in
  let good := OpDo (Some q) (plain [deliver false (firstn 5 reply); deliver true (skipn 5 reply)]) in
  let stall := OpDo (Some q) (plain [deliver false (firstn 5 reply); quiet; timer_step false (RTimeout [])]) in
  map (fun r => match r with RDo x => Some (fst x) | _ => None end)
      (run_ops (cfg_of KTcp) {| st_conn := false; st_closed := false |}
               [good; OpConnect true; good; OpConnect false; stall; good; OpClose; good; OpConnect false; good])
  = [Some (OFail CNotConnected); None; Some (OFail CNotConnected); None; Some (OFail CTimeout);
     Some (OResp 7 (PWReg 1 2 3 4)); None; Some (OFail (CIo SiteSWD)); None; Some (OResp 7 (PWReg 1 2 3 4))].
Proof. vm_compute. reflexivity. Qed.

(* ---------- non-vacuity ---------- *)
Definition ex8_q : creq := rq false (RRead 3 1 0 2).
Definition ex8_reply : list N := reply_bytes ex8_q (PBytes 3 1 4 [0x12; 0x34; 0x56; 0x78]).
Definition ex8_chunks : list chunk := [(1%nat, false, firstn 4 ex8_reply); (0%nat, true, firstn 3 (skipn 4 ex8_reply))].

Example C08_live_prefix_exists :
  alive_through (cfg_of KTcp) (q_expected ex8_q) [] ex8_chunks.
Proof.
  apply (prefix_alive_through _ _ _ ex8_reply (skipn 7 ex8_reply)); vm_compute; try reflexivity; lia.
Qed.
Example C08_example_stall :
  fst (client_do (cfg_of KTcp) (plain (script_of ex8_chunks ++ repeat quiet 2 ++ [timer_step true (RData [1])])) (Some ex8_q))
  = OFail CTimeout.
Proof. vm_compute. reflexivity. Qed.
Example C08_example_faults :
  let io := {| s_ctx := false; s_deadline := false; s_timer := false; s_pick := false; s_rd := RIoErr [5] |} in
  let big := deliver false (repeat 0 300) in
  let eof := {| s_ctx := false; s_deadline := false; s_timer := false; s_pick := false; s_rd := REof [] |} in
  let ctx := {| s_ctx := true; s_deadline := false; s_timer := false; s_pick := false; s_rd := RTimeout [] |} in
  let dl := {| s_ctx := true; s_deadline := true; s_timer := false; s_pick := false; s_rd := RTimeout [] |} in
  let late := {| s_ctx := false; s_deadline := false; s_timer := false; s_pick := false; s_rd := RTimeout (repeat 0 300) |} in
  fst (client_do (cfg_of KTcp) (plain (script_of ex8_chunks ++ [io])) (Some ex8_q)) = OFail (CIo SiteRead) /\
  fst (client_do (cfg_of KTcp) (plain (script_of ex8_chunks ++ [big])) (Some ex8_q)) = OFail CTooLong /\
  fst (client_do (cfg_of KTcp) (plain (script_of ex8_chunks ++ [eof])) (Some ex8_q)) = OFail (CParse EPlain) /\
  fst (client_do (cfg_of KTcp) (plain [eof]) (Some ex8_q)) = OFail CNoBytes /\
  fst (client_do (cfg_of KTcp) (plain (script_of ex8_chunks ++ [ctx])) (Some ex8_q)) = OFail (CCtx false) /\
  fst (client_do (cfg_of KTcp) (plain (script_of ex8_chunks ++ [quiet; dl])) (Some ex8_q)) = OFail (CCtx true) /\
  fst (client_do (cfg_of KSerial) (plain [dl]) (Some (rq true (RRead 3 1 0 2)))) = OFail (CCtx true) /\
  fst (client_do (cfg_of KTcp) (plain (script_of ex8_chunks ++ [late])) (Some ex8_q)) = OFail CTooLong /\
  fst (client_do (cfg_of KSerial) (plain [eof; quiet; timer_step false (RTimeout [])]) (Some (rq true (RRead 3 1 0 2)))) = OFail CTimeout.
Proof. cbn zeta. repeat split; vm_compute; reflexivity. Qed.
Example C08_example_bounded :
  nth_error (sc_steps (plain (script_of ex8_chunks ++ [timer_step false (RTimeout []); quiet; quiet]))) 3
  = Some (timer_step false (RTimeout [])) /\ ends_call (timer_step false (RTimeout [])) = true.
Proof. split; vm_compute; reflexivity. Qed.

(* Observation: Client.do compares with tcpPacketMaxLen (260) also when the client was made by
   NewRTUClient: 258 bytes in one read are "too long" for the serial client but go to the parser in
   the RTU network client (an error either way). *)
Example C08_rtu_network_limit_is_260 :
  let q := rq true (RRead 3 1 0 2) in
  fst (client_do (cfg_of KSerial) (plain [deliver false (repeat 1 258)]) (Some q)) = OFail CTooLong /\
  fst (client_do (cfg_of KRtuNet) (plain [deliver false (repeat 1 258)]) (Some q)) = OFail (CParse EInvalidCRC) /\
  fst (client_do (cfg_of KRtuNet) (plain [deliver false (repeat 1 261)]) (Some q)) = OFail CTooLong.
Proof. cbn zeta. repeat split; vm_compute; reflexivity. Qed.

(* ---------- inside the D7 regions the class is not the one the property names ---------- *)
(* RTU FC3: the transport stalls after 6 of 7 bytes; the call does not report a timeout but the
   parser's CRC error on the 6 bytes (the threshold is 6) *)
Theorem C08_short_formula_refuted :
  let q := rq true (RRead 3 1 0 1) in
  let reply := reply_bytes q (PBytes 3 1 2 [0x12; 0x34]) in
  fst (client_do (cfg_of KRtuNet) (plain [deliver false (firstn 6 reply); quiet; timer_step false (RTimeout [])]) (Some q))
  = OFail (CParse EInvalidCRC).
Proof. vm_compute. reflexivity. Qed.
(* TCP FC17: the stream is closed after 12 of 14 bytes; the call reports success *)
Theorem C08_fc17_eof_refuted :
  let q := rq false (RSrvId 1) in
  let reply := reply_bytes q (PSrvId 1 255 [1; 2] [9; 9]) in
  fst (client_do (cfg_of KTcp)
         (plain [deliver false (firstn 7 reply);
                 {| s_ctx := false; s_deadline := false; s_timer := false; s_pick := false; s_rd := REof (firstn 5 (skipn 7 reply)) |}])
         (Some q))
  = OResp 7 (PSrvId 1 255 [1; 2] []).
Proof. vm_compute. reflexivity. Qed.
