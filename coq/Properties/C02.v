(* C02 -- responses decode to exactly what was sent; exceptions become typed errors; a frame whose
   length disagrees with its own byte-count field is rejected.

   Model: PacketModel ([resp], [resp_bytes_tcp/rtu], the ten per-function parsers, the dispatchers
   [parse_tcp_response], [parse_rtu_response], [parse_rtu_response_crc]).  Specification: Spec
   ([adu_tcp], [adu_rtu], [rpdu], [exception_adu_*]).  Slices carry arbitrary spare capacity.

   What holds for the pinned code: everything the property says, for the nine functions with a
   fixed layout and for FC17 in the layout the library documents.  What does not: an FC17 response
   laid out as MAP 6.13 prescribes is rejected, always ([C02_fc17_spec_layout_refuted],
   [C02_fc17_spec_layout_always_rejected_*]; known finding D14).

   "Well-formed" is explicit: [resp_wf] for values (unit and bytes < 256, count field = payload
   length, 1..255 payload bytes for coils, an even number 2..254 for registers, 16-bit addresses and
   counts, FC17 id of 1..255 bytes), [frame_wf_tcp]/[frame_wf_rtu] for frames (bytes < 256; MBAP
   protocol id 0 and length field = bytes that follow; fixed-layout PDUs of 5 bytes; FC5 value FF00
   or 0000).  The parsers are laxer than that -- they ignore the protocol id, the byte-counted and
   FC17 parsers ignore the MBAP length field, the fixed-layout TCP parsers accept trailing bytes
   covered by the length field, FC5 reads any value other than FF00 as OFF, odd register byte
   counts are accepted, the non-checking RTU parsers ignore the trailer -- so re-encoding
   reproduces exactly the well-formed frames; the witnesses are at the end of part (a). *)
Require Import MB.GoSem MB.CrcModel MB.Spec MB.PacketModel MB.proofs.RespProofs.
Open Scope N_scope.

(* ====================================================================================== *)
(* (a) well-formed value -> specified ADU -> parsed back                                   *)
(* ====================================================================================== *)

(* the response encoders of the nine fixed-layout functions produce the ADU of the specification *)
Theorem C02_encode_tcp_is_spec :
  forall p tid, resp_wf p = true -> resp_fc p <> 17 ->
  resp_bytes_tcp tid p = adu_tcp tid (resp_unit p) (rpdu (sresp_of p)).
Proof. exact resp_bytes_tcp_spec9. Qed.
Print Assumptions C02_encode_tcp_is_spec.

Theorem C02_encode_rtu_is_spec :
  forall p, resp_wf p = true -> resp_fc p <> 17 ->
  resp_bytes_rtu p = adu_rtu (resp_unit p) (rpdu (sresp_of p)).
Proof. exact resp_bytes_rtu_spec9. Qed.
Print Assumptions C02_encode_rtu_is_spec.

(* all ten, FC17 against the library's own layout ([spec_pdu]) *)
Theorem C02_encode_tcp_all :
  forall p tid, resp_wf p = true -> resp_bytes_tcp tid p = adu_tcp tid (resp_unit p) (spec_pdu p).
Proof. exact resp_bytes_tcp_spec. Qed.
Print Assumptions C02_encode_tcp_all.
Theorem C02_encode_rtu_all :
  forall p, resp_wf p = true -> resp_bytes_rtu p = adu_rtu (resp_unit p) (spec_pdu p).
Proof. exact resp_bytes_rtu_spec. Qed.
Print Assumptions C02_encode_rtu_all.

(* parsing the encoded frame returns the transaction id and the value: per-function parsers ... *)
Theorem C02_roundtrip_tcp_parser :
  forall p tid s, resp_wf p = true -> tid < 65536 ->
  parser_tcp_of p {| vis := resp_bytes_tcp tid p; spare := s |} = Ok (tid, p).
Proof. exact roundtrip_tcp_parser. Qed.
Print Assumptions C02_roundtrip_tcp_parser.
Theorem C02_roundtrip_rtu_parser :
  forall p s, resp_wf p = true -> parser_rtu_of p {| vis := resp_bytes_rtu p; spare := s |} = Ok p.
Proof. exact roundtrip_rtu_parser. Qed.
Print Assumptions C02_roundtrip_rtu_parser.

(* ... and the three dispatchers *)
Theorem C02_roundtrip_tcp :
  forall p tid s, resp_wf p = true -> tid < 65536 ->
  parse_tcp_response {| vis := resp_bytes_tcp tid p; spare := s |} = Ok (tid, p).
Proof. exact roundtrip_tcp. Qed.
Print Assumptions C02_roundtrip_tcp.
Theorem C02_roundtrip_rtu :
  forall p s, resp_wf p = true -> parse_rtu_response {| vis := resp_bytes_rtu p; spare := s |} = Ok p.
Proof. exact roundtrip_rtu. Qed.
Print Assumptions C02_roundtrip_rtu.
Theorem C02_roundtrip_rtu_crc :
  forall p s, resp_wf p = true -> parse_rtu_response_crc {| vis := resp_bytes_rtu p; spare := s |} = Ok p.
Proof. exact roundtrip_rtu_crc. Qed.
Print Assumptions C02_roundtrip_rtu_crc.

(* FC17 in the layout the library documents (count byte = id length): specified-by-the-library
   ADU, and the round trip through the three dispatchers *)
Theorem C02_fc17_library_layout :
  forall tid u st id add s, resp_wf (PSrvId u st id add) = true -> tid < 65536 ->
  resp_bytes_tcp tid (PSrvId u st id add) = adu_tcp tid u (rpdu_library_fc17 id st add) /\
  resp_bytes_rtu (PSrvId u st id add) = adu_rtu u (rpdu_library_fc17 id st add) /\
  parse_tcp_response {| vis := adu_tcp tid u (rpdu_library_fc17 id st add); spare := s |}
    = Ok (tid, PSrvId u st id add) /\
  parse_rtu_response {| vis := adu_rtu u (rpdu_library_fc17 id st add); spare := s |}
    = Ok (PSrvId u st id add) /\
  parse_rtu_response_crc {| vis := adu_rtu u (rpdu_library_fc17 id st add); spare := s |}
    = Ok (PSrvId u st id add).
Proof. exact fc17_library_layout. Qed.
Print Assumptions C02_fc17_library_layout.

(* ---------- converse: every slice that parses, re-encoded ---------- *)
(* TCP: re-encoding the parsed value reproduces a well-formed frame byte for byte *)
Theorem C02_reencode_tcp :
  forall d tid p, parse_tcp_response d = Ok (tid, p) -> frame_wf_tcp (vis d) = true ->
  resp_bytes_tcp tid p = vis d.
Proof. exact reencode_tcp. Qed.
Print Assumptions C02_reencode_tcp.

(* the same for each per-function parser ([tcp_by_fc f] is the parser of function f), given that
   the frame's function byte is f -- the per-function parsers never look at it *)
Theorem C02_reencode_tcp_per_function :
  forall f d tid p, tcp_by_fc f d = Ok (tid, p) -> nth_error (vis d) 7 = Some f ->
  frame_wf_tcp (vis d) = true -> resp_bytes_tcp tid p = vis d.
Proof. exact reencode_tcp_by_fc. Qed.
Print Assumptions C02_reencode_tcp_per_function.

(* RTU with CRC check: byte for byte *)
Theorem C02_reencode_rtu_crc :
  forall d p, parse_rtu_response_crc d = Ok p -> frame_wf_rtu (vis d) = true -> resp_bytes_rtu p = vis d.
Proof. exact reencode_rtu_crc. Qed.
Print Assumptions C02_reencode_rtu_crc.

(* RTU without CRC check: the parsers never read the last two bytes; re-encoding reproduces the
   frame up to there and appends the correct CRC ... *)
Theorem C02_reencode_rtu_nocheck :
  forall d p, parse_rtu_response d = Ok p -> frame_wf_rtu (vis d) = true ->
  resp_bytes_rtu p = with_crc (firstn (slen d - 2) (vis d)).
Proof. exact reencode_rtu_nocheck. Qed.
Print Assumptions C02_reencode_rtu_nocheck.
(* ... hence the whole frame exactly when its trailer is the CRC of the rest *)
Theorem C02_reencode_rtu_nocheck_iff :
  forall d p, parse_rtu_response d = Ok p -> frame_wf_rtu (vis d) = true ->
  (resp_bytes_rtu p = vis d <->
   skipn (slen d - 2) (vis d) = crc_trailer (firstn (slen d - 2) (vis d))).
Proof. exact reencode_rtu_nocheck_iff. Qed.
Print Assumptions C02_reencode_rtu_nocheck_iff.
Theorem C02_reencode_rtu_per_function :
  forall f d p, rtu_by_fc f d = Ok p -> nth_error (vis d) 1 = Some f -> frame_wf_rtu (vis d) = true ->
  resp_body p = firstn (slen d - 2) (vis d).
Proof. exact reencode_rtu_by_fc. Qed.
Print Assumptions C02_reencode_rtu_per_function.

(* the frames of the first half are well-formed frames of the second half *)
Theorem C02_encoded_frames_wf_tcp :
  forall p tid, resp_wf p = true -> tid < 65536 -> frame_wf_tcp (resp_bytes_tcp tid p) = true.
Proof. exact encoded_frame_wf_tcp. Qed.
Print Assumptions C02_encoded_frames_wf_tcp.
Theorem C02_encoded_frames_wf_rtu :
  forall p, resp_wf p = true -> frame_wf_rtu (resp_bytes_rtu p) = true.
Proof. exact encoded_frame_wf_rtu. Qed.
Print Assumptions C02_encoded_frames_wf_rtu.

(* ---------- the parsed fields are the frame's fields (no assumption on the slice) ---------- *)
Theorem C02_fields_bytecounted_tcp :
  forall fc d tid p, parse_bytes_resp_tcp fc d = Ok (tid, p) ->
  exists t0 t1 x2 x3 x4 x5 u f bl data,
    vis d = t0::t1::x2::x3::x4::x5::u::f::bl::data /\ length data = N.to_nat bl /\
    (min_data fc <= length data)%nat /\ tid = be16 [t0;t1] /\ p = PBytes fc u bl data.
Proof. exact bytes_tcp_inv. Qed.
Print Assumptions C02_fields_bytecounted_tcp.
Theorem C02_fields_bytecounted_rtu :
  forall fc d p, parse_bytes_resp_rtu fc d = Ok p ->
  exists u f bl data tr,
    vis d = u::f::bl::data ++ tr /\ length data = N.to_nat bl /\ length tr = 2%nat /\
    (min_data fc <= length data)%nat /\ p = PBytes fc u bl data.
Proof. exact bytes_rtu_inv. Qed.
Print Assumptions C02_fields_bytecounted_rtu.
Theorem C02_fields_write_single_coil_tcp :
  forall d tid p, parse_wcoil_resp_tcp d = Ok (tid, p) ->
  exists t0 t1 x2 x3 l0 l1 u f a0 a1 v0 v1 rest,
    vis d = [t0;t1;x2;x3;l0;l1;u;f;a0;a1;v0;v1] ++ rest /\
    l0 * 256 + l1 = 6 + N.of_nat (length rest) /\ tid = be16 [t0;t1] /\
    p = PWCoil u (be16 [a0;a1]) (be16 [v0;v1] =? 0xFF00).
Proof. exact wcoil_tcp_inv. Qed.
Print Assumptions C02_fields_write_single_coil_tcp.
Theorem C02_fields_write_single_register_tcp :
  forall d tid p, parse_wreg_resp_tcp d = Ok (tid, p) ->
  exists t0 t1 x2 x3 l0 l1 u f a0 a1 v0 v1 rest,
    vis d = [t0;t1;x2;x3;l0;l1;u;f;a0;a1;v0;v1] ++ rest /\
    l0 * 256 + l1 = 6 + N.of_nat (length rest) /\ tid = be16 [t0;t1] /\
    p = PWReg u (be16 [a0;a1]) v0 v1.
Proof. exact wreg_tcp_inv. Qed.
Print Assumptions C02_fields_write_single_register_tcp.
Theorem C02_fields_write_multiple_tcp :
  forall fc d tid p, parse_wmulti_resp_tcp fc d = Ok (tid, p) ->
  exists t0 t1 x2 x3 l0 l1 u f a0 a1 v0 v1 rest,
    vis d = [t0;t1;x2;x3;l0;l1;u;f;a0;a1;v0;v1] ++ rest /\
    l0 * 256 + l1 = 6 + N.of_nat (length rest) /\ tid = be16 [t0;t1] /\
    p = PWMulti fc u (be16 [a0;a1]) (be16 [v0;v1]).
Proof. exact wmulti_tcp_inv. Qed.
Print Assumptions C02_fields_write_multiple_tcp.
Theorem C02_fields_write_single_coil_rtu :
  forall d p, parse_wcoil_resp_rtu d = Ok p ->
  exists u f a0 a1 v0 v1 c0 c1,
    vis d = [u;f;a0;a1;v0;v1;c0;c1] /\ p = PWCoil u (be16 [a0;a1]) (be16 [v0;v1] =? 0xFF00).
Proof. exact wcoil_rtu_inv. Qed.
Print Assumptions C02_fields_write_single_coil_rtu.
Theorem C02_fields_write_single_register_rtu :
  forall d p, parse_wreg_resp_rtu d = Ok p ->
  exists u f a0 a1 v0 v1 c0 c1,
    vis d = [u;f;a0;a1;v0;v1;c0;c1] /\ p = PWReg u (be16 [a0;a1]) v0 v1.
Proof. exact wreg_rtu_inv. Qed.
Print Assumptions C02_fields_write_single_register_rtu.
Theorem C02_fields_write_multiple_rtu :
  forall fc d p, parse_wmulti_resp_rtu fc d = Ok p ->
  exists u f a0 a1 v0 v1 c0 c1,
    vis d = [u;f;a0;a1;v0;v1;c0;c1] /\ p = PWMulti fc u (be16 [a0;a1]) (be16 [v0;v1]).
Proof. exact wmulti_rtu_inv. Qed.
Print Assumptions C02_fields_write_multiple_rtu.
(* FC17, the library's layout: count byte = id length, then status, then additional data *)
Theorem C02_fields_server_id_tcp :
  forall d tid p, parse_srvid_resp_tcp d = Ok (tid, p) ->
  exists t0 t1 x2 x3 x4 x5 u f il id st add,
    vis d = t0::t1::x2::x3::x4::x5::u::f::il::id ++ st :: add /\ length id = N.to_nat il /\
    (1 <= length id)%nat /\ tid = be16 [t0;t1] /\ p = PSrvId u st id add.
Proof. exact srvid_tcp_inv. Qed.
Print Assumptions C02_fields_server_id_tcp.
Theorem C02_fields_server_id_rtu :
  forall d p, parse_srvid_resp_rtu d = Ok p ->
  exists u f il id st add tr,
    vis d = u::f::il::id ++ st :: add ++ tr /\ length id = N.to_nat il /\
    (1 <= length id)%nat /\ length tr = 2%nat /\ p = PSrvId u st id add.
Proof. exact srvid_rtu_inv. Qed.
Print Assumptions C02_fields_server_id_rtu.

(* ---------- why the converse needs a well-formed frame: what the parsers let through ---------- *)
(* without [frame_wf_tcp] the converse is false *)
Theorem C02_reencode_unrestricted_refuted : exists d tid p,
  bytes_ok (vis d) /\ parse_tcp_response d = Ok (tid, p) /\ resp_bytes_tcp tid p <> vis d.
Proof. exact reencode_unrestricted_refuted. Qed.
Print Assumptions C02_reencode_unrestricted_refuted.
(* protocol identifier 1 is accepted *)
Example C02_lax_protocol_id :
  parse_tcp_response (exact [0;1; 0;1; 0;5; 1; 3; 2; 0xAB;0xCD]) = Ok (1, PBytes 3 1 2 [0xAB;0xCD]).
Proof. vm_compute. reflexivity. Qed.
(* a wrong MBAP length field is accepted by the byte-counted parsers *)
Example C02_lax_length_field :
  parse_tcp_response (exact [0;1; 0;0; 0x12;0x34; 1; 3; 2; 0xAB;0xCD]) = Ok (1, PBytes 3 1 2 [0xAB;0xCD]).
Proof. vm_compute. reflexivity. Qed.
(* bytes after a fixed-layout PDU are accepted when the length field covers them *)
Example C02_lax_trailing_bytes :
  parse_tcp_response (exact [0;1; 0;0; 0;8; 1; 5; 0;1; 0xFF;0; 9;9]) = Ok (1, PWCoil 1 1 true).
Proof. vm_compute. reflexivity. Qed.
(* FC5: any value other than FF00 reads as OFF *)
Example C02_lax_coil_value :
  parse_tcp_response (exact [0;1; 0;0; 0;6; 1; 5; 0;1; 0x12;0x34]) = Ok (1, PWCoil 1 1 false).
Proof. vm_compute. reflexivity. Qed.
(* an odd register byte count is accepted *)
Example C02_lax_odd_register_count :
  parse_tcp_response (exact [0;1; 0;0; 0;6; 1; 3; 3; 1;2;3]) = Ok (1, PBytes 3 1 3 [1;2;3]).
Proof. vm_compute. reflexivity. Qed.
(* RTU without check: a wrong trailer is accepted, re-encoding carries the right one *)
Example C02_rtu_nocheck_bad_trailer :
  parse_rtu_response (exact [1; 3; 2; 0xAB;0xCD; 0;0]) = Ok (PBytes 3 1 2 [0xAB;0xCD]) /\
  resp_bytes_rtu (PBytes 3 1 2 [0xAB;0xCD]) = [1; 3; 2; 0xAB;0xCD; 0x06;0xE1] /\
  parse_rtu_response_crc (exact [1; 3; 2; 0xAB;0xCD; 0;0]) = Err EInvalidCRC.
Proof. repeat split; vm_compute; reflexivity. Qed.

(* ====================================================================================== *)
(* (b) exception frames                                                                    *)
(* ====================================================================================== *)
(* the 9-byte TCP exception frame of the specification -> typed error with tid, unit, originating
   function and code; [fc] is the originating function, the frame carries fc + 128 *)
Theorem C02_exception_tcp :
  forall tid u fc code s, tid < 65536 -> fc < 128 ->
  parse_tcp_response {| vis := exception_adu_tcp tid u fc code; spare := s |}
  = Err (ERespTCP (mk_exc tid u fc code)).
Proof. exact exception_tcp. Qed.
Print Assumptions C02_exception_tcp.
(* the 5-byte RTU exception frame *)
Theorem C02_exception_rtu :
  forall u fc code s, fc < 128 ->
  parse_rtu_response {| vis := exception_adu_rtu u fc code; spare := s |} = Err (ERespRTU u fc code).
Proof. exact exception_rtu. Qed.
Print Assumptions C02_exception_rtu.
Theorem C02_exception_rtu_crc :
  forall u fc code s, u < 256 -> fc < 128 -> code < 256 ->
  parse_rtu_response_crc {| vis := exception_adu_rtu u fc code; spare := s |} = Err (ERespRTU u fc code).
Proof. exact exception_rtu_crc. Qed.
Print Assumptions C02_exception_rtu_crc.

(* the library's own exception encoders produce those frames *)
Theorem C02_exception_encoder_tcp_is_spec :
  forall tid u fc code, fc < 128 -> exc_bytes_tcp (mk_exc tid u fc code) = exception_adu_tcp tid u fc code.
Proof. exact exc_bytes_tcp_spec. Qed.
Print Assumptions C02_exception_encoder_tcp_is_spec.
Theorem C02_exception_encoder_rtu_is_spec :
  forall u fc code, u < 256 -> fc < 128 -> code < 256 ->
  exc_bytes_rtu u fc code = exception_adu_rtu u fc code.
Proof. exact exc_bytes_rtu_spec. Qed.
Print Assumptions C02_exception_encoder_rtu_is_spec.

(* for EVERY slice whose function byte has the high bit set the dispatchers return an error
   (an exception error for the 9 / 5 byte shapes, another error otherwise): never a response,
   never a panic *)
Theorem C02_high_bit_never_response_tcp :
  forall d f, nth_error (vis d) 7 = Some f -> 128 <= f < 256 -> exists e, parse_tcp_response d = Err e.
Proof. exact high_bit_tcp. Qed.
Print Assumptions C02_high_bit_never_response_tcp.
Theorem C02_high_bit_never_response_rtu :
  forall d f, nth_error (vis d) 1 = Some f -> 128 <= f < 256 -> exists e, parse_rtu_response d = Err e.
Proof. exact high_bit_rtu. Qed.
Print Assumptions C02_high_bit_never_response_rtu.
Theorem C02_high_bit_never_response_rtu_crc :
  forall d f, nth_error (vis d) 1 = Some f -> 128 <= f < 256 -> exists e, parse_rtu_response_crc d = Err e.
Proof. exact high_bit_rtu_crc. Qed.
Print Assumptions C02_high_bit_never_response_rtu_crc.

(* the dispatchers on any slice, as a function of the function byte *)
Theorem C02_tcp_dispatch :
  forall d f, nth_error (vis d) 7 = Some f -> f < 256 ->
  parse_tcp_response d =
  if (slen d =? 9)%nat && (128 <=? f)
  then Err (ERespTCP (mk_exc (be16 (firstn 2 (vis d))) (nth 6 (vis d) 0) (f - 128) (nth 8 (vis d) 0)))
  else tcp_by_fc f d.
Proof. exact tcp_response_cases. Qed.
Print Assumptions C02_tcp_dispatch.
Theorem C02_rtu_dispatch :
  forall d f, (4 <= slen d)%nat -> nth_error (vis d) 1 = Some f -> f < 256 ->
  parse_rtu_response d =
  if (slen d =? 5)%nat && (128 <=? f)
  then Err (ERespRTU (nth 0 (vis d) 0) (f - 128) (nth 2 (vis d) 0))
  else rtu_by_fc f d.
Proof. exact rtu_response_cases. Qed.
Print Assumptions C02_rtu_dispatch.

(* ====================================================================================== *)
(* (c) frame length against the byte-count field                                           *)
(* ====================================================================================== *)
(* FC1,2,3,4,23: an accepted frame has length header + count (+ 2 for RTU) *)
Theorem C02_bytecount_len_tcp :
  forall fc d r, parse_bytes_resp_tcp fc d = Ok r ->
  exists bl, nth_error (vis d) 8 = Some bl /\ slen d = (9 + N.to_nat bl)%nat.
Proof. exact bytecount_len_tcp. Qed.
Print Assumptions C02_bytecount_len_tcp.
Theorem C02_bytecount_len_rtu :
  forall fc d p, parse_bytes_resp_rtu fc d = Ok p ->
  exists bl, nth_error (vis d) 2 = Some bl /\ slen d = (3 + N.to_nat bl + 2)%nat.
Proof. exact bytecount_len_rtu. Qed.
Print Assumptions C02_bytecount_len_rtu.

(* a frame whose length disagrees with its count field (or has none) is an error, not a panic *)
Theorem C02_bytecount_mismatch_rejected_tcp :
  forall fc d, (forall bl, nth_error (vis d) 8 = Some bl -> slen d <> (9 + N.to_nat bl)%nat) ->
  exists e, parse_bytes_resp_tcp fc d = Err e.
Proof. exact bytecount_mismatch_tcp. Qed.
Print Assumptions C02_bytecount_mismatch_rejected_tcp.
Theorem C02_bytecount_mismatch_rejected_rtu :
  forall fc d, (forall bl, nth_error (vis d) 2 = Some bl -> slen d <> (3 + N.to_nat bl + 2)%nat) ->
  exists e, parse_bytes_resp_rtu fc d = Err e.
Proof. exact bytecount_mismatch_rtu. Qed.
Print Assumptions C02_bytecount_mismatch_rejected_rtu.
(* the same through the dispatchers *)
Theorem C02_bytecount_mismatch_rejected_tcp_dispatch :
  forall d f, nth_error (vis d) 7 = Some f -> is_bytes_fc f = true ->
  (forall bl, nth_error (vis d) 8 = Some bl -> slen d <> (9 + N.to_nat bl)%nat) ->
  exists e, parse_tcp_response d = Err e.
Proof. exact bytecount_mismatch_tcp_dispatch. Qed.
Print Assumptions C02_bytecount_mismatch_rejected_tcp_dispatch.
Theorem C02_bytecount_mismatch_rejected_rtu_dispatch :
  forall d f, nth_error (vis d) 1 = Some f -> is_bytes_fc f = true ->
  (forall bl, nth_error (vis d) 2 = Some bl -> slen d <> (3 + N.to_nat bl + 2)%nat) ->
  exists e, parse_rtu_response d = Err e.
Proof. exact bytecount_mismatch_rtu_dispatch. Qed.
Print Assumptions C02_bytecount_mismatch_rejected_rtu_dispatch.
Theorem C02_bytecount_mismatch_rejected_rtu_crc_dispatch :
  forall d f, nth_error (vis d) 1 = Some f -> is_bytes_fc f = true ->
  (forall bl, nth_error (vis d) 2 = Some bl -> slen d <> (3 + N.to_nat bl + 2)%nat) ->
  exists e, parse_rtu_response_crc d = Err e.
Proof. exact bytecount_mismatch_rtu_crc_dispatch. Qed.
Print Assumptions C02_bytecount_mismatch_rejected_rtu_crc_dispatch.

(* FC5,6,15,16: TCP frames are checked against the MBAP length field, RTU frames are 8 bytes *)
Theorem C02_fixed_len_tcp :
  forall f d r, is_fixed_fc f = true -> tcp_by_fc f d = Ok r ->
  (12 <= slen d)%nat /\ N.of_nat (slen d) = 6 + be16 (firstn 2 (skipn 4 (vis d))).
Proof. exact fixed_len_tcp. Qed.
Print Assumptions C02_fixed_len_tcp.
Theorem C02_fixed_len_rtu :
  forall f d p, is_fixed_fc f = true -> rtu_by_fc f d = Ok p -> slen d = 8%nat.
Proof. exact fixed_len_rtu. Qed.
Print Assumptions C02_fixed_len_rtu.

(* ====================================================================================== *)
(* FC17 in the specification's layout (D14, known finding)                                 *)
(* ====================================================================================== *)
(* full statement (false): a response laid out as MAP 6.13 prescribes -- the count covers server
   id, run indicator and additional data -- decodes to those fields.  Witness: id "AB", run FF *)
Theorem C02_fc17_spec_layout_refuted : exists tid u id run add,
  tid < 65536 /\ u < 256 /\ bytes_ok id /\ run < 256 /\ bytes_ok add /\ (1 <= length id)%nat /\
  parse_tcp_response (exact (adu_tcp tid u (rpdu (SPSrvId u id run add)))) <> Ok (tid, PSrvId u run id add).
Proof. exact fc17_spec_layout_refuted. Qed.
Print Assumptions C02_fc17_spec_layout_refuted.
Example C02_fc17_spec_layout_witness :
  adu_tcp 1 1 (rpdu (SPSrvId 1 [65; 66] 255 [])) = [0;1; 0;0; 0;6; 1; 17; 3; 65;66; 255] /\
  parse_tcp_response (exact [0;1; 0;0; 0;6; 1; 17; 3; 65;66; 255]) = Err EPlain.
Proof. split; vm_compute; reflexivity. Qed.

(* in fact every such frame is rejected, whatever id, run indicator and additional data *)
Theorem C02_fc17_spec_layout_always_rejected_tcp :
  forall tid u id run add s,
  parse_tcp_response {| vis := adu_tcp tid u (rpdu (SPSrvId u id run add)); spare := s |} = Err EPlain.
Proof. exact fc17_spec_layout_rejected_tcp. Qed.
Print Assumptions C02_fc17_spec_layout_always_rejected_tcp.
Theorem C02_fc17_spec_layout_always_rejected_rtu :
  forall u id run add s,
  parse_rtu_response {| vis := adu_rtu u (rpdu (SPSrvId u id run add)); spare := s |} = Err EPlain.
Proof. exact fc17_spec_layout_rejected_rtu. Qed.
Print Assumptions C02_fc17_spec_layout_always_rejected_rtu.
Theorem C02_fc17_spec_layout_always_rejected_rtu_crc :
  forall u id run add s, exists e,
  parse_rtu_response_crc {| vis := adu_rtu u (rpdu (SPSrvId u id run add)); spare := s |} = Err e.
Proof. exact fc17_spec_layout_rejected_rtu_crc. Qed.
Print Assumptions C02_fc17_spec_layout_always_rejected_rtu_crc.

(* ====================================================================================== *)
(* non-vacuity                                                                             *)
(* ====================================================================================== *)
Example C02_wf_values :
  resp_wf (PBytes 1 17 3 [0xCD; 0x6B; 0x05]) = true /\ resp_wf (PBytes 3 255 2 [0xAB; 0xCD]) = true /\
  resp_wf (PBytes 23 1 4 [1; 2; 3; 4]) = true /\
  resp_wf (PWCoil 1 0xAC true) = true /\ resp_wf (PWReg 1 65535 0 3) = true /\
  resp_wf (PWMulti 15 1 0x13 10) = true /\ resp_wf (PWMulti 16 1 1 2) = true /\
  resp_wf (PSrvId 1 255 [65; 66] [9]) = true.
Proof. vm_compute. repeat split. Qed.
Example C02_not_wf_values :
  resp_wf (PBytes 3 1 3 [1; 2; 3]) = false /\ resp_wf (PBytes 1 1 0 []) = false /\
  resp_wf (PBytes 3 1 2 [1; 2; 3; 4]) = false /\ resp_wf (PSrvId 1 0 [] []) = false.
Proof. vm_compute. repeat split. Qed.
(* MAP 6.3 example response, and its frame *)
Example C02_roundtrip_example :
  resp_bytes_tcp 7 (PBytes 3 1 2 [0xAB; 0xCD]) = [0;7; 0;0; 0;5; 1; 3; 2; 0xAB;0xCD] /\
  parse_tcp_response (exact [0;7; 0;0; 0;5; 1; 3; 2; 0xAB;0xCD]) = Ok (7, PBytes 3 1 2 [0xAB; 0xCD]) /\
  frame_wf_tcp [0;7; 0;0; 0;5; 1; 3; 2; 0xAB;0xCD] = true.
Proof. repeat split; vm_compute; reflexivity. Qed.
Example C02_roundtrip_rtu_example :
  resp_bytes_rtu (PWCoil 1 0xAC true) = [1; 5; 0;0xAC; 0xFF;0; 0x4C;0x1B] /\
  parse_rtu_response_crc (exact [1; 5; 0;0xAC; 0xFF;0; 0x4C;0x1B]) = Ok (PWCoil 1 0xAC true) /\
  frame_wf_rtu [1; 5; 0;0xAC; 0xFF;0; 0x4C;0x1B] = true.
Proof. repeat split; vm_compute; reflexivity. Qed.
Example C02_exception_example :
  exception_adu_tcp 0x1234 1 3 2 = [0x12;0x34; 0;0; 0;3; 1; 0x83; 2] /\
  parse_tcp_response (exact [0x12;0x34; 0;0; 0;3; 1; 0x83; 2]) = Err (ERespTCP (mk_exc 0x1234 1 3 2)) /\
  parse_rtu_response_crc (exact (exception_adu_rtu 1 3 2)) = Err (ERespRTU 1 3 2).
Proof. repeat split; vm_compute; reflexivity. Qed.
(* high bit set, not exception shaped: an error of the other kind *)
Example C02_high_bit_other_error :
  parse_tcp_response (exact [0;1; 0;0; 0;4; 1; 0x83; 2; 0]) = Err EPlain.
Proof. vm_compute. reflexivity. Qed.
(* byte count 2, three payload bytes / one payload byte: rejected *)
Example C02_mismatch_example :
  parse_tcp_response (exact [0;1; 0;0; 0;6; 1; 3; 2; 1;2;3]) = Err EPlain /\
  parse_tcp_response (exact [0;1; 0;0; 0;4; 1; 3; 2; 1]) = Err EPlain /\
  parse_rtu_response (exact [1; 3; 2; 1;2;3; 0;0]) = Err EPlain.
Proof. repeat split; vm_compute; reflexivity. Qed.
Example C02_fc17_library_example :
  parse_tcp_response (exact [0;1; 0;0; 0;6; 1; 17; 2; 65;66; 255]) = Ok (1, PSrvId 1 255 [65; 66] []).
Proof. vm_compute. reflexivity. Qed.
