(* Gen_Packet.v -- the obligations that tie coq/PacketModel.v and coq/CrcModel.v to the Go source
   through the translator /verif/gotrans: gen/PacketGen.v is REGENERATED from /repo on every check
   and every definition in it must equal the hand-written model FOR ALL INPUTS (every slice: any
   visible bytes -- not even required to be below 256 --, any spare capacity, any length).

   If this file compiles, the theorems proved about the model (Properties/C01, C02, C03, C09, C10,
   C12, C18 ...) are theorems about the translated code, with no sampling gap; what is trusted
   instead is the translator (assumptions: header of gen/PacketGen.v; mapping tables:
   gotrans/tables.go).  A change of /repo/packet that changes what a function computes makes the
   corresponding theorem below fail to compile (a harmless rewrite may need the proof in
   proofs/GenEquiv.v to be adapted; the tactic there is insensitive to the order of reads, to the
   spelling of comparisons and to named intermediates).  Statements only; proofs in
   proofs/GenEquiv.v. *)
Require Import MB.GoSem MB.CrcModel MB.PacketModel MB.ClientModel MB.GenPrelude MB.gen.PacketGen.
Require Import MB.proofs.GenEquiv.
Open Scope N_scope.

(* ---------- stage 1a: constants ---------- *)

Theorem gen_constants_are_model :
  (* function codes: the numerals the model uses in req_fc / resp_fc / the dispatchers *)
  [c_FunctionReadCoils; c_FunctionReadDiscreteInputs; c_FunctionReadHoldingRegisters;
   c_FunctionReadInputRegisters; c_FunctionWriteSingleCoil; c_FunctionWriteSingleRegister;
   c_FunctionWriteMultipleCoils; c_FunctionWriteMultipleRegisters; c_FunctionReadServerID;
   c_FunctionReadWriteMultipleRegisters] = supported_fcs
  /\ v_supportedFunctionCodes = supported_fcs
  /\ [c_FunctionReadCoils; c_FunctionReadDiscreteInputs; c_FunctionReadHoldingRegisters;
      c_FunctionReadInputRegisters; c_FunctionWriteSingleCoil; c_FunctionWriteSingleRegister;
      c_FunctionWriteMultipleCoils; c_FunctionWriteMultipleRegisters; c_FunctionReadServerID;
      c_FunctionReadWriteMultipleRegisters]
     = [req_fc (RRead 1 0 0 0); req_fc (RRead 2 0 0 0); req_fc (RRead 3 0 0 0); req_fc (RRead 4 0 0 0);
        req_fc (RWCoil 0 0 false); req_fc (RWReg 0 0 0 0); req_fc (RWCoils 0 0 0 []);
        req_fc (RWRegs 0 0 0 []); req_fc (RSrvId 0); req_fc (RRW 0 0 0 0 0 [])]
  (* limits *)
  /\ c_MaxCoilsInReadResponse = max_read 1 /\ c_MaxCoilsInReadResponse = max_read 2
  /\ c_MaxRegistersInReadResponse = max_read 3 /\ c_MaxRegistersInReadResponse = max_read 4
  (* exception bit, header length, coil states *)
  /\ (forall f, add8 f c_functionCodeErrorBitmask = add8 f 128)
  /\ c_tcpMBAPHeaderLen = Z.of_nat (length (mbap_bytes 0 0))
  /\ c_writeCoilOn = 0xFF00 /\ c_writeCoilOff = 0
  (* exception codes used by the parsers (new_err_tcp 4, err_tcp .. 1 / 3) *)
  /\ (c_ErrIllegalFunction, c_ErrIllegalDataValue, c_ErrServerFailure) = (1, 3, 4)%Z
  (* packet length limits of the clients *)
  /\ c_client_tcpPacketMaxLen = Z.of_nat (max_len KTcp)
  /\ c_client_tcpPacketMaxLen = Z.of_nat (max_len KRtuNet)
  /\ c_client_rtuPacketMaxLen = Z.of_nat (max_len KSerial)
  /\ c_client_Client_do_maxBytes = Z.of_nat (buf_size KTcp)
  /\ c_client_Client_do_maxBytes = Z.of_nat (buf_size KRtuNet)
  /\ c_client_SerialClient_do_maxBytes = Z.of_nat (buf_size KSerial).
Proof. exact constants_eq. Qed.
Print Assumptions gen_constants_are_model.


(* ---------- stage 1b: the 20 ExpectedResponseLength methods (receiver = its flattened fields) ---------- *)

Theorem gen_ReadCoilsRequestTCP_ExpectedResponseLength_is_model : forall tid pid u s q,
  g_ReadCoilsRequestTCP_ExpectedResponseLength tid pid u s q = Z.of_N (expected_len_tcp (RRead 1 u s q)).
Proof. exact erl_ReadCoilsTCP. Qed.
Print Assumptions gen_ReadCoilsRequestTCP_ExpectedResponseLength_is_model.

Theorem gen_ReadDiscreteInputsRequestTCP_ExpectedResponseLength_is_model : forall tid pid u s q,
  g_ReadDiscreteInputsRequestTCP_ExpectedResponseLength tid pid u s q = Z.of_N (expected_len_tcp (RRead 2 u s q)).
Proof. exact erl_ReadDiscreteInputsTCP. Qed.
Print Assumptions gen_ReadDiscreteInputsRequestTCP_ExpectedResponseLength_is_model.

Theorem gen_ReadHoldingRegistersRequestTCP_ExpectedResponseLength_is_model : forall tid pid u s q,
  g_ReadHoldingRegistersRequestTCP_ExpectedResponseLength tid pid u s q = Z.of_N (expected_len_tcp (RRead 3 u s q)).
Proof. exact erl_ReadHoldingRegistersTCP. Qed.
Print Assumptions gen_ReadHoldingRegistersRequestTCP_ExpectedResponseLength_is_model.

Theorem gen_ReadInputRegistersRequestTCP_ExpectedResponseLength_is_model : forall tid pid u s q,
  g_ReadInputRegistersRequestTCP_ExpectedResponseLength tid pid u s q = Z.of_N (expected_len_tcp (RRead 4 u s q)).
Proof. exact erl_ReadInputRegistersTCP. Qed.
Print Assumptions gen_ReadInputRegistersRequestTCP_ExpectedResponseLength_is_model.

Theorem gen_WriteSingleCoilRequestTCP_ExpectedResponseLength_is_model : forall tid pid u a st,
  g_WriteSingleCoilRequestTCP_ExpectedResponseLength tid pid u a st = Z.of_N (expected_len_tcp (RWCoil u a st)).
Proof. exact erl_WriteSingleCoilTCP. Qed.
Print Assumptions gen_WriteSingleCoilRequestTCP_ExpectedResponseLength_is_model.

Theorem gen_WriteSingleRegisterRequestTCP_ExpectedResponseLength_is_model : forall tid pid u a dat d0 d1,
  g_WriteSingleRegisterRequestTCP_ExpectedResponseLength tid pid u a dat = Z.of_N (expected_len_tcp (RWReg u a d0 d1)).
Proof. exact erl_WriteSingleRegisterTCP. Qed.
Print Assumptions gen_WriteSingleRegisterRequestTCP_ExpectedResponseLength_is_model.

Theorem gen_WriteMultipleCoilsRequestTCP_ExpectedResponseLength_is_model : forall tid pid u s c dat,
  g_WriteMultipleCoilsRequestTCP_ExpectedResponseLength tid pid u s c dat = Z.of_N (expected_len_tcp (RWCoils u s c dat)).
Proof. exact erl_WriteMultipleCoilsTCP. Qed.
Print Assumptions gen_WriteMultipleCoilsRequestTCP_ExpectedResponseLength_is_model.

Theorem gen_WriteMultipleRegistersRequestTCP_ExpectedResponseLength_is_model : forall tid pid u s c dat,
  g_WriteMultipleRegistersRequestTCP_ExpectedResponseLength tid pid u s c dat = Z.of_N (expected_len_tcp (RWRegs u s c dat)).
Proof. exact erl_WriteMultipleRegistersTCP. Qed.
Print Assumptions gen_WriteMultipleRegistersRequestTCP_ExpectedResponseLength_is_model.

Theorem gen_ReadServerIDRequestTCP_ExpectedResponseLength_is_model : forall tid pid u,
  g_ReadServerIDRequestTCP_ExpectedResponseLength tid pid u = Z.of_N (expected_len_tcp (RSrvId u)).
Proof. exact erl_ReadServerIDTCP. Qed.
Print Assumptions gen_ReadServerIDRequestTCP_ExpectedResponseLength_is_model.

Theorem gen_ReadWriteMultipleRegistersRequestTCP_ExpectedResponseLength_is_model : forall tid pid u rs rq ws wq dat,
  g_ReadWriteMultipleRegistersRequestTCP_ExpectedResponseLength tid pid u rs rq ws wq dat = Z.of_N (expected_len_tcp (RRW u rs rq ws wq dat)).
Proof. exact erl_ReadWriteMultipleRegistersTCP. Qed.
Print Assumptions gen_ReadWriteMultipleRegistersRequestTCP_ExpectedResponseLength_is_model.

Theorem gen_ReadCoilsRequestRTU_ExpectedResponseLength_is_model : forall u s q,
  g_ReadCoilsRequestRTU_ExpectedResponseLength u s q = Z.of_N (expected_len_rtu (RRead 1 u s q)).
Proof. exact erl_ReadCoilsRTU. Qed.
Print Assumptions gen_ReadCoilsRequestRTU_ExpectedResponseLength_is_model.

Theorem gen_ReadDiscreteInputsRequestRTU_ExpectedResponseLength_is_model : forall u s q,
  g_ReadDiscreteInputsRequestRTU_ExpectedResponseLength u s q = Z.of_N (expected_len_rtu (RRead 2 u s q)).
Proof. exact erl_ReadDiscreteInputsRTU. Qed.
Print Assumptions gen_ReadDiscreteInputsRequestRTU_ExpectedResponseLength_is_model.

Theorem gen_ReadHoldingRegistersRequestRTU_ExpectedResponseLength_is_model : forall u s q,
  g_ReadHoldingRegistersRequestRTU_ExpectedResponseLength u s q = Z.of_N (expected_len_rtu (RRead 3 u s q)).
Proof. exact erl_ReadHoldingRegistersRTU. Qed.
Print Assumptions gen_ReadHoldingRegistersRequestRTU_ExpectedResponseLength_is_model.

Theorem gen_ReadInputRegistersRequestRTU_ExpectedResponseLength_is_model : forall u s q,
  g_ReadInputRegistersRequestRTU_ExpectedResponseLength u s q = Z.of_N (expected_len_rtu (RRead 4 u s q)).
Proof. exact erl_ReadInputRegistersRTU. Qed.
Print Assumptions gen_ReadInputRegistersRequestRTU_ExpectedResponseLength_is_model.

Theorem gen_WriteSingleCoilRequestRTU_ExpectedResponseLength_is_model : forall u a st,
  g_WriteSingleCoilRequestRTU_ExpectedResponseLength u a st = Z.of_N (expected_len_rtu (RWCoil u a st)).
Proof. exact erl_WriteSingleCoilRTU. Qed.
Print Assumptions gen_WriteSingleCoilRequestRTU_ExpectedResponseLength_is_model.

Theorem gen_WriteSingleRegisterRequestRTU_ExpectedResponseLength_is_model : forall u a dat d0 d1,
  g_WriteSingleRegisterRequestRTU_ExpectedResponseLength u a dat = Z.of_N (expected_len_rtu (RWReg u a d0 d1)).
Proof. exact erl_WriteSingleRegisterRTU. Qed.
Print Assumptions gen_WriteSingleRegisterRequestRTU_ExpectedResponseLength_is_model.

Theorem gen_WriteMultipleCoilsRequestRTU_ExpectedResponseLength_is_model : forall u s c dat,
  g_WriteMultipleCoilsRequestRTU_ExpectedResponseLength u s c dat = Z.of_N (expected_len_rtu (RWCoils u s c dat)).
Proof. exact erl_WriteMultipleCoilsRTU. Qed.
Print Assumptions gen_WriteMultipleCoilsRequestRTU_ExpectedResponseLength_is_model.

Theorem gen_WriteMultipleRegistersRequestRTU_ExpectedResponseLength_is_model : forall u s c dat,
  g_WriteMultipleRegistersRequestRTU_ExpectedResponseLength u s c dat = Z.of_N (expected_len_rtu (RWRegs u s c dat)).
Proof. exact erl_WriteMultipleRegistersRTU. Qed.
Print Assumptions gen_WriteMultipleRegistersRequestRTU_ExpectedResponseLength_is_model.

Theorem gen_ReadServerIDRequestRTU_ExpectedResponseLength_is_model : forall u,
  g_ReadServerIDRequestRTU_ExpectedResponseLength u = Z.of_N (expected_len_rtu (RSrvId u)).
Proof. exact erl_ReadServerIDRTU. Qed.
Print Assumptions gen_ReadServerIDRequestRTU_ExpectedResponseLength_is_model.

Theorem gen_ReadWriteMultipleRegistersRequestRTU_ExpectedResponseLength_is_model : forall u rs rq ws wq dat,
  g_ReadWriteMultipleRegistersRequestRTU_ExpectedResponseLength u rs rq ws wq dat = Z.of_N (expected_len_rtu (RRW u rs rq ws wq dat)).
Proof. exact erl_ReadWriteMultipleRegistersRTU. Qed.
Print Assumptions gen_ReadWriteMultipleRegistersRequestRTU_ExpectedResponseLength_is_model.


(* ---------- stage 1c: the 20 constructors: which arguments are refused ---------- *)

Theorem gen_NewReadCoilsRequestTCP_is_model : forall u s q,
  g_NewReadCoilsRequestTCP_ok u s q = accepts (new_read 1 u s q).
Proof. exact new_ReadCoilsTCP. Qed.
Print Assumptions gen_NewReadCoilsRequestTCP_is_model.

Theorem gen_NewReadDiscreteInputsRequestTCP_is_model : forall u s q,
  g_NewReadDiscreteInputsRequestTCP_ok u s q = accepts (new_read 2 u s q).
Proof. exact new_ReadDiscreteInputsTCP. Qed.
Print Assumptions gen_NewReadDiscreteInputsRequestTCP_is_model.

Theorem gen_NewReadHoldingRegistersRequestTCP_is_model : forall u s q,
  g_NewReadHoldingRegistersRequestTCP_ok u s q = accepts (new_read 3 u s q).
Proof. exact new_ReadHoldingRegistersTCP. Qed.
Print Assumptions gen_NewReadHoldingRegistersRequestTCP_is_model.

Theorem gen_NewReadInputRegistersRequestTCP_is_model : forall u s q,
  g_NewReadInputRegistersRequestTCP_ok u s q = accepts (new_read 4 u s q).
Proof. exact new_ReadInputRegistersTCP. Qed.
Print Assumptions gen_NewReadInputRegistersRequestTCP_is_model.

Theorem gen_NewWriteSingleCoilRequestTCP_is_model : forall u a st,
  g_NewWriteSingleCoilRequestTCP_ok u a st = accepts (new_wcoil u a st).
Proof. exact new_WriteSingleCoilTCP. Qed.
Print Assumptions gen_NewWriteSingleCoilRequestTCP_is_model.

Theorem gen_NewWriteSingleRegisterRequestTCP_is_model : forall u a dat,
  g_NewWriteSingleRegisterRequestTCP_ok u a dat = accepts (new_wreg u a dat).
Proof. exact new_WriteSingleRegisterTCP. Qed.
Print Assumptions gen_NewWriteSingleRegisterRequestTCP_is_model.

Theorem gen_NewWriteMultipleCoilsRequestTCP_is_model : forall u s coils,
  g_NewWriteMultipleCoilsRequestTCP_ok u s coils = accepts (new_wcoils u s coils).
Proof. exact new_WriteMultipleCoilsTCP. Qed.
Print Assumptions gen_NewWriteMultipleCoilsRequestTCP_is_model.

Theorem gen_NewWriteMultipleRegistersRequestTCP_is_model : forall u s dat,
  g_NewWriteMultipleRegistersRequestTCP_ok u s dat = accepts (new_wregs u s dat).
Proof. exact new_WriteMultipleRegistersTCP. Qed.
Print Assumptions gen_NewWriteMultipleRegistersRequestTCP_is_model.

Theorem gen_NewReadServerIDRequestTCP_is_model : forall u,
  g_NewReadServerIDRequestTCP_ok u = accepts (new_srvid u).
Proof. exact new_ReadServerIDTCP. Qed.
Print Assumptions gen_NewReadServerIDRequestTCP_is_model.

Theorem gen_NewReadWriteMultipleRegistersRequestTCP_is_model : forall u rs rq ws dat,
  g_NewReadWriteMultipleRegistersRequestTCP_ok u rs rq ws dat = accepts (new_rw u rs rq ws dat).
Proof. exact new_ReadWriteMultipleRegistersTCP. Qed.
Print Assumptions gen_NewReadWriteMultipleRegistersRequestTCP_is_model.

Theorem gen_NewReadCoilsRequestRTU_is_model : forall u s q,
  g_NewReadCoilsRequestRTU_ok u s q = accepts (new_read 1 u s q).
Proof. exact new_ReadCoilsRTU. Qed.
Print Assumptions gen_NewReadCoilsRequestRTU_is_model.

Theorem gen_NewReadDiscreteInputsRequestRTU_is_model : forall u s q,
  g_NewReadDiscreteInputsRequestRTU_ok u s q = accepts (new_read 2 u s q).
Proof. exact new_ReadDiscreteInputsRTU. Qed.
Print Assumptions gen_NewReadDiscreteInputsRequestRTU_is_model.

Theorem gen_NewReadHoldingRegistersRequestRTU_is_model : forall u s q,
  g_NewReadHoldingRegistersRequestRTU_ok u s q = accepts (new_read 3 u s q).
Proof. exact new_ReadHoldingRegistersRTU. Qed.
Print Assumptions gen_NewReadHoldingRegistersRequestRTU_is_model.

Theorem gen_NewReadInputRegistersRequestRTU_is_model : forall u s q,
  g_NewReadInputRegistersRequestRTU_ok u s q = accepts (new_read 4 u s q).
Proof. exact new_ReadInputRegistersRTU. Qed.
Print Assumptions gen_NewReadInputRegistersRequestRTU_is_model.

Theorem gen_NewWriteSingleCoilRequestRTU_is_model : forall u a st,
  g_NewWriteSingleCoilRequestRTU_ok u a st = accepts (new_wcoil u a st).
Proof. exact new_WriteSingleCoilRTU. Qed.
Print Assumptions gen_NewWriteSingleCoilRequestRTU_is_model.

Theorem gen_NewWriteSingleRegisterRequestRTU_is_model : forall u a dat,
  g_NewWriteSingleRegisterRequestRTU_ok u a dat = accepts (new_wreg u a dat).
Proof. exact new_WriteSingleRegisterRTU. Qed.
Print Assumptions gen_NewWriteSingleRegisterRequestRTU_is_model.

Theorem gen_NewWriteMultipleCoilsRequestRTU_is_model : forall u s coils,
  g_NewWriteMultipleCoilsRequestRTU_ok u s coils = accepts (new_wcoils u s coils).
Proof. exact new_WriteMultipleCoilsRTU. Qed.
Print Assumptions gen_NewWriteMultipleCoilsRequestRTU_is_model.

Theorem gen_NewWriteMultipleRegistersRequestRTU_is_model : forall u s dat,
  g_NewWriteMultipleRegistersRequestRTU_ok u s dat = accepts (new_wregs u s dat).
Proof. exact new_WriteMultipleRegistersRTU. Qed.
Print Assumptions gen_NewWriteMultipleRegistersRequestRTU_is_model.

Theorem gen_NewReadServerIDRequestRTU_is_model : forall u,
  g_NewReadServerIDRequestRTU_ok u = accepts (new_srvid u).
Proof. exact new_ReadServerIDRTU. Qed.
Print Assumptions gen_NewReadServerIDRequestRTU_is_model.

Theorem gen_NewReadWriteMultipleRegistersRequestRTU_is_model : forall u rs rq ws dat,
  g_NewReadWriteMultipleRegistersRequestRTU_ok u rs rq ws dat = accepts (new_rw u rs rq ws dat).
Proof. exact new_ReadWriteMultipleRegistersRTU. Qed.
Print Assumptions gen_NewReadWriteMultipleRegistersRequestRTU_is_model.


(* ---------- stage 2: CRC16, every byte list ---------- *)

Theorem gen_CRC16_is_model : forall l : list N, g_CRC16 l = crc16 l.
Proof. exact crc16_eq. Qed.
Print Assumptions gen_CRC16_is_model.


(* ---------- stage 3a: header, classifier, exception recognisers ---------- *)

Theorem gen_ParseMBAPHeader_is_model : forall d : slice, g_ParseMBAPHeader d = parse_mbap d.
Proof. exact mbap_eq. Qed.
Print Assumptions gen_ParseMBAPHeader_is_model.

Theorem gen_LooksLikeModbusTCP_is_model : forall (d : slice) (allow : bool),
  g_LooksLikeModbusTCP d allow = map_ok looks_like_z (looks_like d allow).
Proof. exact looks_like_eq. Qed.
Print Assumptions gen_LooksLikeModbusTCP_is_model.

Theorem gen_AsTCPErrorPacket_is_model : forall d : slice, g_AsTCPErrorPacket d = map_ok exc_err_tcp (as_tcp_error d).
Proof. exact as_tcp_error_eq. Qed.
Print Assumptions gen_AsTCPErrorPacket_is_model.

Theorem gen_AsRTUErrorPacket_is_model : forall d : slice, g_AsRTUErrorPacket d = map_ok exc_err_rtu (as_rtu_error d).
Proof. exact as_rtu_error_eq. Qed.
Print Assumptions gen_AsRTUErrorPacket_is_model.

Theorem gen_AsRTUErrorPacketWithCRC_is_model : forall d : slice, g_AsRTUErrorPacketWithCRC d = map_ok exc_err_rtu (as_rtu_error_crc d).
Proof. exact as_rtu_error_crc_eq. Qed.
Print Assumptions gen_AsRTUErrorPacketWithCRC_is_model.


(* ---------- stage 3b: the 20 request parsers ---------- *)

Theorem gen_ParseReadCoilsRequestTCP_is_model : forall d : slice, g_ParseReadCoilsRequestTCP d = parse_read_req_tcp 1 d.
Proof. exact ParseReadCoilsRequestTCP_eq. Qed.
Print Assumptions gen_ParseReadCoilsRequestTCP_is_model.

Theorem gen_ParseReadDiscreteInputsRequestTCP_is_model : forall d : slice, g_ParseReadDiscreteInputsRequestTCP d = parse_read_req_tcp 2 d.
Proof. exact ParseReadDiscreteInputsRequestTCP_eq. Qed.
Print Assumptions gen_ParseReadDiscreteInputsRequestTCP_is_model.

Theorem gen_ParseReadHoldingRegistersRequestTCP_is_model : forall d : slice, g_ParseReadHoldingRegistersRequestTCP d = parse_read_req_tcp 3 d.
Proof. exact ParseReadHoldingRegistersRequestTCP_eq. Qed.
Print Assumptions gen_ParseReadHoldingRegistersRequestTCP_is_model.

Theorem gen_ParseReadInputRegistersRequestTCP_is_model : forall d : slice, g_ParseReadInputRegistersRequestTCP d = parse_read_req_tcp 4 d.
Proof. exact ParseReadInputRegistersRequestTCP_eq. Qed.
Print Assumptions gen_ParseReadInputRegistersRequestTCP_is_model.

Theorem gen_ParseWriteSingleCoilRequestTCP_is_model : forall d : slice, g_ParseWriteSingleCoilRequestTCP d = parse_wcoil_req_tcp d.
Proof. exact ParseWriteSingleCoilRequestTCP_eq. Qed.
Print Assumptions gen_ParseWriteSingleCoilRequestTCP_is_model.

Theorem gen_ParseWriteSingleRegisterRequestTCP_is_model : forall d : slice, g_ParseWriteSingleRegisterRequestTCP d = parse_wreg_req_tcp d.
Proof. exact ParseWriteSingleRegisterRequestTCP_eq. Qed.
Print Assumptions gen_ParseWriteSingleRegisterRequestTCP_is_model.

Theorem gen_ParseWriteMultipleCoilsRequestTCP_is_model : forall d : slice, g_ParseWriteMultipleCoilsRequestTCP d = parse_wcoils_req_tcp d.
Proof. exact ParseWriteMultipleCoilsRequestTCP_eq. Qed.
Print Assumptions gen_ParseWriteMultipleCoilsRequestTCP_is_model.

Theorem gen_ParseWriteMultipleRegistersRequestTCP_is_model : forall d : slice, g_ParseWriteMultipleRegistersRequestTCP d = parse_wregs_req_tcp d.
Proof. exact ParseWriteMultipleRegistersRequestTCP_eq. Qed.
Print Assumptions gen_ParseWriteMultipleRegistersRequestTCP_is_model.

Theorem gen_ParseReadServerIDRequestTCP_is_model : forall d : slice, g_ParseReadServerIDRequestTCP d = parse_srvid_req_tcp d.
Proof. exact ParseReadServerIDRequestTCP_eq. Qed.
Print Assumptions gen_ParseReadServerIDRequestTCP_is_model.

Theorem gen_ParseReadWriteMultipleRegistersRequestTCP_is_model : forall d : slice, g_ParseReadWriteMultipleRegistersRequestTCP d = parse_rw_req_tcp d.
Proof. exact ParseReadWriteMultipleRegistersRequestTCP_eq. Qed.
Print Assumptions gen_ParseReadWriteMultipleRegistersRequestTCP_is_model.

Theorem gen_ParseReadCoilsRequestRTU_is_model : forall d : slice, g_ParseReadCoilsRequestRTU d = parse_read_req_rtu 1 d.
Proof. exact ParseReadCoilsRequestRTU_eq. Qed.
Print Assumptions gen_ParseReadCoilsRequestRTU_is_model.

Theorem gen_ParseReadDiscreteInputsRequestRTU_is_model : forall d : slice, g_ParseReadDiscreteInputsRequestRTU d = parse_read_req_rtu 2 d.
Proof. exact ParseReadDiscreteInputsRequestRTU_eq. Qed.
Print Assumptions gen_ParseReadDiscreteInputsRequestRTU_is_model.

Theorem gen_ParseReadHoldingRegistersRequestRTU_is_model : forall d : slice, g_ParseReadHoldingRegistersRequestRTU d = parse_read_req_rtu 3 d.
Proof. exact ParseReadHoldingRegistersRequestRTU_eq. Qed.
Print Assumptions gen_ParseReadHoldingRegistersRequestRTU_is_model.

Theorem gen_ParseReadInputRegistersRequestRTU_is_model : forall d : slice, g_ParseReadInputRegistersRequestRTU d = parse_read_req_rtu 4 d.
Proof. exact ParseReadInputRegistersRequestRTU_eq. Qed.
Print Assumptions gen_ParseReadInputRegistersRequestRTU_is_model.

Theorem gen_ParseWriteSingleCoilRequestRTU_is_model : forall d : slice, g_ParseWriteSingleCoilRequestRTU d = parse_wcoil_req_rtu d.
Proof. exact ParseWriteSingleCoilRequestRTU_eq. Qed.
Print Assumptions gen_ParseWriteSingleCoilRequestRTU_is_model.

Theorem gen_ParseWriteSingleRegisterRequestRTU_is_model : forall d : slice, g_ParseWriteSingleRegisterRequestRTU d = parse_wreg_req_rtu d.
Proof. exact ParseWriteSingleRegisterRequestRTU_eq. Qed.
Print Assumptions gen_ParseWriteSingleRegisterRequestRTU_is_model.

Theorem gen_ParseWriteMultipleCoilsRequestRTU_is_model : forall d : slice, g_ParseWriteMultipleCoilsRequestRTU d = parse_wcoils_req_rtu d.
Proof. exact ParseWriteMultipleCoilsRequestRTU_eq. Qed.
Print Assumptions gen_ParseWriteMultipleCoilsRequestRTU_is_model.

Theorem gen_ParseWriteMultipleRegistersRequestRTU_is_model : forall d : slice, g_ParseWriteMultipleRegistersRequestRTU d = parse_wregs_req_rtu d.
Proof. exact ParseWriteMultipleRegistersRequestRTU_eq. Qed.
Print Assumptions gen_ParseWriteMultipleRegistersRequestRTU_is_model.

Theorem gen_ParseReadServerIDRequestRTU_is_model : forall d : slice, g_ParseReadServerIDRequestRTU d = parse_srvid_req_rtu d.
Proof. exact ParseReadServerIDRequestRTU_eq. Qed.
Print Assumptions gen_ParseReadServerIDRequestRTU_is_model.

Theorem gen_ParseReadWriteMultipleRegistersRequestRTU_is_model : forall d : slice, g_ParseReadWriteMultipleRegistersRequestRTU d = parse_rw_req_rtu d.
Proof. exact ParseReadWriteMultipleRegistersRequestRTU_eq. Qed.
Print Assumptions gen_ParseReadWriteMultipleRegistersRequestRTU_is_model.


(* ---------- stage 3c: the 20 response parsers ---------- *)

Theorem gen_ParseReadCoilsResponseTCP_is_model : forall d : slice, g_ParseReadCoilsResponseTCP d = parse_bytes_resp_tcp 1 d.
Proof. exact ParseReadCoilsResponseTCP_eq. Qed.
Print Assumptions gen_ParseReadCoilsResponseTCP_is_model.

Theorem gen_ParseReadDiscreteInputsResponseTCP_is_model : forall d : slice, g_ParseReadDiscreteInputsResponseTCP d = parse_bytes_resp_tcp 2 d.
Proof. exact ParseReadDiscreteInputsResponseTCP_eq. Qed.
Print Assumptions gen_ParseReadDiscreteInputsResponseTCP_is_model.

Theorem gen_ParseReadHoldingRegistersResponseTCP_is_model : forall d : slice, g_ParseReadHoldingRegistersResponseTCP d = parse_bytes_resp_tcp 3 d.
Proof. exact ParseReadHoldingRegistersResponseTCP_eq. Qed.
Print Assumptions gen_ParseReadHoldingRegistersResponseTCP_is_model.

Theorem gen_ParseReadInputRegistersResponseTCP_is_model : forall d : slice, g_ParseReadInputRegistersResponseTCP d = parse_bytes_resp_tcp 4 d.
Proof. exact ParseReadInputRegistersResponseTCP_eq. Qed.
Print Assumptions gen_ParseReadInputRegistersResponseTCP_is_model.

Theorem gen_ParseReadWriteMultipleRegistersResponseTCP_is_model : forall d : slice, g_ParseReadWriteMultipleRegistersResponseTCP d = parse_bytes_resp_tcp 23 d.
Proof. exact ParseReadWriteMultipleRegistersResponseTCP_eq. Qed.
Print Assumptions gen_ParseReadWriteMultipleRegistersResponseTCP_is_model.

Theorem gen_ParseWriteSingleCoilResponseTCP_is_model : forall d : slice, g_ParseWriteSingleCoilResponseTCP d = parse_wcoil_resp_tcp d.
Proof. exact ParseWriteSingleCoilResponseTCP_eq. Qed.
Print Assumptions gen_ParseWriteSingleCoilResponseTCP_is_model.

Theorem gen_ParseWriteSingleRegisterResponseTCP_is_model : forall d : slice, g_ParseWriteSingleRegisterResponseTCP d = parse_wreg_resp_tcp d.
Proof. exact ParseWriteSingleRegisterResponseTCP_eq. Qed.
Print Assumptions gen_ParseWriteSingleRegisterResponseTCP_is_model.

Theorem gen_ParseWriteMultipleCoilsResponseTCP_is_model : forall d : slice, g_ParseWriteMultipleCoilsResponseTCP d = parse_wmulti_resp_tcp 15 d.
Proof. exact ParseWriteMultipleCoilsResponseTCP_eq. Qed.
Print Assumptions gen_ParseWriteMultipleCoilsResponseTCP_is_model.

Theorem gen_ParseWriteMultipleRegistersResponseTCP_is_model : forall d : slice, g_ParseWriteMultipleRegistersResponseTCP d = parse_wmulti_resp_tcp 16 d.
Proof. exact ParseWriteMultipleRegistersResponseTCP_eq. Qed.
Print Assumptions gen_ParseWriteMultipleRegistersResponseTCP_is_model.

Theorem gen_ParseReadServerIDResponseTCP_is_model : forall d : slice, g_ParseReadServerIDResponseTCP d = parse_srvid_resp_tcp d.
Proof. exact ParseReadServerIDResponseTCP_eq. Qed.
Print Assumptions gen_ParseReadServerIDResponseTCP_is_model.

Theorem gen_ParseReadCoilsResponseRTU_is_model : forall d : slice, g_ParseReadCoilsResponseRTU d = parse_bytes_resp_rtu 1 d.
Proof. exact ParseReadCoilsResponseRTU_eq. Qed.
Print Assumptions gen_ParseReadCoilsResponseRTU_is_model.

Theorem gen_ParseReadDiscreteInputsResponseRTU_is_model : forall d : slice, g_ParseReadDiscreteInputsResponseRTU d = parse_bytes_resp_rtu 2 d.
Proof. exact ParseReadDiscreteInputsResponseRTU_eq. Qed.
Print Assumptions gen_ParseReadDiscreteInputsResponseRTU_is_model.

Theorem gen_ParseReadHoldingRegistersResponseRTU_is_model : forall d : slice, g_ParseReadHoldingRegistersResponseRTU d = parse_bytes_resp_rtu 3 d.
Proof. exact ParseReadHoldingRegistersResponseRTU_eq. Qed.
Print Assumptions gen_ParseReadHoldingRegistersResponseRTU_is_model.

Theorem gen_ParseReadInputRegistersResponseRTU_is_model : forall d : slice, g_ParseReadInputRegistersResponseRTU d = parse_bytes_resp_rtu 4 d.
Proof. exact ParseReadInputRegistersResponseRTU_eq. Qed.
Print Assumptions gen_ParseReadInputRegistersResponseRTU_is_model.

Theorem gen_ParseReadWriteMultipleRegistersResponseRTU_is_model : forall d : slice, g_ParseReadWriteMultipleRegistersResponseRTU d = parse_bytes_resp_rtu 23 d.
Proof. exact ParseReadWriteMultipleRegistersResponseRTU_eq. Qed.
Print Assumptions gen_ParseReadWriteMultipleRegistersResponseRTU_is_model.

Theorem gen_ParseWriteSingleCoilResponseRTU_is_model : forall d : slice, g_ParseWriteSingleCoilResponseRTU d = parse_wcoil_resp_rtu d.
Proof. exact ParseWriteSingleCoilResponseRTU_eq. Qed.
Print Assumptions gen_ParseWriteSingleCoilResponseRTU_is_model.

Theorem gen_ParseWriteSingleRegisterResponseRTU_is_model : forall d : slice, g_ParseWriteSingleRegisterResponseRTU d = parse_wreg_resp_rtu d.
Proof. exact ParseWriteSingleRegisterResponseRTU_eq. Qed.
Print Assumptions gen_ParseWriteSingleRegisterResponseRTU_is_model.

Theorem gen_ParseWriteMultipleCoilsResponseRTU_is_model : forall d : slice, g_ParseWriteMultipleCoilsResponseRTU d = parse_wmulti_resp_rtu 15 d.
Proof. exact ParseWriteMultipleCoilsResponseRTU_eq. Qed.
Print Assumptions gen_ParseWriteMultipleCoilsResponseRTU_is_model.

Theorem gen_ParseWriteMultipleRegistersResponseRTU_is_model : forall d : slice, g_ParseWriteMultipleRegistersResponseRTU d = parse_wmulti_resp_rtu 16 d.
Proof. exact ParseWriteMultipleRegistersResponseRTU_eq. Qed.
Print Assumptions gen_ParseWriteMultipleRegistersResponseRTU_is_model.

Theorem gen_ParseReadServerIDResponseRTU_is_model : forall d : slice, g_ParseReadServerIDResponseRTU d = parse_srvid_resp_rtu d.
Proof. exact ParseReadServerIDResponseRTU_eq. Qed.
Print Assumptions gen_ParseReadServerIDResponseRTU_is_model.


(* ---------- stage 3d: the six dispatchers ---------- *)

Theorem gen_ParseTCPRequest_is_model : forall d : slice, g_ParseTCPRequest d = parse_tcp_request d.
Proof. exact ParseTCPRequest_eq. Qed.
Print Assumptions gen_ParseTCPRequest_is_model.

Theorem gen_ParseRTURequest_is_model : forall d : slice, g_ParseRTURequest d = parse_rtu_request d.
Proof. exact ParseRTURequest_eq. Qed.
Print Assumptions gen_ParseRTURequest_is_model.

Theorem gen_ParseRTURequestWithCRC_is_model : forall d : slice, g_ParseRTURequestWithCRC d = parse_rtu_request_crc d.
Proof. exact ParseRTURequestWithCRC_eq. Qed.
Print Assumptions gen_ParseRTURequestWithCRC_is_model.

Theorem gen_ParseTCPResponse_is_model : forall d : slice, g_ParseTCPResponse d = parse_tcp_response d.
Proof. exact ParseTCPResponse_eq. Qed.
Print Assumptions gen_ParseTCPResponse_is_model.

Theorem gen_ParseRTUResponse_is_model : forall d : slice, g_ParseRTUResponse d = parse_rtu_response d.
Proof. exact ParseRTUResponse_eq. Qed.
Print Assumptions gen_ParseRTUResponse_is_model.

Theorem gen_ParseRTUResponseWithCRC_is_model : forall d : slice, g_ParseRTUResponseWithCRC d = parse_rtu_response_crc d.
Proof. exact ParseRTUResponseWithCRC_eq. Qed.
Print Assumptions gen_ParseRTUResponseWithCRC_is_model.
