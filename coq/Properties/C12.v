(* C12 -- over RTU a bad-CRC reply is never surfaced as data or as a device exception.

   For EVERY script (any bytes, any segmentation, any faults): if the RTU network client or the
   serial client returns a response, or an error that is a device exception (recognised in the
   read loop or by the parser), then the bytes the transport had handed to it at that moment --
   [reads] of the trace: the concatenation of what the Read calls returned -- end in the CRC of
   the bytes before them.  RTU has no other frame delimiter: the reply is what the client had
   read when it answered. *)
Require Import MB.GoSem MB.CrcModel MB.PacketModel MB.ClientModel.
Require Import MB.proofs.ClientProofs MB.proofs.ClientC07 MB.proofs.ClientC07Inst MB.proofs.ClientInv.
Open Scope N_scope.

Theorem C12_crc_enforced :
  forall cfg sc r,
  is_tcp (c_kind cfg) = false ->
  let x := client_do cfg sc r in
  (exists tid p, fst x = OResp tid p) \/
  (exists u f c, fst x = OFail (CExc (ERespRTU u f c))) \/
  (exists u f c, fst x = OFail (CParse (ERespRTU u f c))) ->
  crc_consistent (reads (snd x)).
Proof. exact client_crc. Qed.
Print Assumptions C12_crc_enforced.

(* [crc_consistent l]: l = body ++ t, |t| = 2, t read low byte first is crc16 body.  For byte
   strings that is the frame layout of the serial-line specification (crc16 is the Modbus CRC: C03) *)
Theorem C12_crc_consistent_is_trailer :
  forall l, bytes_ok l -> crc_consistent l -> exists body, l = with_crc body.
Proof. exact crc_consistent_with_crc. Qed.
Print Assumptions C12_crc_consistent_is_trailer.

(* the corollary in the property's words: whatever was delivered, if it does not end in its CRC the
   caller gets neither data nor a device exception *)
Theorem C12_corrupted_reply_is_an_error :
  forall cfg sc r,
  is_tcp (c_kind cfg) = false ->
  ~ crc_consistent (reads (snd (client_do cfg sc r))) ->
  (forall tid p, fst (client_do cfg sc r) <> OResp tid p) /\
  (forall u f c, fst (client_do cfg sc r) <> OFail (CExc (ERespRTU u f c))) /\
  (forall u f c, fst (client_do cfg sc r) <> OFail (CParse (ERespRTU u f c))).
Proof.
  intros cfg sc r Hk Hn.
  repeat split; intros; intro E; apply Hn; apply (client_crc cfg sc r Hk); cbn zeta; eauto 8.
Qed.
Print Assumptions C12_corrupted_reply_is_an_error.

(* ---------- non-vacuity ---------- *)
(* a correct reply: returned, and the consumed bytes end in their CRC *)
Example C12_valid_reply :
  let q := rq true (RWRegs 9 100 2 [0; 1; 0; 2]) in
  let x := client_do (cfg_of KSerial) (plain (script_of (two (reply_bytes q (PWMulti 16 9 100 2)) 3))) (Some q) in
  fst x = OResp 0 (PWMulti 16 9 100 2) /\ reads (snd x) = with_crc [9; 16; 0; 100; 0; 2].
Proof. cbn zeta. split; vm_compute; reflexivity. Qed.
(* a valid exception frame is a device exception ... *)
Example C12_valid_exception :
  let q := rq true (RRead 3 1 0 10) in
  fst (client_do (cfg_of KRtuNet) (plain (script_of [(0%nat, true, with_crc [1; 0x83; 2])])) (Some q))
  = OFail (CExc (ERespRTU 1 3 2)).
Proof. vm_compute. reflexivity. Qed.
(* ... the same five bytes with a wrong trailer are not (the defect D8 of the tree as given,
   repaired by AsRTUErrorPacketWithCRC): the client goes on reading and ends with an error that is
   not a device exception *)
Example C12_short_exception_with_bad_crc :
  let q := rq true (RRead 3 1 0 10) in
  fst (client_do (cfg_of KRtuNet) (plain [deliver false [1; 0x83; 2; 0xDE; 0xAD]; quiet; timer_step false (RTimeout [])]) (Some q))
  = OFail CTimeout /\
  fst (client_do (cfg_of KRtuNet) (plain [deliver false [1; 0x83; 2; 0xDE; 0xAD];
                                           {| s_ctx := false; s_deadline := false; s_timer := false; s_pick := false; s_rd := REof [] |}]) (Some q))
  = OFail (CParse EInvalidCRC).
Proof. cbn zeta. split; vm_compute; reflexivity. Qed.
(* one flipped bit in the data of a reply *)
Example C12_flipped_bit :
  let q := rq true (RRead 3 1 0 1) in
  fst (client_do (cfg_of KSerial) (plain (script_of [(0%nat, false, [1; 3; 2; 0x12; 0x35; 0xB5; 0x33])])) (Some q))
  = OFail (CParse EInvalidCRC) /\
  with_crc [1; 3; 2; 0x12; 0x34] = [1; 3; 2; 0x12; 0x34; 0xB5; 0x33].
Proof. cbn zeta. split; vm_compute; reflexivity. Qed.

(* a VALID reply of the maximum size (FC3, 125 registers: 255 bytes) that arrives together with
   trailing bytes is not returned: within the client's limit the parser sees the inconsistent
   trailer, beyond it the result is ErrPacketTooLong (serial 256, network 260) *)
Example C12_extended_maximum_reply :
  let q := rq true (RRead 3 1 0 125) in
  let reply := reply_bytes q (PBytes 3 1 250 (repeat 7 250)) in
  length reply = 255%nat /\
  fst (client_do (cfg_of KSerial) (plain [deliver false reply]) (Some q)) = OResp 0 (PBytes 3 1 250 (repeat 7 250)) /\
  fst (client_do (cfg_of KSerial) (plain [deliver false (reply ++ [9])]) (Some q)) = OFail (CParse EInvalidCRC) /\
  fst (client_do (cfg_of KSerial) (plain [deliver true (reply ++ [9; 9; 9])]) (Some q)) = OFail CTooLong /\
  fst (client_do (cfg_of KRtuNet) (plain [deliver false (reply ++ [9; 9; 9])]) (Some q)) = OFail (CParse EInvalidCRC) /\
  fst (client_do (cfg_of KRtuNet) (plain [deliver false (reply ++ repeat 9 6)]) (Some q)) = OFail CTooLong.
Proof. cbn zeta. repeat split; vm_compute; reflexivity. Qed.
