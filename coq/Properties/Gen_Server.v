(* Gen_Server.v -- package server and the clients have no pure helper function for gotrans to
   translate (ReceiveRead / handle: mutable bytes.Buffer, user callback through an interface,
   recovered panics; Client.do / SerialClient.do: completeness test interleaved with conn.Read,
   select and timers).  Every packet-level computation on their path IS regenerated from the
   source (classifier, request dispatcher, exception replies: Gen_Packet.v, Gen_Packet2.v; expected
   reply lengths and packet length limits of the clients: Gen_Packet.v).

   This file closes the loop for the hand model coq/ServerModel.v: its [handle], [drain] and
   [receive_read] equal [handle_gen] / [drain_gen] (GenPrelude5.v), which are the same
   orchestration written over the GENERATED classifier, dispatcher and reply encoders -- for every
   handler, every buffer and chunk of bytes, every fuel.  What remains tied to the code by the
   differential check only is the orchestration itself: the loop, the buffer operations, the
   dispatch on the handler's outcome, "type assertion or panic".
   Statements only; proofs in proofs/GenEquiv5.v. *)
Require Import MB.GoSem MB.CrcModel MB.PacketModel MB.ServerModel.
Require Import MB.GenPrelude MB.GenPrelude2 MB.GenPrelude5 MB.gen.PacketGen MB.gen.PacketGen2.
Require Import MB.proofs.GenEquiv5.
Open Scope N_scope.

(* err.( *packet.ErrorParseTCP).Bytes(): the model's err_wire_tcp is the assertion followed by the
   generated ErrorParseTCP.Bytes *)
Theorem gen_server_error_reply_is_model : forall e x, as_error_parse_tcp e = Some x -> x_tid x < 65536 ->
  g_ErrorParseTCP_Bytes (x_tid x) (x_unit x) (x_fc x) (x_code x) = Ok (exc_bytes_tcp x)
  /\ err_wire_tcp e = Some (exc_bytes_tcp x).
Proof. exact err_wire_generated. Qed.
Print Assumptions gen_server_error_reply_is_model.

Theorem gen_server_error_assert_is_model : forall e, err_wire_tcp e = option_map exc_bytes_tcp (as_error_parse_tcp e).
Proof. exact err_wire_is_assert. Qed.
Print Assumptions gen_server_error_assert_is_model.

(* the reply handle builds when the user's handler returns an error *)
Theorem gen_server_handler_error_reply_is_model : forall t u f code, be16 t < 65536 ->
  g_ErrorResponseTCP_Bytes (be16 t) u f code = Ok (exc_bytes_tcp (mk_exc (be16 t) u f code)).
Proof. exact handler_error_reply. Qed.
Print Assumptions gen_server_handler_error_reply_is_model.

(* the frame classifier and the request dispatcher as the server calls them *)
Theorem gen_server_classifier_is_model : forall b,
  g_LooksLikeModbusTCP (exact b) false = map_ok looks_like_z (looks_like (exact b) false).
Proof. exact drain_classifier. Qed.
Print Assumptions gen_server_classifier_is_model.

Theorem gen_server_dispatch_is_model : forall frame, g_ParseTCPRequest frame = parse_tcp_request frame.
Proof. exact handle_parse. Qed.
Print Assumptions gen_server_dispatch_is_model.

(* ModbusTCPAssembler.handle *)
Theorem gen_server_handle_uses_generated : forall handler frame, byte_frame frame ->
  handle handler frame = handle_gen handler frame.
Proof. exact handle_uses_generated. Qed.
Print Assumptions gen_server_handle_uses_generated.

(* the loop of ModbusTCPAssembler.ReceiveRead *)
Theorem gen_server_drain_uses_generated : forall handler fuel b response, bytes_ok b ->
  drain handler fuel b response = drain_gen handler fuel b response.
Proof. exact drain_uses_generated. Qed.
Print Assumptions gen_server_drain_uses_generated.

Theorem gen_server_receive_read_uses_generated : forall handler buf chunk, bytes_ok buf -> bytes_ok chunk ->
  receive_read handler buf chunk = drain_gen handler (S (length (buf ++ chunk))) (buf ++ chunk) [].
Proof. exact receive_read_uses_generated. Qed.
Print Assumptions gen_server_receive_read_uses_generated.
