(* C03 (stretch) -- algebraic characterisation of packet.CRC16.

   Vocabulary (coq/CrcAlgebra.v): a polynomial over GF(2) is an [N] whose bit i is the coefficient of
   x^i; [padd] = xor, [pshift a k] = a x^k, [pmul] = schoolbook product, [pdeg] = log2,
   [is_rem a g r] = "a = g q + r for some q and deg r < deg g", [pmod a g] = the remainder computed
   by Horner evaluation with one reduction per coefficient.  [G16] = x^16 + x^15 + x^2 + 1 (0x18005).
   [rev16] = bit reversal of a 16-bit word (the code keeps the register reflected: 0xA001 =
   rev16 0x8005).  [msg_poly m] = the bytes of m as transmitted (LSB of each byte first), first
   transmitted bit = highest-degree coefficient.  [crc_from init m] = the register of packet.CRC16
   started from [init] ([crc16 = crc_from 0xFFFF], [crc0 = crc_from 0]).  [xorl] = bytewise xor of
   two byte strings, [zeros n] = n zero bytes, [flip_at i d f] = f with byte i xor-ed with d,
   [frame_check f] = the receiver's test "last two bytes = CRC (low byte first) of the rest". *)
Require Import MB.GoSem MB.CrcModel MB.CrcSpec MB.proofs.CrcProofs MB.CrcAlgebra MB.proofs.CrcAlgebraProofs.
Open Scope N_scope.

(* ---------------------------------------------------------------------------------------------- *)
(* 1. Linearity over GF(2) (no hypothesis on the bytes)                                            *)
(* ---------------------------------------------------------------------------------------------- *)
(* the register is a linear function of the pair (preset, message) *)
Theorem C03_register_linear : forall a b s t, length a = length b ->
  crc_from (N.lxor s t) (xorl a b) = N.lxor (crc_from s a) (crc_from t b).
Proof. exact crc_from_lxor. Qed.
Print Assumptions C03_register_linear.

(* zero preset: linear *)
Theorem C03_crc0_linear : forall a b, length a = length b ->
  crc0 (xorl a b) = N.lxor (crc0 a) (crc0 b).
Proof. exact crc0_linear. Qed.
Print Assumptions C03_crc0_linear.

(* packet.CRC16 (preset 0xFFFF): affine, the constant is the CRC of the all-zero message *)
Theorem C03_crc16_affine : forall a b, length a = length b ->
  crc16 (xorl a b) = N.lxor (N.lxor (crc16 a) (crc16 b)) (crc16 (zeros (length a))).
Proof. exact crc16_affine. Qed.
Print Assumptions C03_crc16_affine.

Theorem C03_crc16_is_crc0_plus_preset : forall m,
  crc16 m = N.lxor (crc0 m) (crc16 (zeros (length m))).
Proof. exact crc16_crc0. Qed.
Print Assumptions C03_crc16_is_crc0_plus_preset.

(* an error pattern e added to a message moves the CRC by the zero-preset CRC of e alone *)
Theorem C03_crc16_of_corrupted : forall a e, length a = length e ->
  crc16 (xorl a e) = N.lxor (crc16 a) (crc0 e).
Proof. exact crc16_error. Qed.
Print Assumptions C03_crc16_of_corrupted.

(* ---------------------------------------------------------------------------------------------- *)
(* 2. Polynomial remainder                                                                         *)
(* ---------------------------------------------------------------------------------------------- *)
(* the algebra is what it claims to be: product is commutative, associative, distributes over the
   sum, degrees add (no zero divisors); remainders are unique and [pmod] computes them *)
Theorem C03_poly_ring :
  (forall a b, pmul a b = pmul b a) /\
  (forall a b c, pmul (pmul a b) c = pmul a (pmul b c)) /\
  (forall a b c, pmul a (padd b c) = padd (pmul a b) (pmul a c)) /\
  (forall a, pmul 1 a = a) /\
  (forall a k, pshift a k = pmul a (2 ^ k)) /\
  (forall a b, a <> 0 -> b <> 0 -> pmul a b <> 0 /\ pdeg (pmul a b) = pdeg a + pdeg b).
Proof.
  exact (conj pmul_comm (conj pmul_assoc (conj pmul_lxor_r (conj pmul_1_l (conj pshift_is_pmul pmul_deg))))).
Qed.
Print Assumptions C03_poly_ring.

Theorem C03_remainder_unique : forall a g r r', g <> 0 -> is_rem a g r -> is_rem a g r' -> r = r'.
Proof. exact is_rem_unique. Qed.
Print Assumptions C03_remainder_unique.

Theorem C03_pmod_is_remainder : forall a g, g <> 0 -> is_rem a g (pmod a g).
Proof. exact pmod_is_rem. Qed.
Print Assumptions C03_pmod_is_remainder.

(* the message polynomial is the transmitted bit stream, first bit = highest degree:
   reversed, the stream is its coefficient vector (LSB-first [bv] of CrcSpec) *)
Theorem C03_msg_poly_coefficients : forall m, msg_poly m = N_of_bv (rev (msg_bits m)).
Proof. exact msg_poly_coefficients. Qed.
Print Assumptions C03_msg_poly_coefficients.

(* THE CHARACTERISATION, for an arbitrary 16-bit preset and every byte string:
     reflect (register) = ( reflect(preset) x^(8 |m|)  +  M(x) x^16 )  mod  G(x)               *)
Theorem C03_register_is_remainder : forall init m, init < 65536 -> bytes_ok m ->
  is_rem (padd (pshift (rev16 init) (N.of_nat (8 * length m))) (pshift (msg_poly m) 16))
         G16 (rev16 (crc_from init m)).
Proof. exact crc_from_is_rem. Qed.
Print Assumptions C03_register_is_remainder.

(* zero preset, no final xor: the plain remainder of M(x) x^16 *)
Theorem C03_crc0_is_remainder : forall m, bytes_ok m ->
  rev16 (crc0 m) = pmod (pshift (msg_poly m) 16) G16.
Proof. exact crc0_is_pmod. Qed.
Print Assumptions C03_crc0_is_remainder.

(* packet.CRC16: the preset 0xFFFF = x^15 + ... + 1 is carried in front of the message *)
Theorem C03_crc16_is_remainder : forall m, bytes_ok m ->
  crc16 m = rev16 (pmod (padd (pshift 0xFFFF (N.of_nat (8 * length m))) (pshift (msg_poly m) 16)) G16).
Proof. exact crc16_is_rev_pmod. Qed.
Print Assumptions C03_crc16_is_remainder.

(* equivalently a sum of two remainders: CRC-with-zero-preset of the message + the preset's part *)
Theorem C03_crc16_is_sum_of_remainders : forall m, bytes_ok m ->
  rev16 (crc16 m) = padd (pmod (pshift (msg_poly m) 16) G16)
                         (pmod (pshift 0xFFFF (N.of_nat (8 * length m))) G16).
Proof. exact crc16_is_sum_of_pmods. Qed.
Print Assumptions C03_crc16_is_sum_of_remainders.

(* the part contributed by the preset alone (the constant of the affine map of section 1) *)
Theorem C03_preset_contribution : forall n,
  rev16 (crc16 (zeros n)) = pmod (pshift 0xFFFF (N.of_nat (8 * n))) G16.
Proof. exact crc16_preset_part. Qed.
Print Assumptions C03_preset_contribution.

(* ---------------------------------------------------------------------------------------------- *)
(* 3. Residue                                                                                      *)
(* ---------------------------------------------------------------------------------------------- *)
(* a message followed by its trailer has CRC 0 (no final xor, so the residue is 0) *)
Theorem C03_residue_zero : forall m, bytes_ok m -> crc16 (m ++ crc_trailer m) = 0.
Proof. exact crc16_residue. Qed.
Print Assumptions C03_residue_zero.

(* and only its own trailer does that: comparing the trailer = running the CRC over the whole frame *)
Theorem C03_residue_zero_iff : forall front lo hi, bytes_ok front -> lo < 256 -> hi < 256 ->
  (crc16 (front ++ [lo; hi]) = 0 <-> [lo; hi] = crc_trailer front).
Proof. exact crc16_check_iff. Qed.
Print Assumptions C03_residue_zero_iff.

Theorem C03_frame_check_is_residue : forall f, bytes_ok f ->
  (frame_check f = true <-> (2 <= length f)%nat /\ crc16 f = 0).
Proof. exact frame_check_iff. Qed.
Print Assumptions C03_frame_check_is_residue.

(* ---------------------------------------------------------------------------------------------- *)
(* 4. Error detection                                                                              *)
(* ---------------------------------------------------------------------------------------------- *)
(* a frame with error pattern e is accepted iff the zero-preset CRC of e is 0 *)
Theorem C03_corrupted_frame_accepted_iff : forall m e,
  bytes_ok m -> bytes_ok e -> length e = (length m + 2)%nat ->
  (frame_check (xorl (with_crc m) e) = true <-> crc0 e = 0).
Proof. exact corrupted_frame_check. Qed.
Print Assumptions C03_corrupted_frame_accepted_iff.

(* every single-bit flip, in the body or in the trailer, at every frame length, is detected *)
Theorem C03_single_bit_error_detected : forall m i j,
  bytes_ok m -> (i < length m + 2)%nat -> j < 8 ->
  crc16 (flip_at i (2 ^ j) (with_crc m)) <> 0 /\ frame_check (flip_at i (2 ^ j) (with_crc m)) = false.
Proof. exact single_bit_error_detected. Qed.
Print Assumptions C03_single_bit_error_detected.

(* more generally every change confined to one byte *)
Theorem C03_single_byte_error_detected : forall m i d,
  bytes_ok m -> (i < length m + 2)%nat -> 0 < d < 256 ->
  crc16 (flip_at i d (with_crc m)) <> 0 /\ frame_check (flip_at i d (with_crc m)) = false.
Proof. exact single_byte_error_detected. Qed.
Print Assumptions C03_single_byte_error_detected.

(* and every burst of length <= 16 on the wire, wherever it starts (it may straddle three bytes) *)
Theorem C03_burst16_error_detected : forall m e,
  bytes_ok m -> bytes_ok e -> length e = (length m + 2)%nat -> burst16 e ->
  crc16 (xorl (with_crc m) e) <> 0 /\ frame_check (xorl (with_crc m) e) = false.
Proof. exact burst16_error_detected. Qed.
Print Assumptions C03_burst16_error_detected.

(* ---------------------------------------------------------------------------------------------- *)
(* Sanity / non-vacuity                                                                            *)
(* ---------------------------------------------------------------------------------------------- *)
Example C03A_generator_reflected : rev16 0x8005 = 0xA001 /\ G16 = padd (pshift 1 16) 0x8005.
Proof. vm_compute. split; reflexivity. Qed.
Example C03A_pmul : pmul 3 3 = 5 /\ pmod 5 3 = 0 /\ pmod 0x18005 G16 = 0 /\ pmod 0x10000 G16 = 0x8005.
Proof. vm_compute. repeat split; reflexivity. Qed.    (* (x+1)^2 = x^2+1;  x^16 = x^15+x^2+1 mod G *)
(* byte 0x01 puts its 1 first on the wire (x^15 of 16 bits), byte 0x80 last (x^0) *)
Example C03A_msg_poly : msg_poly [0x01; 0x80] = 0x8001.
Proof. vm_compute. reflexivity. Qed.
(* the check value of CRC-16/MODBUS through the polynomial formula *)
Example C03A_check_value :
  crc16 [49;50;51;52;53;54;55;56;57] = 0x4B37 /\
  rev16 (pmod (padd (pshift 0xFFFF 72) (pshift (msg_poly [49;50;51;52;53;54;55;56;57]) 16)) G16) = 0x4B37.
Proof. vm_compute. split; reflexivity. Qed.
(* the frame of the CRC16 doc comment in packet/packet.go: 01 04 02 FF FF B8 80 *)
Example C03A_doc_frame :
  with_crc [0x01; 0x04; 0x02; 0xFF; 0xFF] = [0x01; 0x04; 0x02; 0xFF; 0xFF; 0xB8; 0x80] /\
  crc16 [0x01; 0x04; 0x02; 0xFF; 0xFF; 0xB8; 0x80] = 0 /\
  frame_check [0x01; 0x04; 0x02; 0xFF; 0xFF; 0xB8; 0x80] = true /\
  frame_check (flip_at 3 0x10 [0x01; 0x04; 0x02; 0xFF; 0xFF; 0xB8; 0x80]) = false.
Proof. vm_compute. repeat split; reflexivity. Qed.
(* linearity on concrete strings *)
Example C03A_affine_instance :
  crc16 (xorl [1;2;3] [0x10;0x20;0x30]) = N.lxor (N.lxor (crc16 [1;2;3]) (crc16 [0x10;0x20;0x30])) (crc16 [0;0;0]).
Proof. vm_compute. reflexivity. Qed.
(* a burst hypothesis is satisfiable by a pattern that straddles a byte boundary ... *)
Example C03A_burst_nonvacuous : burst16 [0; 0x80; 0x01; 0].
Proof. exists 15%nat, [true; true], 15%nat. split; [vm_compute; reflexivity|split; [cbn; lia|left; reflexivity]]. Qed.
(* ... and 16 is sharp: the generator itself as a 17-bit burst (03 40 01 on the wire) is invisible *)
Example C03A_burst17_undetected :
  crc0 [0x03; 0x40; 0x01] = 0 /\
  frame_check (xorl [0x01; 0x04; 0x02; 0xFF; 0xFF; 0xB8; 0x80] [0; 0; 0x03; 0x40; 0x01; 0; 0]) = true.
Proof. vm_compute. split; reflexivity. Qed.
