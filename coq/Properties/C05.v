(* C05 -- fields extracted via the request builder equal the device's memory contents.

   The world: [mem server unit address] is the 16 bit content of a register of the device
   (server, unit) -- an arbitrary function.  A conforming device ([BuilderSpec.device_reply]) reads
   unit, function, start and quantity OFF THE REQUEST BYTES and answers a read of [s, s+q) with the
   2q bytes of its memory (MAP 6.3/6.4), or -- [Some k] -- with the first k registers only.
   [exchange memw tid trunc cont r] (proofs/BuilderC05.v) is the composition for one request r of
   the builder: Bytes() -> device -> ParseTCPResponse / ParseRTUResponseWithCRC -> ExtractFields
   (cont = continueOnExtractionErrors).  [direct_value memw f] (BuilderSpec.v) decodes the memory
   directly at the field's address with the field's type and byte order (RegistersSpec.decode).

   Proved by composing C06 (containment, the encoded packet), C02 (reply round trip, RespProofs)
   and C04/C13 (typed access = specification, payload untouched; RegistersProofs). *)
From Coq Require Import Permutation.
Require Import MB.GoSem MB.Spec MB.PacketModel MB.RegistersSpec MB.RegistersModel MB.BuilderSpec MB.BuilderModel.
Require Import MB.proofs.BuilderProofs MB.proofs.BuilderC05.
Open Scope N_scope.

(* For every list of fields (Go-typed; those the target asks for lie inside the address space),
   every memory, FC3 / FC4, TCP / RTU (t = 4..7): if the builder produces requests then
   - every register field of the input is a member of exactly one request (multiset equality);
   - complete replies: for every request and both extraction modes, ExtractFields succeeds
     without error flag and returns one entry per member, in order, attached to the member's own
     definition, whose value is the direct decoding of the memory of the member's own
     (server, unit) at the member's address;
   - a reply truncated to k registers, 1 <= k < quantity: lenient mode returns one entry per member,
     a value (the direct decoding) exactly for the members inside the first k registers and an
     error for the others, and reports ErrorFieldExtractHadError iff some member is outside;
     strict mode returns the same entries iff all members are inside and fails as a whole
     otherwise. *)
Theorem C05_extracted_fields_equal_memory :
  forall fields t (mem : list N -> N -> N -> N),
  4 <= t < 8 -> Forall field_typed fields -> (forall srv u a, mem srv u a < 65536) ->
  Forall (fun f => wanted t f = true -> f_end f <= 65536) fields ->
  forall reqs, split fields t = Ok reqs ->
  Permutation (concat (map br_fields reqs)) (filter (wanted t) fields) /\
  Forall (fun r =>
    forall tid, tid < 65536 ->
    let memw := mem (br_server r) (br_unit r) in
    exists q, br_req r = RRead (target_fc t) (br_unit r) (br_start r) q /\
      (forall cont, exists vals,
         exchange memw tid None cont r = Ok (false, vals) /\
         Forall2 (fun f fv => fst fv = f /\
                              exists v, direct_value (mem (f_server f) (f_unit f)) f = Some v /\ snd fv = FVal v)
                 (br_fields r) vals) /\
      (forall k, 1 <= k < q -> exists vals,
         Forall2 (fun f fv => fst fv = f /\
                              if reachable (br_start r) k f
                              then exists v, direct_value (mem (f_server f) (f_unit f)) f = Some v /\ snd fv = FVal v
                              else snd fv = FErr)
                 (br_fields r) vals /\
         exchange memw tid (Some k) true r = Ok (negb (forallb (reachable (br_start r) k) (br_fields r)), vals) /\
         (if forallb (reachable (br_start r) k) (br_fields r)
          then exchange memw tid (Some k) false r = Ok (false, vals)
          else exists e, exchange memw tid (Some k) false r = Err e))) reqs.
Proof. exact split_extract_c05. Qed.
Print Assumptions C05_extracted_fields_equal_memory.

(* the step the composition rests on: what the addressed registers of a (possibly truncated) reply
   are -- the registers of the memory at that address, or nothing when the access leaves the k
   registers the device sent *)
Theorem C05_reply_window_is_memory :
  forall mem s k addr n,
  window (payload_of mem s k) s addr n =
  if (s <=? addr) && (addr + n <=? s + k) then Some (mem_regs mem addr n) else None.
Proof. exact window_of_memory. Qed.
Print Assumptions C05_reply_window_is_memory.

(* ---------- non-vacuity and witnesses ---------- *)
Definition fld (name : N) (srv : list N) (u a ty bit len bo : N) : field :=
  {| f_name := name; f_server := srv; f_unit := u; f_addr := a; f_type := ty; f_bit := bit; f_high := false;
     f_len := len; f_order := bo |}.
(* two devices with different contents *)
Definition mem0 (srv : list N) (u a : N) : N := (a * 257 + 4096 * u + N.of_nat (length srv)) mod 65536.
Definition ex_fields : list field :=
  [fld 0 [97] 1 0 5 0 0 0;          (* uint16 at address 0 *)
   fld 1 [97] 1 65535 5 0 0 0;      (* uint16 at address 65535 *)
   fld 2 [97; 98] 2 10 7 0 0 0;     (* uint32, other device *)
   fld 3 [97; 98] 2 12 1 10 0 0;    (* bit 10 *)
   fld 4 [97; 98] 2 11 13 0 3 1;    (* 3 byte string *)
   fld 5 [97] 1 7 14 0 0 0].        (* a coil: not for FC3 *)
Definition show (x : xres) : option (bool * list (N * option aval)) :=
  match x with
  | Ok (had, vals) => Some (had, map (fun fv => (f_name (fst fv), match snd fv with FVal v => Some v | FErr => None end)) vals)
  | _ => None
  end.
Definition run (t : N) (trunc : option N) (cont : bool) : option (list (N * option (bool * list (N * option aval)))) :=
  match split ex_fields t with
  | Ok reqs => Some (map (fun r => (br_start r, show (exchange (mem0 (br_server r) (br_unit r)) 513 trunc cont r))) reqs)
  | _ => None
  end.

Example C05_hypotheses_satisfiable :
  Forall field_typed ex_fields /\ (forall srv u a, mem0 srv u a < 65536) /\
  Forall (fun f => wanted 4 f = true -> f_end f <= 65536) ex_fields.
Proof.
  split; [repeat constructor; cbn; lia|]. split; [intros; unfold mem0; lia|].
  repeat constructor; cbn; intros; lia.
Qed.

(* addresses 0 and 65535 travel in separate requests and both come back with their own contents
   (the old batching wrap-around D13 and the old window-end wrap-around D10 broke this); the
   values of the second device are decoded from the second device's memory *)
Example C05_complete_replies_tcp :
  run 4 None false =
  Some [(0, Some (false, [(0, Some (VInt 4097))]));
        (65535, Some (false, [(1, Some (VInt 3840))]));
        (10, Some (false, [(2, Some (VInt 705440525)); (4, Some (VBytes [13; 43; 14])); (3, Some (VBool true))]))].
Proof. vm_compute. reflexivity. Qed.
Example C05_direct_values :
  direct_value (mem0 [97] 1) (fld 0 [97] 1 0 5 0 0 0) = Some (VInt 4097) /\
  direct_value (mem0 [97] 1) (fld 1 [97] 1 65535 5 0 0 0) = Some (VInt 3840) /\
  direct_value (mem0 [97; 98] 2) (fld 2 [97; 98] 2 10 7 0 0 0) = Some (VInt 705440525) /\
  direct_value (mem0 [97; 98] 2) (fld 4 [97; 98] 2 11 13 0 3 1) = Some (VBytes [13; 43; 14]) /\
  direct_value (mem0 [97; 98] 2) (fld 3 [97; 98] 2 12 1 10 0 0) = Some (VBool true).
Proof. vm_compute. repeat split. Qed.
Example C05_complete_replies_rtu_lenient : run 7 None true = run 4 None false.
Proof. vm_compute. reflexivity. Qed.

(* the third request spans [10,13); truncated to 2 registers the uint32 at 10 is still served, the
   string at 11..12 and the bit at 12 are not: lenient marks exactly those, strict fails as a whole *)
Example C05_truncated_lenient :
  nth 2 (match run 5 (Some 2) true with Some l => l | None => [] end) (0, None) =
  (10, Some (true, [(2, Some (VInt 705440525)); (4, None); (3, None)])).
Proof. vm_compute. reflexivity. Qed.
Example C05_truncated_strict :
  nth 2 (match run 5 (Some 2) false with Some l => l | None => [] end) (0, None) = (10, None).
Proof. vm_compute. reflexivity. Qed.
