(* C10 -- no parser panics or reads past its input, for any byte string.

   For every parsing entry point [p] of the packet model and EVERY slice [d] (any visible bytes of
   any length, any content of the spare capacity between len and cap; the bytes are not even
   required to be < 256):

       p d <> Panic                 -- no index / re-slice out of range
       p d = p (trim d)             -- the result is the one obtained with the spare capacity cut
                                       off, i.e. it depends on data[:len] only

   [safe p] (proofs/PacketSafety.v) abbreviates exactly  forall d, p d <> Panic /\ p d = p (trim d).

   "When it returns an error the value is nil" is structural in the model: [res] is
   [Ok v | Err e | Panic], a model parser cannot return a value together with an error.  That the
   Go functions really return nil / a nil pointer with every error is compared on every case by the
   correspondence streams (packetstreams.go projects the returned value and the error separately).
   The one function whose Go signature returns both, LooksLikeModbusTCP (expectedLen, err), is
   modelled with an [Ok (n, option error)] pair. *)
Require Import MB.GoSem MB.CrcModel MB.PacketModel MB.proofs.PacketSafety.
Open Scope N_scope.

(* the ten request parsers, TCP framing.  [parse_read_req_tcp fc] with fc = 1,2,3,4 are
   Parse{ReadCoils,ReadDiscreteInputs,ReadHoldingRegisters,ReadInputRegisters}RequestTCP; the
   theorem holds for every value of that argument *)
Theorem C10_request_parsers_tcp : forall fc,
  safe (parse_read_req_tcp fc) /\ safe parse_wcoil_req_tcp /\ safe parse_wreg_req_tcp /\
  safe parse_wcoils_req_tcp /\ safe parse_wregs_req_tcp /\ safe parse_srvid_req_tcp /\
  safe parse_rw_req_tcp.
Proof. exact request_parsers_tcp_safe. Qed.
Print Assumptions C10_request_parsers_tcp.

(* the ten request parsers, RTU framing *)
Theorem C10_request_parsers_rtu : forall fc,
  safe (parse_read_req_rtu fc) /\ safe parse_wcoil_req_rtu /\ safe parse_wreg_req_rtu /\
  safe parse_wcoils_req_rtu /\ safe parse_wregs_req_rtu /\ safe parse_srvid_req_rtu /\
  safe parse_rw_req_rtu.
Proof. exact request_parsers_rtu_safe. Qed.
Print Assumptions C10_request_parsers_rtu.

(* ParseTCPRequest, ParseRTURequest, ParseRTURequestWithCRC *)
Theorem C10_request_dispatchers :
  safe parse_tcp_request /\ safe parse_rtu_request /\ safe parse_rtu_request_crc.
Proof. exact request_dispatchers_safe. Qed.
Print Assumptions C10_request_dispatchers.

(* the ten response parsers, TCP framing.  [parse_bytes_resp_tcp fc] with fc = 1,2,3,4,23 and
   [parse_wmulti_resp_tcp fc] with fc = 15,16 are the Go copies *)
Theorem C10_response_parsers_tcp : forall fc,
  safe (parse_bytes_resp_tcp fc) /\ safe parse_wcoil_resp_tcp /\ safe parse_wreg_resp_tcp /\
  safe (parse_wmulti_resp_tcp fc) /\ safe parse_srvid_resp_tcp.
Proof. exact response_parsers_tcp_safe. Qed.
Print Assumptions C10_response_parsers_tcp.

(* the ten response parsers, RTU framing *)
Theorem C10_response_parsers_rtu : forall fc,
  safe (parse_bytes_resp_rtu fc) /\ safe parse_wcoil_resp_rtu /\ safe parse_wreg_resp_rtu /\
  safe (parse_wmulti_resp_rtu fc) /\ safe parse_srvid_resp_rtu.
Proof. exact response_parsers_rtu_safe. Qed.
Print Assumptions C10_response_parsers_rtu.

(* ParseTCPResponse, ParseRTUResponse, ParseRTUResponseWithCRC *)
Theorem C10_response_dispatchers :
  safe parse_tcp_response /\ safe parse_rtu_response /\ safe parse_rtu_response_crc.
Proof. exact response_dispatchers_safe. Qed.
Print Assumptions C10_response_dispatchers.

(* ParseMBAPHeader and LooksLikeModbusTCP (with both values of allowUnSupportedFunctionCodes) *)
Theorem C10_header_and_classifier :
  safe parse_mbap /\ (forall allow, safe (fun d => looks_like d allow)).
Proof. exact header_and_classifier_safe. Qed.
Print Assumptions C10_header_and_classifier.

(* AsTCPErrorPacket, AsRTUErrorPacket, AsRTUErrorPacketWithCRC *)
Theorem C10_exception_recognisers :
  safe as_tcp_error /\ safe as_rtu_error /\ safe as_rtu_error_crc.
Proof. exact exception_recognisers_safe. Qed.
Print Assumptions C10_exception_recognisers.

(* ---------- summary: one statement over the enumeration of all entry points ---------- *)
(* [entry_point] enumerates the 35 model entry points (7 of them with a function-code argument,
   the classifier with its flag); [run_ep e d] runs entry point [e] on [d] and injects the value
   into the disjoint union [pout] of the eight result types (a constructor, so nothing is lost:
   [map_ok_inj]). *)
Theorem C10_all_entry_points : forall (e : entry_point) (d : slice),
  run_ep e d <> Panic /\ run_ep e d = run_ep e (trim d).
Proof. exact all_entry_points_safe. Qed.
Print Assumptions C10_all_entry_points.

(* the same, in the form "two slices with the same visible bytes give the same result" *)
Theorem C10_spare_capacity_is_never_read : forall (e : entry_point) (v s1 s2 : list N),
  run_ep e {| vis := v; spare := s1 |} = run_ep e {| vis := v; spare := s2 |}.
Proof. exact all_entry_points_spare_indep. Qed.
Print Assumptions C10_spare_capacity_is_never_read.

(* every exported Go parsing function (51 names, cross-checked against `grep '^func \(Parse\|As\|
   LooksLike\)' /repo/packet/*.go`) is an instance of an enumerated entry point *)
Theorem C10_all_go_entry_points : Forall (fun ne => safe (run_ep (snd ne))) go_entry_points.
Proof. exact go_entry_points_safe. Qed.
Print Assumptions C10_all_go_entry_points.
Example C10_go_entry_point_count : length go_entry_points = 52%nat.   (* 50 + WithCRC recogniser + the classifier counted per flag *)
Proof. reflexivity. Qed.

(* ---------- examples (non-vacuity; the inputs that broke the pinned tree) ---------- *)
(* a header-consistent but truncated FC3 request (length field 2, so the frame is 8 bytes): an
   illegal-data-value error, whatever lies in the spare capacity.  On the pinned tree this input
   panicked without spare bytes and read the quantity out of them when present (D2b). *)
Example C10_truncated_fc3_exact :
  parse_tcp_request (exact [0;1;0;0;0;2;1;3]) = Err (err_tcp 1 1 3 3).
Proof. vm_compute. reflexivity. Qed.
Example C10_truncated_fc3_junk1 :
  parse_tcp_request {| vis := [0;1;0;0;0;2;1;3]; spare := [0;0;0;1] |} = Err (err_tcp 1 1 3 3).
Proof. vm_compute. reflexivity. Qed.
Example C10_truncated_fc3_junk2 :
  parse_read_req_tcp 3 {| vis := [0;1;0;0;0;2;1;3]; spare := [0;0;0;2] |} = Err (err_tcp 1 1 3 3).
Proof. vm_compute. reflexivity. Qed.

(* a well-formed frame is parsed to the same packet with and without junk behind it *)
Example C10_fc3_ok_junk :
  parse_tcp_request {| vis := [0;1;0;0;0;6;1;3;0;16;0;2]; spare := [255;255;255] |} = Ok (1, RRead 3 1 16 2)
  /\ parse_tcp_request (exact [0;1;0;0;0;6;1;3;0;16;0;2]) = Ok (1, RRead 3 1 16 2).
Proof. split; vm_compute; reflexivity. Qed.

(* an FC16 RTU request whose byte count (4) promises more than the frame holds, with the missing
   bytes available in the spare capacity: refused, not completed from the stale bytes *)
Example C10_fc16_rtu_overlong_count :
  parse_rtu_request {| vis := [1;16;0;0;0;2;4;0;1]; spare := [0;2;0xAA;0xBB] |} = Err (EParseRTU 1 16 3)
  /\ parse_rtu_request (exact [1;16;0;0;0;2;4;0;1]) = Err (EParseRTU 1 16 3).
Proof. split; vm_compute; reflexivity. Qed.

(* an FC3 TCP response whose byte-count byte (4) exceeds the bytes present *)
Example C10_fc3_response_short :
  parse_tcp_response {| vis := [0;1;0;0;0;5;1;3;4;0;1]; spare := [0;2] |} = Err EPlain
  /\ parse_tcp_response (exact [0;1;0;0;0;5;1;3;4;0;1]) = Err EPlain.
Proof. split; vm_compute; reflexivity. Qed.

(* the empty slice with a large spare capacity *)
Example C10_empty :
  parse_tcp_request {| vis := []; spare := [0;1;0;0;0;6;1;3;0;16;0;2] |} = Err ETooShortTCP
  /\ looks_like {| vis := []; spare := [0;1;0;0;0;6;1;3;0;16;0;2] |} false = Ok (0, Some ETooShortTCP)
  /\ as_tcp_error {| vis := [0;1;0;0;0;3;1;131]; spare := [2] |} = Ok None.
Proof. repeat split; vm_compute; reflexivity. Qed.
