(* C18 -- the TCP stream classifier (LooksLikeModbusTCP, [looks_like]) agrees with the request
   encoders ([new_*] constructors + Bytes(), [req_bytes_tcp]) and with the request dispatcher
   (ParseTCPRequest, [parse_tcp_request]).

   Every statement quantifies over all headers / frames by proof (case analysis on the classifier's
   tests), never by enumeration: every transaction id, unit id, length field, function code,
   protocol id, payload, and every spare capacity of the slice. *)
Require Import MB.GoSem MB.CrcModel MB.PacketModel MB.proofs.PacketSafety MB.proofs.ClassifierProofs.
Require MB.Spec.
Open Scope N_scope.

(* ---------- the frames the library can encode ---------- *)
(* [req_wf r] (ClassifierProofs.v) is the boolean well-formedness of a request value: function
   code 1..4 and quantity 1..2000/125 for the reads; for FC15 a count 1..1968 and
   len(data) = ceil(count/8); for FC16 a count 1..124 and len(data) = 2*count; for FC23 read
   quantity 1..124, write quantity 1..124 and len(data) = 2*write quantity.  Every value returned
   by a constructor satisfies it: *)
Theorem C18_constructors_produce_wf : forall r,
  (forall fc u s q, read_fc fc = true -> new_read fc u s q = Ok r -> req_wf r = true) /\
  (forall u a st, new_wcoil u a st = Ok r -> req_wf r = true) /\
  (forall u a data, new_wreg u a data = Ok r -> req_wf r = true) /\
  (forall u s coils, new_wcoils u s coils = Ok r -> req_wf r = true) /\
  (forall u s data, new_wregs u s data = Ok r -> req_wf r = true) /\
  (forall u, new_srvid u = Ok r -> req_wf r = true) /\
  (forall u rs rq ws data, new_rw u rs rq ws data = Ok r -> req_wf r = true).
Proof. exact constructors_wf. Qed.
Print Assumptions C18_constructors_produce_wf.

(* ---------- (1) the classifier on every prefix of every encodable frame ---------- *)
(* stated for every transaction id (in particular every uint16) and both values of the
   allowUnSupportedFunctionCodes flag (the server passes false) *)
Theorem C18_prefix_shorter_than_8_is_too_short : forall tid r k allow, (k < 8)%nat ->
  looks_like (exact (firstn k (req_bytes_tcp tid r))) allow = Ok (0, Some ETooShortTCP).
Proof. exact looks_like_prefix_short. Qed.
Print Assumptions C18_prefix_shorter_than_8_is_too_short.

Theorem C18_prefix_from_8_is_accepted_with_true_length : forall tid r k allow, req_wf r = true ->
  (8 <= k <= length (req_bytes_tcp tid r))%nat ->
  looks_like (exact (firstn k (req_bytes_tcp tid r))) allow
  = Ok (N.of_nat (length (req_bytes_tcp tid r)), None).
Proof. exact looks_like_prefix_ok. Qed.
Print Assumptions C18_prefix_from_8_is_accepted_with_true_length.

(* the true length is 6 + the MBAP length field of the frame *)
Theorem C18_frame_length_is_6_plus_length_field : forall tid r, req_wf r = true ->
  N.of_nat (length (req_bytes_tcp tid r)) = 6 + hdr_len (req_bytes_tcp tid r).
Proof. exact frame_length_is_header_length. Qed.
Print Assumptions C18_frame_length_is_6_plus_length_field.

(* what a server's read buffer holds: the frame, then the beginning of whatever came next, in a
   buffer with arbitrary stale capacity -- classified with the length of the first frame *)
Theorem C18_frame_followed_by_more : forall tid r more sp allow, req_wf r = true ->
  looks_like {| vis := req_bytes_tcp tid r ++ more; spare := sp |} allow
  = Ok (N.of_nat (length (req_bytes_tcp tid r)), None).
Proof. exact looks_like_frame_then_more. Qed.
Print Assumptions C18_frame_followed_by_more.

(* ---------- (2) accepted with expected length n  =>  the first n bytes parse, or are refused
   with an error that encodes to a valid exception reply ---------- *)
(* what "accepted" implies about the first n bytes [f]: they are all there, at least 8, n is 6 +
   their length field, protocol id 0, a supported function code, and the MBAP header parses *)
Theorem C18_accepted_frame_facts : forall d n,
  looks_like d false = Ok (n, None) -> n <= N.of_nat (slen d) ->
  let f := firstn (N.to_nat n) (vis d) in
  N.of_nat (length f) = n /\ 8 <= n /\ n = 6 + hdr_len f /\ hdr_proto f = 0 /\
  is_supported (hdr_fc f) = true /\
  parse_mbap (exact f) = Ok (hdr_tid f) /\
  nth_error f 6 = Some (hdr_unit f) /\ nth_error f 7 = Some (hdr_fc f).
Proof. exact accepted_frame. Qed.
Print Assumptions C18_accepted_frame_facts.

(* the form of the property text: a packet, or an error whose Bytes() (what the server writes
   back, [err_wire_tcp]) is a 9-byte exception ADU: protocol id 0, length 3, function byte >= 128 *)
Theorem C18_accepted_is_parsed_or_exception : forall d n,
  looks_like d false = Ok (n, None) -> n <= N.of_nat (slen d) ->
  let f := firstn (N.to_nat n) (vis d) in
  (exists tr, parse_tcp_request (exact f) = Ok tr)
  \/ (exists e w, parse_tcp_request (exact f) = Err e /\ err_wire_tcp e = Some w
                  /\ is_exception_adu_tcp w = true).
Proof. exact accepted_parsed_or_exception. Qed.
Print Assumptions C18_accepted_is_parsed_or_exception.

(* the sharper form actually proved: the packet carries the frame's transaction id, unit id and
   function code; the only possible refusal is ILLEGAL DATA VALUE (3) addressed to the request, and
   its bytes are the specification's exception ADU (Spec.v, written from the standard).  In
   particular none of the dispatcher's other errors (too short, unknown function, MBAP mismatch,
   wrong-function -- including the FC6 parser's quirk of naming function 5) is reachable on a frame
   the classifier delimited. *)
Theorem C18_accepted_is_parsed_or_addressed_exception : forall d n,
  looks_like d false = Ok (n, None) -> n <= N.of_nat (slen d) ->
  let f := firstn (N.to_nat n) (vis d) in
  (exists r, parse_tcp_request (exact f) = Ok (hdr_tid f, r)
             /\ req_fc r = hdr_fc f /\ req_unit r = hdr_unit f)
  \/ (parse_tcp_request (exact f) = Err (err_tcp (hdr_tid f) (hdr_unit f) (hdr_fc f) 3)
      /\ err_wire_tcp (err_tcp (hdr_tid f) (hdr_unit f) (hdr_fc f) 3)
         = Some (Spec.exception_adu_tcp (hdr_tid f) (hdr_unit f) (hdr_fc f) 3)).
Proof. exact accepted_parsed_or_refused. Qed.
Print Assumptions C18_accepted_is_parsed_or_addressed_exception.

(* ---------- (3) unsupported function codes ---------- *)
(* every slice with at least 8 bytes, protocol id 0, length field >= 3 and a function code in
   1..127 that is not one of the ten supported ones: expected length 6 + length field together
   with the ILLEGAL FUNCTION (1) error carrying the header's transaction id, unit id and function
   code, whose Bytes() is the specification's exception ADU *)
Theorem C18_unsupported_function_code : forall d,
  (8 <= slen d)%nat -> hdr_proto (vis d) = 0 -> 3 <= hdr_len (vis d) ->
  1 <= hdr_fc (vis d) < 128 -> is_supported (hdr_fc (vis d)) = false ->
  let e := err_tcp (hdr_tid (vis d)) (hdr_unit (vis d)) (hdr_fc (vis d)) 1 in
  looks_like d false = Ok (6 + hdr_len (vis d), Some e) /\
  err_wire_tcp e = Some (Spec.exception_adu_tcp (hdr_tid (vis d)) (hdr_unit (vis d)) (hdr_fc (vis d)) 1).
Proof. exact unsupported_classified. Qed.
Print Assumptions C18_unsupported_function_code.

(* Function codes >= 128 are outside the theorem (they are not request codes).  The
   classification itself is the same for them (next theorem: any non-zero unsupported code), but
   the exception packet computes Function+128 in uint8, which wraps: the reply's function byte is
   fc-128 < 128, i.e. NOT an exception reply (example [C18_fc200_wraps] below). *)
Theorem C18_unsupported_any_nonzero_code : forall d,
  (8 <= slen d)%nat -> hdr_proto (vis d) = 0 -> 3 <= hdr_len (vis d) ->
  hdr_fc (vis d) <> 0 -> is_supported (hdr_fc (vis d)) = false ->
  looks_like d false
  = Ok (6 + hdr_len (vis d), Some (err_tcp (hdr_tid (vis d)) (hdr_unit (vis d)) (hdr_fc (vis d)) 1)).
Proof. exact looks_like_unsupported. Qed.
Print Assumptions C18_unsupported_any_nonzero_code.

(* ---------- examples: the hypotheses are satisfiable, the conclusions are the expected bytes ---------- *)
(* an FC3 request: constructor, bytes, every prefix *)
Example C18_fc3_frame :
  new_read 3 1 16 2 = Ok (RRead 3 1 16 2) /\ req_wf (RRead 3 1 16 2) = true /\
  req_bytes_tcp 1 (RRead 3 1 16 2) = [0;1;0;0;0;6;1;3;0;16;0;2].
Proof. repeat apply conj; vm_compute; reflexivity. Qed.
Example C18_fc3_all_prefixes :
  map (fun k => looks_like (exact (firstn k [0;1;0;0;0;6;1;3;0;16;0;2])) false) (seq 0 13)
  = repeat (Ok (0, Some ETooShortTCP)) 8 ++ repeat (Ok (12, None)) 5.
Proof. vm_compute. reflexivity. Qed.

(* the 8-byte read-server-id request (length field 2), the sample of the Go doc comment: refused
   as "not a TCP packet" by the pinned tree (D3), accepted after the repair *)
Example C18_fc17_frame :
  req_wf (RSrvId 16) = true /\
  req_bytes_tcp 0x8180 (RSrvId 16) = [0x81;0x80;0;0;0;2;16;17] /\
  looks_like (exact [0x81;0x80;0;0;0;2;16;17]) false = Ok (8, None) /\
  parse_tcp_request (exact [0x81;0x80;0;0;0;2;16;17]) = Ok (0x8180, RSrvId 16).
Proof. repeat apply conj; vm_compute; reflexivity. Qed.
(* a length field of 2 with any other function code is not a request *)
Example C18_len2_other_fc :
  looks_like (exact [0x81;0x80;0;0;0;2;16;3]) false = Ok (0, Some ENotTCP).
Proof. vm_compute. reflexivity. Qed.

(* FC16 and FC23 frames with payload: length field = 7 + n and 11 + n *)
Example C18_fc16_frame :
  new_wregs 1 2 [0;1;0;2] = Ok (RWRegs 1 2 2 [0;1;0;2]) /\
  req_bytes_tcp 7 (RWRegs 1 2 2 [0;1;0;2]) = [0;7;0;0;0;11;1;16;0;2;0;2;4;0;1;0;2] /\
  looks_like (exact (firstn 8 [0;7;0;0;0;11;1;16;0;2;0;2;4;0;1;0;2])) false = Ok (17, None).
Proof. repeat apply conj; vm_compute; reflexivity. Qed.

(* (2), both branches: accepted and parsed; accepted and refused with the addressed exception
   (quantity 0; a header-consistent frame too short for its function) *)
Example C18_accepted_and_parsed :
  looks_like {| vis := [0;1;0;0;0;6;1;3;0;16;0;2;0;9]; spare := [7;7] |} false = Ok (12, None) /\
  parse_tcp_request (exact (firstn 12 [0;1;0;0;0;6;1;3;0;16;0;2;0;9])) = Ok (1, RRead 3 1 16 2).
Proof. split; vm_compute; reflexivity. Qed.
Example C18_accepted_and_refused :
  looks_like (exact [0;1;0;0;0;6;1;3;0;16;0;0]) false = Ok (12, None) /\
  parse_tcp_request (exact [0;1;0;0;0;6;1;3;0;16;0;0]) = Err (err_tcp 1 1 3 3) /\
  err_wire_tcp (err_tcp 1 1 3 3) = Some [0;1;0;0;0;3;1;131;3] /\
  is_exception_adu_tcp [0;1;0;0;0;3;1;131;3] = true.
Proof. repeat apply conj; vm_compute; reflexivity. Qed.
Example C18_accepted_truncated_body :
  looks_like (exact [0;1;0;0;0;3;1;16;0]) false = Ok (9, None) /\
  parse_tcp_request (exact [0;1;0;0;0;3;1;16;0]) = Err (err_tcp 1 1 16 3).
Proof. split; vm_compute; reflexivity. Qed.

(* (3): function code 7 *)
Example C18_fc7_unsupported :
  looks_like (exact [0;5;0;0;0;6;9;7;0;0;0;1]) false = Ok (12, Some (err_tcp 5 9 7 1)) /\
  err_wire_tcp (err_tcp 5 9 7 1) = Some [0;5;0;0;0;3;9;135;1] /\
  Spec.exception_adu_tcp 5 9 7 1 = [0;5;0;0;0;3;9;135;1].
Proof. repeat apply conj; vm_compute; reflexivity. Qed.
(* outside (3): function code 200 -- same classification, but the reply's function byte wraps to 72 *)
Example C18_fc200_wraps :
  looks_like (exact [0;5;0;0;0;6;9;200;0;0;0;1]) false = Ok (12, Some (err_tcp 5 9 200 1)) /\
  err_wire_tcp (err_tcp 5 9 200 1) = Some [0;5;0;0;0;3;9;72;1] /\
  is_exception_adu_tcp [0;5;0;0;0;3;9;72;1] = false.
Proof. repeat apply conj; vm_compute; reflexivity. Qed.
