(* C13 (builder part) -- extracting fields never changes the response; repeating the extraction or
   performing it with the members in another order yields the same results.

   [extract_fields r response spare cont] models BuilderRequest.ExtractFields (BuilderModel.v),
   [extract_fields_data] the same call together with the response's Data slice afterwards,
   [extract_from_seq] Field.ExtractFrom for a list of fields on ONE shared *packet.Registers.
   The statements hold for EVERY request value, hence for every request the builder produces
   (last theorem), every response, every spare capacity behind the payload and both modes.
   They rest on the registers layer's "no accessor writes to the payload" (RegistersProofs). *)
From Coq Require Import Permutation.
Require Import MB.GoSem MB.PacketModel MB.RegistersSpec MB.RegistersModel MB.BuilderSpec MB.BuilderModel.
Require Import MB.proofs.BuilderC13.
Open Scope N_scope.

(* ExtractFields on a byte-counted response (FC1-4, 23) returns its result and leaves the Data
   slice -- visible bytes and the capacity behind them -- exactly as it was *)
Theorem C13_extract_fields_preserves_payload :
  forall r fc u bl data spare cont,
  extract_fields_data r (PBytes fc u bl data) spare cont =
  (extract_fields r (PBytes fc u bl data) spare cont, {| vis := data; spare := spare |}).
Proof. exact extract_fields_data_pure. Qed.
Print Assumptions C13_extract_fields_preserves_payload.

(* repetition: after any extraction (any request, any mode), any further extraction on the same
   response returns what it returns on the untouched response *)
Theorem C13_extract_fields_repeatable :
  forall r r' fc u bl data spare cont cont',
  let '(x1, d1) := extract_fields_data r (PBytes fc u bl data) spare cont in
  extract_fields_data r' (PBytes fc u bl (vis d1)) (GoSem.spare d1) cont' =
  extract_fields_data r' (PBytes fc u bl data) spare cont'.
Proof. exact extract_fields_twice. Qed.
Print Assumptions C13_extract_fields_repeatable.

(* independence: what ExtractFields reports is put together, in member order, from per-member
   outcomes [g f] where g = member_view (start, response, spare) does not depend on the member
   list, the position, the mode or anything extracted before *)
Theorem C13_extract_fields_memberwise :
  forall r response spare cont,
  extract_fields r response spare cont =
  match member_view (br_start r) response spare with
  | Ok g => combine_outcomes cont false [] (map (fun f => (f, g f)) (br_fields r))
  | Err e => Err e
  | Panic => Panic
  end.
Proof. exact extract_fields_view. Qed.
Print Assumptions C13_extract_fields_memberwise.

(* order: with the members permuted, a result list stays a result list with the same error flag
   and, member for member, the same entries -- in the permuted order *)
Theorem C13_extract_fields_order_independent :
  forall r response spare cont fs' had vals,
  Permutation (br_fields r) fs' ->
  extract_fields r response spare cont = Ok (had, vals) ->
  exists g : field -> fvalue,
    vals = map (fun f => (f, g f)) (br_fields r) /\
    extract_fields (with_members r fs') response spare cont = Ok (had, map (fun f => (f, g f)) fs').
Proof. exact extract_fields_permuted. Qed.
Print Assumptions C13_extract_fields_order_independent.
(* ... and a failure as a whole (strict mode with an unreachable member, unusable payload) stays one *)
Theorem C13_extract_fields_failure_order_independent :
  forall r response spare cont fs',
  Permutation (br_fields r) fs' ->
  is_ok (extract_fields r response spare cont) = is_ok (extract_fields (with_members r fs') response spare cont).
Proof. exact extract_fields_permuted_failure. Qed.
Print Assumptions C13_extract_fields_failure_order_independent.

(* Field.ExtractFrom on one shared Registers object, any list of fields (repetitions and any order
   included): every call returns what it returns on the fresh object; the object is unchanged *)
Theorem C13_extract_from_shared_registers :
  forall fs regs,
  extract_from_seq fs regs = (map (fun f => (f, fst (extract_from f regs))) fs, regs).
Proof. exact extract_from_seq_pure. Qed.
Print Assumptions C13_extract_from_shared_registers.

(* in particular for every request the builder produces *)
Theorem C13_requests_of_the_builder :
  forall fields t reqs, split fields t = Ok reqs ->
  Forall (fun r => forall fc u bl data spare cont,
            snd (extract_fields_data r (PBytes fc u bl data) spare cont) = {| vis := data; spare := spare |} /\
            forall fs' had vals, Permutation (br_fields r) fs' ->
              extract_fields r (PBytes fc u bl data) spare cont = Ok (had, vals) ->
              exists g : field -> fvalue,
                vals = map (fun f => (f, g f)) (br_fields r) /\
                extract_fields (with_members r fs') (PBytes fc u bl data) spare cont =
                Ok (had, map (fun f => (f, g f)) fs')) reqs.
Proof.
  intros fields t reqs _. apply Forall_forall. intros r _ fc u bl data spare cont. split.
  - rewrite extract_fields_data_pure. reflexivity.
  - intros fs' had vals. apply extract_fields_permuted.
Qed.
Print Assumptions C13_requests_of_the_builder.

(* ---------- non-vacuity: a request with mixed byte orders ---------- *)
Definition fld (name a ty len bo : N) : field :=
  {| f_name := name; f_server := [97]; f_unit := 1; f_addr := a; f_type := ty; f_bit := 3; f_high := true;
     f_len := len; f_order := bo |}.
(* uint32 little endian low word first; uint16 and uint32 in the default order on the same
   registers; a string sharing them; an int64 that does not fit the 3-register payload *)
Definition ex_fields : list field := [fld 0 10 7 0 6; fld 1 10 5 0 0; fld 2 10 7 0 0; fld 3 11 13 4 1; fld 4 10 10 0 2].
Definition ex_payload : list N := [1; 2; 3; 4; 65; 66].
Definition ex_request : breq :=
  match split ex_fields 4 with Ok (r :: _) => r | _ => with_members
    {| br_req := RSrvId 0; br_tcp := true; br_server := []; br_unit := 0; br_start := 0; br_fields := [] |} [] end.
Definition show (x : xres) : option (bool * list (N * option aval)) :=
  match x with
  | Ok (had, vals) => Some (had, map (fun fv => (f_name (fst fv), match snd fv with FVal v => Some v | FErr => None end)) vals)
  | _ => None
  end.

Example C13_request_is_built : map f_name (br_fields ex_request) = [0; 1; 2; 4; 3] /\ br_start ex_request = 10.
Proof. vm_compute. split; reflexivity. Qed.
Example C13_lenient_result :
  show (extract_fields ex_request (PBytes 3 1 6 ex_payload) [170; 187] true) =
  Some (true, [(0, Some (VInt 33620995)); (1, Some (VInt 258)); (2, Some (VInt 16909060)); (4, None);
               (3, Some (VBytes [4; 3; 66; 65]))]).
Proof. vm_compute. reflexivity. Qed.
Example C13_lenient_reversed :
  show (extract_fields (with_members ex_request (rev (br_fields ex_request))) (PBytes 3 1 6 ex_payload) [170; 187] true) =
  Some (true, [(3, Some (VBytes [4; 3; 66; 65])); (4, None); (2, Some (VInt 16909060)); (1, Some (VInt 258));
               (0, Some (VInt 33620995))]).
Proof. vm_compute. reflexivity. Qed.
Example C13_strict_fails_in_any_order :
  show (extract_fields ex_request (PBytes 3 1 6 ex_payload) [170; 187] false) = None /\
  show (extract_fields (with_members ex_request (rev (br_fields ex_request))) (PBytes 3 1 6 ex_payload) [170; 187] false) = None.
Proof. vm_compute. split; reflexivity. Qed.
Example C13_payload_afterwards :
  snd (extract_fields_data ex_request (PBytes 3 1 6 ex_payload) [170; 187] true) = {| vis := ex_payload; spare := [170; 187] |}.
Proof. vm_compute. reflexivity. Qed.
