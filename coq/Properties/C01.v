(* C01 -- Encoded requests are exactly the ADUs the Modbus specification defines.

   For each constructor shape of the model ([new_read] = FC1..FC4, [new_wcoil] = FC5, [new_wreg] = FC6,
   [new_wcoils] = FC15, [new_wregs] = FC16, [new_srvid] = FC17, [new_rw] = FC23; the TCP and RTU
   constructors of Go share one model constructor, the transaction id is an argument of the
   encoder) and for ALL arguments: whatever the constructor agrees to build serialises, in both
   framings, to the ADU that Spec.v prescribes for the same arguments (the map from constructor
   arguments to [Spec.sreq] is the constructor-for-constructor one, as in DispPacket.ctor_args),
   that request is legal and the frame is at most 260 / 256 bytes.

   Where the code is wrong the full statement is refuted by a witness and proved outside exactly
   the defective region:
     FC16  accepts 124 registers (248 bytes): 261 / 257 byte frames   (known finding D12a)
     FC23  accepts 122..124 write registers: 261..265 / 257..261 bytes (known finding D12a)
   Hypotheses [u < 256], [s < 65536], [bytes_ok data] are the Go types (uint8, uint16, []byte). *)
Require Import MB.GoSem MB.CrcModel MB.CrcSpec MB.Spec MB.PacketModel MB.proofs.EncodeProofs.
Open Scope N_scope.

(* ---------- coil packing: least significant bit first, for every coil list ---------- *)
Theorem C01_coils_lsb_first : forall coils, coils_to_bytes coils = pack_coils coils.
Proof. exact coils_to_bytes_is_pack_coils. Qed.
Print Assumptions C01_coils_lsb_first.

(* ---------- MBAP header: transaction id, protocol id 0, length = bytes that follow ---------- *)
Theorem C01_mbap_header : forall tid r,
  N.of_nat (length (req_payload r)) <= 65000 ->
  req_bytes_tcp tid r =
    put16 tid ++ [0; 0] ++ put16 (N.of_nat (length (req_body r))) ++ req_body r.
Proof. exact mbap_header_of_request. Qed.
Print Assumptions C01_mbap_header.

(* ---------- FC1..FC4 ---------- *)
Theorem C01_read : forall fc u s q tid r,
  1 <= fc <= 4 -> u < 256 -> s < 65536 ->
  new_read fc u s q = Ok r ->
  (req_bytes_tcp tid r = request_adu_tcp tid (SRead fc u s q) /\
   req_bytes_rtu r = request_adu_rtu (SRead fc u s q)) /\
  (legal (SRead fc u s q) = true /\
   (length (req_bytes_tcp tid r) <= max_adu_tcp)%nat /\ (length (req_bytes_rtu r) <= max_adu_rtu)%nat).
Proof. exact enc_read. Qed.
Print Assumptions C01_read.

Theorem C01_read_converse : forall fc u s q,
  legal (SRead fc u s q) = true -> exists r, new_read fc u s q = Ok r.
Proof. exact enc_read_converse. Qed.
Print Assumptions C01_read_converse.

(* ---------- FC5 ---------- *)
Theorem C01_write_single_coil : forall u a st tid r,
  u < 256 -> a < 65536 ->
  new_wcoil u a st = Ok r ->
  (req_bytes_tcp tid r = request_adu_tcp tid (SWCoil u a st) /\
   req_bytes_rtu r = request_adu_rtu (SWCoil u a st)) /\
  (legal (SWCoil u a st) = true /\
   (length (req_bytes_tcp tid r) <= max_adu_tcp)%nat /\ (length (req_bytes_rtu r) <= max_adu_rtu)%nat).
Proof. exact enc_wcoil. Qed.
Print Assumptions C01_write_single_coil.

Theorem C01_write_single_coil_converse : forall u a st, exists r, new_wcoil u a st = Ok r.
Proof. exact enc_wcoil_converse. Qed.
Print Assumptions C01_write_single_coil_converse.

(* ---------- FC6: the value is the first two bytes of [data], zero padded / cut (the Go
   constructor does not check the length of the value slice; see DESIGN.md C01) ---------- *)
Theorem C01_write_single_register : forall u a data tid r,
  u < 256 -> a < 65536 -> bytes_ok data ->
  new_wreg u a data = Ok r ->
  (req_bytes_tcp tid r = request_adu_tcp tid (SWReg u a (nth 0 data 0) (nth 1 data 0)) /\
   req_bytes_rtu r = request_adu_rtu (SWReg u a (nth 0 data 0) (nth 1 data 0))) /\
  (legal (SWReg u a (nth 0 data 0) (nth 1 data 0)) = true /\
   (length (req_bytes_tcp tid r) <= max_adu_tcp)%nat /\ (length (req_bytes_rtu r) <= max_adu_rtu)%nat).
Proof. exact enc_wreg. Qed.
Print Assumptions C01_write_single_register.

Theorem C01_write_single_register_converse : forall u a data, exists r, new_wreg u a data = Ok r.
Proof. exact enc_wreg_converse. Qed.
Print Assumptions C01_write_single_register_converse.

(* ---------- FC15 ---------- *)
Theorem C01_write_multiple_coils : forall u s coils tid r,
  u < 256 -> s < 65536 ->
  new_wcoils u s coils = Ok r ->
  (req_bytes_tcp tid r = request_adu_tcp tid (SWCoils u s coils) /\
   req_bytes_rtu r = request_adu_rtu (SWCoils u s coils)) /\
  (legal (SWCoils u s coils) = true /\
   (length (req_bytes_tcp tid r) <= max_adu_tcp)%nat /\ (length (req_bytes_rtu r) <= max_adu_rtu)%nat).
Proof. exact enc_wcoils. Qed.
Print Assumptions C01_write_multiple_coils.

Theorem C01_write_multiple_coils_converse : forall u s coils,
  legal (SWCoils u s coils) = true -> exists r, new_wcoils u s coils = Ok r.
Proof. exact enc_wcoils_converse. Qed.
Print Assumptions C01_write_multiple_coils_converse.

(* ---------- FC16 ----------
   Full statement (FALSE for the code as it is):
     forall u s data tid r, u < 256 -> s < 65536 -> bytes_ok data -> new_wregs u s data = Ok r ->
       (bytes = specified ADU, both framings) /\ legal /\ length <= 260 / 256.                      *)
Theorem C01_fc16_limit_refuted : exists u s data tid r,
  u < 256 /\ s < 65536 /\ bytes_ok data /\
  new_wregs u s data = Ok r /\ legal (SWRegs u s data) = false /\
  (max_adu_tcp < length (req_bytes_tcp tid r))%nat /\ (max_adu_rtu < length (req_bytes_rtu r))%nat.
Proof. exact fc16_limit_refuted. Qed.
Print Assumptions C01_fc16_limit_refuted.

(* the layout part holds for everything the constructor accepts, 124 registers included *)
Theorem C01_fc16_bytes : forall u s data tid r,
  u < 256 -> s < 65536 -> bytes_ok data ->
  new_wregs u s data = Ok r ->
  req_bytes_tcp tid r = request_adu_tcp tid (SWRegs u s data) /\
  req_bytes_rtu r = request_adu_rtu (SWRegs u s data).
Proof. exact enc_wregs_bytes. Qed.
Print Assumptions C01_fc16_bytes.

(* the full statement outside exactly the defective region *)
Theorem C01_fc16_partial : forall u s data tid r,
  u < 256 -> s < 65536 -> bytes_ok data ->
  length data <> 248%nat ->
  new_wregs u s data = Ok r ->
  (req_bytes_tcp tid r = request_adu_tcp tid (SWRegs u s data) /\
   req_bytes_rtu r = request_adu_rtu (SWRegs u s data)) /\
  (legal (SWRegs u s data) = true /\
   (length (req_bytes_tcp tid r) <= max_adu_tcp)%nat /\ (length (req_bytes_rtu r) <= max_adu_rtu)%nat).
Proof. exact enc_wregs_partial. Qed.
Print Assumptions C01_fc16_partial.

(* ... and the region is exact: every accepted payload of 248 bytes is illegal, 261 / 257 bytes *)
Theorem C01_fc16_region_exact : forall u s data tid r,
  length data = 248%nat -> new_wregs u s data = Ok r ->
  legal (SWRegs u s data) = false /\
  length (req_bytes_tcp tid r) = 261%nat /\ length (req_bytes_rtu r) = 257%nat.
Proof. exact enc_wregs_248. Qed.
Print Assumptions C01_fc16_region_exact.

Theorem C01_fc16_converse : forall u s data,
  legal (SWRegs u s data) = true -> exists r, new_wregs u s data = Ok r.
Proof. exact enc_wregs_converse. Qed.
Print Assumptions C01_fc16_converse.

(* ---------- FC17 ---------- *)
Theorem C01_read_server_id : forall u tid r,
  u < 256 ->
  new_srvid u = Ok r ->
  (req_bytes_tcp tid r = request_adu_tcp tid (SSrvId u) /\
   req_bytes_rtu r = request_adu_rtu (SSrvId u)) /\
  (legal (SSrvId u) = true /\
   (length (req_bytes_tcp tid r) <= max_adu_tcp)%nat /\ (length (req_bytes_rtu r) <= max_adu_rtu)%nat).
Proof. exact enc_srvid. Qed.
Print Assumptions C01_read_server_id.

Theorem C01_read_server_id_converse : forall u, exists r, new_srvid u = Ok r.
Proof. exact enc_srvid_converse. Qed.
Print Assumptions C01_read_server_id_converse.

(* ---------- FC23 ----------
   Full statement (FALSE for the code as it is): as for FC16 with [new_rw] / [SRW].               *)
Theorem C01_fc23_limit_refuted : exists u rs rq ws data tid r,
  u < 256 /\ rs < 65536 /\ ws < 65536 /\ bytes_ok data /\
  new_rw u rs rq ws data = Ok r /\ legal (SRW u rs rq ws data) = false /\
  (max_adu_tcp < length (req_bytes_tcp tid r))%nat /\ (max_adu_rtu < length (req_bytes_rtu r))%nat.
Proof. exact fc23_limit_refuted. Qed.
Print Assumptions C01_fc23_limit_refuted.

Theorem C01_fc23_bytes : forall u rs rq ws data tid r,
  u < 256 -> rs < 65536 -> ws < 65536 -> bytes_ok data ->
  new_rw u rs rq ws data = Ok r ->
  req_bytes_tcp tid r = request_adu_tcp tid (SRW u rs rq ws data) /\
  req_bytes_rtu r = request_adu_rtu (SRW u rs rq ws data).
Proof. exact enc_rw_bytes. Qed.
Print Assumptions C01_fc23_bytes.

Theorem C01_fc23_partial : forall u rs rq ws data tid r,
  u < 256 -> rs < 65536 -> ws < 65536 -> bytes_ok data ->
  (length data <= 242)%nat ->
  new_rw u rs rq ws data = Ok r ->
  (req_bytes_tcp tid r = request_adu_tcp tid (SRW u rs rq ws data) /\
   req_bytes_rtu r = request_adu_rtu (SRW u rs rq ws data)) /\
  (legal (SRW u rs rq ws data) = true /\
   (length (req_bytes_tcp tid r) <= max_adu_tcp)%nat /\ (length (req_bytes_rtu r) <= max_adu_rtu)%nat).
Proof. exact enc_rw_partial. Qed.
Print Assumptions C01_fc23_partial.

(* the region is exact: every accepted payload longer than 242 bytes is illegal and too long *)
Theorem C01_fc23_region_exact : forall u rs rq ws data tid r,
  (242 < length data)%nat -> new_rw u rs rq ws data = Ok r ->
  legal (SRW u rs rq ws data) = false /\ (max_adu_tcp < length (req_bytes_tcp tid r))%nat.
Proof. exact enc_rw_over. Qed.
Print Assumptions C01_fc23_region_exact.

(* converse: every legal request is accepted, except that a read quantity of 125 (the
   specification's maximum; the code's limit is 124) is refused whatever the payload *)
Theorem C01_fc23_converse : forall u rs rq ws data,
  legal (SRW u rs rq ws data) = true -> rq <> 125 -> exists r, new_rw u rs rq ws data = Ok r.
Proof. exact enc_rw_converse. Qed.
Print Assumptions C01_fc23_converse.

Theorem C01_fc23_read125_refused : forall u rs ws data, new_rw u rs 125 ws data = Err EPlain.
Proof. exact enc_rw_read125_refused. Qed.
Print Assumptions C01_fc23_read125_refused.

(* ---------- non-vacuity: the frames documented in the Go doc comments ---------- *)
Definition enc2 (tid : N) (x : pres req) : list N * list N :=
  match x with Ok r => (req_bytes_tcp tid r, req_bytes_rtu r) | _ => ([], []) end.

Example C01_doc_fc3 : enc2 1 (new_read 3 1 0x6B 1) =
  ([0x00; 0x01; 0x00; 0x00; 0x00; 0x06; 0x01; 0x03; 0x00; 0x6B; 0x00; 0x01],
   [0x01; 0x03; 0x00; 0x6B; 0x00; 0x01; 0xf5; 0xd6]).
Proof. vm_compute. reflexivity. Qed.
Example C01_doc_fc5 : enc2 1 (new_wcoil 0x11 0x6B true) =
  ([0x00; 0x01; 0x00; 0x00; 0x00; 0x06; 0x11; 0x05; 0x00; 0x6B; 0xFF; 0x00],
   [0x11; 0x05; 0x00; 0x6B; 0xFF; 0x00; 0xff; 0x76]).
Proof. vm_compute. reflexivity. Qed.
Example C01_doc_fc15 : enc2 0x0138 (new_wcoils 0x11 0x0410 [true; false; true]) =
  ([0x01; 0x38; 0x00; 0x00; 0x00; 0x08; 0x11; 0x0F; 0x04; 0x10; 0x00; 0x03; 0x01; 0x05],
   [0x11; 0x0F; 0x04; 0x10; 0x00; 0x03; 0x01; 0x05; 0x8e; 0x1f]).
Proof. vm_compute. reflexivity. Qed.
Example C01_doc_fc16 : enc2 0x0138 (new_wregs 0x11 0x0410 [0x00; 0xC8; 0x00; 0x82; 0x87; 0x01]) =
  ([0x01; 0x38; 0x00; 0x00; 0x00; 0x0d; 0x11; 0x10; 0x04; 0x10; 0x00; 0x03; 0x06; 0x00; 0xC8; 0x00; 0x82; 0x87; 0x01],
   [0x11; 0x10; 0x04; 0x10; 0x00; 0x03; 0x06; 0x00; 0xC8; 0x00; 0x82; 0x87; 0x01; 0x2f; 0x7d]).
Proof. vm_compute. reflexivity. Qed.
Example C01_doc_fc17 : enc2 0x8180 (new_srvid 0x10) =
  ([0x81; 0x80; 0x00; 0x00; 0x00; 0x02; 0x10; 0x11], [0x10; 0x11; 0xcc; 0x7c]).
Proof. vm_compute. reflexivity. Qed.
Example C01_doc_fc23 : enc2 0x0138 (new_rw 0x11 0x0410 1 0x0112 [0x00; 0xc8; 0x00; 0x82]) =
  ([0x01; 0x38; 0x00; 0x00; 0x00; 0x0f; 0x11; 0x17; 0x04; 0x10; 0x00; 0x01; 0x01; 0x12; 0x00; 0x02; 0x04; 0x00; 0xc8; 0x00; 0x82],
   [0x11; 0x17; 0x04; 0x10; 0x00; 0x01; 0x01; 0x12; 0x00; 0x02; 0x04; 0x00; 0xc8; 0x00; 0x82; 0x64; 0xe2]).
Proof. vm_compute. reflexivity. Qed.

(* the hypotheses of the theorems are satisfiable at the limits: 2000 coils, 125 registers, 1968
   coils, 123 registers, 121 + 124 registers are all accepted *)
Example C01_nonvacuous_limits :
  is_ok (new_read 1 1 0 2000) = true /\ is_ok (new_read 3 1 0 125) = true /\
  is_ok (new_wcoils 1 0 (repeat true 1968)) = true /\
  is_ok (new_wregs 1 0 (repeat 0 246)) = true /\ is_ok (new_rw 1 0 124 0 (repeat 0 242)) = true /\
  legal (SRead 1 1 0 2000) = true /\ legal (SWCoils 1 0 (repeat true 1968)) = true /\
  legal (SWRegs 1 0 (repeat 0 246)) = true /\ legal (SRW 1 0 124 0 (repeat 0 242)) = true.
Proof. vm_compute. repeat split; reflexivity. Qed.
(* ... and just beyond the limits everything is refused, except the two known findings *)
Example C01_beyond_limits :
  is_err (new_read 1 1 0 2001) = true /\ is_err (new_read 3 1 0 126) = true /\ is_err (new_read 3 1 0 0) = true /\
  is_err (new_wcoils 1 0 (repeat true 1969)) = true /\ is_err (new_wcoils 1 0 []) = true /\
  is_err (new_wregs 1 0 (repeat 0 250)) = true /\ is_err (new_wregs 1 0 (repeat 0 3)) = true /\
  is_err (new_rw 1 0 1 0 (repeat 0 250)) = true /\
  is_ok (new_wregs 1 0 (repeat 0 248)) = true /\ is_ok (new_rw 1 0 1 0 (repeat 0 248)) = true.
Proof. vm_compute. repeat split; reflexivity. Qed.
