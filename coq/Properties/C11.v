(* C11 -- coil lookup follows the Modbus bit layout and inverts the library's packing.

   Full statement (FALSE for the pinned code, defect D9: isBitSet indexes the payload bytes from
   the end):

     forall payload start i, i < 8*|payload| -> start + i < 65536 ->
       is_bit_set payload start (start + i) = Some (Spec.coil_at payload i)
     and  forall coils (1..1968), start: reading [coils] back after write-multiple-coils through a
       conforming device returns [coils].

   Proved here: the two refutations (known finding D9); in full, for every payload / start /
   address: both error clauses and the exact value returned (coil i of the byte-reversed payload);
   the statement itself for one-byte payloads ([C11_partial]) and for read-back of up to 8 coils
   ([C11_readback_partial]); the write side ([coils_to_bytes] = MAP 6.11 packing) and the
   specification-level read-back identity for every coil list. *)
Require Import MB.GoSem MB.Spec MB.PacketModel MB.proofs.EncodeProofs MB.proofs.CoilProofs.
Open Scope N_scope.

(* ---------- refutations of the full statement (D9) ---------- *)
Theorem C11_byte_order_refuted : exists payload start i,
  i < 8 * N.of_nat (length payload) /\ start + i < 65536 /\
  is_bit_set payload start (start + i) <> Some (coil_at payload i).
Proof. exact is_bit_set_byte_order_refuted. Qed.
Print Assumptions C11_byte_order_refuted.

(* the witness spelled out: payload 01 00 carries coil 0 = ON; the lookup answers OFF *)
Example C11_byte_order_witness :
  coil_at [1; 0] 0 = true /\ is_bit_set [1; 0] 0 0 = Some false.
Proof. split; vm_compute; reflexivity. Qed.

Theorem C11_readback_refuted : exists start coils,
  length coils = 9%nat /\ start + N.of_nat (length coils) <= 65536 /\
  readback start coils <> Some (map Some coils).
Proof. exact readback_refuted. Qed.
Print Assumptions C11_readback_refuted.

Example C11_readback_witness :
  readback 0 [true; false; false; false; false; false; false; false; false]
  = Some (map Some [false; false; false; false; false; false; false; false; true]).
Proof. vm_compute. reflexivity. Qed.

(* ---------- error clauses, in full ---------- *)
(* an address before the start address is an error, whatever the payload *)
Theorem C11_before_start_is_error :
  forall payload start a, a < start -> is_bit_set payload start a = None.
Proof. exact is_bit_set_before. Qed.
Print Assumptions C11_before_start_is_error.

(* an address at or beyond start + 8*|payload| is an error.  [a < 65536]: addresses are uint16 and
   the offset a - start is computed in uint16 *)
Theorem C11_beyond_last_bit_is_error :
  forall payload start a, a < 65536 -> start <= a -> start + 8 * N.of_nat (length payload) <= a ->
  is_bit_set payload start a = None.
Proof. exact is_bit_set_beyond. Qed.
Print Assumptions C11_beyond_last_bit_is_error.

(* hence a lookup that succeeds was inside the window *)
Theorem C11_success_only_inside :
  forall payload start a b, start < 65536 -> a < 65536 ->
  is_bit_set payload start a = Some b -> start <= a < start + 8 * N.of_nat (length payload).
Proof. exact is_bit_set_some. Qed.
Print Assumptions C11_success_only_inside.

(* ---------- what the lookup returns inside the window ---------- *)
(* characterisation: coil start+i is read as coil i of the byte-reversed payload *)
Theorem C11_reads_reversed_payload :
  forall payload start i, start + i < 65536 -> i < 8 * N.of_nat (length payload) ->
  is_bit_set payload start (start + i) = Some (coil_at (rev payload) i).
Proof. exact is_bit_set_reversed. Qed.
Print Assumptions C11_reads_reversed_payload.

(* the whole function on uint16 arguments *)
Theorem C11_lookup_total :
  forall payload start a, start < 65536 -> a < 65536 ->
  is_bit_set payload start a =
    if (a <? start) || (start + 8 * N.of_nat (length payload) <=? a) then None
    else Some (coil_at (rev payload) (a - start)).
Proof. exact is_bit_set_total. Qed.
Print Assumptions C11_lookup_total.

(* the property's statement for one-byte payloads (up to 8 coils).
   Missing for the full statement: payloads of two or more bytes, where it is false (above). *)
Theorem C11_partial :
  forall b start i, start + i < 65536 -> i < 8 ->
  is_bit_set [b] start (start + i) = Some (coil_at [b] i).
Proof. exact is_bit_set_one_byte. Qed.
Print Assumptions C11_partial.

(* ---------- the write side and the specification-level identity ---------- *)
(* CoilsToBytes is the packing of MAP 6.11 for every coil list *)
Theorem C11_library_packing_is_spec : forall coils, coils_to_bytes coils = pack_coils coils.
Proof. exact coils_to_bytes_is_pack_coils. Qed.
Print Assumptions C11_library_packing_is_spec.

(* reading a packed pattern by the specification's layout gives the pattern back *)
Theorem C11_spec_readback_identity :
  forall coils i, i < N.of_nat (length coils) ->
  coil_at (pack_coils coils) i = nth (N.to_nat i) coils false.
Proof. exact coil_at_pack_coils_in. Qed.
Print Assumptions C11_spec_readback_identity.

(* a conforming device stores exactly the pattern the library's request carries *)
Theorem C11_device_stores_pattern :
  forall coils, device_store (coils_to_bytes coils) (length coils) = coils.
Proof. exact device_store_library. Qed.
Print Assumptions C11_device_stores_pattern.

(* ---------- write, read back ---------- *)
(* up to 8 coils: recovered unchanged *)
Theorem C11_readback_partial :
  forall start coils, (1 <= length coils <= 8)%nat -> start + N.of_nat (length coils) <= 65536 ->
  readback start coils = Some (map Some coils).
Proof. exact readback_le8. Qed.
Print Assumptions C11_readback_partial.

(* any legal number of coils: recovered through the byte-reversed view of the reply *)
Theorem C11_readback_reversed :
  forall start coils, (1 <= length coils <= 1968)%nat -> start + N.of_nat (length coils) <= 65536 ->
  readback start coils =
  Some (map (fun i => Some (coil_at (rev (pack_coils coils)) (N.of_nat i))) (seq 0 (length coils))).
Proof. exact readback_reversed. Qed.
Print Assumptions C11_readback_reversed.

(* ---------- non-vacuity ---------- *)
Example C11_inside_example : is_bit_set [0xCD; 0x6B] 10 13 = Some (coil_at [0x6B; 0xCD] 3).
Proof. vm_compute. reflexivity. Qed.
Example C11_before_example : is_bit_set [0xCD; 0x6B] 10 9 = None.
Proof. vm_compute. reflexivity. Qed.
Example C11_beyond_example : is_bit_set [0xCD; 0x6B] 10 26 = None /\ is_bit_set [0xCD; 0x6B] 10 25 <> None.
Proof. split; vm_compute; [reflexivity|discriminate]. Qed.
Example C11_partial_example : is_bit_set [0x05] 65530 65532 = Some true /\ coil_at [0x05] 2 = true.
Proof. split; vm_compute; reflexivity. Qed.
Example C11_readback_example :
  readback 65528 [true; false; true; true; false; false; true; false]
  = Some (map Some [true; false; true; true; false; false; true; false]).
Proof. vm_compute. reflexivity. Qed.
(* MAP 6.11 example: outputs 20..29 = CD 01 *)
Example C11_map_example :
  pack_coils [true; false; true; true; false; false; true; true; true; false] = [0xCD; 0x01].
Proof. vm_compute. reflexivity. Qed.
