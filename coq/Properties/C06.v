(* C06 -- batched requests cover every field, stay within limits and never mix targets.

   [split fields t] is the model of Builder.Read<Kind><Framing>() (BuilderModel.v; t = 0..7 numbers
   the targets FC1 TCP, FC1 RTU, ..., FC4 RTU).  [field_typed] says that the components of a field
   have their Go types (uint8 / uint16 / byte string); it is satisfied by every Go value.
   All comparisons are on unbounded numbers (no 16-bit wrap); clause 3 is spelled out in Z. *)
From Coq Require Import Permutation Sorted.
Require Import MB.GoSem MB.Spec MB.PacketModel MB.BuilderSpec MB.BuilderModel MB.proofs.BuilderProofs.
Open Scope N_scope.

(* For EVERY field list and target the builder returns an error, or requests such that
   1. the members of the requests are, as a multiset, exactly the fields of the requested kind
      (every such field in exactly one request, no field of the other kind anywhere);
   and for every request r, with q its quantity:
   6. the packet is the read request (function of the target, r's unit, r's start, q), and its
      encoded bytes are the ADU the Modbus specification prescribes for exactly these values;
   7. r has at least one member;
   2. every member has r's server address and unit id;
   3. every member's whole span lies in [start, start+q), computed in Z;
   4. the window is tight: some member starts at start (and none before), some member ends at
      start+q (and none after);
   5. 1 <= q <= 2000 coils / 125 registers;
   8. if all requested fields of one (server, unit) fit into one window of the limit, there is at
      most one request for that (server, unit). *)
Theorem C06_batching :
  forall fields t, t < 8 -> Forall field_typed fields ->
  match split fields t with
  | Panic => False
  | Err _ => True
  | Ok reqs =>
      Permutation (concat (map br_fields reqs)) (filter (wanted t) fields) /\
      Forall (fun r => exists q,
        br_req r = RRead (target_fc t) (br_unit r) (br_start r) q /\ br_tcp r = target_tcp t /\
        br_fields r <> [] /\
        Forall (fun f => f_server f = br_server r /\ f_unit f = br_unit r) (br_fields r) /\
        Forall (fun f => (Z.of_N (br_start r) <= Z.of_N (f_addr f) /\
                          Z.of_N (f_addr f) + Z.of_N (span f) <= Z.of_N (br_start r) + Z.of_N q)%Z) (br_fields r) /\
        Exists (fun f => f_addr f = br_start r) (br_fields r) /\
        Exists (fun f => f_end f = br_start r + q) (br_fields r) /\
        1 <= q <= kind_limit (target_coils t) /\
        (forall tid, breq_bytes tid r =
                     if target_tcp t then request_adu_tcp tid (SRead (target_fc t) (br_unit r) (br_start r) q)
                     else request_adu_rtu (SRead (target_fc t) (br_unit r) (br_start r) q))) reqs /\
      (forall srv u,
         (forall f f', In f fields -> In f' fields -> wanted t f = true -> wanted t f' = true ->
                       same_dev srv u f = true -> same_dev srv u f' = true ->
                       f_end f' <= f_addr f + kind_limit (target_coils t)) ->
         (length (filter (dev_req srv u) reqs) <= 1)%nat)
  end.
Proof. exact split_c06. Qed.
Print Assumptions C06_batching.

(* C06 allows the builder to refuse; this says when it does not: every definition valid and no
   requested field wider than one request.  Together with the theorem above (no panic) an error
   therefore means an invalid definition or a field that cannot fit into any request. *)
Theorem C06_builder_does_not_refuse_needlessly :
  forall fields t, t < 8 -> Forall field_typed fields ->
  Forall (fun f => validate f = Ok tt) fields ->
  Forall (fun f => wanted t f = true -> span f <= kind_limit (target_coils t)) fields ->
  exists reqs, split fields t = Ok reqs.
Proof. exact split_succeeds. Qed.
Print Assumptions C06_builder_does_not_refuse_needlessly.

(* clause 6 read off the wire: the bytes of the specified ADU carry unit, function, start and
   quantity at the offsets of the Modbus layout *)
Theorem C06_frame_fields_tcp :
  forall tid fc u s q, u < 256 -> s < 65536 -> q < 65536 ->
  let b := request_adu_tcp tid (SRead fc u s q) in
  nth 6 b 0 = u /\ nth 7 b 0 = fc /\ be16 [nth 8 b 0; nth 9 b 0] = s /\ be16 [nth 10 b 0; nth 11 b 0] = q.
Proof. exact adu_tcp_read_decode. Qed.
Print Assumptions C06_frame_fields_tcp.
Theorem C06_frame_fields_rtu :
  forall fc u s q, u < 256 -> s < 65536 -> q < 65536 ->
  let b := request_adu_rtu (SRead fc u s q) in
  nth 0 b 0 = u /\ nth 1 b 0 = fc /\ be16 [nth 2 b 0; nth 3 b 0] = s /\ be16 [nth 4 b 0; nth 5 b 0] = q.
Proof. exact adu_rtu_read_decode. Qed.
Print Assumptions C06_frame_fields_rtu.

(* modelling: the map key fmt.Sprintf("%v_%v_%v", server, unitID, isCoil) determines the triple the
   model groups by -- also for server names that contain '_' and digits *)
Theorem C06_group_key_injective :
  forall s1 u1 c1 s2 u2 c2, u1 < 256 -> u2 < 256 ->
  group_key_string s1 u1 c1 = group_key_string s2 u2 c2 -> s1 = s2 /\ u1 = u2 /\ c1 = c2.
Proof. exact group_key_injective. Qed.
Print Assumptions C06_group_key_injective.

(* modelling: whatever algorithm sort.Sort uses, a sorted permutation of a group's slots is the list
   the model's insertion sort returns (slot addresses within a group are distinct) *)
Theorem C06_sort_order_canonical :
  forall fields oc groups g l,
  group_for_single_connection fields oc = Ok groups -> In g groups ->
  Permutation l (g_slots g) -> StronglySorted addr_le l -> l = sort_slots (g_slots g).
Proof. exact sort_model_canonical. Qed.
Print Assumptions C06_sort_order_canonical.

(* ---------- non-vacuity and witnesses ---------- *)
Definition fld (name : N) (srv : list N) (u a ty len : N) : field :=
  {| f_name := name; f_server := srv; f_unit := u; f_addr := a; f_type := ty; f_bit := 0; f_high := false;
     f_len := len; f_order := 0 |}.
Definition summary (x : pres (list breq)) : option (list (list N * N * N * req * list N)) :=
  match x with
  | Ok rs => Some (map (fun r => (br_server r, br_unit r, br_start r, br_req r, map f_name (br_fields r))) rs)
  | _ => None
  end.

(* the hypotheses are satisfiable and the Ok branch is inhabited: two servers, two kinds *)
Example C06_fields_typed :
  Forall field_typed [fld 0 [97] 1 10 5 0; fld 1 [97; 95; 49] 1 12 7 0; fld 2 [97] 1 3 14 0; fld 3 [97] 1 11 13 5].
Proof. repeat constructor; cbn; lia. Qed.
Example C06_split_ok :
  summary (split [fld 0 [97] 1 10 5 0; fld 1 [97; 95; 49] 1 12 7 0; fld 2 [97] 1 3 14 0; fld 3 [97] 1 11 13 5] 4)
  = Some [([97], 1, 10, RRead 3 1 10 4, [0; 3]); ([97; 95; 49], 1, 12, RRead 3 1 12 2, [1])].
Proof. vm_compute. reflexivity. Qed.
Example C06_split_coils :
  summary (split [fld 0 [97] 1 10 5 0; fld 2 [97] 1 3 14 0; fld 3 [97] 1 2002 14 0; fld 4 [97] 1 2003 14 0] 1)
  = Some [([97], 1, 3, RRead 1 1 3 2000, [2; 3]); ([97], 1, 2003, RRead 1 1 2003 1, [4])].
Proof. vm_compute. reflexivity. Qed.

(* the ends of the address space (the old 16-bit wrap, D13, merged them into one request [0,1)) *)
Example C06_address_0_and_65535_separate :
  summary (split [fld 0 [97] 1 0 5 0; fld 1 [97] 1 65535 5 0] 4)
  = Some [([97], 1, 0, RRead 3 1 0 1, [0]); ([97], 1, 65535, RRead 3 1 65535 1, [1])].
Proof. vm_compute. reflexivity. Qed.

(* exactly the limit is one request, one more is two; the hypothesis of clause 8 is satisfiable *)
Example C06_span_125_one_request :
  summary (split [fld 0 [97] 1 10 5 0; fld 1 [97] 1 134 5 0] 4) = Some [([97], 1, 10, RRead 3 1 10 125, [0; 1])].
Proof. vm_compute. reflexivity. Qed.
Example C06_span_126_two_requests :
  summary (split [fld 0 [97] 1 10 5 0; fld 1 [97] 1 135 5 0] 4)
  = Some [([97], 1, 10, RRead 3 1 10 1, [0]); ([97], 1, 135, RRead 3 1 135 1, [1])].
Proof. vm_compute. reflexivity. Qed.
Example C06_fits_hypothesis_satisfiable :
  forall f f', In f [fld 0 [97] 1 10 5 0; fld 1 [97] 1 134 5 0] -> In f' [fld 0 [97] 1 10 5 0; fld 1 [97] 1 134 5 0] ->
  f_end f' <= f_addr f + kind_limit (target_coils 4).
Proof. intros f f' [<-|[<-|[]]] [<-|[<-|[]]]; vm_compute; discriminate. Qed.

(* the error branch: a string of 251 bytes needs 126 registers; an invalid definition *)
Example C06_long_string_is_error : summary (split [fld 0 [97] 1 10 13 251] 4) = None.
Proof. vm_compute. reflexivity. Qed.
Example C06_string_250_ok : summary (split [fld 0 [97] 1 10 13 250] 4) = Some [([97], 1, 10, RRead 3 1 10 125, [0])].
Proof. vm_compute. reflexivity. Qed.
Example C06_invalid_type_is_error : summary (split [fld 0 [97] 1 10 15 0] 4) = None.
Proof. vm_compute. reflexivity. Qed.

(* what the code does with a field whose span leaves the address space: neither Validate nor the
   read constructors object, the request is [65535, 65537) -- clause 3 holds in Z, but no device
   can serve it (see the report; C05 excludes such fields by hypothesis) *)
Example C06_window_beyond_address_space :
  summary (split [fld 0 [97] 1 65535 7 0] 4) = Some [([97], 1, 65535, RRead 3 1 65535 2, [0])].
Proof. vm_compute. reflexivity. Qed.

(* keys that a non-injective formatting would confuse stay apart *)
Example C06_underscore_servers :
  summary (split [fld 0 [97; 95; 49] 1 5 5 0; fld 1 [97] 1 6 5 0; fld 2 [97; 95; 49] 11 7 5 0; fld 3 [97] 11 8 5 0] 5)
  = Some [([97; 95; 49], 1, 5, RRead 3 1 5 1, [0]); ([97], 1, 6, RRead 3 1 6 1, [1]);
          ([97; 95; 49], 11, 7, RRead 3 11 7 1, [2]); ([97], 11, 8, RRead 3 11 8 1, [3])].
Proof. vm_compute. reflexivity. Qed.
