(* C19 -- client hooks observe exactly the bytes sent, each chunk read and the final frame.

   For EVERY configuration, request and script, comparing the call with hooks installed
   ([set_hooks cfg true]) and without ([set_hooks cfg false]):
     - the outcome is the same;
     - the trace with hooks is the trace without hooks (the transport calls) with
         BeforeWrite b            inserted immediately before the transport Write b,
         AfterEachRead c |c| err  inserted immediately after every transport Read that returned (c, err),
       in that order, including empty and failing reads and reads that return bytes together
       with the deadline error or io.EOF ([add_hooks]), followed by
         BeforeParse b            iff a frame b is handed to the parser ([parser_input]), and then
       b is the concatenation of all chunks read and the outcome is the parser's verdict on b;
     - without hooks no hook is called; the only bytes written are those of the request. *)
Require Import MB.GoSem MB.CrcModel MB.PacketModel MB.ClientModel.
Require Import MB.proofs.ClientProofs MB.proofs.ClientC07 MB.proofs.ClientC07Inst MB.proofs.ClientInv.
Require Import MB.proofs.ClientHookSplit.
Open Scope N_scope.

Theorem C19_hooks_exact :
  forall cfg sc r,
  fst (client_do (set_hooks cfg true) sc r) = fst (client_do (set_hooks cfg false) sc r) /\
  snd (client_do (set_hooks cfg true) sc r) =
    add_hooks (snd (client_do (set_hooks cfg false) sc r)) ++
    match parser_input (set_hooks cfg false) sc r with Some b => [HBeforeParse b] | None => [] end.
Proof. exact client_hooks. Qed.
Print Assumptions C19_hooks_exact.

Theorem C19_before_parse_is_what_was_read :
  forall cfg sc r b,
  parser_input cfg sc r = Some b ->
  b = reads (snd (client_do cfg sc r)) /\ fst (client_do cfg sc r) = outcome_of_parse (c_kind cfg) b.
Proof. exact parser_input_reads. Qed.
Print Assumptions C19_before_parse_is_what_was_read.

Theorem C19_transport_trace :
  forall cfg sc q,
  c_hooks cfg = false ->
  forallb (fun x => negb (is_hook x)) (snd (client_do cfg sc (Some q))) = true /\
  (writes (snd (client_do cfg sc (Some q))) = [] \/ writes (snd (client_do cfg sc (Some q))) = [q_bytes q]).
Proof. exact no_hooks_no_calls. Qed.
Print Assumptions C19_transport_trace.

(* the hook calls alone: one BeforeWrite per Write, one AfterEachRead per Read, in order *)
Theorem C19_hook_calls :
  forall t, forallb (fun x => negb (is_hook x)) t = true ->
  filter is_hook (add_hooks t) = flat_map hook_of t.
Proof. exact hooks_of_add_hooks. Qed.
Print Assumptions C19_hook_calls.

(* projections of the exact trace, for every configuration, script and request (nil included):
   hooks never add, drop or reorder transport calls ... *)
Theorem C19_hooks_do_not_change_io :
  forall cfg sc r,
  filter not_hook (snd (client_do (set_hooks cfg true) sc r)) = snd (client_do (set_hooks cfg false) sc r).
Proof. exact hooks_transport_projection. Qed.
Print Assumptions C19_hooks_do_not_change_io.

(* ... the hook calls alone are one BeforeWrite per Write and one AfterEachRead per Read of the
   hook-free run, in order, then BeforeParse iff a frame reaches the parser ... *)
Theorem C19_all_hook_calls :
  forall cfg sc r,
  filter is_hook (snd (client_do (set_hooks cfg true) sc r)) =
    flat_map hook_of (snd (client_do (set_hooks cfg false) sc r)) ++
    match parser_input (set_hooks cfg false) sc r with Some b => [HBeforeParse b] | None => [] end.
Proof. exact hooks_hook_projection. Qed.
Print Assumptions C19_all_hook_calls.

(* ... so the numbers agree: no hook call is skipped or doubled ... *)
Theorem C19_hook_counts :
  forall cfg sc r,
  let th := snd (client_do (set_hooks cfg true) sc r) in
  count is_bw th = count is_wr th /\ count is_ar th = count is_rd th /\
  count is_bp th = (match parser_input (set_hooks cfg false) sc r with Some _ => 1 | None => 0 end)%nat.
Proof. exact hooks_counts. Qed.
Print Assumptions C19_hook_counts.

(* ... and BeforeParse, when called, is the last event of the call and shows the parser's input *)
Theorem C19_before_parse_is_last :
  forall cfg sc r b,
  In (HBeforeParse b) (snd (client_do (set_hooks cfg true) sc r)) ->
  exists t, snd (client_do (set_hooks cfg true) sc r) = t ++ [HBeforeParse b] /\
            parser_input (set_hooks cfg false) sc r = Some b.
Proof. exact before_parse_is_last. Qed.
Print Assumptions C19_before_parse_is_last.

(* ---------- non-vacuity ---------- *)
Example C19_example :
  let q := rq false (RWReg 1 2 3 4) in
  let sc := plain [quiet; deliver false [0; 7; 0; 0; 0]; quiet; deliver true [6; 1; 6; 0; 2; 3; 4]] in
  snd (client_do (cfg_of KTcp) sc (Some q)) =
  [TSetWriteDeadline;
   HBeforeWrite [0; 7; 0; 0; 0; 6; 1; 6; 0; 2; 3; 4]; TWrite [0; 7; 0; 0; 0; 6; 1; 6; 0; 2; 3; 4];
   TRead [] 1; HAfterRead [] 0 1;
   TRead [0; 7; 0; 0; 0] 0; HAfterRead [0; 7; 0; 0; 0] 5 0;
   TRead [] 1; HAfterRead [] 0 1;
   TRead [6; 1; 6; 0; 2; 3; 4] 1; HAfterRead [6; 1; 6; 0; 2; 3; 4] 7 1;
   HBeforeParse [0; 7; 0; 0; 0; 6; 1; 6; 0; 2; 3; 4]] /\
  fst (client_do (cfg_of KTcp) sc (Some q)) = OResp 7 (PWReg 1 2 3 4) /\
  parser_input (set_hooks (cfg_of KTcp) false) sc (Some q) = Some [0; 7; 0; 0; 0; 6; 1; 6; 0; 2; 3; 4].
Proof. cbn zeta. repeat split; vm_compute; reflexivity. Qed.
(* a failing read is seen by the hook, and the parser is not reached *)
Example C19_example_failing_read :
  let q := rq true (RWReg 1 2 3 4) in
  let sc := plain [deliver false [1; 6]; {| s_ctx := false; s_deadline := false; s_timer := false; s_pick := false; s_rd := RIoErr [0] |}] in
  snd (client_do (cfg_of KSerial) sc (Some q)) =
  [HBeforeWrite (q_bytes q); TWrite (q_bytes q); TRead [1; 6] 0; HAfterRead [1; 6] 2 0;
   TRead [0] 3; HAfterRead [0] 1 3; TFlush] /\
  parser_input (set_hooks (cfg_of KSerial) false) sc (Some q) = None.
Proof. cbn zeta. split; vm_compute; reflexivity. Qed.
(* the projections on the first example: 1 write, 4 reads, one BeforeParse *)
Example C19_example_counts :
  let q := rq false (RWReg 1 2 3 4) in
  let sc := plain [quiet; deliver false [0; 7; 0; 0; 0]; quiet; deliver true [6; 1; 6; 0; 2; 3; 4]] in
  let th := snd (client_do (set_hooks (cfg_of KTcp) true) sc (Some q)) in
  (count is_bw th, count is_ar th, count is_bp th, count is_wr th, count is_rd th) = (1, 4, 1, 1, 4)%nat.
Proof. vm_compute. reflexivity. Qed.
