(* C17_Skeleton -- the lock-skeleton obligation of the server life cycle (C17), regenerated from
   server/server.go on every run.  (The life-cycle LTS and its theorems are in Properties/C17.v.)

   What the obligation establishes, by LockProofs.well_locked_sound (restated below): every body
   of server.go that runs as a thread -- Serve / ListenAndServe (-> serve), Shutdown, Addr, and
   the per-connection goroutine started by serve (-> connection.handle, then the deferred cleanup
   -> trackConn) -- acquires Server.mu only when it does not hold it, releases it only when it does,
   touches Server.listener and Server.activeConnections only while holding it, and ends with the
   mutex released; by C14_mutual_exclusion these accesses are then mutually exclusive under every
   schedule.  The "configuration" fields (time-outs, callbacks, AssemblerCreatorFunc) are written
   only before the first connection goroutine exists; the atomic fields have atomic types.
   NOT a theorem: absence of data races at run time (Go memory model, sync, atomic) -- exercised
   by the C17 supporting runs under -race. *)
Require Import MB.LockModel MB.proofs.LockProofs.
Require Import MB.gen.Skeletons.
From Coq Require Import List String Bool.
Import ListNotations.
Open Scope string_scope.
Open Scope list_scope.

Theorem C17_skeleton_sound :
  forall p, well_locked p = true ->
  forall m body, In m all_mutexes -> In body (thread_bodies p) ->
  exists c, elab p m body = Some c /\
    forall t st, thread_trace c t st -> disciplined false t /\ (st = Done -> holds false t = false).
Proof. exact well_locked_sound. Qed.
Print Assumptions C17_skeleton_sound.

(* ---- the regenerated obligation ---- *)
Example server_skeleton_well_locked : well_locked Skeletons.server = true.
Proof. vm_compute. reflexivity. Qed.

(* its two halves separately: lock discipline; configuration fields written once before sharing,
   atomic fields of atomic type *)
Example server_skeleton_locks_ok : locks_ok Skeletons.server = true.
Proof. vm_compute. reflexivity. Qed.
Example server_skeleton_config_ok : config_ok Skeletons.server = true.
Proof. vm_compute. reflexivity. Qed.

(* entry requirements: all of these are entered WITHOUT the lock (they take it themselves) *)
Example server_entry_modes :
  map (entry_mode_of Skeletons.server "Server.mu")
      ["Server.serve"; "Server.trackConn"; "Server.Shutdown"; "Server.Addr"; "connection.handle"]
  = [Some false; Some false; Some false; Some false; Some false].
Proof. vm_compute. reflexivity. Qed.

(* the obligation is about something: serve starts the connection goroutine (a checked thread body
   that calls trackConn), the guarded fields are used, and the mutex is taken by serve, trackConn,
   Shutdown and Addr *)
Definition uses (f : string) (s : stmt) : bool := match s with Use g _ => String.eqb g f | _ => false end.
Definition locks (s : stmt) : bool :=
  match s with Lock "Server.mu" | RLock "Server.mu" => true | _ => false end.
Definition calls (f : string) (s : stmt) : bool := match s with Call g => String.eqb g f | _ => false end.
Definition body_of (n : string) : list stmt :=
  match find_fn (p_funcs Skeletons.server) n with Some f => fn_body f | None => [] end.
Example server_skeleton_not_vacuous :
  existsb (fun b => any_list (calls "connection.handle") b && any_list (calls "Server.trackConn") b)
          (all_go_bodies Skeletons.server) = true /\
  forallb (fun n => any_list locks (body_of n))
          ["Server.serve"; "Server.trackConn"; "Server.Shutdown"; "Server.Addr"] = true /\
  any_list (uses "Server.listener") (body_of "Server.serve") = true /\
  any_list (uses "Server.listener") (body_of "Server.Shutdown") = true /\
  any_list (uses "Server.listener") (body_of "Server.Addr") = true /\
  any_list (uses "Server.activeConnections") (body_of "Server.trackConn") = true /\
  any_list (uses "Server.activeConnections") (body_of "Server.Shutdown") = true.
Proof. vm_compute. repeat split. Qed.

(* ---- the checker discriminates (small skeletons with the historical faults) ---- *)
Definition mini (fs : list fn) (fds : list field) : program :=
  {| p_file := "mini"; p_funcs := fs; p_values := []; p_fields := fds; p_foreign := [] |}.
Definition mini_track : fn :=
  {| fn_name := "Server.trackConn"; fn_kind := KFunc; fn_exported := false;
     fn_body := [Lock "Server.mu"; DeferUnlock "Server.mu"; Use "Server.activeConnections" W] |}.
Definition mini_serve (publish : list stmt) (in_loop : list stmt) : fn :=
  {| fn_name := "Server.serve"; fn_kind := KFunc; fn_exported := false;
     fn_body := [Use "Server.AssemblerCreatorFunc" R; Branch [[Use "Server.AssemblerCreatorFunc" W]; []]]
                ++ publish ++
                [Loop (in_loop ++ [Call "Server.trackConn"; Go [Other; Call "Server.trackConn"]])] |}.
Definition mini_Serve : fn :=
  {| fn_name := "Server.Serve"; fn_kind := KFunc; fn_exported := true; fn_body := [Call "Server.serve"; Return] |}.
Definition mini_fields (sites_rt : list (string * skind)) : list field :=
  [ {| fd_name := "Server.mu"; fd_type := "sync.RWMutex"; fd_sites := [] |};
    {| fd_name := "Server.listener"; fd_type := "net.Listener"; fd_sites := [("Server.serve", SAssign)] |};
    {| fd_name := "Server.isShutdown"; fd_type := "atomic.Bool"; fd_sites := [] |};
    {| fd_name := "Server.AssemblerCreatorFunc"; fd_type := "func"; fd_sites := [("Server.serve", SAssign)] |};
    {| fd_name := "Server.ReadTimeout"; fd_type := "time.Duration"; fd_sites := sites_rt |} ].

(* as in server.go now *)
Example C17_mini_ok :
  well_locked (mini [mini_Serve;
                     mini_serve [Lock "Server.mu"; Use "Server.listener" W; Unlock "Server.mu"] [];
                     mini_track] (mini_fields [])) = true.
Proof. vm_compute. reflexivity. Qed.
(* D6b: s.listener = listener without the mutex *)
Example C17_mini_listener_unlocked :
  well_locked (mini [mini_Serve; mini_serve [Use "Server.listener" W] []; mini_track] (mini_fields [])) = false.
Proof. vm_compute. reflexivity. Qed.
(* trackConn called while serve still holds the mutex (self-deadlock / double acquire) *)
Example C17_mini_track_under_lock :
  well_locked (mini [mini_Serve;
                     mini_serve [Lock "Server.mu"; Use "Server.listener" W] [];
                     mini_track] (mini_fields [])) = false.
Proof. vm_compute. reflexivity. Qed.
(* a configuration field written inside the accept loop, i.e. after connection goroutines exist *)
Example C17_mini_config_written_late :
  well_locked (mini [mini_Serve;
                     mini_serve [Lock "Server.mu"; Use "Server.listener" W; Unlock "Server.mu"]
                                [Use "Server.ReadTimeout" W];
                     mini_track] (mini_fields [("Server.serve", SAssign)])) = false.
Proof. vm_compute. reflexivity. Qed.
(* a configuration field written by a method that is not a constructor / option function *)
Example C17_mini_config_written_elsewhere :
  well_locked (mini [mini_Serve;
                     mini_serve [Lock "Server.mu"; Use "Server.listener" W; Unlock "Server.mu"] [];
                     mini_track] (mini_fields [("Server.Shutdown", SAssign)])) = false.
Proof. vm_compute. reflexivity. Qed.
(* the shutdown flag no longer atomic *)
Example C17_mini_flag_not_atomic :
  config_ok (mini [] [ {| fd_name := "Server.isShutdown"; fd_type := "bool"; fd_sites := [] |} ]) = false.
Proof. vm_compute. reflexivity. Qed.
