(* C16 -- every reply the server sends is a well-formed Modbus TCP ADU addressed to the request it
   answers; exception replies are 9 bytes, carry the request's function code with the high bit set
   and code 01 (unsupported function) / 03 (anything the request parsers refuse); a panicking
   handler or non-Modbus input ends that connection only.

   Vocabulary.  The drain loop (ServerModel.drain) asks the classifier about the buffered bytes
   [b]; on a verdict (n, e) with n <> 0 it cuts off the frame [frame_at b n] (the first n bytes;
   what follows them is the slice's spare capacity) and appends [answer handler frame e] to the
   response.  The theorems quantify over every buffer content and every such verdict, i.e. over
   every frame the classifier delimits.  The specification side -- wf_adu, addressed_to,
   exception_for -- is ServerSpec.v / Spec.v.  Proofs: proofs/ServerPacketFacts.v, ServerProofs.v. *)
Require Import MB.GoSem MB.CrcModel MB.PacketModel MB.Spec MB.ServerModel MB.ServerSpec MB.DispServer.
Require Import MB.proofs.ServerAbstract MB.proofs.ServerPacketFacts MB.proofs.ServerProofs.
Open Scope N_scope.

(* ---------- every reply is a well-formed ADU with the request's transaction id and unit id ----- *)
(* premise (the handler's contract): the packets the handler returns are well-formed ADUs that
   echo the transaction id and unit id of the request they were given.  Replies built by the
   server itself -- every exception -- need no premise. *)
Theorem C16_reply_addressed : forall handler b n e w,
  handler_echoes handler ->
  looks_like (exact b) false = Ok (n, e) -> is_too_short e = false -> n <> 0 -> n <= N.of_nat (length b) ->
  answer handler (frame_at b n) e = Ok w ->
  let f := firstn (N.to_nat n) b in
  wf_adu w = true /\ addressed_to f w = true.
Proof. exact reply_addressed. Qed.
Print Assumptions C16_reply_addressed.

(* ---------- exception replies ---------- *)
(* an exception ADU of the specification: 9 bytes, protocol id 0, length field 3, the given ids,
   function code + 128, the code *)
Theorem C16_exception_adu_shape : forall t u fc c,
  wf_adu (exception_adu_tcp t u fc c) = true /\ length (exception_adu_tcp t u fc c) = 9%nat /\
  a_tid (exception_adu_tcp t u fc c) = t /\ a_unit (exception_adu_tcp t u fc c) = u /\
  a_fc (exception_adu_tcp t u fc c) = fc + 128 /\ nth 8 (exception_adu_tcp t u fc c) 0 = c.
Proof. exact exception_adu_wf. Qed.
Print Assumptions C16_exception_adu_shape.

(* which exception: [exception_for f code] is the exception ADU with f's transaction id, unit id
   and function code.  For every delimited frame and every handler behaviour:
   - unsupported function code 1..127: exactly the exception 01;
   - supported function: every refusal of the request parsers (out-of-range quantity or value,
     truncated body, inconsistent byte count, ...) is answered by exactly the exception 03; a
     parsed request carries the frame's transaction id, unit id and function code and is answered
     by the handler's packet, or by the exception with the handler's code (0 for an untyped
     error); the parsers never panic. *)
Theorem C16_exception_replies : forall handler b n e w,
  looks_like (exact b) false = Ok (n, e) -> is_too_short e = false -> n <> 0 -> n <= N.of_nat (length b) ->
  answer handler (frame_at b n) e = Ok w ->
  let f := firstn (N.to_nat n) b in
  (is_supported (a_fc f) = false -> a_fc f < 128 -> w = exception_for f ILLEGAL_FUNCTION) /\
  (is_supported (a_fc f) = true ->
     (forall x, parse_tcp_request (exact f) = Err x -> w = exception_for f ILLEGAL_DATA_VALUE) /\
     (forall t r, parse_tcp_request (exact f) = Ok (t, r) ->
        t = a_tid f /\ req_unit r = a_unit f /\ req_fc r = a_fc f /\
        match handler (t, r) with
        | HResp w' => w = w'
        | HErrTyped c => w = exception_for f c
        | HErrGeneric => w = exception_for f 0
        | HPanic => False
        end) /\
     parse_tcp_request (exact f) <> Panic).
Proof. exact exception_replies. Qed.
Print Assumptions C16_exception_replies.

(* the frame is a re-slice of the reassembly buffer: the bytes behind it do not influence the reply *)
Theorem C16_reply_independent_of_buffer_tail : forall handler v s,
  handle handler {| vis := v; spare := s |} = handle handler (exact v).
Proof. exact handle_cap_indep. Qed.
Print Assumptions C16_reply_independent_of_buffer_tail.

(* ---------- faults: panics and non-Modbus input ---------- *)
(* answering a delimited frame panics only if the handler does *)
Theorem C16_panic_only_from_handler : forall handler b n e,
  looks_like (exact b) false = Ok (n, e) -> is_too_short e = false -> n <> 0 -> n <= N.of_nat (length b) ->
  answer handler (frame_at b n) e = Panic ->
  exists t r, parse_tcp_request (exact (firstn (N.to_nat n) b)) = Ok (t, r) /\ handler (t, r) = HPanic.
Proof. exact answer_panic_only_from_handler. Qed.
Print Assumptions C16_panic_only_from_handler.

(* such a frame at the head of the buffer makes the ReceiveRead call panic ... *)
Theorem C16_handler_panic_unwinds_the_call : forall handler b n e fuel out,
  looks_like (exact b) false = Ok (n, e) -> is_too_short e = false -> n <> 0 -> n <= N.of_nat (length b) ->
  answer handler (frame_at b n) e = Panic ->
  r_status (drain handler (S fuel) b out) = Panicked /\ r_out (drain handler (S fuel) b out) = [].
Proof. exact drain_head_panic. Qed.
Print Assumptions C16_handler_panic_unwinds_the_call.

(* ... which ends the connection without writing anything of that read *)
Theorem C16_panic_ends_the_connection : forall handler c chunk,
  c_status c = Open -> chunk <> [] ->
  r_status (receive_read handler (c_buf c) chunk) = Panicked ->
  c_status (conn_read handler c chunk) = Panicked /\ c_written (conn_read handler c chunk) = c_written c.
Proof. exact conn_read_panic. Qed.
Print Assumptions C16_panic_ends_the_connection.

(* non-Modbus bytes at the head of the buffer (wrong protocol id, length field below 3 unless it
   is the 2 of a function 17 request, function code 0): one farewell exception, buffer dropped,
   connection to be closed *)
Theorem C16_not_modbus_closes : forall handler b fuel out,
  looks_like (exact b) false = Ok (0, Some ENotTCP) ->
  drain handler (S fuel) b out =
    {| r_buf := []; r_out := out ++ exc_bytes_tcp (mk_exc 0 0 0 0); r_status := Closed |}.
Proof. exact drain_head_not_modbus. Qed.
Print Assumptions C16_not_modbus_closes.

(* a closed or panicked connection does nothing any more *)
Theorem C16_connection_over : forall handler c chunk, c_status c <> Open -> conn_read handler c chunk = c.
Proof. exact conn_read_over. Qed.
Print Assumptions C16_connection_over.

(* the frame lemma on the per-connection states: whatever happens on the other connections of the
   server -- garbage, panics, closes, in any interleaving -- connection j is in the state it
   reaches on its own reads alone *)
Theorem C16_connections_isolated : forall handler events conns j,
  nth_error (server_run handler conns events) j =
  option_map (fun c => fold_left (conn_read handler) (reads_of j events) c) (nth_error conns j).
Proof. exact server_run_isolated. Qed.
Print Assumptions C16_connections_isolated.

(* ---------- known finding 150: requests with a 1-byte PDU of a function other than 17 ---------- *)
(* MAP defines requests that consist of the function code alone (07 Read Exception Status, 0B, 0C,
   11).  The classifier accepts the length field 2 only for function 17; a header with length 2
   and another function code is "not Modbus TCP": *)
Theorem C16_one_byte_pdu_region : forall handler h0 h1 u fc rest fuel out,
  fc <> 17 ->
  drain handler (S fuel) (h0 :: h1 :: 0 :: 0 :: 0 :: 2 :: u :: fc :: rest) out =
    {| r_buf := []; r_out := out ++ [0; 0; 0; 0; 0; 3; 0; 128; 0]; r_status := Closed |}.
Proof.
  intros handler h0 h1 u fc rest fuel out H.
  rewrite (drain_head_not_modbus handler _ fuel out (looks_one_byte_pdu h0 h1 u fc rest H)). reflexivity.
Qed.
Print Assumptions C16_one_byte_pdu_region.

(* so the statement "an unsupported function code 1..127 is answered by the exception 01 addressed
   to the request" is refuted there: a well-formed Read Exception Status request (transaction 9,
   unit 0x11) gets a zero-addressed exception and the connection is closed, and the request
   pipelined behind it is never answered *)
Theorem C16_one_byte_pdu_refuted : exists f next,
  wf_adu f = true /\ is_supported (a_fc f) = false /\ a_fc f < 128 /\
  let c := asm_read (script_handler 0) conn_init (f ++ next) in
  c_written c <> exception_for f ILLEGAL_FUNCTION /\
  c_written c = [0; 0; 0; 0; 0; 3; 0; 128; 0] /\ c_status c = Closed.
Proof.
  exists [0; 9; 0; 0; 0; 2; 0x11; 7], [0x12; 0x30; 0; 0; 0; 6; 1; 3; 0; 0x6B; 0; 3].
  split; [vm_compute; reflexivity|]. split; [vm_compute; reflexivity|]. split; [vm_compute; reflexivity|].
  cbv zeta. split; [|split].
  - intros H. vm_compute in H. discriminate H.
  - vm_compute. reflexivity.
  - vm_compute. reflexivity.
Qed.
Print Assumptions C16_one_byte_pdu_refuted.

(* ---------- non-vacuity ---------- *)
(* the scripted handler of the correspondence harness satisfies the premise of C16_reply_addressed
   on concrete requests, and each clause of C16_exception_replies is exercised: *)
Definition reply_to (bytes : list N) : list N * status :=
  let r := receive_read (script_handler 0) [] bytes in (r_out r, r_status r).

(* the classifier delimits the 12-byte FC3 request and the hypotheses of the theorems hold *)
Example C16_hypotheses_satisfiable :
  let b := [0x12; 0x30; 0; 0; 0; 6; 1; 3; 0; 0x6B; 0; 3; 0xAA] in
  looks_like (exact b) false = Ok (12, None) /\ is_too_short None = false /\ 12 <= N.of_nat (length b) /\
  answer (script_handler 0) (frame_at b 12) None =
    Ok [0x12; 0x30; 0; 0; 0; 9; 1; 3; 6; 0x6B; 0x6C; 0x6D; 0x6E; 0x6F; 0x70].
Proof.
  cbv zeta. split; [vm_compute; reflexivity|]. split; [reflexivity|]. split; [cbn [length]; lia|].
  vm_compute. reflexivity.
Qed.

(* a response of the scripted handler echoes the ids *)
Example C16_handler_echoes_example :
  match script_handler 0 (0x1230, RRead 3 1 0x6B 3) with
  | HResp w => wf_adu w = true /\ a_tid w = 0x1230 /\ a_unit w = 1
  | _ => False
  end.
Proof. vm_compute. repeat split; reflexivity. Qed.

(* unsupported function 43: exception 01 with the request's ids *)
Example C16_unsupported_function :
  reply_to [0x08; 0x01; 0; 0; 0; 5; 9; 0x2B; 14; 1; 0] = ([0x08; 0x01; 0; 0; 0; 3; 9; 0xAB; 1], Open).
Proof. vm_compute. reflexivity. Qed.
(* FC3 with quantity 126: exception 03 *)
Example C16_quantity_out_of_range :
  reply_to [0x0D; 0x00; 0; 0; 0; 6; 7; 3; 0; 0; 0; 126] = ([0x0D; 0x00; 0; 0; 0; 3; 7; 0x83; 3], Open).
Proof. vm_compute. reflexivity. Qed.
(* FC5 with value 0x1234: exception 03 *)
Example C16_value_out_of_range :
  reply_to [0; 1; 0; 0; 0; 6; 7; 5; 0; 1; 0x12; 0x34] = ([0; 1; 0; 0; 0; 3; 7; 0x85; 3], Open).
Proof. vm_compute. reflexivity. Qed.
(* FC3 truncated after the start address (length field consistent): exception 03 *)
Example C16_truncated_body :
  reply_to [0; 2; 0; 0; 0; 4; 7; 3; 0; 1] = ([0; 2; 0; 0; 0; 3; 7; 0x83; 3], Open).
Proof. vm_compute. reflexivity. Qed.
(* FC16, one register, byte count 4 with 2 data bytes: exception 03 *)
Example C16_inconsistent_byte_count :
  reply_to [0; 3; 0; 0; 0; 9; 7; 16; 0; 1; 0; 1; 4; 0xAB; 0xCD] = ([0; 3; 0; 0; 0; 3; 7; 0x90; 3], Open).
Proof. vm_compute. reflexivity. Qed.
(* handler errors: typed (transaction id class 4, code (tid/8) mod 256 = 2), generic (class 5) *)
Example C16_handler_typed_error :
  reply_to [0; 0x14; 0; 0; 0; 6; 7; 3; 0; 1; 0; 1] = ([0; 0x14; 0; 0; 0; 3; 7; 0x83; 2], Open).
Proof. vm_compute. reflexivity. Qed.
Example C16_handler_generic_error :
  reply_to [0x12; 0x35; 0; 0; 0; 6; 1; 3; 0; 0x6B; 0; 3] = ([0x12; 0x35; 0; 0; 0; 3; 1; 0x83; 0], Open).
Proof. vm_compute. reflexivity. Qed.
(* handler panic: nothing returned; garbage: farewell and close *)
Example C16_handler_panic :
  reply_to [0x12; 0x36; 0; 0; 0; 6; 1; 3; 0; 0x6B; 0; 3] = ([], Panicked).
Proof. vm_compute. reflexivity. Qed.
Example C16_garbage_closes :
  reply_to [71; 69; 84; 32; 47; 32; 72; 84; 84; 80] = ([0; 0; 0; 0; 0; 3; 0; 128; 0], Closed).
Proof. vm_compute. reflexivity. Qed.
(* frames whose MBAP length field exceeds the largest legal ADU (the classifier delimits any length):
   an FC3 request with 249 bytes of padding covered by the length field 255 is parsed (the fixed-length
   parsers ignore trailing bytes) and answered by the handler; an FC16 frame of 261 bytes whose byte
   count 2 does not fill it is refused with the exception 03 addressed to it; the request pipelined
   behind either is answered *)
Example C16_oversize_frames :
  let next := [0; 1; 0; 0; 0; 2; 1; 17] in
  let next_reply := [0; 1; 0; 0; 0; 7; 1; 17; 2; 0x56; 0x46; 255; 1] in
  reply_to ([0x12; 0x30; 0; 0; 0; 255; 1; 3; 0; 0x6B; 0; 3] ++ repeat 0 249 ++ next) =
    ([0x12; 0x30; 0; 0; 0; 9; 1; 3; 6; 0x6B; 0x6C; 0x6D; 0x6E; 0x6F; 0x70] ++ next_reply, Open) /\
  reply_to ([0x12; 0x30; 0; 0; 0; 255; 7; 16; 0; 1; 0; 1; 2] ++ repeat 0xAB 248 ++ next) =
    ([0x12; 0x30; 0; 0; 0; 3; 7; 0x90; 3] ++ next_reply, Open).
Proof. vm_compute. split; reflexivity. Qed.
(* two connections: the panic on connection 0 leaves connection 1 exactly as if it were alone *)
Example C16_isolation_example :
  let req := [0x12; 0x30; 0; 0; 0; 6; 1; 3; 0; 0x6B; 0; 3] in
  let bad := [0x12; 0x36; 0; 0; 0; 6; 1; 3; 0; 0x6B; 0; 3] in
  let s := server_run (script_handler 0) [conn_init; conn_init]
             [(1%nat, firstn 5 req); (0%nat, bad); (1%nat, skipn 5 req); (0%nat, req)] in
  map c_status s = [Panicked; Open] /\
  nth_error s 1 = Some (conn_run (script_handler 0) [firstn 5 req; skipn 5 req]) /\
  map c_written s = [[]; [0x12; 0x30; 0; 0; 0; 9; 1; 3; 6; 0x6B; 0x6C; 0x6D; 0x6E; 0x6F; 0x70]].
Proof. vm_compute. repeat split; reflexivity. Qed.
