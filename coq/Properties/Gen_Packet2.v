(* Gen_Packet2.v -- obligations for the ENCODERS regenerated from the Go source (gen/PacketGen2.v,
   written by `gotrans -out2` on every check): every Bytes() / bytes() / len() method of the 20 request
   types, the 20 response types and the exception types, MBAPHeader.bytes, putReadRequestBytes,
   CoilsToBytes and isBitSet, against coq/PacketModel.v.

   Domain.  The hand model describes the frames for field values that fit their Go types and
   payloads that fit the count byte (header comment of PacketModel.v); the hypotheses below say
   exactly that: 16-bit fields (transaction id, addresses, quantities) < 65536, the byte-length
   field of FC3/FC4/FC23 responses < 256, payloads of at most 255 bytes; for ReadServerIDResponse
   a nil AdditionalData is empty.  Unit id, function and exception code need no hypothesis.
   Outside the domain nothing is claimed here; the generated definitions (wrap-around at the Go
   type of every expression included) remain available in gen/PacketGen2.v.

   `X_bytes` (the unexported method that fills a caller-supplied buffer) is stated for EVERY buffer
   that is long enough: the result is the buffer with the frame written at its start
   ([wat buf 0 frame]); for the FC3/FC4/FC23 responses the data is copied as far as the buffer
   reaches.  CoilsToBytes and isBitSet are stated for all inputs.
   Statements only; proofs in proofs/GenEquiv2.v. *)
Require Import MB.GoSem MB.CrcModel MB.PacketModel MB.GenPrelude MB.GenPrelude2 MB.gen.PacketGen MB.gen.PacketGen2.
Require Import MB.proofs.GenEquiv MB.proofs.GenEquiv2.
Open Scope N_scope.

Theorem gen_MBAPHeader_bytes_is_model : forall tid pid dst len,
  tid < 65536 -> len < 65536 -> (6 <= length dst)%nat -> g_MBAPHeader_bytes tid pid dst len = Ok (wat dst 0 (mbap_bytes tid len)).
Proof. exact MBAPHeader_bytes_eq. Qed.
Print Assumptions gen_MBAPHeader_bytes_is_model.

Theorem gen_putReadRequestBytes_is_model : forall dst u fc s q,
  s < 65536 -> q < 65536 -> (6 <= length dst)%nat -> g_putReadRequestBytes dst u fc s q = Ok (wat dst 0 (req_body (RRead fc u s q))).
Proof. exact putReadRequestBytes_eq. Qed.
Print Assumptions gen_putReadRequestBytes_is_model.

Theorem gen_ErrorResponseTCP_Bytes_is_model : forall tid u f c,
  tid < 65536 -> g_ErrorResponseTCP_Bytes tid u f c = Ok (exc_bytes_tcp (mk_exc tid u f c)).
Proof. exact ErrorResponseTCP_Bytes_eq. Qed.
Print Assumptions gen_ErrorResponseTCP_Bytes_is_model.

Theorem gen_ErrorParseTCP_Bytes_is_model : forall tid u f c,
  tid < 65536 -> g_ErrorParseTCP_Bytes tid u f c = Ok (exc_bytes_tcp (mk_exc tid u f c)).
Proof. exact ErrorParseTCP_Bytes_eq. Qed.
Print Assumptions gen_ErrorParseTCP_Bytes_is_model.

Theorem gen_ErrorResponseRTU_Bytes_is_model : forall u f c,
  g_ErrorResponseRTU_Bytes u f c = Ok (exc_bytes_rtu u f c).
Proof. exact ErrorResponseRTU_Bytes_eq. Qed.
Print Assumptions gen_ErrorResponseRTU_Bytes_is_model.

Theorem gen_ErrorParseRTU_Bytes_is_model : forall u f c,
  g_ErrorParseRTU_Bytes u f c = Ok (exc_bytes_rtu u f c).
Proof. exact ErrorParseRTU_Bytes_eq. Qed.
Print Assumptions gen_ErrorParseRTU_Bytes_is_model.

Theorem gen_ReadCoilsRequest_bytes_is_model : forall u s q buf,
  s < 65536 -> q < 65536 -> (6 <= length buf)%nat -> g_ReadCoilsRequest_bytes u s q buf = Ok (wat buf 0 (req_body (RRead 1 u s q))).
Proof. exact ReadCoilsRequest_bytes_eq. Qed.
Print Assumptions gen_ReadCoilsRequest_bytes_is_model.

Theorem gen_ReadCoilsRequest_Bytes_is_model : forall u s q,
  s < 65536 -> q < 65536 -> g_ReadCoilsRequest_Bytes u s q = Ok (req_body (RRead 1 u s q)).
Proof. exact ReadCoilsRequest_Bytes_eq. Qed.
Print Assumptions gen_ReadCoilsRequest_Bytes_is_model.

Theorem gen_ReadCoilsRequestTCP_Bytes_is_model : forall tid pid u s q,
  tid < 65536 -> s < 65536 -> q < 65536 -> g_ReadCoilsRequestTCP_Bytes tid pid u s q = Ok (req_bytes_tcp tid (RRead 1 u s q)).
Proof. exact ReadCoilsRequestTCP_Bytes_eq. Qed.
Print Assumptions gen_ReadCoilsRequestTCP_Bytes_is_model.

Theorem gen_ReadCoilsRequestRTU_Bytes_is_model : forall u s q,
  s < 65536 -> q < 65536 -> g_ReadCoilsRequestRTU_Bytes u s q = Ok (req_bytes_rtu (RRead 1 u s q)).
Proof. exact ReadCoilsRequestRTU_Bytes_eq. Qed.
Print Assumptions gen_ReadCoilsRequestRTU_Bytes_is_model.

Theorem gen_ReadDiscreteInputsRequest_bytes_is_model : forall u s q buf,
  s < 65536 -> q < 65536 -> (6 <= length buf)%nat -> g_ReadDiscreteInputsRequest_bytes u s q buf = Ok (wat buf 0 (req_body (RRead 2 u s q))).
Proof. exact ReadDiscreteInputsRequest_bytes_eq. Qed.
Print Assumptions gen_ReadDiscreteInputsRequest_bytes_is_model.

Theorem gen_ReadDiscreteInputsRequest_Bytes_is_model : forall u s q,
  s < 65536 -> q < 65536 -> g_ReadDiscreteInputsRequest_Bytes u s q = Ok (req_body (RRead 2 u s q)).
Proof. exact ReadDiscreteInputsRequest_Bytes_eq. Qed.
Print Assumptions gen_ReadDiscreteInputsRequest_Bytes_is_model.

Theorem gen_ReadDiscreteInputsRequestTCP_Bytes_is_model : forall tid pid u s q,
  tid < 65536 -> s < 65536 -> q < 65536 -> g_ReadDiscreteInputsRequestTCP_Bytes tid pid u s q = Ok (req_bytes_tcp tid (RRead 2 u s q)).
Proof. exact ReadDiscreteInputsRequestTCP_Bytes_eq. Qed.
Print Assumptions gen_ReadDiscreteInputsRequestTCP_Bytes_is_model.

Theorem gen_ReadDiscreteInputsRequestRTU_Bytes_is_model : forall u s q,
  s < 65536 -> q < 65536 -> g_ReadDiscreteInputsRequestRTU_Bytes u s q = Ok (req_bytes_rtu (RRead 2 u s q)).
Proof. exact ReadDiscreteInputsRequestRTU_Bytes_eq. Qed.
Print Assumptions gen_ReadDiscreteInputsRequestRTU_Bytes_is_model.

Theorem gen_ReadHoldingRegistersRequest_bytes_is_model : forall u s q buf,
  s < 65536 -> q < 65536 -> (6 <= length buf)%nat -> g_ReadHoldingRegistersRequest_bytes u s q buf = Ok (wat buf 0 (req_body (RRead 3 u s q))).
Proof. exact ReadHoldingRegistersRequest_bytes_eq. Qed.
Print Assumptions gen_ReadHoldingRegistersRequest_bytes_is_model.

Theorem gen_ReadHoldingRegistersRequest_Bytes_is_model : forall u s q,
  s < 65536 -> q < 65536 -> g_ReadHoldingRegistersRequest_Bytes u s q = Ok (req_body (RRead 3 u s q)).
Proof. exact ReadHoldingRegistersRequest_Bytes_eq. Qed.
Print Assumptions gen_ReadHoldingRegistersRequest_Bytes_is_model.

Theorem gen_ReadHoldingRegistersRequestTCP_Bytes_is_model : forall tid pid u s q,
  tid < 65536 -> s < 65536 -> q < 65536 -> g_ReadHoldingRegistersRequestTCP_Bytes tid pid u s q = Ok (req_bytes_tcp tid (RRead 3 u s q)).
Proof. exact ReadHoldingRegistersRequestTCP_Bytes_eq. Qed.
Print Assumptions gen_ReadHoldingRegistersRequestTCP_Bytes_is_model.

Theorem gen_ReadHoldingRegistersRequestRTU_Bytes_is_model : forall u s q,
  s < 65536 -> q < 65536 -> g_ReadHoldingRegistersRequestRTU_Bytes u s q = Ok (req_bytes_rtu (RRead 3 u s q)).
Proof. exact ReadHoldingRegistersRequestRTU_Bytes_eq. Qed.
Print Assumptions gen_ReadHoldingRegistersRequestRTU_Bytes_is_model.

Theorem gen_ReadInputRegistersRequest_bytes_is_model : forall u s q buf,
  s < 65536 -> q < 65536 -> (6 <= length buf)%nat -> g_ReadInputRegistersRequest_bytes u s q buf = Ok (wat buf 0 (req_body (RRead 4 u s q))).
Proof. exact ReadInputRegistersRequest_bytes_eq. Qed.
Print Assumptions gen_ReadInputRegistersRequest_bytes_is_model.

Theorem gen_ReadInputRegistersRequest_Bytes_is_model : forall u s q,
  s < 65536 -> q < 65536 -> g_ReadInputRegistersRequest_Bytes u s q = Ok (req_body (RRead 4 u s q)).
Proof. exact ReadInputRegistersRequest_Bytes_eq. Qed.
Print Assumptions gen_ReadInputRegistersRequest_Bytes_is_model.

Theorem gen_ReadInputRegistersRequestTCP_Bytes_is_model : forall tid pid u s q,
  tid < 65536 -> s < 65536 -> q < 65536 -> g_ReadInputRegistersRequestTCP_Bytes tid pid u s q = Ok (req_bytes_tcp tid (RRead 4 u s q)).
Proof. exact ReadInputRegistersRequestTCP_Bytes_eq. Qed.
Print Assumptions gen_ReadInputRegistersRequestTCP_Bytes_is_model.

Theorem gen_ReadInputRegistersRequestRTU_Bytes_is_model : forall u s q,
  s < 65536 -> q < 65536 -> g_ReadInputRegistersRequestRTU_Bytes u s q = Ok (req_bytes_rtu (RRead 4 u s q)).
Proof. exact ReadInputRegistersRequestRTU_Bytes_eq. Qed.
Print Assumptions gen_ReadInputRegistersRequestRTU_Bytes_is_model.

Theorem gen_WriteSingleCoilRequest_bytes_is_model : forall u a st buf,
  a < 65536 -> (6 <= length buf)%nat -> g_WriteSingleCoilRequest_bytes u a st buf = Ok (wat buf 0 (req_body (RWCoil u a st))).
Proof. exact WriteSingleCoilRequest_bytes_eq. Qed.
Print Assumptions gen_WriteSingleCoilRequest_bytes_is_model.

Theorem gen_WriteSingleCoilRequest_Bytes_is_model : forall u a st,
  a < 65536 -> g_WriteSingleCoilRequest_Bytes u a st = Ok (req_body (RWCoil u a st)).
Proof. exact WriteSingleCoilRequest_Bytes_eq. Qed.
Print Assumptions gen_WriteSingleCoilRequest_Bytes_is_model.

Theorem gen_WriteSingleCoilRequestTCP_Bytes_is_model : forall tid pid u a st,
  tid < 65536 -> a < 65536 -> g_WriteSingleCoilRequestTCP_Bytes tid pid u a st = Ok (req_bytes_tcp tid (RWCoil u a st)).
Proof. exact WriteSingleCoilRequestTCP_Bytes_eq. Qed.
Print Assumptions gen_WriteSingleCoilRequestTCP_Bytes_is_model.

Theorem gen_WriteSingleCoilRequestRTU_Bytes_is_model : forall u a st,
  a < 65536 -> g_WriteSingleCoilRequestRTU_Bytes u a st = Ok (req_bytes_rtu (RWCoil u a st)).
Proof. exact WriteSingleCoilRequestRTU_Bytes_eq. Qed.
Print Assumptions gen_WriteSingleCoilRequestRTU_Bytes_is_model.

Theorem gen_WriteSingleRegisterRequest_bytes_is_model : forall u a d0 d1 buf,
  a < 65536 -> (6 <= length buf)%nat -> g_WriteSingleRegisterRequest_bytes u a [d0; d1] buf = Ok (wat buf 0 (req_body (RWReg u a d0 d1))).
Proof. exact WriteSingleRegisterRequest_bytes_eq. Qed.
Print Assumptions gen_WriteSingleRegisterRequest_bytes_is_model.

Theorem gen_WriteSingleRegisterRequest_Bytes_is_model : forall u a d0 d1,
  a < 65536 -> g_WriteSingleRegisterRequest_Bytes u a [d0; d1] = Ok (req_body (RWReg u a d0 d1)).
Proof. exact WriteSingleRegisterRequest_Bytes_eq. Qed.
Print Assumptions gen_WriteSingleRegisterRequest_Bytes_is_model.

Theorem gen_WriteSingleRegisterRequestTCP_Bytes_is_model : forall tid pid u a d0 d1,
  tid < 65536 -> a < 65536 -> g_WriteSingleRegisterRequestTCP_Bytes tid pid u a [d0; d1] = Ok (req_bytes_tcp tid (RWReg u a d0 d1)).
Proof. exact WriteSingleRegisterRequestTCP_Bytes_eq. Qed.
Print Assumptions gen_WriteSingleRegisterRequestTCP_Bytes_is_model.

Theorem gen_WriteSingleRegisterRequestRTU_Bytes_is_model : forall u a d0 d1,
  a < 65536 -> g_WriteSingleRegisterRequestRTU_Bytes u a [d0; d1] = Ok (req_bytes_rtu (RWReg u a d0 d1)).
Proof. exact WriteSingleRegisterRequestRTU_Bytes_eq. Qed.
Print Assumptions gen_WriteSingleRegisterRequestRTU_Bytes_is_model.

Theorem gen_WriteMultipleCoilsRequest_bytes_is_model : forall u s c dat buf,
  s < 65536 -> c < 65536 -> (length dat <= 255)%nat -> (7 + length dat <= length buf)%nat -> g_WriteMultipleCoilsRequest_bytes u s c dat buf = Ok (wat buf 0 (req_body (RWCoils u s c dat))).
Proof. exact WriteMultipleCoilsRequest_bytes_eq. Qed.
Print Assumptions gen_WriteMultipleCoilsRequest_bytes_is_model.

Theorem gen_WriteMultipleCoilsRequest_Bytes_is_model : forall u s c dat,
  s < 65536 -> c < 65536 -> (length dat <= 255)%nat -> g_WriteMultipleCoilsRequest_Bytes u s c dat = Ok (req_body (RWCoils u s c dat)).
Proof. exact WriteMultipleCoilsRequest_Bytes_eq. Qed.
Print Assumptions gen_WriteMultipleCoilsRequest_Bytes_is_model.

Theorem gen_WriteMultipleCoilsRequestTCP_Bytes_is_model : forall tid pid u s c dat,
  tid < 65536 -> s < 65536 -> c < 65536 -> (length dat <= 255)%nat -> g_WriteMultipleCoilsRequestTCP_Bytes tid pid u s c dat = Ok (req_bytes_tcp tid (RWCoils u s c dat)).
Proof. exact WriteMultipleCoilsRequestTCP_Bytes_eq. Qed.
Print Assumptions gen_WriteMultipleCoilsRequestTCP_Bytes_is_model.

Theorem gen_WriteMultipleCoilsRequestRTU_Bytes_is_model : forall u s c dat,
  s < 65536 -> c < 65536 -> (length dat <= 255)%nat -> g_WriteMultipleCoilsRequestRTU_Bytes u s c dat = Ok (req_bytes_rtu (RWCoils u s c dat)).
Proof. exact WriteMultipleCoilsRequestRTU_Bytes_eq. Qed.
Print Assumptions gen_WriteMultipleCoilsRequestRTU_Bytes_is_model.

Theorem gen_WriteMultipleRegistersRequest_bytes_is_model : forall u s c dat buf,
  s < 65536 -> c < 65536 -> (length dat <= 255)%nat -> (7 + length dat <= length buf)%nat -> g_WriteMultipleRegistersRequest_bytes u s c dat buf = Ok (wat buf 0 (req_body (RWRegs u s c dat))).
Proof. exact WriteMultipleRegistersRequest_bytes_eq. Qed.
Print Assumptions gen_WriteMultipleRegistersRequest_bytes_is_model.

Theorem gen_WriteMultipleRegistersRequest_Bytes_is_model : forall u s c dat,
  s < 65536 -> c < 65536 -> (length dat <= 255)%nat -> g_WriteMultipleRegistersRequest_Bytes u s c dat = Ok (req_body (RWRegs u s c dat)).
Proof. exact WriteMultipleRegistersRequest_Bytes_eq. Qed.
Print Assumptions gen_WriteMultipleRegistersRequest_Bytes_is_model.

Theorem gen_WriteMultipleRegistersRequestTCP_Bytes_is_model : forall tid pid u s c dat,
  tid < 65536 -> s < 65536 -> c < 65536 -> (length dat <= 255)%nat -> g_WriteMultipleRegistersRequestTCP_Bytes tid pid u s c dat = Ok (req_bytes_tcp tid (RWRegs u s c dat)).
Proof. exact WriteMultipleRegistersRequestTCP_Bytes_eq. Qed.
Print Assumptions gen_WriteMultipleRegistersRequestTCP_Bytes_is_model.

Theorem gen_WriteMultipleRegistersRequestRTU_Bytes_is_model : forall u s c dat,
  s < 65536 -> c < 65536 -> (length dat <= 255)%nat -> g_WriteMultipleRegistersRequestRTU_Bytes u s c dat = Ok (req_bytes_rtu (RWRegs u s c dat)).
Proof. exact WriteMultipleRegistersRequestRTU_Bytes_eq. Qed.
Print Assumptions gen_WriteMultipleRegistersRequestRTU_Bytes_is_model.

Theorem gen_ReadServerIDRequest_bytes_is_model : forall u buf,
  (2 <= length buf)%nat -> g_ReadServerIDRequest_bytes u buf = Ok (wat buf 0 (req_body (RSrvId u))).
Proof. exact ReadServerIDRequest_bytes_eq. Qed.
Print Assumptions gen_ReadServerIDRequest_bytes_is_model.

Theorem gen_ReadServerIDRequest_Bytes_is_model : forall u,
  g_ReadServerIDRequest_Bytes u = Ok (req_body (RSrvId u)).
Proof. exact ReadServerIDRequest_Bytes_eq. Qed.
Print Assumptions gen_ReadServerIDRequest_Bytes_is_model.

Theorem gen_ReadServerIDRequestTCP_Bytes_is_model : forall tid pid u,
  tid < 65536 -> g_ReadServerIDRequestTCP_Bytes tid pid u = Ok (req_bytes_tcp tid (RSrvId u)).
Proof. exact ReadServerIDRequestTCP_Bytes_eq. Qed.
Print Assumptions gen_ReadServerIDRequestTCP_Bytes_is_model.

Theorem gen_ReadServerIDRequestRTU_Bytes_is_model : forall u,
  g_ReadServerIDRequestRTU_Bytes u = Ok (req_bytes_rtu (RSrvId u)).
Proof. exact ReadServerIDRequestRTU_Bytes_eq. Qed.
Print Assumptions gen_ReadServerIDRequestRTU_Bytes_is_model.

Theorem gen_ReadWriteMultipleRegistersRequest_bytes_is_model : forall u rs rq ws wq dat buf,
  rs < 65536 -> rq < 65536 -> ws < 65536 -> wq < 65536 -> (length dat <= 255)%nat -> (11 + length dat <= length buf)%nat -> g_ReadWriteMultipleRegistersRequest_bytes u rs rq ws wq dat buf = Ok (wat buf 0 (req_body (RRW u rs rq ws wq dat))).
Proof. exact ReadWriteMultipleRegistersRequest_bytes_eq. Qed.
Print Assumptions gen_ReadWriteMultipleRegistersRequest_bytes_is_model.

Theorem gen_ReadWriteMultipleRegistersRequest_Bytes_is_model : forall u rs rq ws wq dat,
  rs < 65536 -> rq < 65536 -> ws < 65536 -> wq < 65536 -> (length dat <= 255)%nat -> g_ReadWriteMultipleRegistersRequest_Bytes u rs rq ws wq dat = Ok (req_body (RRW u rs rq ws wq dat)).
Proof. exact ReadWriteMultipleRegistersRequest_Bytes_eq. Qed.
Print Assumptions gen_ReadWriteMultipleRegistersRequest_Bytes_is_model.

Theorem gen_ReadWriteMultipleRegistersRequestTCP_Bytes_is_model : forall tid pid u rs rq ws wq dat,
  tid < 65536 -> rs < 65536 -> rq < 65536 -> ws < 65536 -> wq < 65536 -> (length dat <= 255)%nat -> g_ReadWriteMultipleRegistersRequestTCP_Bytes tid pid u rs rq ws wq dat = Ok (req_bytes_tcp tid (RRW u rs rq ws wq dat)).
Proof. exact ReadWriteMultipleRegistersRequestTCP_Bytes_eq. Qed.
Print Assumptions gen_ReadWriteMultipleRegistersRequestTCP_Bytes_is_model.

Theorem gen_ReadWriteMultipleRegistersRequestRTU_Bytes_is_model : forall u rs rq ws wq dat,
  rs < 65536 -> rq < 65536 -> ws < 65536 -> wq < 65536 -> (length dat <= 255)%nat -> g_ReadWriteMultipleRegistersRequestRTU_Bytes u rs rq ws wq dat = Ok (req_bytes_rtu (RRW u rs rq ws wq dat)).
Proof. exact ReadWriteMultipleRegistersRequestRTU_Bytes_eq. Qed.
Print Assumptions gen_ReadWriteMultipleRegistersRequestRTU_Bytes_is_model.

Theorem gen_ReadCoilsResponse_bytes_is_model : forall u bl dat buf,
  (length dat <= 255)%nat -> (3 + length dat <= length buf)%nat -> g_ReadCoilsResponse_bytes u bl dat buf = Ok (wat buf 0 (resp_body (PBytes 1 u bl dat))).
Proof. exact ReadCoilsResponse_bytes_eq. Qed.
Print Assumptions gen_ReadCoilsResponse_bytes_is_model.

Theorem gen_ReadCoilsResponse_Bytes_is_model : forall u bl dat,
  (length dat <= 255)%nat -> g_ReadCoilsResponse_Bytes u bl dat = Ok (resp_body (PBytes 1 u bl dat)).
Proof. exact ReadCoilsResponse_Bytes_eq. Qed.
Print Assumptions gen_ReadCoilsResponse_Bytes_is_model.

Theorem gen_ReadCoilsResponseTCP_Bytes_is_model : forall tid pid u bl dat,
  tid < 65536 -> (length dat <= 255)%nat -> g_ReadCoilsResponseTCP_Bytes tid pid u bl dat = Ok (resp_bytes_tcp tid (PBytes 1 u bl dat)).
Proof. exact ReadCoilsResponseTCP_Bytes_eq. Qed.
Print Assumptions gen_ReadCoilsResponseTCP_Bytes_is_model.

Theorem gen_ReadCoilsResponseRTU_Bytes_is_model : forall u bl dat,
  (length dat <= 255)%nat -> g_ReadCoilsResponseRTU_Bytes u bl dat = Ok (resp_bytes_rtu (PBytes 1 u bl dat)).
Proof. exact ReadCoilsResponseRTU_Bytes_eq. Qed.
Print Assumptions gen_ReadCoilsResponseRTU_Bytes_is_model.

Theorem gen_ReadDiscreteInputsResponse_bytes_is_model : forall u bl dat buf,
  (length dat <= 255)%nat -> (3 + length dat <= length buf)%nat -> g_ReadDiscreteInputsResponse_bytes u bl dat buf = Ok (wat buf 0 (resp_body (PBytes 2 u bl dat))).
Proof. exact ReadDiscreteInputsResponse_bytes_eq. Qed.
Print Assumptions gen_ReadDiscreteInputsResponse_bytes_is_model.

Theorem gen_ReadDiscreteInputsResponse_Bytes_is_model : forall u bl dat,
  (length dat <= 255)%nat -> g_ReadDiscreteInputsResponse_Bytes u bl dat = Ok (resp_body (PBytes 2 u bl dat)).
Proof. exact ReadDiscreteInputsResponse_Bytes_eq. Qed.
Print Assumptions gen_ReadDiscreteInputsResponse_Bytes_is_model.

Theorem gen_ReadDiscreteInputsResponseTCP_Bytes_is_model : forall tid pid u bl dat,
  tid < 65536 -> (length dat <= 255)%nat -> g_ReadDiscreteInputsResponseTCP_Bytes tid pid u bl dat = Ok (resp_bytes_tcp tid (PBytes 2 u bl dat)).
Proof. exact ReadDiscreteInputsResponseTCP_Bytes_eq. Qed.
Print Assumptions gen_ReadDiscreteInputsResponseTCP_Bytes_is_model.

Theorem gen_ReadDiscreteInputsResponseRTU_Bytes_is_model : forall u bl dat,
  (length dat <= 255)%nat -> g_ReadDiscreteInputsResponseRTU_Bytes u bl dat = Ok (resp_bytes_rtu (PBytes 2 u bl dat)).
Proof. exact ReadDiscreteInputsResponseRTU_Bytes_eq. Qed.
Print Assumptions gen_ReadDiscreteInputsResponseRTU_Bytes_is_model.

Theorem gen_ReadHoldingRegistersResponse_bytes_is_model : forall u bl dat buf,
  (3 <= length buf)%nat -> g_ReadHoldingRegistersResponse_bytes u bl dat buf = Ok (wat (wat buf 0 [u; 3; bl]) 3 dat).
Proof. exact ReadHoldingRegistersResponse_bytes_eq. Qed.
Print Assumptions gen_ReadHoldingRegistersResponse_bytes_is_model.

Theorem gen_ReadHoldingRegistersResponse_Bytes_is_model : forall u bl dat,
  bl < 256 -> g_ReadHoldingRegistersResponse_Bytes u bl dat = Ok (resp_body (PBytes 3 u bl dat)).
Proof. exact ReadHoldingRegistersResponse_Bytes_eq. Qed.
Print Assumptions gen_ReadHoldingRegistersResponse_Bytes_is_model.

Theorem gen_ReadHoldingRegistersResponseTCP_Bytes_is_model : forall tid pid u bl dat,
  tid < 65536 -> bl < 256 -> g_ReadHoldingRegistersResponseTCP_Bytes tid pid u bl dat = Ok (resp_bytes_tcp tid (PBytes 3 u bl dat)).
Proof. exact ReadHoldingRegistersResponseTCP_Bytes_eq. Qed.
Print Assumptions gen_ReadHoldingRegistersResponseTCP_Bytes_is_model.

Theorem gen_ReadHoldingRegistersResponseRTU_Bytes_is_model : forall u bl dat,
  bl < 256 -> g_ReadHoldingRegistersResponseRTU_Bytes u bl dat = Ok (resp_bytes_rtu (PBytes 3 u bl dat)).
Proof. exact ReadHoldingRegistersResponseRTU_Bytes_eq. Qed.
Print Assumptions gen_ReadHoldingRegistersResponseRTU_Bytes_is_model.

Theorem gen_ReadInputRegistersResponse_bytes_is_model : forall u bl dat buf,
  (3 <= length buf)%nat -> g_ReadInputRegistersResponse_bytes u bl dat buf = Ok (wat (wat buf 0 [u; 4; bl]) 3 dat).
Proof. exact ReadInputRegistersResponse_bytes_eq. Qed.
Print Assumptions gen_ReadInputRegistersResponse_bytes_is_model.

Theorem gen_ReadInputRegistersResponse_Bytes_is_model : forall u bl dat,
  bl < 256 -> g_ReadInputRegistersResponse_Bytes u bl dat = Ok (resp_body (PBytes 4 u bl dat)).
Proof. exact ReadInputRegistersResponse_Bytes_eq. Qed.
Print Assumptions gen_ReadInputRegistersResponse_Bytes_is_model.

Theorem gen_ReadInputRegistersResponseTCP_Bytes_is_model : forall tid pid u bl dat,
  tid < 65536 -> bl < 256 -> g_ReadInputRegistersResponseTCP_Bytes tid pid u bl dat = Ok (resp_bytes_tcp tid (PBytes 4 u bl dat)).
Proof. exact ReadInputRegistersResponseTCP_Bytes_eq. Qed.
Print Assumptions gen_ReadInputRegistersResponseTCP_Bytes_is_model.

Theorem gen_ReadInputRegistersResponseRTU_Bytes_is_model : forall u bl dat,
  bl < 256 -> g_ReadInputRegistersResponseRTU_Bytes u bl dat = Ok (resp_bytes_rtu (PBytes 4 u bl dat)).
Proof. exact ReadInputRegistersResponseRTU_Bytes_eq. Qed.
Print Assumptions gen_ReadInputRegistersResponseRTU_Bytes_is_model.

Theorem gen_ReadWriteMultipleRegistersResponse_bytes_is_model : forall u bl dat buf,
  (3 <= length buf)%nat -> g_ReadWriteMultipleRegistersResponse_bytes u bl dat buf = Ok (wat (wat buf 0 [u; 23; bl]) 3 dat).
Proof. exact ReadWriteMultipleRegistersResponse_bytes_eq. Qed.
Print Assumptions gen_ReadWriteMultipleRegistersResponse_bytes_is_model.

Theorem gen_ReadWriteMultipleRegistersResponse_Bytes_is_model : forall u bl dat,
  bl < 256 -> g_ReadWriteMultipleRegistersResponse_Bytes u bl dat = Ok (resp_body (PBytes 23 u bl dat)).
Proof. exact ReadWriteMultipleRegistersResponse_Bytes_eq. Qed.
Print Assumptions gen_ReadWriteMultipleRegistersResponse_Bytes_is_model.

Theorem gen_ReadWriteMultipleRegistersResponseTCP_Bytes_is_model : forall tid pid u bl dat,
  tid < 65536 -> bl < 256 -> g_ReadWriteMultipleRegistersResponseTCP_Bytes tid pid u bl dat = Ok (resp_bytes_tcp tid (PBytes 23 u bl dat)).
Proof. exact ReadWriteMultipleRegistersResponseTCP_Bytes_eq. Qed.
Print Assumptions gen_ReadWriteMultipleRegistersResponseTCP_Bytes_is_model.

Theorem gen_ReadWriteMultipleRegistersResponseRTU_Bytes_is_model : forall u bl dat,
  bl < 256 -> g_ReadWriteMultipleRegistersResponseRTU_Bytes u bl dat = Ok (resp_bytes_rtu (PBytes 23 u bl dat)).
Proof. exact ReadWriteMultipleRegistersResponseRTU_Bytes_eq. Qed.
Print Assumptions gen_ReadWriteMultipleRegistersResponseRTU_Bytes_is_model.

Theorem gen_WriteSingleCoilResponse_bytes_is_model : forall u a st buf,
  a < 65536 -> (6 <= length buf)%nat -> g_WriteSingleCoilResponse_bytes u a st buf = Ok (wat buf 0 (resp_body (PWCoil u a st))).
Proof. exact WriteSingleCoilResponse_bytes_eq. Qed.
Print Assumptions gen_WriteSingleCoilResponse_bytes_is_model.

Theorem gen_WriteSingleCoilResponse_Bytes_is_model : forall u a st,
  a < 65536 -> g_WriteSingleCoilResponse_Bytes u a st = Ok (resp_body (PWCoil u a st)).
Proof. exact WriteSingleCoilResponse_Bytes_eq. Qed.
Print Assumptions gen_WriteSingleCoilResponse_Bytes_is_model.

Theorem gen_WriteSingleCoilResponseTCP_Bytes_is_model : forall tid pid u a st,
  tid < 65536 -> a < 65536 -> g_WriteSingleCoilResponseTCP_Bytes tid pid u a st = Ok (resp_bytes_tcp tid (PWCoil u a st)).
Proof. exact WriteSingleCoilResponseTCP_Bytes_eq. Qed.
Print Assumptions gen_WriteSingleCoilResponseTCP_Bytes_is_model.

Theorem gen_WriteSingleCoilResponseRTU_Bytes_is_model : forall u a st,
  a < 65536 -> g_WriteSingleCoilResponseRTU_Bytes u a st = Ok (resp_bytes_rtu (PWCoil u a st)).
Proof. exact WriteSingleCoilResponseRTU_Bytes_eq. Qed.
Print Assumptions gen_WriteSingleCoilResponseRTU_Bytes_is_model.

Theorem gen_WriteSingleRegisterResponse_bytes_is_model : forall u a d0 d1 buf,
  a < 65536 -> (6 <= length buf)%nat -> g_WriteSingleRegisterResponse_bytes u a [d0; d1] buf = Ok (wat buf 0 (resp_body (PWReg u a d0 d1))).
Proof. exact WriteSingleRegisterResponse_bytes_eq. Qed.
Print Assumptions gen_WriteSingleRegisterResponse_bytes_is_model.

Theorem gen_WriteSingleRegisterResponse_Bytes_is_model : forall u a d0 d1,
  a < 65536 -> g_WriteSingleRegisterResponse_Bytes u a [d0; d1] = Ok (resp_body (PWReg u a d0 d1)).
Proof. exact WriteSingleRegisterResponse_Bytes_eq. Qed.
Print Assumptions gen_WriteSingleRegisterResponse_Bytes_is_model.

Theorem gen_WriteSingleRegisterResponseTCP_Bytes_is_model : forall tid pid u a d0 d1,
  tid < 65536 -> a < 65536 -> g_WriteSingleRegisterResponseTCP_Bytes tid pid u a [d0; d1] = Ok (resp_bytes_tcp tid (PWReg u a d0 d1)).
Proof. exact WriteSingleRegisterResponseTCP_Bytes_eq. Qed.
Print Assumptions gen_WriteSingleRegisterResponseTCP_Bytes_is_model.

Theorem gen_WriteSingleRegisterResponseRTU_Bytes_is_model : forall u a d0 d1,
  a < 65536 -> g_WriteSingleRegisterResponseRTU_Bytes u a [d0; d1] = Ok (resp_bytes_rtu (PWReg u a d0 d1)).
Proof. exact WriteSingleRegisterResponseRTU_Bytes_eq. Qed.
Print Assumptions gen_WriteSingleRegisterResponseRTU_Bytes_is_model.

Theorem gen_WriteMultipleCoilsResponse_bytes_is_model : forall u s c buf,
  s < 65536 -> c < 65536 -> (6 <= length buf)%nat -> g_WriteMultipleCoilsResponse_bytes u s c buf = Ok (wat buf 0 (resp_body (PWMulti 15 u s c))).
Proof. exact WriteMultipleCoilsResponse_bytes_eq. Qed.
Print Assumptions gen_WriteMultipleCoilsResponse_bytes_is_model.

Theorem gen_WriteMultipleCoilsResponse_Bytes_is_model : forall u s c,
  s < 65536 -> c < 65536 -> g_WriteMultipleCoilsResponse_Bytes u s c = Ok (resp_body (PWMulti 15 u s c)).
Proof. exact WriteMultipleCoilsResponse_Bytes_eq. Qed.
Print Assumptions gen_WriteMultipleCoilsResponse_Bytes_is_model.

Theorem gen_WriteMultipleCoilsResponseTCP_Bytes_is_model : forall tid pid u s c,
  tid < 65536 -> s < 65536 -> c < 65536 -> g_WriteMultipleCoilsResponseTCP_Bytes tid pid u s c = Ok (resp_bytes_tcp tid (PWMulti 15 u s c)).
Proof. exact WriteMultipleCoilsResponseTCP_Bytes_eq. Qed.
Print Assumptions gen_WriteMultipleCoilsResponseTCP_Bytes_is_model.

Theorem gen_WriteMultipleCoilsResponseRTU_Bytes_is_model : forall u s c,
  s < 65536 -> c < 65536 -> g_WriteMultipleCoilsResponseRTU_Bytes u s c = Ok (resp_bytes_rtu (PWMulti 15 u s c)).
Proof. exact WriteMultipleCoilsResponseRTU_Bytes_eq. Qed.
Print Assumptions gen_WriteMultipleCoilsResponseRTU_Bytes_is_model.

Theorem gen_WriteMultipleRegistersResponse_bytes_is_model : forall u s c buf,
  s < 65536 -> c < 65536 -> (6 <= length buf)%nat -> g_WriteMultipleRegistersResponse_bytes u s c buf = Ok (wat buf 0 (resp_body (PWMulti 16 u s c))).
Proof. exact WriteMultipleRegistersResponse_bytes_eq. Qed.
Print Assumptions gen_WriteMultipleRegistersResponse_bytes_is_model.

Theorem gen_WriteMultipleRegistersResponse_Bytes_is_model : forall u s c,
  s < 65536 -> c < 65536 -> g_WriteMultipleRegistersResponse_Bytes u s c = Ok (resp_body (PWMulti 16 u s c)).
Proof. exact WriteMultipleRegistersResponse_Bytes_eq. Qed.
Print Assumptions gen_WriteMultipleRegistersResponse_Bytes_is_model.

Theorem gen_WriteMultipleRegistersResponseTCP_Bytes_is_model : forall tid pid u s c,
  tid < 65536 -> s < 65536 -> c < 65536 -> g_WriteMultipleRegistersResponseTCP_Bytes tid pid u s c = Ok (resp_bytes_tcp tid (PWMulti 16 u s c)).
Proof. exact WriteMultipleRegistersResponseTCP_Bytes_eq. Qed.
Print Assumptions gen_WriteMultipleRegistersResponseTCP_Bytes_is_model.

Theorem gen_WriteMultipleRegistersResponseRTU_Bytes_is_model : forall u s c,
  s < 65536 -> c < 65536 -> g_WriteMultipleRegistersResponseRTU_Bytes u s c = Ok (resp_bytes_rtu (PWMulti 16 u s c)).
Proof. exact WriteMultipleRegistersResponseRTU_Bytes_eq. Qed.
Print Assumptions gen_WriteMultipleRegistersResponseRTU_Bytes_is_model.

Theorem gen_ReadServerIDResponse_bytes_is_model : forall u st id add isnil buf,
  (length id <= 255)%nat -> (length add <= 255)%nat -> (isnil = true -> add = []) -> (4 + length id + length add <= length buf)%nat -> g_ReadServerIDResponse_bytes u st id add isnil buf = Ok (wat buf 0 (resp_body (PSrvId u st id add))).
Proof. exact ReadServerIDResponse_bytes_eq. Qed.
Print Assumptions gen_ReadServerIDResponse_bytes_is_model.

Theorem gen_ReadServerIDResponse_Bytes_is_model : forall u st id add isnil,
  (length id <= 255)%nat -> (length add <= 255)%nat -> (isnil = true -> add = []) -> g_ReadServerIDResponse_Bytes u st id add isnil = Ok (resp_body (PSrvId u st id add)).
Proof. exact ReadServerIDResponse_Bytes_eq. Qed.
Print Assumptions gen_ReadServerIDResponse_Bytes_is_model.

Theorem gen_ReadServerIDResponseTCP_Bytes_is_model : forall tid pid u st id add isnil,
  tid < 65536 -> (length id <= 255)%nat -> (length add <= 255)%nat -> (isnil = true -> add = []) -> g_ReadServerIDResponseTCP_Bytes tid pid u st id add isnil = Ok (resp_bytes_tcp tid (PSrvId u st id add)).
Proof. exact ReadServerIDResponseTCP_Bytes_eq. Qed.
Print Assumptions gen_ReadServerIDResponseTCP_Bytes_is_model.

Theorem gen_ReadServerIDResponseRTU_Bytes_is_model : forall u st id add isnil,
  (length id <= 255)%nat -> (length add <= 255)%nat -> (isnil = true -> add = []) -> g_ReadServerIDResponseRTU_Bytes u st id add isnil = Ok (resp_bytes_rtu (PSrvId u st id add)).
Proof. exact ReadServerIDResponseRTU_Bytes_eq. Qed.
Print Assumptions gen_ReadServerIDResponseRTU_Bytes_is_model.

Theorem gen_WriteMultipleCoilsRequest_len_is_model : forall u s c dat,
  s < 65536 -> c < 65536 -> (length dat <= 255)%nat -> g_WriteMultipleCoilsRequest_len u s c dat = req_len16 (RWCoils u s c dat).
Proof. exact WriteMultipleCoilsRequest_len_model. Qed.
Print Assumptions gen_WriteMultipleCoilsRequest_len_is_model.

Theorem gen_WriteMultipleRegistersRequest_len_is_model : forall u s c dat,
  s < 65536 -> c < 65536 -> (length dat <= 255)%nat -> g_WriteMultipleRegistersRequest_len u s c dat = req_len16 (RWRegs u s c dat).
Proof. exact WriteMultipleRegistersRequest_len_model. Qed.
Print Assumptions gen_WriteMultipleRegistersRequest_len_is_model.

Theorem gen_ReadWriteMultipleRegistersRequest_len_is_model : forall u rs rq ws wq dat,
  rs < 65536 -> rq < 65536 -> ws < 65536 -> wq < 65536 -> (length dat <= 255)%nat -> g_ReadWriteMultipleRegistersRequest_len u rs rq ws wq dat = req_len16 (RRW u rs rq ws wq dat).
Proof. exact ReadWriteMultipleRegistersRequest_len_model. Qed.
Print Assumptions gen_ReadWriteMultipleRegistersRequest_len_is_model.

Theorem gen_ReadCoilsResponse_len_is_model : forall u bl dat,
  (length dat <= 255)%nat -> g_ReadCoilsResponse_len u bl dat = resp_len16 (PBytes 1 u bl dat).
Proof. exact ReadCoilsResponse_len_model. Qed.
Print Assumptions gen_ReadCoilsResponse_len_is_model.

Theorem gen_ReadDiscreteInputsResponse_len_is_model : forall u bl dat,
  (length dat <= 255)%nat -> g_ReadDiscreteInputsResponse_len u bl dat = resp_len16 (PBytes 2 u bl dat).
Proof. exact ReadDiscreteInputsResponse_len_model. Qed.
Print Assumptions gen_ReadDiscreteInputsResponse_len_is_model.

Theorem gen_ReadHoldingRegistersResponse_len_is_model : forall u bl dat,
  bl < 256 -> g_ReadHoldingRegistersResponse_len u bl dat = resp_len16 (PBytes 3 u bl dat).
Proof. exact ReadHoldingRegistersResponse_len_model. Qed.
Print Assumptions gen_ReadHoldingRegistersResponse_len_is_model.

Theorem gen_ReadInputRegistersResponse_len_is_model : forall u bl dat,
  bl < 256 -> g_ReadInputRegistersResponse_len u bl dat = resp_len16 (PBytes 4 u bl dat).
Proof. exact ReadInputRegistersResponse_len_model. Qed.
Print Assumptions gen_ReadInputRegistersResponse_len_is_model.

Theorem gen_ReadWriteMultipleRegistersResponse_len_is_model : forall u bl dat,
  bl < 256 -> g_ReadWriteMultipleRegistersResponse_len u bl dat = resp_len16 (PBytes 23 u bl dat).
Proof. exact ReadWriteMultipleRegistersResponse_len_model. Qed.
Print Assumptions gen_ReadWriteMultipleRegistersResponse_len_is_model.

Theorem gen_ReadServerIDResponse_len_is_model : forall u st id add isnil,
  (length id <= 255)%nat -> (length add <= 255)%nat -> (isnil = true -> add = []) -> g_ReadServerIDResponse_len u st id add isnil = resp_len16 (PSrvId u st id add).
Proof. exact ReadServerIDResponse_len_model. Qed.
Print Assumptions gen_ReadServerIDResponse_len_is_model.

Theorem gen_isBitSet_is_model : forall d s b,
  g_isBitSet d s b = bit_res (is_bit_set (vis d) s b).
Proof. exact isBitSet_eq. Qed.
Print Assumptions gen_isBitSet_is_model.

Theorem gen_CoilsToBytes_is_model : forall coils,
  g_CoilsToBytes coils = Ok (coils_to_bytes coils).
Proof. exact CoilsToBytes_eq. Qed.
Print Assumptions gen_CoilsToBytes_is_model.
