(* C15 -- the TCP server answers each request exactly once and in order, whatever the segmentation
   of the byte stream into reads.

   Model: ServerModel.v (drain = the loop of ModbusTCPAssembler.ReceiveRead, receive_read, conn_read
   = one turn of connection.handle, conn_run = the connection over a list of read chunks; the
   handler is an argument).  Proofs: proofs/ServerAbstract.v (from three classifier facts only),
   proofs/ServerPacketFacts.v, proofs/ServerProofs.v, proofs/ServerRoundTrip.v.
   [asm_read handler conn_init bytes] is a fresh connection whose first read delivers [bytes]. *)
Require Import MB.GoSem MB.CrcModel MB.PacketModel MB.Spec MB.ServerModel MB.ServerSpec MB.DispServer.
Require Import MB.proofs.ReqRoundTrip.
Require Import MB.proofs.ServerAbstract MB.proofs.ServerPacketFacts MB.proofs.ServerProofs MB.proofs.ServerRoundTrip.
Open Scope N_scope.

(* ---------- the fuel of the drain loop ---------- *)
(* more fuel than the buffer is long never changes the result ... *)
Theorem C15_fuel_irrelevant : forall handler f1 f2 b out,
  (length b < f1)%nat -> (length b < f2)%nat -> drain handler f1 b out = drain handler f2 b out.
Proof. exact fuel_irrelevant. Qed.
Print Assumptions C15_fuel_irrelevant.

(* ... and the fuel ReceiveRead's model uses is never exhausted *)
Theorem C15_fuel_sufficient : forall handler buf chunk,
  r_status (receive_read handler buf chunk) <> OutOfFuel.
Proof. exact fuel_sufficient. Qed.
Print Assumptions C15_fuel_sufficient.

(* ---------- (i) segmentation independence ---------- *)
(* for ANY stream classifier and frame handler, from three facts about the classifier: fewer than
   8 bytes are too short; the verdict depends on the first 8 bytes only; accepted lengths are at
   least 8.  Every chunking of every byte stream ends in the state of one read of the whole. *)
Theorem C15_segmentation_independent_abstract :
  forall (looks : list N -> averdict) (ahandle : list N -> option (list N)),
  (forall b, (length b < 8)%nat -> looks b = AShort) ->
  (forall b c, (8 <= length b)%nat -> looks (b ++ c) = looks b) ->
  (forall b n, looks b = AFrame n -> (8 <= n)%nat) ->
  forall chunks,
  c_status (awhole looks ahandle (concat chunks)) <> Panicked ->
  aconn_run looks ahandle chunks = awhole looks ahandle (concat chunks).
Proof. exact segmentation_independent. Qed.
Print Assumptions C15_segmentation_independent_abstract.

(* the three facts hold of the model of packet.LooksLikeModbusTCP on the buffered bytes *)
Theorem C15_classifier_too_short : forall b allow,
  (length b < 8)%nat -> looks_like (exact b) allow = Ok (0, Some ETooShortTCP).
Proof. exact looks_exact_short. Qed.
Print Assumptions C15_classifier_too_short.
Theorem C15_classifier_first_8_bytes_decide : forall b c allow,
  (8 <= length b)%nat -> looks_like (exact (b ++ c)) allow = looks_like (exact b) allow.
Proof. exact looks_exact_prefix. Qed.
Print Assumptions C15_classifier_first_8_bytes_decide.
Theorem C15_classifier_lengths_at_least_8 : forall b n e,
  looks_like (exact b) false = Ok (n, e) -> n <> 0 -> 8 <= n.
Proof. exact looks_exact_min. Qed.
Print Assumptions C15_classifier_lengths_at_least_8.

(* the model's loop is the abstract loop for that classifier and the model's frame handler *)
Theorem C15_model_refines_abstract : forall handler fuel b out,
  drain handler fuel b out = adrain looks_c (handle_c handler) fuel b out.
Proof. exact drain_refines. Qed.
Print Assumptions C15_model_refines_abstract.

(* hence, for the model: if one read of all the bytes does not end in a handler panic, EVERY
   segmentation of EVERY byte stream (chunks may be empty: read timeouts) leaves the connection in
   exactly the same state -- same bytes written, same buffered rest, same open/closed status *)
Theorem C15_segmentation_independent : forall handler chunks,
  c_status (asm_read handler conn_init (concat chunks)) <> Panicked ->
  conn_run handler chunks = asm_read handler conn_init (concat chunks).
Proof. exact seg_independent. Qed.
Print Assumptions C15_segmentation_independent.

(* the same with the hypothesis on the segmented run *)
Theorem C15_segmentation_independent_run : forall handler chunks,
  c_status (conn_run handler chunks) <> Panicked ->
  conn_run handler chunks = asm_read handler conn_init (concat chunks).
Proof. exact seg_independent_run. Qed.
Print Assumptions C15_segmentation_independent_run.

(* with a total handler there is no panic at all (classifier, parsers and the two type
   assertions never panic), so the statement is unconditional *)
Theorem C15_segmentation_independent_total_handler : forall handler,
  (forall p, handler p <> HPanic) ->
  forall chunks, conn_run handler chunks = asm_read handler conn_init (concat chunks).
Proof. exact seg_independent_total. Qed.
Print Assumptions C15_segmentation_independent_total_handler.

(* a read that returns bytes together with os.ErrDeadlineExceeded is a read of those bytes: the
   connection over read events (chunk, came-with-deadline-error) is the connection over the chunks,
   so every statement of this file holds for every mix of (n, nil), (n, deadline), (0, deadline) *)
Theorem C15_deadline_error_with_data_is_data : forall handler events,
  conn_run_ev handler events = conn_run handler (map fst events).
Proof. exact conn_run_ev_eq. Qed.
Print Assumptions C15_deadline_error_with_data_is_data.

(* ---------- (ii) one read of a whole stream ---------- *)
(* one read of the library's encodings of any requests ([encodable]: see ServerPacketFacts),
   followed by a proper prefix of another one, emits the reply to each frame in order, keeps
   exactly the incomplete rest and leaves the connection open *)
Theorem C15_one_read_answers_every_frame : forall handler,
  (forall p, handler p <> HPanic) ->
  forall reqs partial,
  Forall (fun tr => encodable (snd tr)) reqs ->
  (partial = [] \/ exists tr rest, encodable (snd tr) /\ partial ++ rest = frame_of tr /\ rest <> []) ->
  asm_read handler conn_init (concat (map frame_of reqs) ++ partial) =
    {| c_buf := partial; c_written := concat (map (reply_of handler) (map frame_of reqs)); c_status := Open |}.
Proof. exact whole_frames. Qed.
Print Assumptions C15_one_read_answers_every_frame.

(* the reply to the encoding of a legal request is the handler's answer to exactly that request *)
Theorem C15_reply_is_the_handlers_answer : forall handler tid r,
  tid < 65536 -> req_rt_ok r ->
  reply_of handler (frame_of (tid, r)) = wire_reply tid r (handler (tid, r)).
Proof. exact reply_of_legal. Qed.
Print Assumptions C15_reply_is_the_handlers_answer.

(* ---------- combined: the statement of C15 ---------- *)
(* for every sequence of request frames, every segmentation of their concatenation into reads and
   every k: after the first k reads the bytes written are exactly the replies to the frames that
   are complete within the bytes read so far (count_complete), in order -- nothing early, nothing
   late, nothing twice, whatever the segmentation -- the rest is buffered and the connection is open *)
Theorem C15_replies_after_each_read : forall handler,
  (forall p, handler p <> HPanic) ->
  forall reqs chunks k,
  Forall (fun tr => encodable (snd tr)) reqs ->
  concat chunks = concat (map frame_of reqs) ->
  let frames := map frame_of reqs in
  let seen := concat (firstn k chunks) in
  let j := count_complete frames (length seen) in
  exists partial,
    seen = concat (firstn j frames) ++ partial /\
    conn_run handler (firstn k chunks) =
      {| c_buf := partial; c_written := concat (map (reply_of handler) (firstn j frames)); c_status := Open |}.
Proof. exact replies_after_each_read. Qed.
Print Assumptions C15_replies_after_each_read.

(* ---------- non-vacuity ---------- *)
(* the handler of the correspondence harness, made total *)
Definition demo_handler (p : N * req) : handler_result :=
  match script_handler 0 p with HPanic => HErrGeneric | x => x end.
Example C15_demo_handler_total : forall p, demo_handler p <> HPanic.
Proof. intros p. unfold demo_handler. destruct (script_handler 0 p); discriminate. Qed.

Definition fc3_request : list N := [0x12; 0x30; 0; 0; 0; 6; 1; 3; 0; 0x6B; 0; 3].
Definition fc3_reply : list N := [0x12; 0x30; 0; 0; 0; 9; 1; 3; 6; 0x6B; 0x6C; 0x6D; 0x6E; 0x6F; 0x70].

(* a 12-byte FC3 request cut 9 + 3 (the pinned tree answered after 9 bytes): nothing is written
   after the first read, the reply after the second; same state as one read of the 12 bytes *)
Example C15_request_cut_9_3 :
  conn_run demo_handler [firstn 9 fc3_request] = {| c_buf := firstn 9 fc3_request; c_written := []; c_status := Open |} /\
  conn_run demo_handler [firstn 9 fc3_request; skipn 9 fc3_request] = {| c_buf := []; c_written := fc3_reply; c_status := Open |} /\
  asm_read demo_handler conn_init fc3_request = {| c_buf := []; c_written := fc3_reply; c_status := Open |}.
Proof. vm_compute. repeat split; reflexivity. Qed.

(* two pipelined requests in one read (the pinned tree answered only the first), and byte by byte *)
Example C15_two_pipelined_requests :
  let second := [0x12; 0x31] ++ skipn 2 fc3_request in
  let reply2 := [0x12; 0x31] ++ skipn 2 fc3_reply in
  conn_run demo_handler [fc3_request ++ second] = {| c_buf := []; c_written := fc3_reply ++ reply2; c_status := Open |} /\
  conn_run demo_handler (map (fun b => [b]) (fc3_request ++ second)) =
    {| c_buf := []; c_written := fc3_reply ++ reply2; c_status := Open |}.
Proof. vm_compute. repeat split; reflexivity. Qed.

(* the library's Read Server ID request (the pinned classifier rejected it) *)
Example C15_fc17_request :
  frame_of (1, RSrvId 1) = [0; 1; 0; 0; 0; 2; 1; 17] /\
  conn_run demo_handler [[0; 1; 0; 0]; [0; 2; 1; 17]] =
    {| c_buf := []; c_written := [0; 1; 0; 0; 0; 7; 1; 17; 2; 0x56; 0x46; 255; 1]; c_status := Open |}.
Proof. vm_compute. repeat split; reflexivity. Qed.

(* the hypotheses of C15_replies_after_each_read are satisfiable, and its conclusion is not trivial *)
Example C15_hypotheses_satisfiable :
  let reqs := [(0x1230, RRead 3 1 0x6B 3); (1, RSrvId 1); (0x0203, RWRegs 9 16 1 [0xAB; 0xCD])] in
  let chunks := [[0x12; 0x30; 0; 0; 0; 6; 1; 3; 0]; []; [0x6B; 0; 3; 0; 1; 0; 0; 0; 2; 1; 17; 2; 3];
                 [0; 0; 0; 9; 9; 16; 0; 16; 0; 1; 2; 0xAB; 0xCD]] in
  Forall (fun tr => encodable (snd tr)) reqs /\
  Forall (fun tr => fst tr < 65536 /\ req_rt_ok (snd tr)) reqs /\
  concat chunks = concat (map frame_of reqs) /\
  map (fun k => count_complete (map frame_of reqs) (length (concat (firstn k chunks)))) [0; 1; 2; 3; 4]%nat
    = [0; 0; 0; 2; 3]%nat /\
  c_written (conn_run demo_handler (firstn 3 chunks)) =
    fc3_reply ++ [0; 1; 0; 0; 0; 7; 1; 17; 2; 0x56; 0x46; 255; 1].
Proof.
  cbv zeta. split; [|split; [|split; [|split]]].
  - repeat constructor; cbn; lia.
  - repeat constructor; cbn; try lia.
  - vm_compute. reflexivity.
  - vm_compute. reflexivity.
  - vm_compute. reflexivity.
Qed.

(* the Panicked exclusion in C15_segmentation_independent is needed: when the handler panics on
   the second of two requests, the reply to the first one is on the wire if it arrived in an
   earlier read, and lost with the panic if both arrived together (in both cases the connection
   ends).  C15 is stated for total handlers. *)
Example C15_panic_is_excluded_for_a_reason :
  let second := [0x12; 0x36] ++ skipn 2 fc3_request in   (* transaction id with scripted class 6: panic *)
  conn_run (script_handler 0) [fc3_request; second] = {| c_buf := []; c_written := fc3_reply; c_status := Panicked |} /\
  conn_run (script_handler 0) [fc3_request ++ second] = {| c_buf := []; c_written := []; c_status := Panicked |}.
Proof. vm_compute. repeat split; reflexivity. Qed.
