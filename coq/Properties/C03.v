(* C03 -- CRC-16 equals the Modbus CRC for every message and is enforced on RTU frames. *)
Require Import MB.GoSem MB.CrcModel MB.CrcSpec MB.proofs.CrcProofs.
Open Scope N_scope.

(* (a) the checksum function is the CRC of the serial-line specification (reflected polynomial
   0xA001, initial value 0xFFFF, processed LSB first) for every byte string of every length *)
Theorem C03_crc16_is_modbus_crc :
  forall l, bytes_ok l -> crc16 l = spec_crc16 l /\ crc16 l < 65536.
Proof. exact crc16_is_spec. Qed.
Print Assumptions C03_crc16_is_modbus_crc.

(* the two bytes appended to a frame are the specified trailer, low-order byte first *)
Theorem C03_trailer_low_byte_first :
  forall l, bytes_ok l -> crc_trailer l = spec_trailer l.
Proof. exact trailer_is_spec. Qed.
Print Assumptions C03_trailer_low_byte_first.

(* sanity: the check value of CRC-16/MODBUS and the example of the specification's appendix *)
Example C03_check_value : crc16 [49;50;51;52;53;54;55;56;57] = 0x4B37.
Proof. vm_compute. reflexivity. Qed.
Example C03_spec_check_value : spec_crc16 [49;50;51;52;53;54;55;56;57] = 0x4B37.
Proof. vm_compute. reflexivity. Qed.
Example C03_doc_frame : crc_trailer [0x01; 0x04; 0x02; 0xFF; 0xFF] = [0xB8; 0x80].
Proof. vm_compute. reflexivity. Qed.
