(* C03 -- CRC-16 equals the Modbus CRC for every message and is enforced on RTU frames. *)
Require Import MB.GoSem MB.CrcModel MB.CrcSpec MB.proofs.CrcProofs.
Open Scope N_scope.

(* (a) the checksum function is the CRC of the serial-line specification (reflected polynomial
   0xA001, initial value 0xFFFF, processed LSB first) for every byte string of every length *)
Theorem C03_crc16_is_modbus_crc :
  forall l, bytes_ok l -> crc16 l = spec_crc16 l /\ crc16 l < 65536.
Proof. exact crc16_is_spec. Qed.
Print Assumptions C03_crc16_is_modbus_crc.

(* the two bytes appended to a frame are the specified trailer, low-order byte first *)
Theorem C03_trailer_low_byte_first :
  forall l, bytes_ok l -> crc_trailer l = spec_trailer l.
Proof. exact trailer_is_spec. Qed.
Print Assumptions C03_trailer_low_byte_first.

(* sanity: the check value of CRC-16/MODBUS and the example of the specification's appendix *)
Example C03_check_value : crc16 [49;50;51;52;53;54;55;56;57] = 0x4B37.
Proof. vm_compute. reflexivity. Qed.
Example C03_spec_check_value : spec_crc16 [49;50;51;52;53;54;55;56;57] = 0x4B37.
Proof. vm_compute. reflexivity. Qed.
Example C03_doc_frame : crc_trailer [0x01; 0x04; 0x02; 0xFF; 0xFF] = [0xB8; 0x80].
Proof. vm_compute. reflexivity. Qed.

(* ---------------------------------------------------------------------------------------------- *)
(* (b), (c): frames.  Proofs in proofs/CrcFrameProofs.v.                                           *)
(* ---------------------------------------------------------------------------------------------- *)
Require Import MB.Spec MB.PacketModel MB.proofs.CrcFrameProofs.

(* (b) every RTU frame the model encoders emit -- request, response, exception -- is the body
   followed by the CRC of the body, low byte first; unconditionally for the code's own CRC16 ... *)
Theorem C03_request_frames_end_in_crc : forall r,
  req_bytes_rtu r = req_body r ++ [crc16 (req_body r) mod 256; (crc16 (req_body r) / 256) mod 256].
Proof. exact req_rtu_crc. Qed.
Print Assumptions C03_request_frames_end_in_crc.

Theorem C03_response_frames_end_in_crc : forall p,
  resp_bytes_rtu p = resp_body p ++ [crc16 (resp_body p) mod 256; (crc16 (resp_body p) / 256) mod 256].
Proof. exact resp_rtu_crc. Qed.
Print Assumptions C03_response_frames_end_in_crc.

Theorem C03_exception_frames_end_in_crc : forall u f c,
  exc_bytes_rtu u f c =
    [u; add8 f 128; c] ++ [crc16 [u; add8 f 128; c] mod 256; (crc16 [u; add8 f 128; c] / 256) mod 256].
Proof. exact exc_rtu_crc. Qed.
Print Assumptions C03_exception_frames_end_in_crc.

(* ... and, for packets whose fields have their Go types (uint8 / uint16 / []byte: [req_fields_ok],
   [resp_fields_ok]), that is the trailer of the serial-line specification: the last two bytes of
   the frame are the specified CRC of all the bytes before them ([ends_in_crc]) *)
Theorem C03_request_frames_spec_crc : forall r, req_fields_ok r ->
  req_bytes_rtu r = req_body r ++ spec_trailer (req_body r) /\ ends_in_crc (req_bytes_rtu r).
Proof. exact req_rtu_spec_crc. Qed.
Print Assumptions C03_request_frames_spec_crc.

Theorem C03_response_frames_spec_crc : forall p, resp_fields_ok p ->
  resp_bytes_rtu p = resp_body p ++ spec_trailer (resp_body p) /\ ends_in_crc (resp_bytes_rtu p).
Proof. exact resp_rtu_spec_crc. Qed.
Print Assumptions C03_response_frames_spec_crc.

Theorem C03_exception_frames_spec_crc : forall u f c, u < 256 -> c < 256 ->
  exc_bytes_rtu u f c = [u; add8 f 128; c] ++ spec_trailer [u; add8 f 128; c] /\
  ends_in_crc (exc_bytes_rtu u f c).
Proof. exact exc_rtu_spec_crc. Qed.
Print Assumptions C03_exception_frames_spec_crc.

Theorem C03_exception_frame_is_spec_adu : forall u f c, u < 256 -> f < 128 -> c < 256 ->
  exc_bytes_rtu u f c = exception_adu_rtu u f c.
Proof. exact exc_rtu_is_spec. Qed.
Print Assumptions C03_exception_frame_is_spec_adu.

(* (c) the CRC-verifying entry points: for every slice with at least 4 visible bytes (whatever its
   spare capacity) the frame is refused with ErrInvalidCRC if and only if its last two bytes
   ([frame_trailer]) differ from the CRC of the rest ([frame_front]); otherwise the result is that
   of the non-verifying dispatcher on the same slice *)
Theorem C03_request_crc_enforced : forall d,
  bytes_ok (vis d) -> (4 <= slen d)%nat ->
  (parse_rtu_request_crc d = Err EInvalidCRC <-> frame_trailer d <> crc_trailer (frame_front d)) /\
  (frame_trailer d = crc_trailer (frame_front d) -> parse_rtu_request_crc d = parse_rtu_request d).
Proof. exact request_crc_enforced. Qed.
Print Assumptions C03_request_crc_enforced.

Theorem C03_response_crc_enforced : forall d,
  bytes_ok (vis d) -> (4 <= slen d)%nat ->
  (parse_rtu_response_crc d = Err EInvalidCRC <-> frame_trailer d <> crc_trailer (frame_front d)) /\
  (frame_trailer d = crc_trailer (frame_front d) -> parse_rtu_response_crc d = parse_rtu_response d).
Proof. exact response_crc_enforced. Qed.
Print Assumptions C03_response_crc_enforced.

(* the same against the specification's trailer *)
Theorem C03_request_crc_enforced_spec : forall d,
  bytes_ok (vis d) -> (4 <= slen d)%nat ->
  (parse_rtu_request_crc d = Err EInvalidCRC <-> frame_trailer d <> spec_trailer (frame_front d)) /\
  (frame_trailer d = spec_trailer (frame_front d) -> parse_rtu_request_crc d = parse_rtu_request d).
Proof. exact request_crc_enforced_spec. Qed.
Print Assumptions C03_request_crc_enforced_spec.

Theorem C03_response_crc_enforced_spec : forall d,
  bytes_ok (vis d) -> (4 <= slen d)%nat ->
  (parse_rtu_response_crc d = Err EInvalidCRC <-> frame_trailer d <> spec_trailer (frame_front d)) /\
  (frame_trailer d = spec_trailer (frame_front d) -> parse_rtu_response_crc d = parse_rtu_response d).
Proof. exact response_crc_enforced_spec. Qed.
Print Assumptions C03_response_crc_enforced_spec.

(* shorter than 4 bytes: a plain error (not InvalidCRC, not a panic) *)
Theorem C03_crc_entry_points_short : forall d, (slen d < 4)%nat ->
  parse_rtu_request_crc d = Err EPlain /\ parse_rtu_response_crc d = Err EPlain.
Proof. exact crc_entry_points_short. Qed.
Print Assumptions C03_crc_entry_points_short.

(* AsRTUErrorPacketWithCRC: recognises only CRC-correct 5-byte frames, and then sees exactly what
   AsRTUErrorPacket sees; everything else is "not an exception packet" *)
Theorem C03_as_rtu_error_crc : forall d,
  bytes_ok (vis d) ->
  (slen d <> 5%nat -> as_rtu_error_crc d = Ok None) /\
  (slen d = 5%nat -> frame_trailer d <> crc_trailer (frame_front d) -> as_rtu_error_crc d = Ok None) /\
  (slen d = 5%nat -> frame_trailer d = crc_trailer (frame_front d) -> as_rtu_error_crc d = as_rtu_error d).
Proof. exact as_rtu_error_crc_cases. Qed.
Print Assumptions C03_as_rtu_error_crc.

Theorem C03_as_rtu_error_crc_sound : forall d x,
  bytes_ok (vis d) -> as_rtu_error_crc d = Ok (Some x) ->
  slen d = 5%nat /\ frame_trailer d = crc_trailer (frame_front d) /\ as_rtu_error d = Ok (Some x).
Proof. exact as_rtu_error_crc_sound. Qed.
Print Assumptions C03_as_rtu_error_crc_sound.

Theorem C03_as_rtu_error_crc_no_panic : forall d, bytes_ok (vis d) -> as_rtu_error_crc d <> Panic.
Proof. exact as_rtu_error_crc_no_panic. Qed.
Print Assumptions C03_as_rtu_error_crc_no_panic.

(* non-vacuity: the documented FC3 frames; one flipped trailer bit is refused, the exception frame
   01 82 03 with its CRC is recognised, with a wrong CRC it is not (while AsRTUErrorPacket does) *)
Example C03_doc_request_accepted :
  parse_rtu_request_crc (exact [0x01; 0x03; 0x00; 0x6B; 0x00; 0x01; 0xf5; 0xd6]) = Ok (RRead 3 1 0x6B 1).
Proof. vm_compute. reflexivity. Qed.
Example C03_bad_trailer_refused :
  parse_rtu_request_crc (exact [0x01; 0x03; 0x00; 0x6B; 0x00; 0x01; 0xf5; 0xd7]) = Err EInvalidCRC.
Proof. vm_compute. reflexivity. Qed.
Example C03_doc_response_accepted :
  parse_rtu_response_crc (exact [0x01; 0x04; 0x02; 0xFF; 0xFF; 0xB8; 0x80]) = Ok (PBytes 4 1 2 [0xFF; 0xFF]).
Proof. vm_compute. reflexivity. Qed.
Example C03_exception_frame : exc_bytes_rtu 1 2 3 = [0x01; 0x82; 0x03; 0x00; 0xA1].
Proof. vm_compute. reflexivity. Qed.
Example C03_exception_recognised :
  as_rtu_error_crc (exact [0x01; 0x82; 0x03; 0x00; 0xA1]) = Ok (Some (1, 2, 3)) /\
  as_rtu_error_crc (exact [0x01; 0x82; 0x03; 0x00; 0xA0]) = Ok None /\
  as_rtu_error (exact [0x01; 0x82; 0x03; 0x00; 0xA0]) = Ok (Some (1, 2, 3)).
Proof. vm_compute. repeat split; reflexivity. Qed.
Example C03_fields_ok_nonvacuous :
  req_fields_ok (RRW 1 2 3 4 1 [0; 200]) /\ resp_fields_ok (PSrvId 1 255 [65; 66] [1]).
Proof. cbn. repeat split; try lia; repeat constructor; lia. Qed.
