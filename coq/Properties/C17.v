(* C17 -- server life cycle: safe with any callbacks, exact accounting, graceful shutdown.

   Statements over the labelled transition system of server/server.go (LifecycleModel.v), for every
   callback configuration [k] (all 16), every number of connections and every interleaving
   ([reach GuardNow k s] = s is reachable from the initial state by ANY sequence of steps of the code
   as it is now, i.e. after the fix: commits 7acbe3f e8510bb 26d02fd f337e9e fb6684d c43a822 ac00631
   17ec04c).  The behaviours before those commits are kept as variants of the same step function
   ([GuardOld LoadOld TrackOld DropOld NilOld]); the comparison theorems at the end show that each
   invariant fails for its variant, so none of them is vacuous.  The tie to /repo is the trace
   validation of DispLifecycle.v; the lock discipline of server.go is the regenerated obligation in
   Properties/C17_Skeleton.v. *)
Require Import MB.LifecycleModel MB.proofs.LifecycleProofs.
From Coq Require Import List ZArith.
Import ListNotations.

(* (a) no step ever calls a callback that is not set: the process never crashes on a nil function;
   and Shutdown never dereferences a nil listener, whenever it is called *)
Theorem C17_no_nil_callback :
  forall k s, reach GuardNow k s -> crashed s = false.
Proof. exact never_crashes. Qed.
Print Assumptions C17_no_nil_callback.
(* the error callback: the connection goroutine and serve (reject path, drop paths) report errors through
   the local onErrorFunc, which is the user's OnErrorFunc if set and the logging default otherwise --
   never nil.  C17_no_nil_callback covers these steps (LErrCb, LServeErrCb) like every other; a Close()
   that fails on the reject path with OnErrorFunc unset is harmless, whereas the same code calling the
   raw field s.OnErrorFunc crashes the process (comparison variant RawErr). *)
Theorem C17_serve_error_callback_safe :
  forall k s c s', step GuardNow k s (LServeErrCb c) = Some s' -> crashed s' = false.
Proof. exact serve_err_cb_safe. Qed.
Print Assumptions C17_serve_error_callback_safe.
Theorem C17_raw_error_field_refuted :
  exists s, reach RawErr cfg_accept_only s /\ crashed s = true.
Proof. exact raw_error_field_crashes. Qed.
Print Assumptions C17_raw_error_field_refuted.
Example C17_reject_close_error_run :
  exists s x, run GuardNow cfg_accept_only init reject_close_error_run = Some s /\ crashed s = false /\ sp s = SLoop /\
              get s 0 = Some x /\ ph x = PRejected /\ sock x = false /\ close_cb x = 0 /\ errs s = 0.
Proof. exact now_reject_close_error_ok. Qed.

Theorem C17_shutdown_never_panics :
  forall k s, reach GuardNow k s -> sd s <> SdReturned EPanic.
Proof. intros k s. exact (no_shutdown_panic GuardNow k s eq_refl). Qed.
Print Assumptions C17_shutdown_never_panics.

(* (b) activeConnectionCount = number of live connections, where live = trackConn(c,true) done and
   trackConn(c,false) not yet done -- including connections Shutdown has already deleted from the map
   and closed but whose goroutine has not untracked yet *)
Theorem C17_counter_is_live_count :
  forall k s, reach GuardNow k s -> count s = live_count (conns s).
Proof. exact counter_exact. Qed.
Print Assumptions C17_counter_is_live_count.

(* ... and the accept callback is given that number + 1 *)
Theorem C17_accept_callback_count :
  forall k s c x n, reach GuardNow k s -> get s c = Some x -> acc_arg x = Some n -> n = (live_at_cb x + 1)%Z.
Proof. exact accept_arg_exact. Qed.
Print Assumptions C17_accept_callback_count.
Theorem C17_accept_callback_count_step :
  forall v k s c n ok s', step v k s (LAcceptCb c n ok) = Some s' ->
  exists x', get s' c = Some x' /\ acc_arg x' = Some n /\ live_at_cb x' = live_count (conns s) /\ n = (count s + 1)%Z.
Proof. exact accept_cb_records_live. Qed.
Print Assumptions C17_accept_callback_count_step.

(* (c) a rejected connection is closed, is not in the map, gets no close callback -- and is never tracked *)
Theorem C17_rejected_is_closed :
  forall k s c x, reach GuardNow k s -> get s c = Some x -> ph x = PRejected ->
  sock x = false /\ inmap x = false /\ close_cb x = 0.
Proof. exact rejected_closed. Qed.
Print Assumptions C17_rejected_is_closed.
Theorem C17_rejected_never_tracked :
  forall k s l s' c x, reach GuardNow k s -> step GuardNow k s l = Some s' -> get s c = Some x -> ph x = PRejected ->
  exists x', get s' c = Some x' /\ ph x' = PRejected.
Proof. exact rejected_stays. Qed.
Print Assumptions C17_rejected_never_tracked.

(* (d) the close callback, over all three call sites (the connection goroutine's deferred function, the
   select on ctx.Done() after the accept stage, the refusal by trackConn after Shutdown): when a
   connection that was let through is finished -- served and done, or dropped by serve -- the callback
   has run exactly once iff it is set; before that, and for rejected connections, not at all; never
   twice *)
Theorem C17_close_callback_exactly_once :
  forall k s c x, reach GuardNow k s -> get s c = Some x ->
  close_cb x = match ph x with PDone | PDropped => if on_close k then 1 else 0 | _ => 0 end.
Proof. exact close_cb_exact. Qed.
Print Assumptions C17_close_callback_exactly_once.
(* ... and no accepted connection is left behind: while it is in the accepted stage serve is working
   on it, serve has not returned, and (C17_serve_progress) serve always has a next step *)
Theorem C17_accepted_never_abandoned :
  forall k s c x, reach GuardNow k s -> get s c = Some x -> ph x = PAccepted ->
  sp_conn (sp s) = Some c /\ returned (sp s) = false.
Proof. exact accepted_is_in_serves_hands. Qed.
Print Assumptions C17_accepted_never_abandoned.
Theorem C17_dropped_is_closed :
  forall k s c x, reach GuardNow k s -> get s c = Some x -> ph x = PDropped ->
  sock x = false /\ inmap x = false /\ close_cb x = (if on_close k then 1 else 0).
Proof. exact dropped_closed. Qed.
Print Assumptions C17_dropped_is_closed.

(* a connection accepted while the context is cancelled: serve closes it, runs the close callback
   (iff set) and returns ErrServerClosed -- these four steps are enabled one after the other *)
Theorem C17_accept_then_cancel_closed :
  forall k s c, reach GuardNow k s -> sp s = SPassed c -> cancelled s = true ->
  exists s' x', run GuardNow k s [LCtxDone c; LDropClose c; LDropCb c; LServeReturn EClosed] = Some s' /\
    sp s' = SReturned EClosed /\ get s' c = Some x' /\ ph x' = PDropped /\ sock x' = false /\
    close_cb x' = (if on_close k then 1 else 0) /\
    step GuardNow k s (LCtxPass c) = None.
Proof. exact cancel_drops_accepted. Qed.
Print Assumptions C17_accept_then_cancel_closed.

(* (e) graceful shutdown, FULL statement.  Once Shutdown has returned nil (and for as long as that is
   its last result): the flag is set and the mutex free; the listener is closed as soon as serve is in
   its loop (if serve had not started yet it will not accept at all); Accept never succeeds again; serve
   has returned / can only return ErrServerClosed; the map is empty and EVERY live connection's socket
   has been closed -- no connection survives, whenever it was accepted. *)
Theorem C17_shutdown_returned_nil :
  forall k s, reach GuardNow k s -> sd s = SdReturned ENil ->
  shut s = true /\ mu s = false /\ (in_loop (sp s) = true -> lis_open s = false) /\
  (forall e, sp s = SReturned e -> e = EClosed) /\
  (forall c s', step GuardNow k s (LAccept c) = Some s' -> False) /\
  (forall e s', step GuardNow k s (LServeReturn e) = Some s' -> e = EClosed) /\
  (forall c x, get s c = Some x -> inmap x = false /\ (is_live (ph x) = true -> sock x = false)).
Proof. exact good_shutdown. Qed.
Print Assumptions C17_shutdown_returned_nil.

(* ... and this does not depend on which call of Shutdown it is, nor on its result being nil rather than the
   error of closing an already closed listener (a retry after a call that gave up on its context):
   whenever Shutdown has returned from a pass that found everything idle, no connection is in the map,
   none is inside an exchange, none owes a reply, every live connection's socket is closed *)
Theorem C17_no_exchange_after_graceful_return :
  forall k s c x, reach GuardNow k s -> sd s = SdReturned ENil \/ sd s = SdReturned EOther -> get s c = Some x ->
  handling_ph (ph x) = false /\ owed x = [] /\ inmap x = false /\ (is_live (ph x) = true -> sock x = false).
Proof. exact no_exchange_after_return. Qed.
Print Assumptions C17_no_exchange_after_graceful_return.
Example C17_repeated_shutdown :
  exists s1, run GuardNow cfg_none init repeated_shutdown_prefix = Some s1 /\
    step GuardNow cfg_none s1 LSdReturn = None /\ step GuardNow cfg_none s1 (LSdClose 0) = None /\
    exists s2 x, run GuardNow cfg_none s1 repeated_shutdown_rest = Some s2 /\ sd s2 = SdReturned EOther /\
      get s2 0 = Some x /\ replied x = 1 /\ owed x = [] /\ sock x = false /\ sd_via x = ViaCas.
Proof. exact repeated_shutdown_example. Qed.

(* replies, in EVERY reachable state and for ALL of Shutdown's paths: no reply is ever lost to a close
   by the server ([lost] counts writes of owed replies that failed on a socket the server side had
   closed); a socket the server side has closed owes no reply; whatever Shutdown closed (sd_via set:
   after its successful compare-and-swap, or after finding the goroutine gone) is outside an exchange
   and owes nothing: every request whose handler had started got its complete reply before the
   connection was closed.  [owed] = requests whose handler started and whose reply is still due (a
   handler that panicked, or a write that failed on the peer's side, ends the debt). *)
Theorem C17_shutdown_replies_complete :
  forall k s c x, reach GuardNow k s -> get s c = Some x ->
  lost x = 0 /\
  (sock x = false -> owed x = []) /\
  (sd_via x <> ViaNone -> cst x = CClosed /\ owed x = [] /\ handling_ph (ph x) = false) /\
  (cst x = CIdle -> owed x = []) /\ (handling_ph (ph x) = true -> cst x = CHandling) /\ (owed x <> [] -> cst x = CHandling).
Proof. exact replies_complete. Qed.
Print Assumptions C17_shutdown_replies_complete.
Theorem C17_shutdown_cas_hits_idle_only :
  forall k s c s' t a, reach GuardNow k s -> step GuardNow k s (LSdCas c) = Some s' -> sd s' = SdClosing c t a ->
  exists x, get s c = Some x /\ cst x = CIdle /\ owed x = [] /\ handling_ph (ph x) = false.
Proof. exact shutdown_cas_hits_idle_only. Qed.
Print Assumptions C17_shutdown_cas_hits_idle_only.
Theorem C17_shutdown_load_closes_ended_only :
  forall k s c s' t a, step GuardNow k s (LSdLoad c) = Some s' -> sd s' = SdClosing c t a ->
  exists x, get s c = Some x /\ cst x = CClosed.
Proof. exact shutdown_load_closes_ended_only. Qed.
Print Assumptions C17_shutdown_load_closes_ended_only.

(* a connection accepted before Shutdown but reaching trackConn after it is refused, closed by serve
   and reported to the close callback (iff set); the counter is not touched *)
Theorem C17_late_connection_not_served :
  forall k s c, reach GuardNow k s -> sp s = STrack c -> shut s = true -> mu s = false ->
  exists s' x', run GuardNow k s [LTrack c; LDropClose c; LDropCb c] = Some s' /\
    sp s' = SLoop /\ get s' c = Some x' /\ ph x' = PDropped /\ sock x' = false /\ inmap x' = false /\
    close_cb x' = (if on_close k then 1 else 0) /\ count s' = count s.
Proof. exact shutdown_drops_untracked. Qed.
Print Assumptions C17_late_connection_not_served.

(* Shutdown before serve: serve finds the flag when it publishes its listener and can then only
   return ErrServerClosed (no Accept, no callback) *)
Theorem C17_serve_after_shutdown :
  forall k s s', shut s = true -> step GuardNow k s LPublish = Some s' ->
  sp s' = SLeaving false /\
  (forall l s'', is_serve l = true -> step GuardNow k s' l = Some s'' -> l = LServeReturn EClosed).
Proof. exact publish_after_shutdown. Qed.
Print Assumptions C17_serve_after_shutdown.
Theorem C17_shutdown_before_serve_run :
  forall k, exists s, run GuardNow k init [LSdCall; LSdBegin; LSdReturn; LServeCb; LPublish; LServeReturn EClosed] = Some s /\
    sd s = SdReturned ENil /\ sp s = SReturned EClosed /\ crashed s = false /\ lis_open s = false /\ conns s = [].
Proof. exact now_shutdown_before_serve_ok. Qed.
Print Assumptions C17_shutdown_before_serve_run.

(* (f) cancel.  Cancelling enables the AfterFunc goroutine's step that closes the listener (and it
   stays enabled until taken); once the listener is closed serve takes at most 8 more steps in ANY
   continuation (the longest: accept callback, select, trackConn refusing, failing close, error callback,
   close callback, Accept failing, return), has a next step whenever Shutdown does not hold the mutex, and a ServeReturn step
   after a cancel (or shutdown) can only carry ErrServerClosed. *)
Theorem C17_cancel_closes_listener :
  forall v k s, crashed s = false -> cancelled s = true -> published (sp s) = true -> returned (sp s) = false ->
  lis_open s = true -> step v k s LAfterClose = Some (s_lis_open false s).
Proof. exact cancel_enables_close. Qed.
Print Assumptions C17_cancel_closes_listener.
(* (counted within one call of serve: for continuations without LReServe) *)
Theorem C17_serve_bounded_after_close :
  forall v k ls s s', v_raw_err v = false -> ~ In LReServe ls -> lis_open s = false -> run v k s ls = Some s' ->
  count_serve ls + serve_left (sp s') <= serve_left (sp s) /\ count_serve ls <= 8 /\ lis_open s' = false.
Proof.
  intros v k ls s s' Hv Hn Hl H. destruct (serve_bounded v k Hv ls s s' Hn Hl H) as [A B].
  split; [exact A|]. split; [exact (serve_bounded_8 v k ls s s' Hv Hn Hl H)|exact B].
Qed.
Print Assumptions C17_serve_bounded_after_close.
Theorem C17_serve_progress :
  forall k s, reach GuardNow k s -> lis_open s = false -> shut s = true \/ cancelled s = true ->
  returned (sp s) = false -> mu s = false ->
  exists l s', is_serve l = true /\ step GuardNow k s l = Some s'.
Proof. exact serve_progress. Qed.
Print Assumptions C17_serve_progress.
Theorem C17_serve_returns_closed :
  forall v k s e s', shut s = true \/ cancelled s = true -> step v k s (LServeReturn e) = Some s' -> e = EClosed.
Proof. exact serve_return_closed. Qed.
Print Assumptions C17_serve_returns_closed.

(* graceful shutdown makes progress.  From every reachable state in which Shutdown is in progress and no
   connection is in state `handling` (no handler running, no exchange in progress), Shutdown returns --
   nil, unless closing its listener had failed -- by its OWN steps alone ([is_sd]): no step of any other
   goroutine is needed, in particular none that needs the mutex Shutdown holds.  And a connection whose
   exchange ended abnormally while Shutdown polls (handler panicked, reply write failed) leaves state
   `handling` by at most two steps of its own goroutine (report the error, handle()'s deferred
   Store(closed)), neither of which needs the mutex and which change nothing else: so Shutdown cannot be
   made to sit until its context expires by a connection that has ended.  The trace validation rejects
   a log in which a Shutdown with a generous context returns the context's error. *)
Theorem C17_shutdown_progress :
  forall k s, reach GuardNow k s -> sd_busy (sd s) = true -> quiet s ->
  exists ls s', run GuardNow k s ls = Some s' /\ forallb is_sd ls = true /\
                sd s' = SdReturned (if sd_err s then EOther else ENil) /\ mu s' = false.
Proof. exact shutdown_progress. Qed.
Print Assumptions C17_shutdown_progress.
Theorem C17_ended_exchange_needs_no_mutex :
  forall k s c x, reach GuardNow k s -> get s c = Some x -> cst x = CHandling -> handling_ph (ph x) = false ->
  exists ls s' x', run GuardNow k s ls = Some s' /\ Forall (fun l => l = LErrCb c \/ l = LConnLeave c) ls /\
                   get s' c = Some x' /\ cst x' = CClosed /\ sd s' = sd s /\ mu s' = mu s /\
                   (forall d, d <> c -> get s' d = get s d).
Proof. exact ended_exchange_leaves_handling. Qed.
Print Assumptions C17_ended_exchange_needs_no_mutex.

(* serving the SAME Server value again (LReServe: after a serve that was ended by cancelling its context
   has returned, and not after Shutdown) is a step of the LTS: every theorem of this file is about runs
   that may contain it, and none of the invariants says which call of serve accepted a connection.  The
   step keeps the tracked set, the counter and every connection, so Shutdown still reaches the connections
   of the earlier call (C17_shutdown_returned_nil, C17_shutdown_replies_complete,
   C17_no_exchange_after_graceful_return apply as they stand). *)
Theorem C17_reserve_keeps_tracked_connections :
  forall k s s', step GuardNow k s LReServe = Some s' ->
  conns s' = conns s /\ count s' = count s /\ sd s' = sd s /\ shut s' = false /\ mu s' = mu s /\
  sp s' = SStart /\ lis_open s' = true /\ cancelled s' = false /\ upto s' = length (conns s).
Proof. exact reserve_keeps_tracked. Qed.
Print Assumptions C17_reserve_keeps_tracked_connections.
(* comparison: serve() allocating Server.activeConnections afresh on every call (variant MapReset) --
   Shutdown returns nil at once while a started handler has no reply and the old connection stays open *)
Theorem C17_map_reset_refuted :
  exists s x, reach MapReset cfg_none s /\ sd s = SdReturned ENil /\ get s 0 = Some x /\
              ph x = PInHandler /\ owed x = [0] /\ replied x = 0 /\ sock x = true /\ inmap x = false /\ count s = 1%Z.
Proof. exact map_reset_loses_connections. Qed.
Print Assumptions C17_map_reset_refuted.
Example C17_reserve_shutdown_waits :
  exists s1, run GuardNow cfg_none init reserve_prefix = Some s1 /\
    step GuardNow cfg_none s1 LSdReturn = None /\
    exists s2 x, run GuardNow cfg_none s1
                   [LSdCas 0; LSdLoad 0; LSdPassEnd; LHandlerEnd 0 true; LReplyWrite 0 true; LHandleEnd 0; LConnCtxExit 0;
                    LConnLeave 0; LSdRetry; LSdCas 0; LSdLoad 0; LSdClose 0; LSdReturn] = Some s2 /\
      sd s2 = SdReturned ENil /\ get s2 0 = Some x /\ replied x = 1 /\ owed x = [] /\ sock x = false /\ inmap x = false.
Proof. exact now_reserve_shutdown_waits. Qed.

(* orderings the accounting and the graceful shutdown rest on (and which the trace validation
   therefore enforces on the real server): trackConn(c,true) precedes the next Accept; the state atom
   stays `handling` until the reply is written (Store(idle) after Write) -- part of
   C17_shutdown_replies_complete *)
Theorem C17_track_before_next_accept :
  forall v k s c s', reach v k s -> step v k s (LAccept c) = Some s' ->
  forall d x, get s d = Some x -> ph x <> PAccepted.
Proof. exact accept_after_track. Qed.
Print Assumptions C17_track_before_next_accept.

(* ---- the invariants are not vacuous: the code before each fix violates the corresponding one ---- *)
(* before 7acbe3f (OnAcceptConnFunc guarding the call of OnCloseConnFunc): (a) and (d) fail *)
Theorem C17_callback_guard_refuted :
  (exists s, reach GuardOld cfg_accept_only s /\ crashed s = true) /\
  (exists s x, reach GuardOld cfg_close_only s /\ get s 0 = Some x /\ ph x = PDone /\ close_cb x = 0).
Proof. split; [exact old_guard_crashes|exact old_guard_skips_close_cb]. Qed.
Print Assumptions C17_callback_guard_refuted.
(* before fb6684d (`Load() == connHandling`): Shutdown returns nil and a started handler's reply is lost;
   the same schedule is not a run of the current step function, its legal continuation loses nothing *)
Theorem C17_old_shutdown_load_race_refuted :
  exists s x, reach LoadOld cfg_none s /\ sd s = SdReturned ENil /\ get s 0 = Some x /\
              lost x = 1 /\ started x = 2 /\ replied x = 1 /\ sd_via x = ViaLoadIdle.
Proof. exact old_load_race_loses_reply. Qed.
Print Assumptions C17_old_shutdown_load_race_refuted.
Theorem C17_shutdown_load_race_closed :
  run GuardNow cfg_none init load_race_run = None /\
  exists s x, run GuardNow cfg_none init load_race_run_now = Some s /\ sd s = SdReturned ENil /\ get s 0 = Some x /\
              lost x = 0 /\ started x = 2 /\ replied x = 2 /\ owed x = [] /\ sd_via x = ViaCas /\ sock x = false.
Proof. exact now_load_race_closed. Qed.
Print Assumptions C17_shutdown_load_race_closed.
(* before c43a822: a connection tracked after Shutdown returned nil is served *)
Theorem C17_old_accept_during_shutdown_refuted :
  exists s x, reach TrackOld cfg_none s /\ sd s = SdReturned ENil /\ get s 0 = Some x /\
              ph x = PIdle /\ sock x = true /\ inmap x = true /\ replied x = 1.
Proof. exact old_late_track_survives_shutdown. Qed.
Print Assumptions C17_old_accept_during_shutdown_refuted.
Theorem C17_accept_during_shutdown_closed :
  run GuardNow cfg_close_only init late_track_run = None /\
  exists s x, run GuardNow cfg_close_only init late_track_run_now = Some s /\ sd s = SdReturned ENil /\
              sp s = SReturned EClosed /\ get s 0 = Some x /\
              ph x = PDropped /\ sock x = false /\ inmap x = false /\ close_cb x = 1 /\ count s = 0%Z.
Proof. exact now_late_track_dropped. Qed.
Print Assumptions C17_accept_during_shutdown_closed.
(* before ac00631: a connection accepted while the context is cancelled is left open and unreported *)
Theorem C17_old_accept_then_cancel_refuted :
  exists s x, reach DropOld cfg_all s /\ sp s = SReturned EClosed /\ get s 0 = Some x /\ ph x = PAccepted /\
              sock x = true /\ close_cb x = 0 /\
              (forall l, label_gor l = GConn 0 -> step DropOld cfg_all s l = None) /\
              (forall l, label_gor l = GServe -> step DropOld cfg_all s l = None).
Proof. exact old_accept_then_cancel_leaks. Qed.
Print Assumptions C17_old_accept_then_cancel_refuted.
Theorem C17_accept_then_cancel_run :
  run GuardNow cfg_all init accept_cancel_run = None /\
  exists s x, run GuardNow cfg_all init accept_cancel_run_now = Some s /\ sp s = SReturned EClosed /\ get s 0 = Some x /\
              ph x = PDropped /\ sock x = false /\ close_cb x = 1 /\ count s = 0%Z.
Proof. exact now_accept_then_cancel_closed. Qed.
Print Assumptions C17_accept_then_cancel_run.
(* before 17ec04c: Shutdown before serve panics *)
Theorem C17_old_shutdown_before_serve_refuted :
  exists s, run NilOld cfg_none init [LSdCall; LSdBegin] = Some s /\ sd s = SdReturned EPanic.
Proof. exact old_shutdown_before_serve_panics. Qed.
Print Assumptions C17_old_shutdown_before_serve_refuted.

(* non-vacuity of (e) and (f) *)
Example C17_happy_run :
  exists s x, run GuardNow cfg_all init happy_run = Some s /\
              sd s = SdReturned ENil /\ get s 0 = Some x /\ sd_via x = ViaCas /\ replied x = 1 /\ owed x = [] /\
              sock x = false /\ acc_arg x = Some 1%Z /\ in_loop (sp s) = true /\
              step GuardNow cfg_all s (LServeReturn EClosed) <> None.
Proof. exact happy_run_example. Qed.
Example C17_cancel_run :
  exists s, run GuardNow cfg_all init [LServeCb; LPublish; LAccept 0; LAcceptCb 0 1 false; LCancel; LAfterClose] = Some s /\
            cancelled s = true /\ lis_open s = false /\
            run GuardNow cfg_all s [LRejectClose 0; LServeReturn EClosed] <> None.
Proof. exact cancel_example. Qed.
Example C17_all_16_configurations : length all_cfgs = 16.
Proof. reflexivity. Qed.
