(* C17 -- server life cycle: safe with any callbacks, exact accounting, graceful shutdown.

   Statements over the labelled transition system of server/server.go (LifecycleModel.v), for every
   callback configuration [k] (all 16), every number of connections and every interleaving
   ([reach GuardNow k s] = s is reachable from the initial state by ANY sequence of steps of the code
   as it is now).  The tie to /repo is the trace validation of DispLifecycle.v; the lock discipline
   of server.go is the regenerated obligation in Properties/C17_Skeleton.v. *)
Require Import MB.LifecycleModel MB.proofs.LifecycleProofs.
From Coq Require Import List ZArith.
Import ListNotations.

(* (a) no step ever calls a callback that is not set: the process never crashes on a nil function *)
Theorem C17_no_nil_callback :
  forall k s, reach GuardNow k s -> crashed s = false.
Proof. exact never_crashes. Qed.
Print Assumptions C17_no_nil_callback.

(* (b) activeConnectionCount = number of live connections, where live = trackConn(c,true) done and
   trackConn(c,false) not yet done -- including connections Shutdown has already deleted from the map
   and closed but whose goroutine has not untracked yet *)
Theorem C17_counter_is_live_count :
  forall k s, reach GuardNow k s -> count s = live_count (conns s).
Proof. exact counter_exact. Qed.
Print Assumptions C17_counter_is_live_count.

(* ... and the accept callback is given that number + 1 *)
Theorem C17_accept_callback_count :
  forall k s c x n, reach GuardNow k s -> get s c = Some x -> acc_arg x = Some n -> n = (live_at_cb x + 1)%Z.
Proof. exact accept_arg_exact. Qed.
Print Assumptions C17_accept_callback_count.
Theorem C17_accept_callback_count_step :
  forall v k s c n ok s', step v k s (LAcceptCb c n ok) = Some s' ->
  exists x', get s' c = Some x' /\ acc_arg x' = Some n /\ live_at_cb x' = live_count (conns s) /\ n = (count s + 1)%Z.
Proof. exact accept_cb_records_live. Qed.
Print Assumptions C17_accept_callback_count_step.

(* (c) a rejected connection is closed, is not in the map, gets no close callback -- and is never tracked *)
Theorem C17_rejected_is_closed :
  forall k s c x, reach GuardNow k s -> get s c = Some x -> ph x = PRejected ->
  sock x = false /\ inmap x = false /\ close_cb x = 0.
Proof. exact rejected_closed. Qed.
Print Assumptions C17_rejected_is_closed.
Theorem C17_rejected_never_tracked :
  forall k s l s' c x, reach GuardNow k s -> step GuardNow k s l = Some s' -> get s c = Some x -> ph x = PRejected ->
  exists x', get s' c = Some x' /\ ph x' = PRejected.
Proof. exact rejected_stays. Qed.
Print Assumptions C17_rejected_never_tracked.

(* (d) when the connection goroutine is done the close callback has run exactly once iff it is set;
   before that, and for rejected or dropped connections, not at all; never twice *)
Theorem C17_close_callback_exactly_once :
  forall k s c x, reach GuardNow k s -> get s c = Some x ->
  close_cb x = match ph x with PDone => if on_close k then 1 else 0 | _ => 0 end.
Proof. exact close_cb_exact. Qed.
Print Assumptions C17_close_callback_exactly_once.

(* (e) graceful shutdown.  At the moment Shutdown returns nil: listener closed, shutdown flag set,
   mutex released, serve (if it has returned) returned ErrServerClosed, the map is empty and every
   live connection's socket has been closed. *)
Theorem C17_shutdown_returns_nil :
  forall k s s', reach GuardNow k s -> step GuardNow k s LSdReturn = Some s' -> sd s' = SdReturned ENil ->
  lis_open s' = false /\ shut s' = true /\ mu s' = false /\
  (forall e, sp s' = SReturned e -> e = EClosed) /\
  (forall c x, get s' c = Some x -> inmap x = false /\ (is_live (ph x) = true -> sock x = false)).
Proof. exact shutdown_return_nil. Qed.
Print Assumptions C17_shutdown_returns_nil.

(* ... and from then on: Accept fails, and the only error serve can return is ErrServerClosed *)
Theorem C17_after_shutdown_serve_closed :
  forall v k s, reach v k s -> (match sd s with SdReturned ENil => True | _ => False end) ->
  lis_open s = false /\ shut s = true /\ (forall e, sp s = SReturned e -> e = EClosed) /\
  (forall c s', step v k s (LAccept c) = Some s' -> False) /\
  (forall e s', step v k s (LServeReturn e) = Some s' -> e = EClosed).
Proof. exact after_good_shutdown. Qed.
Print Assumptions C17_after_shutdown_serve_closed.

(* Full statement wanted for the replies: "if Shutdown returned nil, no connection it closed had a
   started handler whose reply was still owed, and no reply is lost" ([lost x = 0] for every x).
   The code as it is does NOT satisfy it (C17_shutdown_load_race_refuted below).  Proved: a reply can
   only be lost on a connection that Shutdown closed through the fall-through
   `!CAS(idle,closed) && Load() == handling` having loaded `idle`; connections closed by a successful
   CAS owe nothing, those found `closed` had left handle() already. *)
Theorem C17_shutdown_replies_partial :
  forall k s, reach GuardNow k s -> forall c x, get s c = Some x ->
    (lost x <> 0 -> sd_via x = ViaLoadIdle) /\
    (sd_via x = ViaCas -> owed x = [] /\ cst x = CClosed) /\
    (sd_via x = ViaLoadClosed -> cst x = CClosed) /\
    (handling_ph (ph x) = true -> sock x = false -> sd_via x = ViaLoadIdle).
Proof. exact shutdown_no_lost_reply. Qed.
Print Assumptions C17_shutdown_replies_partial.

Theorem C17_shutdown_load_race_refuted :
  exists s x, reach GuardNow cfg_none s /\ sd s = SdReturned ENil /\ get s 0 = Some x /\
              lost x = 1 /\ started x = 2 /\ replied x = 1 /\ sd_via x = ViaLoadIdle.
Proof. exact shutdown_load_race_loses_reply. Qed.
Print Assumptions C17_shutdown_load_race_refuted.

(* "idle connections are closed" holds at the moment of the return (above) but not afterwards: *)
Theorem C17_accept_during_shutdown_refuted :
  exists s x, reach GuardNow cfg_none s /\ sd s = SdReturned ENil /\ get s 0 = Some x /\
              ph x = PIdle /\ sock x = true /\ inmap x = true /\ replied x = 1.
Proof. exact late_track_survives_shutdown. Qed.
Print Assumptions C17_accept_during_shutdown_refuted.

(* "the close callback runs for every accepted connection" fails for a connection accepted while
   the context is cancelled: serve returns and drops it unclosed *)
Theorem C17_accept_then_cancel_refuted :
  exists s x, reach GuardNow cfg_all s /\ sp s = SReturned EClosed /\ get s 0 = Some x /\ ph x = PAccepted /\
              sock x = true /\ close_cb x = 0 /\
              (forall l, label_gor l = GConn 0 -> step GuardNow cfg_all s l = None) /\
              (forall l, label_gor l = GServe -> step GuardNow cfg_all s l = None).
Proof. exact accept_then_cancel_leaks. Qed.
Print Assumptions C17_accept_then_cancel_refuted.

(* Shutdown called before serve has published the listener panics in the caller's goroutine *)
Theorem C17_shutdown_before_serve_refuted :
  exists s, run GuardNow cfg_none init [LSdCall; LSdBegin] = Some s /\ sd s = SdReturned EPanic.
Proof. exact shutdown_before_serve_panics. Qed.
Print Assumptions C17_shutdown_before_serve_refuted.

(* (f) cancel.  Cancelling enables the AfterFunc goroutine's step that closes the listener (and it
   stays enabled until taken); once the listener is closed serve takes at most 4 more steps in ANY
   continuation, has a next step whenever Shutdown does not hold the mutex, and a ServeReturn step
   after a cancel (or shutdown) can only carry ErrServerClosed. *)
Theorem C17_cancel_closes_listener :
  forall v k s, crashed s = false -> cancelled s = true -> published (sp s) = true -> returned (sp s) = false ->
  lis_open s = true -> step v k s LAfterClose = Some (s_lis_open false s).
Proof. exact cancel_enables_close. Qed.
Print Assumptions C17_cancel_closes_listener.
Theorem C17_serve_bounded_after_close :
  forall v k ls s s', lis_open s = false -> run v k s ls = Some s' ->
  count_serve ls + serve_left (sp s') <= serve_left (sp s) /\ count_serve ls <= 4 /\ lis_open s' = false.
Proof.
  intros v k ls s s' Hl H. destruct (serve_bounded v k ls s s' Hl H) as [A B].
  split; [exact A|]. split; [exact (serve_bounded_4 v k ls s s' Hl H)|exact B].
Qed.
Print Assumptions C17_serve_bounded_after_close.
Theorem C17_serve_progress :
  forall k s, reach GuardNow k s -> lis_open s = false -> shut s = true \/ cancelled s = true ->
  returned (sp s) = false -> mu s = false ->
  exists l s', is_serve l = true /\ step GuardNow k s l = Some s'.
Proof. exact serve_progress. Qed.
Print Assumptions C17_serve_progress.
Theorem C17_serve_returns_closed :
  forall v k s e s', shut s = true \/ cancelled s = true -> step v k s (LServeReturn e) = Some s' -> e = EClosed.
Proof. exact serve_return_closed. Qed.
Print Assumptions C17_serve_returns_closed.

(* the invariant is not vacuous: with the guard the code had before fix 7acbe3f (OnAcceptConnFunc
   guarding the call of OnCloseConnFunc) the same step function reaches a crash in the accept-only
   configuration and never calls the callback in the close-only configuration *)
Theorem C17_callback_guard_refuted :
  (exists s, reach GuardOld cfg_accept_only s /\ crashed s = true) /\
  (exists s x, reach GuardOld cfg_close_only s /\ get s 0 = Some x /\ ph x = PDone /\ close_cb x = 0).
Proof. split; [exact old_guard_crashes|exact old_guard_skips_close_cb]. Qed.
Print Assumptions C17_callback_guard_refuted.

(* non-vacuity of (e) and (f) *)
Example C17_happy_run :
  exists s s' x, run GuardNow cfg_all init happy_run = Some s /\ step GuardNow cfg_all s LSdReturn = Some s' /\
                 sd s' = SdReturned ENil /\ get s' 0 = Some x /\ sd_via x = ViaCas /\ replied x = 1 /\ owed x = [] /\
                 sock x = false /\ acc_arg x = Some 1%Z /\
                 step GuardNow cfg_all s' (LServeReturn EClosed) <> None.
Proof. exact happy_run_example. Qed.
Example C17_cancel_run :
  exists s, run GuardNow cfg_all init [LServeCb; LPublish; LAccept 0; LAcceptCb 0 1 false; LCancel; LAfterClose] = Some s /\
            cancelled s = true /\ lis_open s = false /\
            run GuardNow cfg_all s [LRejectClose 0; LServeReturn EClosed] <> None.
Proof. exact cancel_example. Qed.
Example C17_all_16_configurations : length all_cfgs = 16.
Proof. reflexivity. Qed.
