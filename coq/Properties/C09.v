(* C09 -- Legal requests survive encode -> parse unchanged; illegal ones are refused.

   First half.  [round_trips tid r] (proofs/ReqRoundTrip.v) says: for every spare capacity [s] of
   the slice holding the frame,
     - the per-function TCP parser and ParseTCPRequest on  Bytes() of the TCP packet  return
       exactly (tid, r);
     - the per-function RTU parser on  Bytes() of the RTU packet  (with its CRC) and on the same
       frame without the two CRC bytes, ParseRTURequest and ParseRTURequestWithCRC on the frame
       with CRC, all return exactly r;
   hence (C09_reencode) what they return re-encodes to the same bytes.  It is spelled out once in
   C09_survives.  It holds for every request a constructor builds from arguments that are legal
   under Spec.v -- EXCEPT FC1/FC2 with 126..2000 coils: the four FC1/FC2 request parsers (and the
   dispatchers through them) have a limit of 125 (known finding D1).

   Second half.  For EVERY slice [d]: if a request parser or dispatcher returns Ok r, then the
   quantity / count / coil-value fields of r are the frame's own fields and lie within the
   specification's limits ([frame_within_limits], the very function the correspondence check
   uses as verdict; [req_in_limits]); a frame with a field outside the limits gets an error from
   every entry point -- never a decoded request, never a panic.

   Hypotheses [u < 256], [s < 65536], [tid < 65536], [bytes_ok data] are the Go types. *)
Require Import MB.GoSem MB.CrcModel MB.CrcSpec MB.Spec MB.PacketModel MB.DispPacket
  MB.proofs.EncodeProofs MB.proofs.CrcFrameProofs MB.proofs.ReqRoundTrip.
Open Scope N_scope.

(* ================================ first half ================================ *)

(* the general form: any request whose fields are within what the parsers accept ([req_rt_ok]:
   unit/address/byte ranges of the Go types, quantity 1..125, counts 1..1968 / 1..123 / 1..121,
   payload of 1..255 bytes) -- with the conclusion written out *)
Theorem C09_survives : forall tid r, tid < 65536 -> req_rt_ok r ->
  forall s,
    parser_tcp_of r {| vis := req_bytes_tcp tid r; spare := s |} = Ok (tid, r) /\
    parse_tcp_request {| vis := req_bytes_tcp tid r; spare := s |} = Ok (tid, r) /\
    parser_rtu_of r {| vis := req_bytes_rtu r; spare := s |} = Ok r /\
    parser_rtu_of r {| vis := req_body r; spare := s |} = Ok r /\
    parse_rtu_request {| vis := req_bytes_rtu r; spare := s |} = Ok r /\
    parse_rtu_request_crc {| vis := req_bytes_rtu r; spare := s |} = Ok r.
Proof. exact rt_all. Qed.
Print Assumptions C09_survives.

Theorem C09_reencode : forall tid r, round_trips tid r ->
  forall s,
    (forall tid' r', parse_tcp_request {| vis := req_bytes_tcp tid r; spare := s |} = Ok (tid', r') ->
       req_bytes_tcp tid' r' = req_bytes_tcp tid r) /\
    (forall r', parse_rtu_request_crc {| vis := req_bytes_rtu r; spare := s |} = Ok r' ->
       req_bytes_rtu r' = req_bytes_rtu r) /\
    (forall r', parse_rtu_request {| vis := req_bytes_rtu r; spare := s |} = Ok r' ->
       req_bytes_rtu r' = req_bytes_rtu r).
Proof. exact rt_reencode. Qed.
Print Assumptions C09_reencode.

(* ---- per constructor, from specification-legal arguments ---- *)

(* FC1..FC4.  Full statement (FALSE for FC1/FC2 as the code is):
     forall fc u s q tid r, u < 256 -> s < 65536 -> tid < 65536 ->
       new_read fc u s q = Ok r -> legal (SRead fc u s q) = true -> round_trips tid r.            *)
Theorem C09_fc1_fc2_limit_refuted : exists fc u st q tid r,
  u < 256 /\ st < 65536 /\ tid < 65536 /\
  new_read fc u st q = Ok r /\ legal (SRead fc u st q) = true /\ ~ round_trips tid r.
Proof. exact fc1_fc2_limit_refuted. Qed.
Print Assumptions C09_fc1_fc2_limit_refuted.

(* the defective region is all of 126..2000 for FC1 and FC2: legal, constructed, refused *)
Theorem C09_fc1_fc2_limit_region : forall fc u st q tid s,
  fc = 1 \/ fc = 2 -> u < 256 -> tid < 65536 -> st < 65536 -> 126 <= q <= 2000 ->
  legal (SRead fc u st q) = true /\ new_read fc u st q = Ok (RRead fc u st q) /\
  parse_tcp_request {| vis := req_bytes_tcp tid (RRead fc u st q); spare := s |} = Err (err_tcp tid u fc 3) /\
  parse_rtu_request_crc {| vis := req_bytes_rtu (RRead fc u st q); spare := s |} = Err (EParseRTU u fc 3).
Proof. exact fc1_fc2_limit_region. Qed.
Print Assumptions C09_fc1_fc2_limit_region.

(* characterisation: on the encoding of a read request the FC1..FC4 parsers (and the dispatchers)
   accept exactly the quantities 1..125, and answer exception 3 otherwise *)
Theorem C09_read_parsers_accept_exactly_1_125 : forall fc u st q tid s,
  1 <= fc <= 4 -> u < 256 -> tid < 65536 -> st < 65536 -> q < 65536 ->
  let t := {| vis := req_bytes_tcp tid (RRead fc u st q); spare := s |} in
  let w := {| vis := req_bytes_rtu (RRead fc u st q); spare := s |} in
  let b := {| vis := req_body (RRead fc u st q); spare := s |} in
  (1 <= q <= 125 ->
     parse_read_req_tcp fc t = Ok (tid, RRead fc u st q) /\ parse_tcp_request t = Ok (tid, RRead fc u st q) /\
     parse_read_req_rtu fc w = Ok (RRead fc u st q) /\ parse_read_req_rtu fc b = Ok (RRead fc u st q) /\
     parse_rtu_request w = Ok (RRead fc u st q) /\ parse_rtu_request_crc w = Ok (RRead fc u st q)) /\
  (~ (1 <= q <= 125) ->
     parse_read_req_tcp fc t = Err (err_tcp tid u fc 3) /\ parse_tcp_request t = Err (err_tcp tid u fc 3) /\
     parse_read_req_rtu fc w = Err (EParseRTU u fc 3) /\ parse_read_req_rtu fc b = Err (EParseRTU u fc 3) /\
     parse_rtu_request w = Err (EParseRTU u fc 3) /\ parse_rtu_request_crc w = Err (EParseRTU u fc 3)).
Proof. exact read_limit_exact. Qed.
Print Assumptions C09_read_parsers_accept_exactly_1_125.

(* ... and on arbitrary input they never decode a quantity outside 1..125 *)
Theorem C09_read_parsers_decode_only_1_125 : forall fc d,
  (forall tid r, parse_read_req_tcp fc d = Ok (tid, r) ->
     exists u st, r = RRead fc u st (fld d 10) /\ 1 <= fld d 10 <= 125) /\
  (forall r, parse_read_req_rtu fc d = Ok r ->
     exists u st, r = RRead fc u st (fld d 4) /\ 1 <= fld d 4 <= 125).
Proof.
  intros fc d. split.
  - intros tid r H. exact (proj2 (proj2 (read_req_tcp_sound fc d tid r H))).
  - intros r H. exact (proj2 (proj2 (read_req_rtu_sound fc d r H))).
Qed.
Print Assumptions C09_read_parsers_decode_only_1_125.

(* the full statement outside exactly that region *)
Theorem C09_read_partial : forall fc u s q tid r,
  u < 256 -> s < 65536 -> tid < 65536 ->
  new_read fc u s q = Ok r -> legal (SRead fc u s q) = true ->
  q <= 125 -> round_trips tid r.
Proof. exact rt_read_partial. Qed.
Print Assumptions C09_read_partial.

(* FC3 / FC4: the full statement *)
Theorem C09_read_registers : forall fc u s q tid r,
  fc = 3 \/ fc = 4 -> u < 256 -> s < 65536 -> tid < 65536 ->
  new_read fc u s q = Ok r -> legal (SRead fc u s q) = true -> round_trips tid r.
Proof. exact rt_read_registers. Qed.
Print Assumptions C09_read_registers.

(* FC5 *)
Theorem C09_write_single_coil : forall u a st tid r,
  u < 256 -> a < 65536 -> tid < 65536 -> new_wcoil u a st = Ok r -> round_trips tid r.
Proof. exact rt_wcoil. Qed.
Print Assumptions C09_write_single_coil.

(* FC6 *)
Theorem C09_write_single_register : forall u a data tid r,
  u < 256 -> a < 65536 -> bytes_ok data -> tid < 65536 -> new_wreg u a data = Ok r -> round_trips tid r.
Proof. exact rt_wreg. Qed.
Print Assumptions C09_write_single_register.

(* FC15 *)
Theorem C09_write_multiple_coils : forall u s coils tid r,
  u < 256 -> s < 65536 -> tid < 65536 ->
  new_wcoils u s coils = Ok r -> legal (SWCoils u s coils) = true -> round_trips tid r.
Proof. exact rt_wcoils. Qed.
Print Assumptions C09_write_multiple_coils.

(* FC16 (124 registers are accepted by the constructor but are not legal: C01) *)
Theorem C09_write_multiple_registers : forall u s data tid r,
  u < 256 -> s < 65536 -> bytes_ok data -> tid < 65536 ->
  new_wregs u s data = Ok r -> legal (SWRegs u s data) = true -> round_trips tid r.
Proof. exact rt_wregs. Qed.
Print Assumptions C09_write_multiple_registers.

(* FC17 *)
Theorem C09_read_server_id : forall u tid r,
  u < 256 -> tid < 65536 -> new_srvid u = Ok r -> round_trips tid r.
Proof. exact rt_srvid. Qed.
Print Assumptions C09_read_server_id.

(* FC23 *)
Theorem C09_read_write_multiple_registers : forall u rs rq ws data tid r,
  u < 256 -> rs < 65536 -> ws < 65536 -> bytes_ok data -> tid < 65536 ->
  new_rw u rs rq ws data = Ok r -> legal (SRW u rs rq ws data) = true -> round_trips tid r.
Proof. exact rt_rw. Qed.
Print Assumptions C09_read_write_multiple_registers.

(* ================================ second half ================================ *)

(* the judgement on the frame is the function the correspondence check uses as its verdict *)
Theorem C09_frame_limits_is_the_checked_verdict : forall off l,
  frame_within_limits off l = DispPacket.frame_fields_legal off l.
Proof. intros off l. reflexivity. Qed.
Print Assumptions C09_frame_limits_is_the_checked_verdict.

(* the fourteen per-function parsers ([run_req_parser p]; [req_parser_wf]: the FC1..FC4 parsers
   are instantiated with their own function code 1..4) *)
Theorem C09_per_function_within_limits : forall p d r,
  req_parser_wf p -> run_req_parser p d = Ok r ->
  frame_within_limits (pdu_offset p) (vis d) = true /\ req_in_limits r.
Proof. exact per_function_sound. Qed.
Print Assumptions C09_per_function_within_limits.

Theorem C09_per_function_fields_are_the_frames : forall p d r,
  run_req_parser p d = Ok r -> decoded_from_frame (pdu_offset p) d r.
Proof. exact per_function_fields. Qed.
Print Assumptions C09_per_function_fields_are_the_frames.

Theorem C09_per_function_refuses : forall p d, req_parser_wf p ->
  frame_within_limits (pdu_offset p) (vis d) = false -> exists e, run_req_parser p d = Err e.
Proof. exact per_function_refuses. Qed.
Print Assumptions C09_per_function_refuses.

Theorem C09_per_function_no_panic : forall p d, run_req_parser p d <> Panic.
Proof. exact per_function_np. Qed.
Print Assumptions C09_per_function_no_panic.

(* the three dispatchers *)
Theorem C09_tcp_dispatcher_within_limits : forall d tid r, parse_tcp_request d = Ok (tid, r) ->
  frame_within_limits 7 (vis d) = true /\ req_in_limits r.
Proof. exact tcp_dispatcher_sound. Qed.
Print Assumptions C09_tcp_dispatcher_within_limits.

Theorem C09_rtu_dispatcher_within_limits : forall d r, parse_rtu_request d = Ok r ->
  frame_within_limits 1 (vis d) = true /\ req_in_limits r.
Proof. exact rtu_dispatcher_sound. Qed.
Print Assumptions C09_rtu_dispatcher_within_limits.

Theorem C09_rtu_crc_dispatcher_within_limits : forall d r, parse_rtu_request_crc d = Ok r ->
  frame_within_limits 1 (vis d) = true /\ req_in_limits r.
Proof. exact rtu_crc_dispatcher_sound. Qed.
Print Assumptions C09_rtu_crc_dispatcher_within_limits.

Theorem C09_tcp_dispatcher_refuses : forall d,
  frame_within_limits 7 (vis d) = false -> exists e, parse_tcp_request d = Err e.
Proof. exact tcp_dispatcher_refuses. Qed.
Print Assumptions C09_tcp_dispatcher_refuses.

Theorem C09_rtu_dispatchers_refuse : forall d,
  frame_within_limits 1 (vis d) = false ->
  (exists e, parse_rtu_request d = Err e) /\ (exists e, parse_rtu_request_crc d = Err e).
Proof. exact rtu_dispatcher_refuses. Qed.
Print Assumptions C09_rtu_dispatchers_refuse.

Theorem C09_dispatchers_no_panic : forall d,
  parse_tcp_request d <> Panic /\ parse_rtu_request d <> Panic /\ parse_rtu_request_crc d <> Panic.
Proof.
  intros d. split; [apply tcp_dispatcher_np|]. split; [apply rtu_dispatcher_np|apply rtu_crc_dispatcher_np].
Qed.
Print Assumptions C09_dispatchers_no_panic.

(* ================================ non-vacuity ================================ *)
(* requests at the limits satisfy [req_rt_ok] / are produced by constructors from legal arguments *)
Example C09_nonvacuous_limits :
  req_rt_ok (RRead 3 255 65535 125) /\ req_rt_ok (RRead 1 1 0 125) /\
  req_rt_ok (RWCoil 1 65535 true) /\ req_rt_ok (RRW 1 0 125 0 121 (repeat 0 242)).
Proof. cbn [req_rt_ok]. rewrite repeat_length. repeat split; try lia; apply repeat0_ok. Qed.
Example C09_nonvacuous_ctor :
  new_wcoils 1 0 (repeat true 1968) = Ok (RWCoils 1 0 1968 (repeat 255 246)) /\
  legal (SWCoils 1 0 (repeat true 1968)) = true /\
  new_wregs 1 0 (repeat 7 246) = Ok (RWRegs 1 0 123 (repeat 7 246)) /\
  legal (SWRegs 1 0 (repeat 7 246)) = true /\
  new_rw 1 0 124 0 (repeat 7 242) = Ok (RRW 1 0 124 0 121 (repeat 7 242)) /\
  legal (SRW 1 0 124 0 (repeat 7 242)) = true.
Proof. vm_compute. repeat split; reflexivity. Qed.

(* the documented frames parse to the documented requests *)
Example C09_doc_fc3 :
  parse_tcp_request (exact [0x00; 0x01; 0x00; 0x00; 0x00; 0x06; 0x01; 0x03; 0x00; 0x6B; 0x00; 0x01])
    = Ok (1, RRead 3 1 0x6B 1) /\
  parse_rtu_request_crc (exact [0x01; 0x03; 0x00; 0x6B; 0x00; 0x01; 0xf5; 0xd6]) = Ok (RRead 3 1 0x6B 1).
Proof. vm_compute. split; reflexivity. Qed.
Example C09_doc_fc23 :
  parse_tcp_request (exact [0x01; 0x38; 0x00; 0x00; 0x00; 0x0f; 0x11; 0x17; 0x04; 0x10; 0x00; 0x01; 0x01; 0x12;
                            0x00; 0x02; 0x04; 0x00; 0xc8; 0x00; 0x82])
    = Ok (0x0138, RRW 0x11 0x0410 1 0x0112 2 [0x00; 0xc8; 0x00; 0x82]).
Proof. vm_compute. reflexivity. Qed.

(* out-of-limit frames: the premise of the refusal theorems is satisfiable and the refusal is
   the "illegal data value" exception (FC3 with 126 registers; FC5 with value 0x1234; FC16 with
   124 registers; FC1 with 2001 coils) *)
Example C09_out_of_limit_frames :
  frame_within_limits 7 [0; 1; 0; 0; 0; 6; 1; 3; 0; 0; 0; 126] = false /\
  parse_tcp_request (exact [0; 1; 0; 0; 0; 6; 1; 3; 0; 0; 0; 126]) = Err (err_tcp 1 1 3 3) /\
  frame_within_limits 1 [1; 5; 0; 0; 0x12; 0x34] = false /\
  parse_wcoil_req_rtu (exact [1; 5; 0; 0; 0x12; 0x34]) = Err (EParseRTU 1 5 3) /\
  frame_within_limits 1 ([1; 16; 0; 0; 0; 124; 248] ++ repeat 0 248) = false /\
  parse_wregs_req_rtu (exact ([1; 16; 0; 0; 0; 124; 248] ++ repeat 0 248)) = Err (EParseRTU 1 16 3) /\
  frame_within_limits 7 [0; 1; 0; 0; 0; 6; 1; 1; 0; 0; 7; 209] = false /\
  parse_tcp_request (exact [0; 1; 0; 0; 0; 6; 1; 1; 0; 0; 7; 209]) = Err (err_tcp 1 1 1 3).
Proof. vm_compute. repeat split; reflexivity. Qed.
(* the known finding seen from this side: a frame with 126 coils is within the specification's
   limits and is refused all the same *)
Example C09_fc1_126_coils_legal_but_refused :
  frame_within_limits 7 [0; 1; 0; 0; 0; 6; 1; 1; 0; 0; 0; 126] = true /\
  parse_tcp_request (exact [0; 1; 0; 0; 0; 6; 1; 1; 0; 0; 0; 126]) = Err (err_tcp 1 1 1 3).
Proof. vm_compute. split; reflexivity. Qed.
