(* GenPrelude3.v -- vocabulary of gen/RegistersGen.v (registers.go), on top of GenPrelude / GenPrelude2:
   32/64-bit unsigned arithmetic, conversions to the signed types, encoding/binary on 4 and 8 bytes. *)
From Coq Require Import ZifyBool ZifyN ZifyNat.
Require Import MB.GoSem MB.CrcModel MB.PacketModel MB.RegistersSpec MB.RegistersModel MB.GenPrelude MB.GenPrelude2.
Open Scope N_scope.
Ltac Zify.zify_post_hook ::= Z.to_euclidean_division_equations.

Definition u64 (x : N) : N := x mod 18446744073709551616.
Definition add32 (a b : N) : N := u32 (a + b).
Definition sub32 (a b : N) : N := u32 (a + 4294967296 - b mod 4294967296).
Definition mul32 (a b : N) : N := u32 (a * b).
Definition add64 (a b : N) : N := u64 (a + b).
Definition sub64 (a b : N) : N := u64 (a + 18446744073709551616 - b mod 18446744073709551616).
Definition mul64 (a b : N) : N := u64 (a * b).
Definition shl32 (a n : N) : N := u32 (N.shiftl a n).
Definition shl64 (a n : N) : N := u64 (N.shiftl a n).
(* uintN(x) for x of a signed type / int *)
Definition u32_of_Z (x : Z) : N := Z.to_N (x mod 4294967296).
Definition u64_of_Z (x : Z) : N := Z.to_N (x mod 18446744073709551616).
(* intN(x): wrap into [-2^(N-1), 2^(N-1)) *)
Definition sint (bits : Z) (x : Z) : Z :=
  ((x + 2 ^ (bits - 1)) mod 2 ^ bits - 2 ^ (bits - 1))%Z.

(* binary.BigEndian.Uint32(b) ...: Panic if b is too short (the library touches the last byte it
   needs first), else the combination of the first 4 / 8 bytes *)
Definition zbe32 {E} (b : list N) : res E N :=
  match b with b0 :: b1 :: b2 :: b3 :: _ => Ok (((b0 * 256 + b1) * 256 + b2) * 256 + b3) | _ => Panic end.
Definition zle32 {E} (b : list N) : res E N :=
  match b with b0 :: b1 :: b2 :: b3 :: _ => Ok (((b3 * 256 + b2) * 256 + b1) * 256 + b0) | _ => Panic end.
Definition zbe64 {E} (b : list N) : res E N :=
  match b with
  | b0 :: b1 :: b2 :: b3 :: b4 :: b5 :: b6 :: b7 :: _ =>
      Ok (((((((b0 * 256 + b1) * 256 + b2) * 256 + b3) * 256 + b4) * 256 + b5) * 256 + b6) * 256 + b7)
  | _ => Panic end.
Definition zle64 {E} (b : list N) : res E N :=
  match b with
  | b0 :: b1 :: b2 :: b3 :: b4 :: b5 :: b6 :: b7 :: _ =>
      Ok (((((((b7 * 256 + b6) * 256 + b5) * 256 + b4) * 256 + b3) * 256 + b2) * 256 + b1) * 256 + b0)
  | _ => Panic end.

(* strings.Builder: the bytes written so far.  builder.Grow(n) only panics on a negative n;
   fmt.Fprintf(builder, "%c", rune(b)) for a byte b appends the UTF-8 encoding of the code point b *)
Definition zgrow {E} (n : Z) : res E unit := if (n <? 0)%Z then Panic else Ok tt.
Definition utf8_rune (b : N) : list N :=
  if b <? 128 then [b] else [N.lor 192 (N.shiftr b 6); N.lor 128 (N.land b 63)].

(* ---------- vocabulary of the obligations (Properties/Gen_Registers.v) ---------- *)
(* the generated code has ONE error value for errors.New (EPlain); the model names its errors *)
Definition plain (A : Type) (x : rres A) : pres A := map_err (fun _ => EPlain) x.
Arguments plain {A} x.
(* the receiver: its four fields *)
Definition mk (bo st en : N) (d : slice) : registers := {| r_order := bo; r_start := st; r_end := en; r_data := d |}.
(* every byte of the payload (visible and spare) is a byte *)
Definition bytes_slice (d : slice) : Prop := bytes_ok (vis d) /\ bytes_ok (spare d).
